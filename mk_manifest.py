#!/usr/bin/env python3
"""Regenerates MANIFEST.json from props_table.py (kept in one place so they cannot drift)."""
import json, os, sys
sys.path.insert(0, os.path.dirname(os.path.abspath(__file__)))
from props_table import PROPS
ALL = ["C%02d" % i for i in range(1, 20)]
checks = []
for pid in ALL:
    if pid not in PROPS:
        continue
    p = PROPS[pid]
    checks.append({
        "property_id": pid,
        "quick_cmd": "./check %s --tier quick" % pid,
        "thorough_cmd": "./check %s --tier thorough" % pid,
        "evidence_file": "/verif/evidence/%s.json" % pid,
        "replay_cmd_template": "./check %s --replay {path}" % pid,
        "engine": "lean4-proof+correspondence",
        "level_claimed": {"category": "proof", "text": p["level_text"], "design_ref": "§5.%s" % pid},
        "level_note": p["level_note"],
        "technique": p.get("technique", "Lean 4 theorems about a hand-written model + differential correspondence check against the real code"),
    })
na = [{"property_id": pid, "reason": "not claimed yet: its theorems and correspondence families are still being built (all 19 are planned at level proof, DESIGN section 5)"}
      for pid in ALL if pid not in PROPS]
m = {
    "version": 1,
    "setup_cmd": "./setup.sh",
    "hooks": {
        "guard": "desert_verif",
        "enable": "RUSTFLAGS=\"--cfg desert_verif\" (set by ./check and ./setup.sh when building the harness against /repo)",
        "baseline_off_cmd": "cd /repo && cargo test --workspace --no-fail-fast --offline",
        "source_commits": [],
        "add_only": True,
    },
    "engines": [
        {"name": "lean4-proof+correspondence", "path": "/verif/check",
         "serves_properties": [c["property_id"] for c in checks],
         "kind_free_text": "Lean 4 model and theorems (/verif/lean), Rust correspondence harness with a path dependency on /repo (/verif/harness), "
                           "line protocol to the compiled Lean driver; per-property theorem re-check, axiom audit and differential run"},
    ],
    "checks": checks,
    "not_applicable": na,
    "notes": "Every check rebuilds the harness from /repo's working tree. Repairs of genuine defects are the 'fix:' commits in /repo, "
             "recorded in /verif/known_findings.txt.",
}
json.dump(m, open(os.path.join(os.path.dirname(os.path.abspath(__file__)), "MANIFEST.json"), "w"), indent=1)
print("MANIFEST.json: %d checks, %d not_applicable" % (len(checks), len(na)))
