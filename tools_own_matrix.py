#!/usr/bin/env python3
"""Applies each patch of seeded_own/ to /repo, runs ./check C04 (quick), reverts, records which fire."""
import glob, json, os, subprocess, sys, time
V = "/verif"
resfile = os.path.join(V, "seeded_own", "RESULTS.json")
res = json.load(open(resfile)) if os.path.exists(resfile) else {}
for patch in sorted(glob.glob(os.path.join(V, "seeded_own", "*.diff"))):
    name = os.path.basename(patch)[:-5]
    if sys.argv[1:] and name not in sys.argv[1:]:
        continue
    if subprocess.call(["git", "-C", "/repo", "apply", patch]) != 0:
        res[name] = {"error": "patch does not apply"}
        continue
    try:
        t0 = time.time()
        p = subprocess.run(["./check", "C04"], cwd=V, capture_output=True, text=True)
        v = [l[:300] for l in p.stdout.splitlines() if l.startswith("VIOLATION")]
        keep = {k: v for k, v in res.get(name, {}).items() if k in ("ty_family_failures", "leaves_family")}
        res[name] = {**keep, "property": "C04", "check_exit": p.returncode, "n_violation_lines": len(v), "violations": v[:4],
                     "summary": p.stdout.strip().splitlines()[-1][:300] if p.stdout.strip() else "", "wall_s": round(time.time() - t0, 1)}
        print(name, res[name]["check_exit"], res[name]["n_violation_lines"], flush=True)
    finally:
        subprocess.call(["git", "-C", "/repo", "checkout", "--", "."])
    json.dump(res, open(resfile, "w"), indent=1)
