/-
Design appendix for /verif/DESIGN.md §2.1(b) and §10 — NOT part of the verification framework,
not built or referenced by any check. It is the throw-away experiment that decided the
architecture: a decoder written once as an operation tree (`DProg`), interpreted over a
faithful region-stack context (`runCtx`) and over list windows (`runAbs`);

  * `refine`  : for EVERY program, under the context invariant, the faithful run is simulated
                by the abstract run (the region arithmetic is right) — by induction on the tree;
  * `rt`      : frame-style round trip `s.view = enc v ++ t → runAbs (dec ty) s = ok (v, s.adv |enc v|)`
                for a miniature universe (byte, option, counted sequence, pair, and a version-1
                record with a two-entry size header and two chunks read through push/pop).

Checked with `lean OpTreeSketch.lean` (≈ 4 s); `#print axioms`: propext, Classical.choice, Quot.sound
for `refine`; propext, Quot.sound for `rt`. Simplifications relative to the real model: sizes and
counts are single bytes, no string/ref state, no fuel, post-fix region arithmetic.
-/
abbrev Byte := UInt8
abbrev Bytes := List Byte

inductive Outcome (α : Type) where
  | ok (a : α) | err (e : String) | panic (w : String)
deriving Repr

structure Region where
  start : Nat
  pos : Nat
  len : Nat
deriving Repr, DecidableEq

/-- operation tree -/
inductive DProg (α : Type) where
  | ret (a : α)
  | fail (e : String)
  | readU8 (k : Byte → DProg α)
  | readBytes (n : Nat) (k : Bytes → DProg α)
  | skip (n : Nat) (k : Unit → DProg α)
  | pos (k : Nat → DProg α)
  | push (r : Region) (k : Unit → DProg α)
  | pop (k : Region → DProg α)

def DProg.bind : DProg α → (α → DProg β) → DProg β
  | .ret a, f => f a
  | .fail e, _ => .fail e
  | .readU8 k, f => .readU8 fun b => (k b).bind f
  | .readBytes n k, f => .readBytes n fun b => (k b).bind f
  | .skip n k, f => .skip n fun u => (k u).bind f
  | .pos k, f => .pos fun p => (k p).bind f
  | .push r k, f => .push r fun u => (k u).bind f
  | .pop k, f => .pop fun r => (k r).bind f

instance : Monad DProg where
  pure := .ret
  bind := DProg.bind

/-- abstract source: stack of (window, pos) -/
structure Win where
  off : Nat
  window : Bytes
  pos : Nat
deriving Repr

structure AbsSrc where
  cur : Win
  stack : List Win
deriving Repr

def runAbs : DProg α → AbsSrc → Outcome (α × AbsSrc)
  | .ret a, s => .ok (a, s)
  | .fail e, _ => .err e
  | .readU8 k, s =>
    match s.cur.window[s.cur.pos]? with
    | some b => runAbs (k b) { s with cur := { s.cur with pos := s.cur.pos + 1 } }
    | none => .err "eof"
  | .readBytes n k, s =>
    if s.cur.pos + n ≤ s.cur.window.length then
      runAbs (k ((s.cur.window.drop s.cur.pos).take n)) { s with cur := { s.cur with pos := s.cur.pos + n } }
    else .err "eof"
  | .skip n k, s =>
    if s.cur.pos + n ≤ s.cur.window.length then
      runAbs (k ()) { s with cur := { s.cur with pos := s.cur.pos + n } }
    else .err "eof"
  | .pos k, s => runAbs (k s.cur.pos) s
  | .push r k, s =>
    if r.start + r.len ≤ s.cur.window.length ∧ r.pos ≤ r.len then
      runAbs (k ()) { cur := { off := r.start, window := (s.cur.window.drop r.start).take r.len, pos := r.pos }, stack := s.cur :: s.stack }
    else .panic "region escapes window"
  | .pop k, s =>
    match s.stack with
    | [] => .panic "pop on empty"
    | w :: rest => runAbs (k { start := s.cur.off, pos := s.cur.pos, len := s.cur.window.length }) { cur := w, stack := rest }

-- faithful ctx (post-fix arithmetic: end relative)
structure RR where
  start : Nat  -- absolute
  pos : Nat    -- relative
  len : Nat    -- relative end
  delta : Nat
deriving Repr

structure Ctx where
  input : Bytes
  cur : RR
  stack : List RR
deriving Repr

def runCtx : DProg α → Ctx → Outcome (α × Ctx)
  | .ret a, c => .ok (a, c)
  | .fail e, _ => .err e
  | .readU8 k, c =>
    if c.cur.pos = c.cur.len then .err "eof" else
    match c.input[c.cur.start + c.cur.pos]? with
    | some b => runCtx (k b) { c with cur := { c.cur with pos := c.cur.pos + 1 } }
    | none => .panic "index out of bounds"
  | .readBytes n k, c =>
    if c.cur.pos + n > c.cur.len then .err "eof" else
    if c.cur.start + c.cur.pos + n > c.input.length then .panic "slice oob" else
      runCtx (k ((c.input.drop (c.cur.start + c.cur.pos)).take n)) { c with cur := { c.cur with pos := c.cur.pos + n } }
  | .skip n k, c =>
    if c.cur.pos + n > c.cur.len then .err "eof" else
      runCtx (k ()) { c with cur := { c.cur with pos := c.cur.pos + n } }
  | .pos k, c => runCtx (k c.cur.pos) c
  | .push r k, c =>
    runCtx (k ()) { c with cur := { start := c.cur.start + r.start, pos := r.pos, len := r.len, delta := c.cur.start }, stack := c.cur :: c.stack }
  | .pop k, c =>
    match c.stack with
    | [] => .panic "pop on empty"
    | w :: rest => runCtx (k { start := c.cur.start - c.cur.delta, pos := c.cur.pos, len := c.cur.len }) { c with cur := w, stack := rest }

def win (input : Bytes) (r : RR) : Win :=
  { off := r.start - r.delta, window := (input.drop r.start).take r.len, pos := r.pos }

def abs (c : Ctx) : AbsSrc := { cur := win c.input c.cur, stack := c.stack.map (win c.input) }

def RR.ok (input : Bytes) (r : RR) : Prop := r.start + r.len ≤ input.length ∧ r.pos ≤ r.len

def Ctx.Inv (c : Ctx) : Prop := c.cur.ok c.input ∧ ∀ r ∈ c.stack, r.ok c.input

def Sim (input : Bytes) : Outcome (α × Ctx) → Outcome (α × AbsSrc) → Prop
  | .ok (a, c'), .ok (a', s') => a = a' ∧ c'.input = input ∧ c'.Inv ∧ abs c' = s'
  | .err e, .err e' => e = e'
  | _, .panic _ => True
  | _, _ => False

theorem win_len (input : Bytes) (r : RR) (h : r.ok input) : (win input r).window.length = r.len := by
  simp [win, List.length_take, List.length_drop]; have := h.1; omega

theorem take_drop_take (l : Bytes) (a b c d : Nat) (h : c + d ≤ b) :
    (((l.drop a).take b).drop c).take d = (l.drop (a + c)).take d := by
  rw [List.drop_take, List.take_take, List.drop_drop]
  congr 1
  omega

theorem refine (p : DProg α) : ∀ (c : Ctx), c.Inv → Sim c.input (runCtx p c) (runAbs p (abs c)) := by
  induction p with
  | ret a => intro c h; simp [runCtx, runAbs, Sim, h]
  | fail e => intro c h; simp [runCtx, runAbs, Sim]
  | readU8 k ih =>
    intro c h
    obtain ⟨⟨h1, h2⟩, hs⟩ := h
    simp only [runCtx, runAbs]
    by_cases hp : c.cur.pos = c.cur.len
    · simp [hp, abs, win, Sim]
      have : (List.take c.cur.len (List.drop c.cur.start c.input))[c.cur.len]? = none := by
        simp [List.getElem?_take]
      simp [this]
    · have hlt : c.cur.pos < c.cur.len := by omega
      have hidx : c.cur.start + c.cur.pos < c.input.length := by omega
      simp only [hp, if_false]
      have e1 : c.input[c.cur.start + c.cur.pos]? = some c.input[c.cur.start + c.cur.pos] := by simp [hidx]
      have e2 : (abs c).cur.window[(abs c).cur.pos]? = some c.input[c.cur.start + c.cur.pos] := by
        simp [abs, win, hlt, List.getElem?_drop, hidx]
      rw [e1, e2]
      simp only
      have := ih (c.input[c.cur.start + c.cur.pos]) { c with cur := { c.cur with pos := c.cur.pos + 1 } } ⟨⟨h1, by simp; omega⟩, hs⟩
      simpa [abs, win] using this
  | readBytes n k ih =>
    intro c h
    obtain ⟨⟨h1, h2⟩, hs⟩ := h
    have hl := win_len c.input c.cur ⟨h1, h2⟩
    simp only [runCtx, runAbs]
    by_cases hp : c.cur.pos + n > c.cur.len
    · have : ¬ ((abs c).cur.pos + n ≤ (abs c).cur.window.length) := by
        simp only [abs]; rw [hl]; simp [win]; omega
      simp [hp, this, Sim]
    · have h3 : ¬ (c.cur.start + c.cur.pos + n > c.input.length) := by omega
      have : (abs c).cur.pos + n ≤ (abs c).cur.window.length := by
        simp only [abs]; rw [hl]; simp [win]; omega
      simp only [hp, h3, this, if_true, if_false]
      have e : ((abs c).cur.window.drop (abs c).cur.pos).take n = (c.input.drop (c.cur.start + c.cur.pos)).take n := by
        simp only [abs, win]
        exact take_drop_take c.input c.cur.start c.cur.len c.cur.pos n (by omega)
      rw [e]
      have := ih ((c.input.drop (c.cur.start + c.cur.pos)).take n) { c with cur := { c.cur with pos := c.cur.pos + n } } ⟨⟨h1, by simp; omega⟩, hs⟩
      simpa [abs, win] using this
  | skip n k ih =>
    intro c h
    obtain ⟨⟨h1, h2⟩, hs⟩ := h
    have hl := win_len c.input c.cur ⟨h1, h2⟩
    simp only [runCtx, runAbs]
    by_cases hp : c.cur.pos + n > c.cur.len
    · have : ¬ ((abs c).cur.pos + n ≤ (abs c).cur.window.length) := by
        simp only [abs]; rw [hl]; simp [win]; omega
      simp [hp, this, Sim]
    · have : (abs c).cur.pos + n ≤ (abs c).cur.window.length := by
        simp only [abs]; rw [hl]; simp [win]; omega
      simp only [hp, this, if_true, if_false]
      have := ih () { c with cur := { c.cur with pos := c.cur.pos + n } } ⟨⟨h1, by simp; omega⟩, hs⟩
      simpa [abs, win] using this
  | pos k ih => intro c h; simpa [runCtx, runAbs, abs, win] using ih c.cur.pos c h
  | push r k ih =>
    intro c h
    obtain ⟨⟨h1, h2⟩, hs⟩ := h
    have hl := win_len c.input c.cur ⟨h1, h2⟩
    simp only [runCtx, runAbs]
    by_cases hg : r.start + r.len ≤ (abs c).cur.window.length ∧ r.pos ≤ r.len
    · simp only [hg, and_self, if_true]
      have hg1 : r.start + r.len ≤ c.cur.len := by have := hg.1; simp only [abs] at this; rw [hl] at this; exact this
      have hinv : Ctx.Inv { c with cur := { start := c.cur.start + r.start, pos := r.pos, len := r.len, delta := c.cur.start }, stack := c.cur :: c.stack } := by
        refine ⟨⟨by simp; omega, hg.2⟩, ?_⟩
        intro x hx
        simp at hx
        rcases hx with rfl | hx
        · exact ⟨h1, h2⟩
        · exact hs x hx
      have := ih () _ hinv
      have e : (((c.input.drop c.cur.start).take c.cur.len).drop r.start).take r.len = (c.input.drop (c.cur.start + r.start)).take r.len :=
        take_drop_take _ _ _ _ _ hg1
      simpa [abs, win, e] using this
    · simp [hg, Sim]
  | pop k ih =>
    intro c h
    obtain ⟨⟨h1, h2⟩, hs⟩ := h
    have hl := win_len c.input c.cur ⟨h1, h2⟩
    simp only [runCtx, runAbs]
    cases hst : c.stack with
    | nil => simp [abs, hst, Sim]
    | cons w rest =>
      have hw : w.ok c.input := hs w (by simp [hst])
      have hinv : Ctx.Inv { c with cur := w, stack := rest } := ⟨hw, fun x hx => hs x (by simp [hst, hx])⟩
      have := ih { start := c.cur.start - c.cur.delta, pos := c.cur.pos, len := c.cur.len } _ hinv
      simp only [abs, hst, List.map_cons]
      simp only [abs] at this hl
      rw [hl]
      simpa [win] using this

#print axioms refine

/-! ## bind lemma -/
def Outcome.bindO : Outcome (α × σ) → (α → σ → Outcome (β × σ)) → Outcome (β × σ)
  | .ok (a, s), f => f a s
  | .err e, _ => .err e
  | .panic w, _ => .panic w

theorem runAbs_bind (p : DProg α) (f : α → DProg β) : ∀ s, runAbs (p.bind f) s = (runAbs p s).bindO (fun a s' => runAbs (f a) s') := by
  induction p with
  | ret a => intro s; simp [DProg.bind, runAbs, Outcome.bindO]
  | fail e => intro s; simp [DProg.bind, runAbs, Outcome.bindO]
  | readU8 k ih => intro s; simp only [DProg.bind, runAbs]; split <;> simp [ih, Outcome.bindO]
  | readBytes n k ih => intro s; simp only [DProg.bind, runAbs]; split <;> simp [ih, Outcome.bindO]
  | skip n k ih => intro s; simp only [DProg.bind, runAbs]; split <;> simp [ih, Outcome.bindO]
  | pos k ih => intro s; simp only [DProg.bind, runAbs, ih]
  | push r k ih => intro s; simp only [DProg.bind, runAbs]; split <;> simp [ih, Outcome.bindO]
  | pop k ih => intro s; simp only [DProg.bind, runAbs]; split <;> simp [ih, Outcome.bindO]

/-! ## a small type universe -/
inductive Ty where
  | u8 | opt (t : Ty) | seq (t : Ty) | pair (a b : Ty) | rec2 (a b : Ty)   -- rec2: version 1, two chunks, one field each
deriving Repr

inductive Val where
  | byte (b : Byte) | none | some (v : Val) | list (vs : List Val) | pair (a b : Val)
deriving Repr

def readU8 : DProg Byte := .readU8 .ret
def skipN (n : Nat) : DProg Unit := .skip n .ret
def getPos : DProg Nat := .pos .ret
def pushR (r : Region) : DProg Unit := .push r .ret
def popR : DProg Region := .pop .ret

mutual
def enc : Ty → Val → Option Bytes
  | .u8, .byte b => some [b]
  | .opt _, .none => some [0]
  | .opt t, .some v => (enc t v).map (1 :: ·)
  | .seq t, .list vs => if vs.length < 256 then (encList t vs).map (vs.length.toUInt8 :: ·) else none
  | .pair a b, .pair x y => do let ex ← enc a x; let ey ← enc b y; pure (ex ++ ey)
  | .rec2 a b, .pair x y => do
      let ex ← enc a x; let ey ← enc b y
      if ex.length < 256 ∧ ey.length < 256 then pure (1 :: ex.length.toUInt8 :: ey.length.toUInt8 :: (ex ++ ey)) else none
  | _, _ => none
def encList : Ty → List Val → Option Bytes
  | _, [] => some []
  | t, v :: vs => do let e ← enc t v; let es ← encList t vs; pure (e ++ es)
end

def decSeqLoop (d : DProg Val) : Nat → DProg (List Val)
  | 0 => pure []
  | n+1 => do let v ← d; let vs ← decSeqLoop d n; pure (v :: vs)

def dec : Ty → DProg Val
  | .u8 => do let b ← readU8; pure (.byte b)
  | .opt t => do
      let tag ← readU8
      if tag = 0 then pure .none else if tag = 1 then do let v ← dec t; pure (.some v) else .fail "tag"
  | .seq t => do let n ← readU8; let vs ← decSeqLoop (dec t) n.toNat; pure (.list vs)
  | .pair a b => do let x ← dec a; let y ← dec b; pure (.pair x y)
  | .rec2 a b => do
      let ver ← readU8
      if ver ≠ 1 then .fail "version" else
      let s0 ← readU8; let s1 ← readU8
      let p0 ← getPos; skipN s0.toNat
      let p1 ← getPos; skipN s1.toNat
      pushR ⟨p0, 0, s0.toNat⟩; let x ← dec a; let _ ← popR
      pushR ⟨p1, 0, s1.toNat⟩; let y ← dec b; let _ ← popR
      pure (.pair x y)

def AbsSrc.view (s : AbsSrc) : Bytes := s.cur.window.drop s.cur.pos
def AbsSrc.adv (s : AbsSrc) (n : Nat) : AbsSrc := { s with cur := { s.cur with pos := s.cur.pos + n } }


theorem view_cons {s : AbsSrc} {b : Byte} {t : Bytes} (h : s.view = b :: t) :
    s.cur.window[s.cur.pos]? = some b ∧ (s.adv 1).view = t := by
  unfold AbsSrc.view at h
  constructor
  · have := congrArg (·[0]?) h; simpa [List.getElem?_drop] using this
  · simp only [AbsSrc.view, AbsSrc.adv]
    rw [← List.drop_drop, h]; rfl

theorem run_readU8 {s : AbsSrc} {b : Byte} {t : Bytes} (h : s.view = b :: t) :
    runAbs readU8 s = .ok (b, s.adv 1) := by
  simp [readU8, runAbs, (view_cons h).1, AbsSrc.adv]

theorem view_adv (s : AbsSrc) (n : Nat) : (s.adv n).view = s.view.drop n := by
  simp [AbsSrc.view, AbsSrc.adv, List.drop_drop, Nat.add_comm]

theorem adv_adv (s : AbsSrc) (n m : Nat) : (s.adv n).adv m = s.adv (n + m) := by
  simp [AbsSrc.adv, Nat.add_assoc]

theorem view_len (s : AbsSrc) : s.view.length = s.cur.window.length - s.cur.pos := by simp [AbsSrc.view]

theorem run_skip {s : AbsSrc} {n : Nat} (h : n ≤ s.view.length) (hp : s.cur.pos ≤ s.cur.window.length) :
    runAbs (skipN n) s = .ok ((), s.adv n) := by
  have : s.cur.pos + n ≤ s.cur.window.length := by rw [view_len] at h; omega
  simp [skipN, runAbs, this, AbsSrc.adv]

theorem rt (ty : Ty) : ∀ v b, enc ty v = some b → ∀ (s : AbsSrc) t, s.view = b ++ t →
    runAbs (dec ty) s = .ok (v, s.adv b.length) := by
  induction ty with
  | u8 =>
    intro v b he s t hv
    cases v <;> simp [enc] at he
    subst he
    simp only [dec, bind, runAbs_bind, run_readU8 (by simpa using hv), Outcome.bindO, pure, runAbs]
    rfl
  | opt t ih =>
    intro v b he s tl hv
    cases v <;> simp [enc] at he
    · subst he
      simp only [dec, bind, runAbs_bind, run_readU8 (by simpa using hv), Outcome.bindO, pure]
      simp [runAbs]
    · obtain ⟨e, he', rfl⟩ := he
      have h1 := view_cons (by simpa using hv : s.view = 1 :: (e ++ tl))
      simp only [dec, bind, runAbs_bind, run_readU8 (by simpa using hv), Outcome.bindO, pure, runAbs]
      simp only [show ((1:Byte) = 0) = False by decide, if_false, if_true]
      rw [runAbs_bind, ih _ _ he' (s.adv 1) tl h1.2]
      simp [Outcome.bindO, runAbs, adv_adv, Nat.add_comm]
  | pair a b iha ihb =>
    intro v bs he s tl hv
    cases v <;> simp [enc, bind, Option.bind_eq_some_iff, pure] at he
    rename_i x y
    obtain ⟨ex, hx, ey, hy, rfl⟩ := he
    simp only [dec, bind, runAbs_bind]
    rw [iha _ _ hx s (ey ++ tl) (by simpa using hv)]
    simp only [Outcome.bindO, runAbs_bind]
    rw [ihb _ _ hy (s.adv ex.length) tl (by rw [view_adv, hv]; simp)]
    simp [Outcome.bindO, pure, runAbs, adv_adv]
  | seq t ih =>
    intro v bs he s tl hv
    cases v <;> simp [enc] at he
    rename_i vs
    obtain ⟨hlen, es, hes, rfl⟩ := he
    have hloop : ∀ (vs : List Val) (es : Bytes), encList t vs = some es → ∀ (s : AbsSrc) tl, s.view = es ++ tl →
        runAbs (decSeqLoop (dec t) vs.length) s = .ok (vs, s.adv es.length) := by
      intro vs
      induction vs with
      | nil => intro es h s tl hv; simp [encList] at h; subst h; simp [decSeqLoop, pure, runAbs, AbsSrc.adv]
      | cons v vs ihv =>
        intro es h s tl hv
        simp [encList, bind, Option.bind_eq_some_iff, pure] at h
        obtain ⟨e, he, es', hes', rfl⟩ := h
        simp only [decSeqLoop, List.length_cons, bind, runAbs_bind]
        rw [ih _ _ he s (es' ++ tl) (by simpa using hv)]
        simp only [Outcome.bindO, runAbs_bind]
        rw [ihv _ hes' (s.adv e.length) tl (by rw [view_adv, hv]; simp)]
        simp [Outcome.bindO, pure, runAbs, adv_adv]
    have h1 := view_cons (by simpa using hv : s.view = vs.length.toUInt8 :: (es ++ tl))
    simp only [dec, bind, runAbs_bind, run_readU8 (by simpa using hv), Outcome.bindO]
    have hn : vs.length.toUInt8.toNat = vs.length := by simp [Nat.toUInt8, UInt8.toNat_ofNat']; omega
    rw [hn, hloop vs es hes (s.adv 1) tl h1.2]
    simp [Outcome.bindO, pure, runAbs, adv_adv, Nat.add_comm]
  | rec2 a b iha ihb =>
    intro v bs he s tl hv
    cases v <;> simp [enc, bind, Option.bind_eq_some_iff, pure] at he
    rename_i x y
    obtain ⟨ex, hx, ey, hy, ⟨hlx, hly⟩, rfl⟩ := he
    -- header reads
    have hv0 : s.view = 1 :: ex.length.toUInt8 :: ey.length.toUInt8 :: (ex ++ (ey ++ tl)) := by simpa using hv
    have c0 := view_cons hv0
    have c1 := view_cons c0.2
    have c2 := view_cons c1.2
    have hnx : ex.length.toUInt8.toNat = ex.length := by simp [Nat.toUInt8, UInt8.toNat_ofNat']; omega
    have hny : ey.length.toUInt8.toNat = ey.length := by simp [Nat.toUInt8, UInt8.toNat_ofNat']; omega
    simp only [adv_adv] at c1 c2
    have hposle : s.cur.pos + 3 + ex.length + ey.length ≤ s.cur.window.length := by
      have := congrArg List.length hv0
      simp [view_len] at this; omega
    have hw3 : s.cur.window.drop (s.cur.pos + 3) = ex ++ (ey ++ tl) := by
      have := c2.2; simpa [AbsSrc.view, AbsSrc.adv] using this
    simp only [dec, bind, runAbs_bind, run_readU8 hv0, Outcome.bindO]
    rw [if_neg (by decide)]
    simp only [runAbs_bind, run_readU8 c0.2, Outcome.bindO, adv_adv]
    simp only [runAbs_bind, run_readU8 c1.2, Outcome.bindO, adv_adv, hnx, hny]
    simp only [getPos, skipN, pushR, popR, runAbs, runAbs_bind, DProg.bind, Outcome.bindO, AbsSrc.adv]
    have g1 : s.cur.pos + (1 + 1 + 1) + ex.length ≤ s.cur.window.length := by omega
    have g2 : s.cur.pos + (1 + 1 + 1) + ex.length + ey.length ≤ s.cur.window.length := by omega
    simp only [g1, g2, if_true, List.length_take, List.length_drop]
    have m1 : min ex.length (s.cur.window.length - (s.cur.pos + (1 + 1 + 1))) = ex.length := by omega
    have m2 : min ey.length (s.cur.window.length - (s.cur.pos + (1 + 1 + 1) + ex.length)) = ey.length := by omega
    simp only [m1, m2, Nat.le_refl, and_self, and_true, if_true, g1, g2, Nat.zero_le]
    have w1 : (s.cur.window.drop (s.cur.pos + (1+1+1))).take ex.length = ex := by rw [hw3]; simp
    have w2 : (s.cur.window.drop (s.cur.pos + (1+1+1) + ex.length)).take ey.length = ey := by
      rw [← List.drop_drop, hw3]; simp
    rw [w1]
    rw [iha _ _ hx ⟨⟨s.cur.pos + (1+1+1), ex, 0⟩, _⟩ [] (by simp [AbsSrc.view])]
    simp only [Outcome.bindO, AbsSrc.adv, runAbs_bind, runAbs]
    simp only [g2, Nat.le_refl, and_self, and_true, if_true, Nat.zero_le, List.length_take, List.length_drop, m2]
    rw [w2]
    rw [ihb _ _ hy ⟨⟨s.cur.pos + (1+1+1) + ex.length, ey, 0⟩, _⟩ [] (by simp [AbsSrc.view])]
    simp [Outcome.bindO, AbsSrc.adv, runAbs, Nat.add_assoc, pure]
    omega

#print axioms rt
