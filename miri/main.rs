//! Scenarios run under Miri by the `miri` family of C19: every decoding path of the library that is implemented with
//! unsafe code (fixed-size arrays, byte vectors, the reference table), the compressed-frame reader, derived codecs on
//! valid and damaged input, and a contended first use. The program only uses the safe public API; Miri reports any
//! read of uninitialised or freed memory, out-of-bounds access or data race that the library performs on its behalf.
//! (Supporting evidence for the failing-input search; it replaces no theorem.)
use desert::*;
use std::collections::HashSet;

#[derive(Debug, Clone, PartialEq, BinaryCodec)]
#[evolution(FieldAdded("n", 5u16), FieldMadeOptional("c"), FieldRemoved("gone"))]
struct Ev {
    a: u8,
    c: Option<u32>,
    n: u16,
    s: String,
}

#[derive(Debug, Clone, PartialEq, BinaryCodec)]
enum En {
    A,
    B(u8, String),
    C { v: Vec<u16>, arr: [u32; 2] },
}

fn touch(bytes: &[u8]) -> u64 {
    // reading every byte makes Miri check that it is initialised
    bytes.iter().map(|b| *b as u64).sum()
}

fn main() {
    let mut n = 0u32;
    // 1. fixed-size arrays: exact, short, long, wrong count, element failure half way
    let b = serialize_to_byte_vec(&[1u32, 2, 3]).unwrap();
    assert_eq!(deserialize::<[u32; 3]>(&b).unwrap(), [1, 2, 3]);
    for k in 0..b.len() {
        assert!(deserialize::<[u32; 3]>(&b[..k]).is_err());
    }
    assert!(deserialize::<[u32; 2]>(&b).is_err());
    assert!(deserialize::<[u32; 4]>(&b).is_err());
    let sb = serialize_to_byte_vec(&["x".to_string(), "yy".to_string(), "zzz".to_string()]).unwrap();
    assert_eq!(deserialize::<[String; 3]>(&sb).unwrap()[2], "zzz");
    for k in 0..sb.len() {
        assert!(deserialize::<[String; 3]>(&sb[..k]).is_err());
    }
    assert!(deserialize::<[String; 2]>(&sb).is_err());
    assert_eq!(deserialize::<[u8; 0]>(&serialize_to_byte_vec(&[0u8; 0]).unwrap()).unwrap().len(), 0);
    let bb = serialize_to_byte_vec(&[7u8; 40]).unwrap();
    assert_eq!(touch(&deserialize::<[u8; 40]>(&bb).unwrap()), 280);
    assert!(deserialize::<[u8; 4]>(&bb).is_err());
    assert!(deserialize::<[u8; 41]>(&bb).is_err());
    n += 1;
    // 2. byte vectors and strings
    let vb = serialize_to_byte_vec(&vec![9u8; 100]).unwrap();
    assert_eq!(touch(&deserialize::<Vec<u8>>(&vb).unwrap()), 900);
    for k in [0usize, 1, 50, 100] {
        assert!(deserialize::<Vec<u8>>(&vb[..k]).is_err());
    }
    assert!(deserialize::<Vec<u8>>(&[0xff, 0xff, 0xff, 0xff, 0x0f, 1, 2]).is_err());
    assert!(deserialize::<String>(&[0xfe, 0xff, 0xff, 0xff, 0x0f, b'a']).is_err());
    assert!(deserialize::<String>(&[4, 0xff, 0xfe]).is_err());
    n += 1;
    // 3. compressed frames: valid, overstated / understated length, truncated, damaged
    let data: Vec<u8> = (0..300u32).map(|i| (i % 7) as u8).collect();
    let mut f: Vec<u8> = vec![];
    f.write_compressed(&data, flate2::Compression::new(6)).unwrap();
    let mut s = SliceInput::new(&f);
    assert_eq!(s.read_compressed().unwrap(), data);
    for first in [0u8, 1, 5, 100, 0x7f] {
        let mut g = f.clone();
        // the uncompressed length is a two-byte var-int here (300): rewrite it to a one-byte value
        g.splice(0..2, [first]);
        let mut s = SliceInput::new(&g);
        if let Ok(v) = s.read_compressed() {
            touch(&v);
        }
        let mut o = OwnedInput::new(g.clone());
        if let Ok(v) = o.read_compressed() {
            touch(&v);
        }
        let mut c = DeserializationContext::new(&g);
        if let Ok(v) = c.read_compressed() {
            touch(&v);
        }
    }
    for k in 0..f.len() {
        let mut s = SliceInput::new(&f[..k]);
        assert!(s.read_compressed().is_err());
    }
    for i in 2..f.len() {
        let mut g = f.clone();
        g[i] ^= 0x10;
        let mut s = SliceInput::new(&g);
        if let Ok(v) = s.read_compressed() {
            touch(&v);
        }
    }
    n += 1;
    // 4. derived codecs on valid and damaged input
    let ev = Ev { a: 3, c: Some(77), n: 9, s: "hello".to_string() };
    let eb = serialize_to_byte_vec(&ev).unwrap();
    assert_eq!(deserialize::<Ev>(&eb).unwrap(), ev);
    for i in 0..eb.len() {
        for d in [1u8, 0x80, 0xff] {
            let mut g = eb.clone();
            g[i] = g[i].wrapping_add(d);
            let _ = deserialize::<Ev>(&g);
        }
        let _ = deserialize::<Ev>(&eb[..i]);
    }
    for v in [En::A, En::B(1, "b".to_string()), En::C { v: vec![1, 2, 3], arr: [4, 5] }] {
        let b = serialize_to_byte_vec(&v).unwrap();
        assert_eq!(deserialize::<En>(&b).unwrap(), v);
        for i in 0..b.len() {
            let mut g = b.clone();
            g[i] ^= 0x41;
            let _ = deserialize::<En>(&g);
        }
    }
    let _ = deserialize::<En>(&[0, 9]);
    let _ = deserialize::<En>(&[0, 0xff, 0xff, 0xff, 0xff, 0x0f]);
    n += 1;
    // 5. deduplicated strings, sets, options
    let ds = vec![DeduplicatedString("x".into()), DeduplicatedString("y".into()), DeduplicatedString("x".into())];
    let db = serialize_to_byte_vec(&ds).unwrap();
    assert_eq!(deserialize::<Vec<DeduplicatedString>>(&db).unwrap()[2].0, "x");
    let _ = deserialize::<Vec<DeduplicatedString>>(&[4, 2, b'a', 5]);
    let hs: HashSet<String> = ["a".to_string(), "b".to_string()].into_iter().collect();
    let hb = serialize_to_byte_vec(&hs).unwrap();
    assert_eq!(deserialize::<HashSet<String>>(&hb).unwrap(), hs);
    n += 1;
    // 6. the reference table through the public API, with objects that outlive the contexts
    {
        let objs: Vec<Box<u32>> = (0..4).map(|i| Box::new(i * 10)).collect();
        let mut ctx = SerializationContext::new(Vec::<u8>::new());
        for o in objs.iter().chain(objs.iter()) {
            if ctx.store_ref_or_object(&**o).unwrap() {
                ctx.write_u32(**o);
            }
        }
        let bytes = ctx.into_output();
        let mut dctx = DeserializationContext::new(&bytes);
        let mut seen: Vec<u32> = vec![];
        // decoded objects live in boxes that outlive the context (their heap addresses stay put when `store` grows)
        let mut store: Vec<Box<u32>> = vec![];
        for _ in 0..8 {
            match dctx.try_read_ref().unwrap() {
                Some(r) => seen.push(*r.downcast_ref::<u32>().unwrap()),
                None => {
                    let v = dctx.read_u32().unwrap();
                    store.push(Box::new(v));
                    let slot: &u32 = &**store.last().unwrap();
                    dctx.state_mut().store_ref(slot);
                    seen.push(v);
                }
            }
        }
        assert_eq!(seen, vec![0, 10, 20, 30, 0, 10, 20, 30]);
        // an id that was never introduced
        let mut bad = DeserializationContext::new(&[9]);
        assert!(bad.try_read_ref().is_err());
    }
    n += 1;
    // 7. contended first use of a derived type's lazily built metadata
    let hs: Vec<_> = (0..3)
        .map(|i| {
            std::thread::spawn(move || {
                let v = Ev { a: i, c: None, n: 1, s: "t".to_string() };
                let b = serialize_to_byte_vec(&v).unwrap();
                deserialize::<Ev>(&b).unwrap() == v
            })
        })
        .collect();
    for h in hs {
        assert!(h.join().unwrap());
    }
    n += 1;
    println!("MIRI-SCENARIOS-OK {}", n);
}
