import Desert.Props.C05
#print axioms C05.context_never_panics_alone
#print axioms C05.source_ops_total
#print axioms C05.invariant_preserved
#print axioms C05.cursors_in_bounds
#print axioms C05.valid_encodings_never_panic
#print axioms C05.decode_never_panics
#print axioms C05.decode_never_panics_frame
