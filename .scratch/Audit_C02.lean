import Desert.Props.C02
#print axioms C02.derived_roundtrip
#print axioms C02.normalize_stable
#print axioms C02.record_v0_layout
#print axioms C02.record_chunk_layout
#print axioms C02.transient_not_written
#print axioms C02.pointEnv_wf
#print axioms C02.point_roundtrip
#print axioms C02.headerless_wf
