import Desert.Props.C07
#print axioms C07.consumes_exactly
#print axioms C07.sequential
#print axioms C07.consumes_exactly_faithful
