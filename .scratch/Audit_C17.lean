import Desert.Props.C17
#print axioms C17.char_outside_bmp
#print axioms C17.char_in_bmp
#print axioms C17.string_too_long
#print axioms C17.seq_too_long
#print axioms C17.bytes_too_long
#print axioms C17.transient_ctor
#print axioms C17.dangling_made_optional
#print axioms C17.failure_propagates
#print axioms C17.top_level_no_bytes_on_failure
#print axioms C17.int_never_panics
#print axioms C17.encode_never_panics
#print axioms C17.encodeTop_never_panics
#print axioms C17.overflow_needs_full_table
