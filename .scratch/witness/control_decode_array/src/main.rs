#![forbid(unsafe_code)]
#![allow(unused)]
use desert::{BinaryInput, BinaryOutput, DeserializationContext, SerializationContext, SliceInput, OwnedInput};

fn main() {
    let bytes = desert::serialize_to_byte_vec(&([1u8, 2, 3], vec![4u8, 5], [7u32; 2])).unwrap();
    let v: ([u8; 3], Vec<u8>, [u32; 2]) = desert::deserialize(&bytes).unwrap();
    println!("{:?}", v);
}
