#![forbid(unsafe_code)]
#![allow(unused)]
use desert::{BinaryInput, BinaryOutput, DeserializationContext, SerializationContext, SliceInput, OwnedInput};

fn main() {
    let input = [1u8];
    let mut ctx = DeserializationContext::new(&input);
    ctx.state_mut().store_string("a".to_string());
    let s = ctx.state().get_string_by_id(desert::StringId(1)).unwrap();
    ctx.state_mut().store_string("b".to_string());
    println!("{}", s);
}
