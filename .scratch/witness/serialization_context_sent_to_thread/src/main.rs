#![forbid(unsafe_code)]
#![allow(unused)]
use desert::{BinaryInput, BinaryOutput, DeserializationContext, SerializationContext, SliceInput, OwnedInput};

fn main() {
    let shared = std::rc::Rc::new(5u32);
    let mut ctx = SerializationContext::new(Vec::<u8>::new());
    let _ = ctx.store_ref_or_object(&shared);
    std::thread::scope(|s| {
        s.spawn(move || {
            let _ = ctx.store_ref_or_object(&7u32);
        });
    });
}
