#![forbid(unsafe_code)]
#![allow(unused)]
use desert::{BinaryInput, BinaryOutput, DeserializationContext, SerializationContext, SliceInput, OwnedInput};

fn main() {
    let mut ctx = SerializationContext::new(Vec::<u8>::new());
    {
        let a = Box::new(1u64);
        let _ = ctx.store_ref_or_object(&*a);
    }
    let b = Box::new(2u64);
    let fresh = ctx.store_ref_or_object(&*b).unwrap();
    println!("{}", fresh);
}
