#![forbid(unsafe_code)]
#![allow(unused)]
use desert::{BinaryInput, BinaryOutput, DeserializationContext, SerializationContext, SliceInput, OwnedInput};

fn main() {
    let mut s = {
        let data = vec![1u8, 2, 3];
        SliceInput::new(&data)
    };
    println!("{:?}", s.read_u8().ok());
}
