#![forbid(unsafe_code)]
#![allow(unused)]
use desert::{BinaryInput, BinaryOutput, DeserializationContext, SerializationContext, SliceInput, OwnedInput};

fn main() {
    let input = [1u8];
    let mut ctx = DeserializationContext::new(&input);
    {
        let boxed: Box<String> = Box::new("short lived".to_string());
        ctx.state_mut().store_ref(&boxed);
    } // boxed is dropped here
    let filler: Vec<Box<String>> = (0..4).map(|i| Box::new(format!("filler {i}"))).collect();
    let r = ctx.try_read_ref().unwrap().unwrap();
    println!("{:?} {}", r.downcast_ref::<Box<String>>(), filler.len());
}
