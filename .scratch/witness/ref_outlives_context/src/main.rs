#![forbid(unsafe_code)]
#![allow(unused)]
use desert::{BinaryInput, BinaryOutput, DeserializationContext, SerializationContext, SliceInput, OwnedInput};

fn main() {
    let boxed: Box<String> = Box::new("x".to_string());
    let input = [1u8];
    let r = {
        let mut ctx = DeserializationContext::new(&input);
        ctx.state_mut().store_ref(&boxed);
        ctx.try_read_ref().unwrap().unwrap()
    };
    println!("{:?}", r.downcast_ref::<Box<String>>());
}
