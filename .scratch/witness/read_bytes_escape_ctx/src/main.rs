#![forbid(unsafe_code)]
#![allow(unused)]
use desert::{BinaryInput, BinaryOutput, DeserializationContext, SerializationContext, SliceInput, OwnedInput};

fn main() {
    let input = [1u8, 2, 3, 4];
    let mut ctx = DeserializationContext::new(&input);
    let a = ctx.read_bytes(2).unwrap();
    let b = ctx.read_u8().unwrap();
    println!("{:?} {}", a, b);
}
