#![forbid(unsafe_code)]
#![allow(unused)]
use desert::{BinaryInput, BinaryOutput, DeserializationContext, SerializationContext, SliceInput, OwnedInput};

fn main() {
    let a: Box<u32> = Box::new(1);
    let b: Box<u32> = Box::new(2);
    let input = [1u8];
    let mut ctx = DeserializationContext::new(&input);
    ctx.state_mut().store_ref(&a);
    let r = ctx.try_read_ref().unwrap().unwrap();
    ctx.state_mut().store_ref(&b);
    println!("{:?}", r.downcast_ref::<Box<u32>>());
}
