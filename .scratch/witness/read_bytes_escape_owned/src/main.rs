#![forbid(unsafe_code)]
#![allow(unused)]
use desert::{BinaryInput, BinaryOutput, DeserializationContext, SerializationContext, SliceInput, OwnedInput};

fn main() {
    let a: &[u8] = {
        let mut o = OwnedInput::new(vec![1u8, 2, 3, 4]);
        o.read_bytes(2).unwrap()
    };
    println!("{:?}", a);
}
