#![forbid(unsafe_code)]
#![allow(unused)]
use desert::{BinaryInput, BinaryOutput, DeserializationContext, SerializationContext, SliceInput, OwnedInput};

fn main() {
    let input = [1u8];
    let mut ctx = DeserializationContext::new(&input);
    ctx.state_mut().store_ref(&String::from("temporary"));
    let r = ctx.try_read_ref().unwrap().unwrap();
    println!("{:?}", r.downcast_ref::<String>());
}
