#![forbid(unsafe_code)]
#![allow(unused)]
use desert::{BinaryInput, BinaryOutput, DeserializationContext, SerializationContext, SliceInput, OwnedInput};

fn main() {
    let input = [1u8];
    let shared = std::rc::Rc::new(std::cell::RefCell::new(String::from("owned by the main thread")));
    let mut ctx = DeserializationContext::new(&input);
    ctx.state_mut().store_ref(&shared);
    std::thread::scope(|s| {
        s.spawn(move || {
            let r = ctx.try_read_ref().unwrap().unwrap();
            if let Some(rc) = r.downcast_ref::<std::rc::Rc<std::cell::RefCell<String>>>() {
                let other = rc.clone();
                other.borrow_mut().push_str(" touched");
            }
        });
    });
    println!("{}", shared.borrow());
}
