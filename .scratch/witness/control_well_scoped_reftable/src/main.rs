#![forbid(unsafe_code)]
#![allow(unused)]
use desert::{BinaryInput, BinaryOutput, DeserializationContext, SerializationContext, SliceInput, OwnedInput};

fn main() {
    let boxed: Box<String> = Box::new("long lived".to_string());
    let input = [1u8];
    let mut ctx = DeserializationContext::new(&input);
    ctx.state_mut().store_ref(&boxed);
    let r = ctx.try_read_ref().unwrap().unwrap();
    println!("{:?}", r.downcast_ref::<Box<String>>());
}
