#![forbid(unsafe_code)]
#![allow(unused)]
use desert::{BinaryInput, BinaryOutput, DeserializationContext, SerializationContext, SliceInput, OwnedInput};

fn main() {
    let mut ctx = {
        let input = vec![1u8, 2, 3];
        DeserializationContext::new(&input)
    };
    println!("{:?}", ctx.read_u8().ok());
}
