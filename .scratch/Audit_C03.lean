import Desert.Props.C03
#print axioms C03.transient_takes_default
#print axioms C03.added_field_default
#print axioms C03.removed_required_field
#print axioms C03.removed_optional_field
#print axioms C03.made_optional_wraps
#print axioms C03.made_optional_unwraps
#print axioms C03.first_failure_wins
#print axioms C03.evolution_outcome_frame
#print axioms C03.evolution_outcome
#print axioms C03.evolution_outcome_enum
#print axioms C03.hpoint_pairs_aligned
#print axioms C03.hpEnv_wf
#print axioms C03.hpoint_v4_read_by_v3
#print axioms C03.skipped_dedup_breaks_outcome
