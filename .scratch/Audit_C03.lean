import Desert.Props.C03
#print axioms C03.transient_takes_default
#print axioms C03.added_field_default
#print axioms C03.removed_required_field
#print axioms C03.removed_optional_field
#print axioms C03.made_optional_wraps
#print axioms C03.made_optional_unwraps
#print axioms C03.first_failure_wins
