import Desert.Props.C14
#print axioms C14.transient_field_no_bytes
#print axioms C14.transient_values_irrelevant
#print axioms C14.transient_field_default
#print axioms C14.normalize_sets_default
#print axioms C14.transient_ctor_write
#print axioms C14.preNames_covers
#print axioms C14.made_transient_encodable
#print axioms C14.removedNames_transient
