import Desert.Props.C15
#print axioms C15.sinks_agree
#print axioms C15.sink_independent
#print axioms C15.buffer_stack_transparent
#print axioms C15.sources_agree
#print axioms C15.varint_source_independent
