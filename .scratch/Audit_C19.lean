import Desert.Props.C19
#print axioms C19.bytes_from_input_only
#print axioms C19.byte_from_input_only
#print axioms C19.reftable_unsound_as_declared
#print axioms C19.witness_rejected_if_bounded
#print axioms C19.good_program_safe
#print axioms C19.reftable_sound_if_bounded
#print axioms C19.reftable_sound_if_bounded_start
