import Desert.Props.C13
#print axioms C13.ctor_index_decl_order
#print axioms C13.ctor_index_sorted_perm
#print axioms C13.enum_bytes_head
#print axioms C13.enum_out_of_range
#print axioms C13.enum_transient_read
#print axioms C13.enum_transient_write
#print axioms C13.enum_extension
#print axioms C13.insertIdxCtor_mem
#print axioms C13.insertIdxCtor_sorted
#print axioms C13.sorted_ctors_ascending
