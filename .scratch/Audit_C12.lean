import Desert.Props.C12
#print axioms C12.array_bytes_eq_seq
#print axioms C12.seq_layout
#print axioms C12.seq_read_as_array
#print axioms C12.array_wrong_length_rejected
#print axioms C12.unknown_form_equiv
