import Desert.Props.C18
#print axioms C18.inv_init
#print axioms C18.inv_step
#print axioms C18.call_observes_meta
#print axioms C18.schedule_independent
#print axioms C18.fresh_process_independent
#print axioms C18.single_initialiser
#print axioms C18.reencode_same_bytes
