import Desert.Props.C08
#print axioms C08.run_extends_any
#print axioms C08.prefix_rejected
#print axioms C08.empty_rejected
#print axioms C08.prefix_is_error
#print axioms C08.prefix_is_error_faithful
#print axioms C08.cross_prefix_rejected
#print axioms C08.cross_prefix_is_error
#print axioms C08.unknown_form_prefix_rejected
