import Desert.Props.C06
#print axioms C06.decode_honest
#print axioms C06.decode_honest_top
#print axioms C06.errors_agree
#print axioms C06.chunk_confinement
#print axioms C06.decKnown_length
#print axioms C06.array_exact_known
#print axioms C06.decode_honest_total
#print axioms C06.errors_agree_total
