import Desert.Props.C16
#print axioms C16.frame_layout
#print axioms C16.frame_roundtrip
#print axioms C16.frame_truncated
#print axioms C16.frame_alloc_bound
#print axioms C16.frame_never_panics
