import Desert.Props.C01
#print axioms C01.prim_roundtrip
#print axioms C01.builtin_roundtrip_frame
#print axioms C01.builtin_roundtrip
#print axioms C01.builtin_roundtrip_faithful
