import Desert.Props.C09
#print axioms C09.first_occurrence_plain
#print axioms C09.repeat_is_backref
#print axioms C09.known_string_found
#print axioms C09.index_is_first
#print axioms C09.unknown_id_errors
#print axioms C09.dedup_roundtrip
#print axioms C09.tables_stay_equal
#print axioms C09.plain_items_table_free
#print axioms C09.no_repeat_identical
