import Desert.Props.C04
#print axioms C04.format_fixed_width
#print axioms C04.format_bool
#print axioms C04.format_char
#print axioms C04.format_string
#print axioms C04.format_bytes
#print axioms C04.format_option_none
#print axioms C04.format_option_some
#print axioms C04.format_result
#print axioms C04.format_tuple
#print axioms C04.format_seq
#print axioms C04.format_header_steps
#print axioms C04.unknown_form_decodes
