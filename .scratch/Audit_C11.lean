import Desert.Props.C11
#print axioms C11.varU32_roundtrip
#print axioms C11.zigzag_bijective
#print axioms C11.varI32_roundtrip
#print axioms C11.varU32_length
#print axioms C11.varU32_length_bounds
#print axioms C11.varI32_small_short
#print axioms C11.varU32_continuation
#print axioms C11.spec_varU32_roundtrip
#print axioms C11.spec_varI32_roundtrip
#print axioms C11.spec_zigzag_bijective
#print axioms C11.spec_uv_length
#print axioms C11.layers_agree_u32
#print axioms C11.layers_agree_i32
#print axioms C11.layers_agree_read
