#!/bin/bash
# usage: tools_verify_seeded.sh <worktree> <out.json>
# Confirms an agent-produced seeded change: (a) suite green with the change, (b) demo fails with it, (c) demo passes without it.
WT=$1; OUT=$2
export CARGO_TARGET_DIR=/tmp/wt/target_shared CARGO_NET_OFFLINE=true
cd $WT || exit 2
git checkout -q -- . 2>/dev/null
git clean -fdq -e seeded -e target 2>/dev/null
DEMODIR=${3:-desert_macro}; mkdir -p $DEMODIR/tests; cp seeded/demo.rs $DEMODIR/tests/seeded_demo.rs
# (c) without the change
cargo test --offline -p $DEMODIR --test seeded_demo > /tmp/wt/v_c.log 2>&1; C=$?
git apply seeded/patch.diff || { echo '{"error":"patch does not apply"}' > $OUT; exit 1; }
# (b) with the change
cargo test --offline -p $DEMODIR --test seeded_demo > /tmp/wt/v_b.log 2>&1; B=$?
# (a) suite with the change, demo removed
rm $DEMODIR/tests/seeded_demo.rs
cargo test --workspace --no-fail-fast --offline > /tmp/wt/v_a.log 2>&1; A=$?
PASSED=$(grep -E "^test result" /tmp/wt/v_a.log | sed -E 's/.* ([0-9]+) passed.*/\1/' | paste -sd+ | bc)
FAILED=$(grep -E "^test result" /tmp/wt/v_a.log | sed -E 's/.* ([0-9]+) failed.*/\1/' | paste -sd+ | bc)
git checkout -q -- . ; git clean -fdq -e seeded -e target
echo "{\"suite_with_change_exit\":$A,\"suite_passed\":$PASSED,\"suite_failed\":$FAILED,\"demo_with_change_exit\":$B,\"demo_without_change_exit\":$C}" > $OUT
cat $OUT
