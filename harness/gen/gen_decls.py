#!/usr/bin/env python3
"""
Writes harness/src/generated/decls.rs: the catalogue of derived declarations and evolution
histories, each as

  * real Rust source using #[derive(BinaryCodec)] (expanded by /repo's *current* macro when the
    harness is built), and
  * the same declaration as an S-expression for the Lean model (assembled at run time from
    `<FieldType as V>::ty()` and `V::show(&default)`), plus the `V` impl (generator, printer,
    canonicaliser) for the type.

The catalogue is deterministic: a hand-written base that covers every declaration shape and
attribute combination, plus pseudo-random declarations and histories from a fixed internal seed
(DECL_SEED, overridable through the environment for thorough runs).
"""
import os
import random
import sys

HERE = os.path.dirname(os.path.abspath(__file__))
OUT = os.path.join(HERE, "..", "src", "generated", "decls.rs")
DECL_SEED = int(os.environ.get("VERIF_DECL_SEED", "20260928"))
N_RANDOM_DECLS = int(os.environ.get("VERIF_N_DECLS", "24"))
N_HISTORIES = int(os.environ.get("VERIF_N_HIST", "22"))
N_ENUM_HISTORIES = int(os.environ.get("VERIF_N_ENUM_HIST", "8"))

# field types usable in generated declarations: rust type -> list of default expressions
TYPES = {
    "u8": ["0u8", "7u8", "255u8"],
    "i32": ["0i32", "-1i32", "123456i32"],
    "u64": ["0u64", "u64::MAX"],
    "i16": ["-300i16"],
    "bool": ["false", "true"],
    "String": ["String::new()", "\"default string\".to_string()", "\"gone\".to_string()"],
    "char": ["'x'"],
    "f64": ["0.5f64"],
    "()": ["()"],
    "Vec<u8>": ["vec![1u8, 2, 3]", "Vec::new()"],
    "Vec<String>": ["Vec::new()", "vec![\"a\".to_string()]"],
    "Vec<u16>": ["vec![1u16, 300]"],
    "(u8, String)": ["(1u8, \"t\".to_string())"],
    "[u8; 3]": ["[1u8, 2, 3]"],
    "[u16; 2]": ["[1u16, 2]"],
    "std::collections::BTreeMap<String, u32>": ["std::collections::BTreeMap::new()"],
    "std::collections::HashSet<String>": ["std::collections::HashSet::new()"],
    "crate::v::DStr": ["crate::v::DStr(\"x\".to_string())", "crate::v::DStr(\"gone\".to_string())"],
    "Result<u8, String>": ["Ok(1u8)"],
    "std::time::Duration": ["std::time::Duration::new(1, 5)"],
}
PINNED = {}   # version type name -> hand-picked values (Rust expressions)
OPTION_SPELLINGS = ["Option<{}>", "std::option::Option<{}>", "core::option::Option<{}>", "(Option<{}>)"]


class F:
    def __init__(self, name, ty, role="plain", default=None, inner=None):
        self.name = name          # field name
        self.ty = ty              # full rust type text
        self.role = role          # plain | optional | transient
        self.default = default    # rust expr (FieldAdded default or transient default) or None
        self.inner = inner        # for optional: the type inside the Option

    def clone(self):
        return F(self.name, self.ty, self.role, self.default, self.inner)


class Rec:
    """a record: struct, or the body of an enum variant"""
    def __init__(self, name, fields, steps=None):
        self.name = name
        self.fields = fields
        self.steps = steps or []   # ('add', name, default) | ('opt', name) | ('rem', name) | ('tra', name)


class Variant:
    def __init__(self, name, kind, rec, transient=False):
        self.name = name
        self.kind = kind           # unit | tuple | struct
        self.rec = rec             # Rec (fields named field0.. for tuple variants)
        self.transient = transient


class Enum:
    def __init__(self, name, variants, sorted_=False):
        self.name = name
        self.variants = variants
        self.sorted = sorted_


def opt(inner, spelling=0):
    return OPTION_SPELLINGS[spelling].format(inner)


def evolution_attr(steps):
    if not steps:
        return ""
    parts = []
    for s in steps:
        if s[0] == "add":
            parts.append('FieldAdded("%s", %s)' % (s[1], s[2]))
        elif s[0] == "opt":
            parts.append('FieldMadeOptional("%s")' % s[1])
        elif s[0] == "rem":
            parts.append('FieldRemoved("%s")' % s[1])
        elif s[0] == "tra":
            parts.append('FieldMadeTransient("%s")' % s[1])
    return "#[evolution(%s)]\n" % ", ".join(parts)


def field_decl_lines(fields, pub=True, named=True):
    out = []
    for f in fields:
        attr = "#[transient(%s)] " % f.default if f.role == "transient" else ""
        if named:
            out.append("    %s%s%s: %s," % (attr, "pub " if pub else "", f.name, f.ty))
        else:
            out.append("    %s%s," % (attr, f.ty))
    return "\n".join(out)


def model_fields_expr(rec):
    """Rust expression (String) for `(fields ...) (steps ...)` of a record"""
    parts = []
    for f in rec.fields:
        dflt = None
        if f.role == "transient":
            dflt = f.default
        else:
            for s in rec.steps:
                if s[0] == "add" and s[1] == f.name:
                    dflt = s[2]
        if dflt is not None:
            parts.append('format!("(%s %s {} {})", <%s as V>::ty().unwrap(), V::show(&{ let d: %s = %s; d }))'
                         % (f.name, f.role, f.ty, f.ty, dflt))
        else:
            parts.append('format!("(%s %s {})", <%s as V>::ty().unwrap())' % (f.name, f.role, f.ty))
    steps = []
    for s in rec.steps:
        code = {"add": "add", "opt": "opt", "rem": "rem", "tra": "tra"}[s[0]]
        steps.append("(%s %s)" % (code, s[1]))
    fields_vec = "vec![%s]" % ", ".join(parts) if parts else "Vec::<String>::new()"
    return 'format!("(fields {}) (steps %s)", %s.join(" "))' % (" ".join(steps), fields_vec)


def gen_field_exprs(fields, binding):
    """generator expressions for a list of fields"""
    return ["V::gen(r, d.saturating_sub(1))" for _ in fields]


def emit_struct(rec, out, env_fns):
    n = rec.name
    out.append("#[derive(Debug, Clone, BinaryCodec)]")
    out.append(evolution_attr(rec.steps).rstrip("\n")) if rec.steps else None
    if getattr(rec, "via_macro", False):
        # the field types reach the derive through a macro_rules `$t:ty` fragment (a `Type::Group` in the derive's input)
        out.pop()
        if rec.steps:
            out.pop()
        opts = [f for f in rec.fields if f.role == "optional"]
        params = ", ".join("$t%d:ty" % i for i in range(len(opts)))
        lines = []
        for f in rec.fields:
            attr = "#[transient(%s)] " % f.default if f.role == "transient" else ""
            ty = "$t%d" % opts.index(f) if f in opts else f.ty
            lines.append("            %spub %s: %s," % (attr, f.name, ty))
        out.append("macro_rules! mk_%s {\n    (%s) => {\n        #[derive(Debug, Clone, BinaryCodec)]\n        %s\n        pub struct %s {\n%s\n        }\n    };\n}\nmk_%s!(%s);"
                   % (n.lower(), params, evolution_attr(rec.steps).strip() if rec.steps else "", n, "\n".join(lines), n.lower(), ", ".join(f.ty for f in opts)))
    elif rec.fields:
        out.append("pub struct %s {\n%s\n}" % (n, field_decl_lines(rec.fields)))
    else:
        out.append("pub struct %s;" % n)
    # V impl
    fs = rec.fields
    gen_body = "%s { %s }" % (n, ", ".join("%s: V::gen(r, d.saturating_sub(1))" % f.name for f in fs)) if fs else n
    show_items = ", ".join("self.%s.show()" % f.name for f in fs)
    canon_items = []
    for f in fs:
        if f.role == "transient":
            canon_items.append("if n { let dv: %s = %s; dv.canon_m(n) } else { self.%s.canon_m(n) }" % (f.ty, f.default, f.name))
        else:
            canon_items.append("self.%s.canon_m(n)" % f.name)
    sexp_items = ", ".join("<%s as V>::canon_sexp(&a[%d])?" % (f.ty, i) for i, f in enumerate(fs))
    raw_ok = " && ".join("<%s as V>::raw_ok()" % f.ty for f in fs if f.role != "transient" and n not in f.ty) or "true"
    out.append("""impl V for %(n)s {
    fn ty() -> Option<String> { Some("(named %(n)s)".to_string()) }
    fn gen(r: &mut Rng, d: u32) -> Self { let _ = (&r, d); %(gen)s }
    fn show(&self) -> String { list_text(vec![%(show)s]) }
    fn canon_m(&self, n: bool) -> String { let _ = n; list_text(vec![%(canon)s]) }
    fn canon_sexp(x: &Sexp) -> Option<String> {
        let a = x.tagged("l")?;
        if a.len() != %(k)d { return None; }
        Some(list_text(vec![%(sexp)s]))
    }
    fn rust_name() -> String { "%(n)s".to_string() }
    fn raw_ok() -> bool { %(raw_ok)s }
}""" % dict(n=n, gen=gen_body, show=show_items, canon=", ".join(canon_items), k=len(fs), sexp=sexp_items, raw_ok=raw_ok))
    # vary transient
    trans = [f for f in fs if f.role == "transient"]
    if fs:
        assigns = ", ".join(("%s: V::gen(r, 2)" % f.name) if f.role == "transient" else ("%s: self.%s.clone()" % (f.name, f.name)) for f in fs)
        out.append("impl VaryTransient for %s {\n    const HAS_TRANSIENT: bool = %s;\n    fn vary_transient(&self, r: &mut Rng) -> Self { let _ = &r; %s { %s } }\n}"
                   % (n, "true" if trans else "false", n, assigns))
    else:
        out.append("impl VaryTransient for %s {\n    const HAS_TRANSIENT: bool = false;\n    fn vary_transient(&self, _r: &mut Rng) -> Self { self.clone() }\n}" % n)
    env_fns.append('format!("(rec %s {})", %s)' % (n, model_fields_expr(rec)))


def emit_enum(en, out, env_fns):
    n = en.name
    out.append("#[derive(Debug, Clone, BinaryCodec)]")
    if en.sorted:
        out.append("#[sorted_constructors]")
    lines = []
    for v in en.variants:
        attrs = ""
        if v.transient:
            attrs += "    #[transient]\n"
        if v.rec.steps:
            attrs += "    " + evolution_attr(v.rec.steps)
        if v.kind == "unit":
            lines.append("%s    %s," % (attrs, v.name))
        elif v.kind == "tuple":
            lines.append("%s    %s(%s)," % (attrs, v.name, ", ".join(
                ("#[transient(%s)] " % f.default if f.role == "transient" else "") + f.ty for f in v.rec.fields)))
        else:
            inner = []
            for f in v.rec.fields:
                attr = "#[transient(%s)] " % f.default if f.role == "transient" else ""
                inner.append("%s%s: %s" % (attr, f.name, f.ty))
            lines.append("%s    %s { %s }," % (attrs, v.name, ", ".join(inner)))
    out.append("#[allow(dead_code, non_camel_case_types)]\npub enum %s {\n%s\n}" % (n, "\n".join(lines)))

    def pat(v, names):
        if v.kind == "unit":
            return "%s::%s" % (n, v.name)
        if v.kind == "tuple":
            return "%s::%s(%s)" % (n, v.name, ", ".join(names))
        return "%s::%s { %s }" % (n, v.name, ", ".join("%s: %s" % (f.name, nm) for f, nm in zip(v.rec.fields, names)))

    gen_arms, show_arms, canon_arms, sexp_arms, vary_arms = [], [], [], [], []
    for i, v in enumerate(en.variants):
        fs = v.rec.fields
        names = ["x%d" % j for j in range(len(fs))]
        build = pat(v, ["V::gen(r, d.saturating_sub(1))" for _ in fs])
        gen_arms.append("%d => %s," % (i, build))
        show_arms.append("%s => ctor_text(%d, vec![%s])," % (pat(v, names), i, ", ".join("%s.show()" % x for x in names)))
        citems = []
        for f, x in zip(fs, names):
            if f.role == "transient":
                citems.append("if n { let dv: %s = %s; dv.canon_m(n) } else { %s.canon_m(n) }" % (f.ty, f.default, x))
            else:
                citems.append("%s.canon_m(n)" % x)
        canon_arms.append("%s => ctor_text(%d, vec![%s])," % (pat(v, names), i, ", ".join(citems)))
        sexp_arms.append("%d => { if a.len() != %d { return None; } Some(ctor_text(%d, vec![%s])) }" % (
            i, len(fs) + 1, i, ", ".join("<%s as V>::canon_sexp(&a[%d])?" % (f.ty, j + 1) for j, f in enumerate(fs))))
        vary = pat(v, [("V::gen(r, 2)" if f.role == "transient" else "%s.clone()" % x) for f, x in zip(fs, names)])
        vary_arms.append("%s => %s," % (pat(v, names), vary))
    k = len(en.variants)
    weights = [1 if v.transient else 6 for v in en.variants]
    has_trans = any(f.role == "transient" for v in en.variants for f in v.rec.fields)
    raw_ok = " && ".join("<%s as V>::raw_ok()" % f.ty for v in en.variants if not v.transient for f in v.rec.fields if f.role != "transient" and n not in f.ty) or "true"
    out.append("""impl V for %(n)s {
    fn ty() -> Option<String> { Some("(named %(n)s)".to_string()) }
    fn gen(r: &mut Rng, d: u32) -> Self {
        let _ = d;
        let w: &[u64] = &[%(weights)s];
        let mut pick = r.below(w.iter().sum());
        let mut idx = 0usize;
        for (i, x) in w.iter().enumerate() { if pick < *x { idx = i; break; } pick -= *x; }
        match idx {
            %(gen)s
            _ => unreachable!(),
        }
    }
    fn show(&self) -> String { match self { %(show)s } }
    fn canon_m(&self, n: bool) -> String { let _ = n; match self { %(canon)s } }
    fn canon_sexp(x: &Sexp) -> Option<String> {
        let a = x.tagged("c")?;
        let idx: usize = a.first()?.atom()?.parse().ok()?;
        match idx {
            %(sexp)s
            _ => None,
        }
    }
    fn rust_name() -> String { "%(n)s".to_string() }
    fn raw_ok() -> bool { %(raw_ok)s }
}
impl VaryTransient for %(n)s {
    const HAS_TRANSIENT: bool = %(ht)s;
    fn vary_transient(&self, r: &mut Rng) -> Self { let _ = &r; match self { %(vary)s } }
}""" % dict(n=n, weights=", ".join(str(w) for w in weights), gen="\n            ".join(gen_arms), show=" ".join(show_arms),
            canon=" ".join(canon_arms), sexp="\n            ".join(sexp_arms), vary=" ".join(vary_arms),
            ht="true" if has_trans else "false", raw_ok=raw_ok) if k > 0 else "")
    ctor_exprs = []
    for v in en.variants:
        ctor_exprs.append('format!("(ctor %s %s {})", %s)' % (v.name, "transient" if v.transient else "normal", model_fields_expr(v.rec)))
    env_fns.append('format!("(enum %s %s {})", vec![%s].join(" "))' % (n, "sorted" if en.sorted else "unsorted", ", ".join(ctor_exprs)))


# ---------------------------------------------------------------------------------------------
# base catalogue

def base_catalogue():
    decls = []
    # the repository's own test declarations
    decls.append(Rec("Point", [F("x", "i32"), F("y", "i32"), F("_cached_str", "Option<String>", "transient", "None::<String>")],
                     [("add", "x", "0"), ("rem", "z")]))
    decls.append(Rec("Point2", [F("x", "i32"), F("y", "i32"), F("_cached_str", "Option<String>", "transient", "None::<String>"),
                                F("description", "Option<String>", "optional", None, "String")],
                     [("add", "x", "0"), ("rem", "z"), ("add", "description", "Some(\"hello\".to_string())"), ("opt", "description")]))
    decls.append(Enum("Choices", [Variant("A", "unit", Rec("A", [])), Variant("B", "tuple", Rec("B", [F("field0", "String")])),
                                  Variant("C", "struct", Rec("C", [F("pt", "Option<Point>", "optional", None, "Point"), F("z", "u64")]))]))
    decls.append(Rec("UnitS", []))
    decls.append(Rec("One", [F("a", "u8")]))
    decls.append(Rec("Twelve", [F("f%d" % i, t) for i, t in enumerate(
        ["u8", "i16", "u32", "i64", "bool", "String", "char", "f32", "()", "Vec<u8>", "Option<u8>", "(u8, String)"])]))
    decls[-1].fields[10] = F("f10", "Option<u8>", "optional", None, "u8")
    # the three Option spellings
    decls.append(Rec("OptSpell", [F("a", opt("u8", 0), "optional", None, "u8"), F("b", opt("String", 1), "optional", None, "String"),
                                  F("c", opt("Vec<u16>", 2), "optional", None, "Vec<u16>"), F("d", "u8")]))
    decls.append(Rec("OptParen", [F("a", "u8"), F("c", opt("u32", 3), "optional", None, "u32"), F("b", "String")], [("opt", "c")]))
    og = Rec("OptGroup", [F("a", "u8"), F("c", "Option<u32>", "optional", None, "u32"), F("n", "Option<String>", "optional", None, "String"), F("b", "String")],
             [("opt", "c"), ("add", "n", "None")])
    og.via_macro = True
    decls.append(og)
    # transient in every position, non-default values are generated
    decls.append(Rec("TransFirst", [F("t", "u32", "transient", "7u32"), F("a", "u8"), F("b", "String")]))
    decls.append(Rec("TransMid", [F("a", "u8"), F("t", "String", "transient", "\"dflt\".to_string()"), F("b", "String")]))
    decls.append(Rec("TransLast", [F("a", "u8"), F("b", "String"), F("t", "Vec<u8>", "transient", "vec![9u8]")]))
    decls.append(Rec("TransOnly", [F("t", "u8", "transient", "1u8")]))
    decls.append(Rec("TransEvolved", [F("a", "u8"), F("t", "Option<String>", "transient", "None"), F("n", "u16"), F("b", "String")],
                     [("add", "n", "5u16"), ("tra", "t")]))
    # made optional then transient / removed (D10)
    decls.append(Rec("OptThenTransient", [F("a", "u8"), F("c", "Option<u32>", "transient", "None")],
                     [("opt", "c"), ("tra", "c")]))
    decls.append(Rec("OptThenRemoved", [F("a", "u8")], [("opt", "c"), ("rem", "c")]))
    # added, made optional, then transient / removed: every earlier step that touched the field stays in the history (C14)
    decls.append(Rec("AddOptTra", [F("a", "u8"), F("note", "Option<String>", "transient", "None"), F("b", "u16")],
                     [("add", "note", "Some(String::new())"), ("opt", "note"), ("tra", "note")]))
    decls.append(Rec("AddOptRem", [F("a", "u8"), F("b", "u16")],
                     [("add", "note", "Some(String::new())"), ("opt", "note"), ("rem", "note")]))
    decls.append(Rec("AddTraAdd", [F("a", "u8"), F("t", "u32", "transient", "7u32"), F("n", "String")],
                     [("add", "t", "1u32"), ("tra", "t"), ("add", "n", "String::new()")]))
    decls.append(Enum("AddOptTraE", [Variant("A", "unit", Rec("A", [])),
                                     Variant("S", "struct", Rec("S", [F("a", "u8"), F("note", "Option<u16>", "transient", "None")],
                                                                [("add", "note", "Some(1u16)"), ("opt", "note"), ("tra", "note")])),
                                     Variant("R", "struct", Rec("R", [F("a", "u8")],
                                                                [("add", "gone", "Some(1u16)"), ("opt", "gone"), ("rem", "gone")]))]))
    # the documented limit: 255 versions = 254 steps after the initial one (C17)
    decls.append(Rec("Steps254", [F("a", "u8"), F("n0", "u8"), F("n1", "String")],
                     [("add", "n0", "0u8")] + [("rem", "old%d" % i) for i in range(126)] + [("add", "n1", "String::new()")]
                     + [("rem", "older%d" % i) for i in range(126)]))
    # evolution metadata that references a field which is neither written nor removed: every encoding is the documented error (C17)
    decls.append(Rec("DanglingOpt", [F("a", "u8"), F("b", "String")], [("opt", "nosuch")]))
    # nesting and recursion
    decls.append(Rec("Inner", [F("id", "String")]))
    decls.append(Rec("Outer", [F("head", "u16"), F("inner", "Inner"), F("list", "Vec<Inner>"), F("tail", "String")]))
    decls.append(Rec("RecList", [F("v", "u8"), F("next", "Option<Box<RecList>>", "optional", None, "Box<RecList>")]))
    decls.append(Rec("RecTree", [F("label", "String"), F("kids", "Vec<RecTree>")]))
    decls.append(Rec("EvolvedInner", [F("a", "u8"), F("b", "String"), F("c", "Option<u16>", "optional", None, "u16")],
                     [("add", "b", "\"nb\".to_string()"), ("add", "c", "None"), ]))
    decls.append(Rec("EvolvedOuter", [F("x", "u16"), F("e", "EvolvedInner"), F("es", "Vec<EvolvedInner>"), F("y", "String"), F("z", "u8")],
                     [("add", "z", "3u8")]))
    # an evolved record as the *last* field of a chunk of an evolved record, with a later chunk behind it: an inner chunk
    # size that overruns the enclosing chunk stays inside the buffer (C06)
    decls.append(Rec("NestTail", [F("a", "u8"), F("inner", "EvolvedInner"), F("tail", "String")], [("add", "tail", "String::new()")]))
    decls.append(Rec("NestTailVec", [F("a", "u8"), F("inners", "Vec<EvolvedInner>"), F("t", "u16"), F("u", "Vec<u8>")],
                     [("add", "t", "0u16"), ("add", "u", "Vec::new()")]))
    decls.append(Rec("NestTailOpt", [F("inner", "Option<Point2>", "optional", None, "Point2"), F("n", "String"), F("m", "u8")],
                     [("add", "n", "String::new()"), ("rem", "gone"), ("add", "m", "0u8")]))
    # deduplicated strings in evolved records with removed names in the header (D11)
    decls.append(Rec("DedupR", [F("name", "crate::v::DStr")], [("rem", "gone")]))
    decls.append(Rec("DedupR2", [F("a", "crate::v::DStr"), F("b", "crate::v::DStr")], [("rem", "gone")]))
    decls.append(Rec("DedupMix", [F("a", "crate::v::DStr"), F("p", "String"), F("b", "crate::v::DStr"),
                                  F("n", "crate::v::DStr"), F("l", "Vec<crate::v::DStr>")],
                     [("rem", "x"), ("add", "n", "crate::v::DStr(\"x\".to_string())"), ("tra", "gone"), ("rem", "x")]))
    # an added field declared *before* older fields, all holding deduplicated strings: ids follow the declaration order (C09, C10)
    decls.append(Rec("DedupOrd", [F("n", "crate::v::DStr"), F("a", "crate::v::DStr"), F("m", "crate::v::DStr"), F("b", "crate::v::DStr")],
                     [("add", "n", "crate::v::DStr(String::new())"), ("add", "m", "crate::v::DStr(\"x\".to_string())")]))
    decls.append(Rec("DedupNest", [F("h", "crate::v::DStr"), F("r", "DedupR2"), F("m", "DedupMix"), F("t", "crate::v::DStr")]))
    # the types of the repository's golden test (data written by Scala desert), mirrored: same attributes, same field order;
    # `StackTraceElement` has a hand-written codec there (0, three Option<String>, var-u32) = a headerless record of these fields
    decls.append(Rec("GListElement1", [F("id", "String")]))
    decls.append(Enum("GListElement2", [
        Variant("First", "struct", Rec("First", [F("elem", "GListElement1")])),
        Variant("Second", "struct", Rec("Second", [F("uuid", "uuid::Uuid"), F("desc", "Option<String>", "optional", None, "String"),
                                                   F("_cached", "Option<String>", "transient", "None")], [("tra", "cached")])),
        Variant("Third", "struct", Rec("Third", [F("_file", "String")]), True)], True))
    decls.append(Rec("GStackTraceElement", [F("class_name", "Option<String>", "optional", None, "String"),
                                            F("method_name", "Option<String>", "optional", None, "String"),
                                            F("file_name", "Option<String>", "optional", None, "String"),
                                            F("line_number", "crate::v::VarU32")]))
    decls.append(Rec("GThrowable", [F("class_name", "String"), F("message", "String"), F("stack_trace", "Vec<GStackTraceElement>"),
                                    F("cause", "Option<Box<GThrowable>>", "optional", None, "Box<GThrowable>")]))
    decls.append(Rec("GTestModel1", [
        F("byte", "i8"), F("short", "i16"), F("int", "i32"), F("long", "i64"), F("float", "f32"), F("double", "f64"),
        F("boolean", "bool"), F("unit", "()"), F("string", "String"), F("uuid", "uuid::Uuid"), F("exception", "GThrowable"),
        F("list", "Vec<GListElement1>"), F("array", "Vec<i64>"), F("vector", "Vec<GListElement1>"),
        F("set", "std::collections::HashSet<String>"), F("either", "Result<bool, String>"),
        F("tried", "Result<GListElement2, GThrowable>"),
        F("option", "Option<std::collections::HashMap<String, GListElement2>>", "optional", None, "std::collections::HashMap<String, GListElement2>")],
        [("opt", "option"), ("add", "string", "\"default string\".to_string()"), ("add", "set", "std::collections::HashSet::new()")]))
    # enums
    decls.append(Enum("UnitEnum", [Variant("A", "unit", Rec("A", [])), Variant("B", "unit", Rec("B", [])), Variant("C", "unit", Rec("C", []))]))
    decls.append(Enum("SortedEnum", [Variant("Zeta", "unit", Rec("Zeta", [])), Variant("Alpha", "tuple", Rec("Alpha", [F("field0", "u8")])),
                                     Variant("Mid", "struct", Rec("Mid", [F("s", "String")])), Variant("Beta", "unit", Rec("Beta", []))], True))
    decls.append(Enum("TransCtorFirst", [Variant("T", "struct", Rec("T", [F("p", "u8")]), True), Variant("A", "unit", Rec("A", [])),
                                         Variant("B", "tuple", Rec("B", [F("field0", "u16"), F("field1", "String")]))]))
    decls.append(Enum("TransCtorMid", [Variant("A", "tuple", Rec("A", [F("field0", "u8")])), Variant("T", "unit", Rec("T", []), True),
                                       Variant("B", "struct", Rec("B", [F("x", "i32"), F("y", "Option<String>", "optional", None, "String")]))]))
    decls.append(Enum("TransCtorSorted", [Variant("Delta", "unit", Rec("Delta", [])), Variant("Charlie", "unit", Rec("Charlie", []), True),
                                          Variant("Bravo", "tuple", Rec("Bravo", [F("field0", "String")])), Variant("Alpha", "unit", Rec("Alpha", []))], True))
    # evolution on variants (struct and tuple variants)
    decls.append(Enum("EvolvedVariants", [
        Variant("First", "struct", Rec("First", [F("elem", "Inner")])),
        Variant("Second", "struct", Rec("Second", [F("id", "u64"), F("desc", "Option<String>", "optional", None, "String"),
                                                 F("_cached", "Option<String>", "transient", "None")], [("tra", "cached")])),
        Variant("Third", "tuple", Rec("Third", [F("field0", "u8"), F("field1", "String")], [("add", "field1", "\"added\".to_string()")])),
        Variant("Fourth", "struct", Rec("Fourth", [F("a", "u8"), F("b", "Option<u8>", "optional", None, "u8"), F("c", "u16")],
                                        [("opt", "b"), ("add", "c", "9u16")])),
    ], True))
    decls.append(Rec("EnumHolder", [F("pre", "u8"), F("e", "EvolvedVariants"), F("es", "Vec<Choices>"), F("post", "String")],
                     [("add", "post", "String::new()")]))
    decls.append(Enum("RecEnum", [Variant("Leaf", "tuple", Rec("Leaf", [F("field0", "u8")])),
                                  Variant("Node", "struct", Rec("Node", [F("l", "Box<RecEnum>"), F("r", "Box<RecEnum>")]))]))
    # enum extension pairs (C13): E2 appends variants after E1's in index order
    decls.append(Enum("Ext1", [Variant("A", "unit", Rec("A", [])), Variant("B", "tuple", Rec("B", [F("field0", "String")]))]))
    decls.append(Enum("Ext2", [Variant("A", "unit", Rec("A", [])), Variant("B", "tuple", Rec("B", [F("field0", "String")])),
                               Variant("C", "struct", Rec("C", [F("n", "u32")])), Variant("D", "unit", Rec("D", []))]))
    decls.append(Enum("ExtS1", [Variant("Bb", "tuple", Rec("Bb", [F("field0", "u8")])), Variant("Aa", "unit", Rec("Aa", []))], True))
    decls.append(Enum("ExtS2", [Variant("Zz", "unit", Rec("Zz", [])), Variant("Bb", "tuple", Rec("Bb", [F("field0", "u8")])),
                                Variant("Aa", "unit", Rec("Aa", [])), Variant("Cc", "struct", Rec("Cc", [F("q", "String")]))], True))
    # sorted constructors whose byte order and case-insensitive order disagree
    decls.append(Enum("CaseSorted", [Variant("Id", "tuple", Rec("Id", [F("field0", "u32")])), Variant("IO", "tuple", Rec("IO", [F("field0", "u32")])),
                                     Variant("Hb", "unit", Rec("Hb", [])), Variant("HTTP", "tuple", Rec("HTTP", [F("field0", "String")])),
                                     Variant("aa", "unit", Rec("aa", [])), Variant("Zz", "unit", Rec("Zz", []))], True))
    decls.append(Enum("ExtC1", [Variant("IO", "tuple", Rec("IO", [F("field0", "u32")])), Variant("HTTP", "tuple", Rec("HTTP", [F("field0", "String")]))], True))
    decls.append(Enum("ExtC2", [Variant("IO", "tuple", Rec("IO", [F("field0", "u32")])), Variant("Id", "tuple", Rec("Id", [F("field0", "u32")])),
                                Variant("HTTP", "tuple", Rec("HTTP", [F("field0", "String")]))], True))
    # many fields: position bytes beyond 127 (D15)
    decls.append(Rec("Many130", [F("f%d" % i, "u8") for i in range(130)]))
    decls.append(Rec("Many130Evolved", [F("f%d" % i, "u8") for i in range(130)] + [F("extra", "u16")], [("add", "extra", "1u16")]))
    return decls


# ---------------------------------------------------------------------------------------------
# random declarations

def rand_type(rng):
    return rng.choice(list(TYPES.keys()))


def random_struct(rng, name):
    k = rng.randint(0, 6)
    fields = []
    steps = []
    for i in range(k):
        t = rand_type(rng)
        role = rng.choice(["plain", "plain", "plain", "optional", "transient"])
        fname = "g%d" % i
        if role == "optional":
            fields.append(F(fname, opt(t, rng.randint(0, 2)), "optional", None, t))
        elif role == "transient":
            fields.append(F(fname, t, "transient", rng.choice(TYPES[t])))
        else:
            fields.append(F(fname, t))
    # evolution steps consistent with a history: some fields were added, some made optional
    serial = [f for f in fields if f.role != "transient"]
    for f in serial:
        if rng.random() < 0.3:
            d = rng.choice(TYPES[f.inner]) if f.role == "optional" else rng.choice(TYPES[f.ty])
            steps.append(("add", f.name, ("Some(%s)" % d if rng.random() < 0.5 else "None") if f.role == "optional" else d))
        if f.role == "optional" and rng.random() < 0.5:
            steps.append(("opt", f.name))
    if rng.random() < 0.3:
        steps.append(("rem", "old%d" % rng.randint(0, 3)))
    if rng.random() < 0.2:
        steps.append(("tra", "gone"))
    rng.shuffle(steps)
    return Rec(name, fields, steps)


def random_enum(rng, name):
    k = rng.randint(1, 5)
    variants = []
    used = set()
    for i in range(k):
        while True:
            vn = rng.choice(["Aa", "Bb", "Cc", "Dd", "Ee", "Ff", "Gg", "Ab", "Ba", "Zz"])
            if vn not in used:
                used.add(vn)
                break
        kind = rng.choice(["unit", "tuple", "struct"])
        if kind == "unit":
            rec = Rec(vn, [])
        else:
            rec = random_struct(rng, vn)
            if kind == "tuple":
                rename = {}
                for j, f in enumerate(rec.fields):
                    rename[f.name] = "field%d" % j
                    f.name = "field%d" % j
                rec.steps = [tuple([s[0], rename.get(s[1], s[1])] + list(s[2:])) for s in rec.steps]
                if not rec.fields:
                    kind = "unit"
        variants.append(Variant(vn, kind, rec, rng.random() < 0.15))
    if all(v.transient for v in variants):
        variants[0].transient = False
    return Enum(name, variants, rng.random() < 0.5)


# ---------------------------------------------------------------------------------------------
# evolution histories: one Rust type per version

def history(rng, hname, as_variant=False):
    """returns list of Rec (one per version 0..n), all named <hname>V<k>"""
    k0 = rng.randint(1, 4)
    fields = []
    for i in range(k0):
        t = rand_type(rng)
        fields.append(F("a%d" % i, t))
    steps = []
    versions = [Rec("%sV0" % hname, [f.clone() for f in fields], [])]
    nsteps = rng.randint(1, 5)
    counter = 0
    gen_of = {f.name: 0 for f in fields}
    for s in range(1, nsteps + 1):
        choices = ["add", "add", "opt", "rem", "tra"]
        rng.shuffle(choices)
        done = False
        for c in choices:
            serial = [f for f in fields if f.role != "transient"]
            if c == "add":
                counter += 1
                t = rand_type(rng)
                name = "n%d" % counter
                if rng.random() < 0.35:
                    f = F(name, opt(t, rng.randint(0, 3)), "optional", None, t)
                    d = rng.choice(["None", "Some(%s)" % rng.choice(TYPES[t])])
                else:
                    f = F(name, t)
                    d = rng.choice(TYPES[t])
                fields.insert(rng.randint(0, len(fields)), f)
                gen_of[name] = s
                steps.append(("add", name, d))
                done = True
            elif c == "opt":
                cands = [f for f in serial if f.role == "plain" and not f.ty.startswith("Option")]
                if not cands:
                    continue
                f = rng.choice(cands)
                f.inner = f.ty
                f.ty = opt(f.ty, rng.randint(0, 3))
                f.role = "optional"
                # the FieldAdded default is typed as the field's *current* type
                for j, st in enumerate(steps):
                    if st[0] == "add" and st[1] == f.name:
                        steps[j] = ("add", st[1], "Some(%s)" % st[2])
                steps.append(("opt", f.name))
                done = True
            elif c in ("rem", "tra"):
                # legal only for the last serialized field of its chunk
                cands = []
                for g in set(gen_of[f.name] for f in serial):
                    inchunk = [f for f in serial if gen_of[f.name] == g]
                    cands.append(inchunk[-1])
                if not cands:
                    continue
                f = rng.choice(cands)
                if c == "rem":
                    fields.remove(f)
                    steps.append(("rem", f.name))
                else:
                    base = f.inner if f.role == "optional" else f.ty
                    f.default = ("None" if f.role == "optional" else rng.choice(TYPES[base]))
                    f.role = "transient"
                    steps.append(("tra", f.name))
                done = True
            if done:
                break
        if not done:
            steps.append(("rem", "never_existed%d" % s))
        versions.append(Rec("%sV%d" % (hname, s), [f.clone() for f in fields], list(steps)))
    return versions


def main():
    rng = random.Random(DECL_SEED)
    decls = base_catalogue()
    for i in range(N_RANDOM_DECLS):
        if rng.random() < 0.6:
            decls.append(random_struct(rng, "RndS%d" % i))
        else:
            decls.append(random_enum(rng, "RndE%d" % i))
    hists = []
    # hand-written histories first
    h0 = [
        Rec("HPointV0", [F("y", "i32"), F("z", "u8")]),
        Rec("HPointV1", [F("x", "i32"), F("y", "i32"), F("z", "u8")], [("add", "x", "0")]),
        Rec("HPointV2", [F("x", "i32"), F("y", "i32")], [("add", "x", "0"), ("rem", "z")]),
        Rec("HPointV3", [F("x", "i32"), F("y", "i32"), F("description", "String")],
            [("add", "x", "0"), ("rem", "z"), ("add", "description", "\"hello\".to_string()")]),
        Rec("HPointV4", [F("x", "i32"), F("y", "i32"), F("description", "Option<String>", "optional", None, "String")],
            [("add", "x", "0"), ("rem", "z"), ("add", "description", "Some(\"hello\".to_string())"), ("opt", "description")]),
        Rec("HPointV5", [F("x", "i32"), F("y", "i32"), F("description", "Option<String>", "transient", "None")],
            [("add", "x", "0"), ("rem", "z"), ("add", "description", "Some(\"hello\".to_string())"), ("opt", "description"), ("tra", "description")]),
    ]
    hists.append(("HPoint", h0, False))
    # finding D17: a removed field (the last, here the only, one of chunk 0) holds the first occurrence of a deduplicated string
    DS = "crate::v::DStr"
    dsd = "crate::v::DStr(String::new())"
    hds = [
        Rec("HDsV0", [F("z", DS)]),
        Rec("HDsV1", [F("z", DS), F("c", DS)], [("add", "c", dsd)]),
        Rec("HDsV2", [F("z", DS), F("c", DS), F("d", DS)], [("add", "c", dsd), ("add", "d", dsd)]),
        Rec("HDsV3", [F("c", DS), F("d", DS)], [("add", "c", dsd), ("add", "d", dsd), ("rem", "z")]),
    ]
    hists.append(("HDs", hds, False))
    def ds(x):
        return "crate::v::DStr(\"%s\".to_string())" % x
    PINNED["HDsV1"] = ["HDsV1 { z: %s, c: %s }" % (ds("p"), ds("p"))]
    PINNED["HDsV2"] = ["HDsV2 { z: %s, c: %s, d: %s }" % (ds("p"), ds("q"), ds("p")),
                       "HDsV2 { z: %s, c: %s, d: %s }" % (ds("p"), ds("p"), ds("p"))]
    for i in range(N_HISTORIES):
        hists.append(("H%d" % i, history(rng, "H%d" % i), False))
    # evolution steps on an enum variant: the same histories, each version as the struct variant `S` of an enum (C03)
    def as_enum(rec):
        return Enum(rec.name, [Variant("A", "unit", Rec("A", [])), Variant("S", "struct", Rec("S", rec.fields, rec.steps)),
                               Variant("B", "tuple", Rec("B", [F("field0", "u8")]))])
    hpe = [Rec(v.name.replace("HPoint", "HPointE"), [f.clone() for f in v.fields], list(v.steps)) for v in h0]
    hists.append(("HPointE", hpe, True))
    rng_e = random.Random(DECL_SEED + 7)
    for i in range(N_ENUM_HISTORIES):
        hists.append(("HE%d" % i, history(rng_e, "HE%d" % i), True))

    out = []
    out.append("// generated by gen/gen_decls.py (DECL_SEED=%d) -- do not edit" % DECL_SEED)
    out.append("#![allow(non_snake_case, unused_variables, unused_mut, clippy::all)]")
    out.append("use crate::rng::Rng;\nuse crate::sexp::Sexp;\nuse crate::v::{V, VaryTransient};\nuse desert::BinaryCodec;\n")
    out.append("fn list_text(items: Vec<String>) -> String { let mut s = String::from(\"(l\"); for i in items { s.push(' '); s.push_str(&i); } s.push(')'); s }")
    out.append("fn ctor_text(idx: usize, items: Vec<String>) -> String { let mut s = format!(\"(c {}\", idx); for i in items { s.push(' '); s.push_str(&i); } s.push(')'); s }\n")
    env_fns = []
    names = []
    for d in decls:
        if isinstance(d, Rec):
            emit_struct(d, out, env_fns)
        else:
            emit_enum(d, out, env_fns)
        names.append(d.name)
    hist_names = []
    for hname, versions, is_enum in hists:
        for v in versions:
            if is_enum:
                emit_enum(as_enum(v), out, env_fns)
            else:
                emit_struct(v, out, env_fns)
        hist_names.append((hname, [v.name for v in versions]))
    # holders that embed an evolved record between siblings
    out.append("\n/// S-expressions of every generated declaration, for the model's environment")
    out.append("pub fn env_lines() -> Vec<String> {\n    vec![\n%s\n    ]\n}" % ",\n".join("        format!(\"env {}\", %s)" % e for e in env_fns))
    out.append("\npub trait DeclVisitor {\n    fn decl<T: V + VaryTransient>(&mut self);\n    /// one version of an evolution history, as a declaration of its own\n    fn version<T: V + VaryTransient>(&mut self) {}\n    fn pair<W: V, R: V>(&mut self, hist: &str, w: usize, r: usize, removed_chunk0_after_w: bool, pinned: Vec<W>);\n    fn ext<E1: V, E2: V>(&mut self, n_old: usize);\n}")
    version_lines = ["    v.version::<%s>();" % vn for _, vnames in hist_names for vn in vnames]
    out.append("\npub fn visit_decls<Vis: DeclVisitor>(v: &mut Vis) {\n%s\n%s\n}" % ("\n".join("    v.decl::<%s>();" % n for n in names), "\n".join(version_lines)))
    pair_lines = []
    for (hname, vnames), (_, versions, _) in zip(hist_names, hists):
        for w in range(len(vnames)):
            for r in range(len(vnames)):
                # does reader r lack (as a serialized field) a chunk-0 field that writer w writes? (DESIGN 9.1)
                wser = [f.name for f in versions[w].fields if f.role != "transient" and not any(s[0] == "add" and s[1] == f.name for s in versions[w].steps)]
                rser = [f.name for f in versions[r].fields if f.role != "transient"]
                lacks = any(n not in rser for n in wser)
                pinned = "vec![%s]" % ", ".join(PINNED.get(vnames[w], []))
                pair_lines.append("    v.pair::<%s, %s>(\"%s\", %d, %d, %s, %s);" % (vnames[w], vnames[r], hname, w, r, "true" if lacks else "false", pinned))
    out.append("\npub fn visit_hists<Vis: DeclVisitor>(v: &mut Vis) {\n%s\n}" % "\n".join(pair_lines))
    out.append("\npub fn visit_exts<Vis: DeclVisitor>(v: &mut Vis) {\n    v.ext::<Ext1, Ext2>(2);\n    v.ext::<ExtS1, ExtS2>(2);\n    v.ext::<ExtC1, ExtC2>(2);\n}")
    out.append("\npub const N_DECLS: usize = %d;\npub const N_HISTORIES: usize = %d;" % (len(names), len(hists)))
    content = "\n".join(x for x in out if x is not None) + "\n"
    os.makedirs(os.path.dirname(OUT), exist_ok=True)
    old = open(OUT).read() if os.path.exists(OUT) else None
    if old != content:
        open(OUT, "w").write(content)
    sys.stdout.write("decls.rs: %d declarations, %d histories\n" % (len(names), len(hists)))


if __name__ == "__main__":
    main()
