//! The catalogue of built-in type expressions instantiated on the Rust side (types are
//! compile-time entities, so depth is bounded here; the theorems are not).
use crate::v::V;
use bytes::Bytes;
use chrono::{DateTime, FixedOffset, Local, Month, NaiveDate, NaiveDateTime, NaiveTime, Utc, Weekday};
use chrono_tz::Tz;
use desert::DeduplicatedString;
use std::collections::{BTreeMap, BTreeSet, HashMap, HashSet, LinkedList};
use std::marker::PhantomData;
use std::rc::Rc;
use std::sync::Arc;
use std::time::Duration;
use uuid::Uuid;

pub trait Visitor {
    fn visit<T: V>(&mut self);
}

type BigInt = bigdecimal::num_bigint::BigInt;

pub fn builtin<Vis: Visitor>(v: &mut Vis) {
    // primitives
    v.visit::<u8>();
    v.visit::<i8>();
    v.visit::<u16>();
    v.visit::<i16>();
    v.visit::<u32>();
    v.visit::<i32>();
    v.visit::<u64>();
    v.visit::<i64>();
    v.visit::<u128>();
    v.visit::<i128>();
    v.visit::<f32>();
    v.visit::<f64>();
    v.visit::<bool>();
    v.visit::<()>();
    v.visit::<char>();
    v.visit::<String>();
    v.visit::<DeduplicatedString>();
    v.visit::<Duration>();
    v.visit::<Bytes>();
    v.visit::<Uuid>();
    v.visit::<PhantomData<u32>>();
    v.visit::<Weekday>();
    v.visit::<Month>();
    v.visit::<FixedOffset>();
    // leaves outside the model (implementation-side oracles only)
    v.visit::<NaiveDate>();
    v.visit::<NaiveTime>();
    v.visit::<NaiveDateTime>();
    v.visit::<DateTime<Utc>>();
    v.visit::<DateTime<FixedOffset>>();
    v.visit::<DateTime<Tz>>();
    v.visit::<DateTime<Local>>();
    v.visit::<Tz>();
    v.visit::<BigInt>();
    v.visit::<bigdecimal::BigDecimal>();
    // options / results
    v.visit::<Option<u8>>();
    v.visit::<Option<String>>();
    v.visit::<Option<Option<bool>>>();
    v.visit::<Option<()>>();
    v.visit::<Result<u32, String>>();
    v.visit::<Result<Option<u8>, Result<i16, char>>>();
    // tuples, every arity
    v.visit::<(u8,)>();
    v.visit::<(String,)>();
    v.visit::<(u8, u16)>();
    v.visit::<(u32, String, bool)>();
    v.visit::<(u32, String, bool, u64)>();
    v.visit::<(u32, String, bool, u64, i32)>();
    v.visit::<(u32, String, bool, u64, i32, i64)>();
    v.visit::<(u32, String, bool, u64, i32, i64, u128)>();
    v.visit::<(u32, String, bool, u64, i32, i64, u128, i128)>();
    v.visit::<((u8,), (u8, (u16, u8)))>();
    v.visit::<((), (), u8)>();
    // sequences
    v.visit::<Vec<u16>>();
    v.visit::<Vec<String>>();
    v.visit::<Vec<i8>>();
    v.visit::<Vec<bool>>();
    v.visit::<Vec<()>>();
    v.visit::<Vec<Vec<u32>>>();
    v.visit::<Vec<Option<String>>>();
    v.visit::<Vec<(u8, String)>>();
    v.visit::<LinkedList<i32>>();
    v.visit::<LinkedList<String>>();
    v.visit::<HashSet<u32>>();
    v.visit::<HashSet<String>>();
    v.visit::<BTreeSet<String>>();
    v.visit::<BTreeSet<(i8, u8)>>();
    v.visit::<HashMap<String, u32>>();
    v.visit::<HashMap<u8, Vec<String>>>();
    v.visit::<BTreeMap<String, u32>>();
    v.visit::<BTreeMap<u8, Option<(u8, u8)>>>();
    v.visit::<BTreeMap<(u8, u8), Vec<u8>>>();
    // byte containers
    v.visit::<Vec<u8>>();
    v.visit::<[u8; 0]>();
    v.visit::<[u8; 1]>();
    v.visit::<[u8; 4]>();
    v.visit::<[u8; 16]>();
    v.visit::<[u8; 17]>();
    v.visit::<[u8; 40]>();
    v.visit::<[u8; 200]>();
    v.visit::<Vec<Vec<u8>>>();
    v.visit::<Option<[u8; 3]>>();
    // arrays
    v.visit::<[u32; 3]>();
    v.visit::<[u16; 0]>();
    v.visit::<[String; 1]>();
    v.visit::<[String; 2]>();
    v.visit::<[Option<u8>; 5]>();
    v.visit::<[[u16; 2]; 2]>();
    v.visit::<[(); 3]>();
    v.visit::<[i8; 4]>();
    // pointers
    v.visit::<Box<u32>>();
    v.visit::<Rc<String>>();
    v.visit::<Arc<Vec<u8>>>();
    v.visit::<Option<Box<(u8, String)>>>();
    v.visit::<Vec<Rc<Option<Arc<u16>>>>>();
    // mixed depth 3
    v.visit::<HashMap<String, Vec<Option<(u8, [u8; 2])>>>>();
    v.visit::<(Vec<u8>, [u8; 3], Bytes, Vec<u16>)>();
    v.visit::<Result<Vec<(String, Duration)>, BTreeSet<char>>>();
    v.visit::<(DeduplicatedString, Vec<crate::v::DStr>, String, DeduplicatedString)>();
    v.visit::<std::collections::BTreeMap<crate::v::DStr, Vec<crate::v::DStr>>>();
    v.visit::<Vec<(Weekday, Month, FixedOffset)>>();
    v.visit::<(f32, f64, Vec<f64>)>();
    v.visit::<Option<(Uuid, Duration, char)>>();
}
