//! Family `altform`: sequences are container-independent and size-form-independent (C12), and
//! forms this writer never emits for std containers decode to the value they denote (C04):
//! the same element list is written through every source container and through the public
//! `serialize_iterator` with an inexact size hint (unknown-length form), and read through every
//! target container; every decode is also compared with the model.
use crate::cases::{case_bytes, guarded, impl_decode_rest, Out, Pending};
use crate::collect::Collector;
use crate::rng::Rng;
use crate::sexp::hex;
use crate::v::V;
use crate::{flush, Args};
use desert::{serialize_iterator, SerializationContext};
use std::collections::{BTreeMap, BTreeSet, HashMap, HashSet, LinkedList};

fn enc<T: V>(v: &T) -> Option<Vec<u8>> {
    match guarded(|| desert::serialize_to_byte_vec(v)) {
        Out::Ok(b) => Some(b),
        _ => None,
    }
}

/// the unknown-length form of a sequence, produced by the real `serialize_iterator`
fn unknown_form<T: V>(items: &[T]) -> Option<Vec<u8>> {
    match guarded(|| {
        let mut ctx = SerializationContext::new(Vec::<u8>::new());
        let mut it = items.iter().filter(|_| true); // size_hint = (0, Some(n)): not exact
        serialize_iterator(&mut it, &mut ctx)?;
        Ok(ctx.into_output())
    }) {
        Out::Ok(b) => Some(b),
        _ => None,
    }
}

/// decode `bytes ++ suffix` as `D`; the decoded value must canonically equal `want` and leave the suffix
fn expect<D: V>(bytes: &[u8], want: &str, origin: &str, r: &mut Rng, c: &mut Collector, q: &mut Vec<Pending>) {
    let suffix: Vec<u8> = (0..r.below(3)).map(|_| *r.pick(&[0u8, 1, 0xff])).collect();
    let mut buf = bytes.to_vec();
    buf.extend_from_slice(&suffix);
    let case = format!("type={} bytes={} origin={}", D::rust_name(), hex(&buf), origin);
    match impl_decode_rest::<D>(&buf) {
        Out::Ok((v, rest)) => {
            if v.canon() != want || rest != suffix {
                c.fail("altform", "oracle", &format!("{}|altform", D::rust_name()), case, format!("decoded {} left {} expected {} left {}", v.canon(), hex(&rest), want, hex(&suffix)));
            } else {
                c.stat("altform-ok");
            }
        }
        Out::Err(k) => c.fail("altform", "oracle", &format!("{}|altform", D::rust_name()), case, format!("error {} expected {}", k, want)),
        Out::Panic(m) => c.fail("altform", "oracle", &format!("{}|altform", D::rust_name()), case, format!("panic {}", m)),
    }
    case_bytes::<D>(&buf, origin, c, q, 0);
}

fn set_canon(items: Vec<String>) -> String {
    let mut x = items;
    x.sort();
    x.dedup();
    format!("(l{})", x.iter().map(|i| format!(" {}", i)).collect::<String>())
}

fn list_canon(items: Vec<String>) -> String {
    format!("(l{})", items.iter().map(|i| format!(" {}", i)).collect::<String>())
}

/// element types that are hashable and ordered: all container pairs
fn elems_full<T: V + Clone + Eq + std::hash::Hash + Ord>(r: &mut Rng, c: &mut Collector, q: &mut Vec<Pending>, rounds: usize) {
    for round in 0..rounds {
        let n = match round % 5 {
            0 => 0,
            1 => 1,
            2 => 3,
            _ => r.below(6) as usize,
        };
        let items: Vec<T> = (0..n).map(|_| T::gen(r, 1)).collect();
        c.eval();
        c.nontrivial(&format!("{}|{}", T::rust_name(), list_canon(items.iter().map(|x| x.canon()).collect())));
        let ordered = list_canon(items.iter().map(|x| x.canon()).collect());
        let as_set = set_canon(items.iter().map(|x| x.canon()).collect());
        // every source container (and both size forms) ...
        let mut sources: Vec<(String, Vec<u8>, bool)> = vec![];
        if let Some(b) = enc(&items) {
            sources.push(("Vec".into(), b, true));
        }
        if let Some(b) = enc(&items.iter().cloned().collect::<LinkedList<T>>()) {
            sources.push(("LinkedList".into(), b, true));
        }
        if let Some(b) = guarded(|| {
            let mut ctx = SerializationContext::new(Vec::<u8>::new());
            desert::BinarySerializer::serialize(&items[..], &mut ctx)?;
            Ok(ctx.into_output())
        })
        .ok()
        {
            sources.push(("slice".into(), b, true));
        }
        if let Some(b) = unknown_form(&items) {
            sources.push(("unknown-length form".into(), b, true));
        }
        if let Some(b) = enc(&items.iter().cloned().collect::<HashSet<T>>()) {
            sources.push(("HashSet".into(), b, false));
        }
        if let Some(b) = enc(&items.iter().cloned().collect::<BTreeSet<T>>()) {
            sources.push(("BTreeSet".into(), b, false));
        }
        // the known-length encodings of ordered sources are byte-identical
        let ord: Vec<&(String, Vec<u8>, bool)> = sources.iter().filter(|s| s.2 && s.0 != "unknown-length form").collect();
        for s in ord.iter().skip(1) {
            if s.1 != ord[0].1 {
                c.fail("container-bytes", "oracle", &format!("{}|container-bytes", T::rust_name()), format!("elements={} {} vs {}", ordered, ord[0].0, s.0), format!("{} vs {}", hex(&ord[0].1), hex(&s.1)));
            }
        }
        // ... read through every target container
        for (src, b, is_ordered) in sources.iter() {
            let origin = format!("written as {} of {}", src, T::rust_name());
            if *is_ordered {
                expect::<Vec<T>>(b, &ordered, &origin, r, c, q);
                expect::<LinkedList<T>>(b, &ordered, &origin, r, c, q);
                match n {
                    0 => expect::<[T; 0]>(b, &ordered, &origin, r, c, q),
                    1 => expect::<[T; 1]>(b, &ordered, &origin, r, c, q),
                    3 => expect::<[T; 3]>(b, &ordered, &origin, r, c, q),
                    _ => {}
                }
                // an array of the wrong length must be rejected
                if n != 3 {
                    let case = format!("type=[{}; 3] bytes={} origin={}", T::rust_name(), hex(b), origin);
                    if let Out::Ok((v, _)) = impl_decode_rest::<[T; 3]>(b) {
                        c.fail("altform", "oracle", &format!("[{};3]|wrong-length", T::rust_name()), case, format!("decoded {} from {} elements", v.canon(), n));
                    }
                    case_bytes::<[T; 3]>(b, &origin, c, q, 0);
                }
            }
            expect::<HashSet<T>>(b, &as_set, &origin, r, c, q);
            expect::<BTreeSet<T>>(b, &as_set, &origin, r, c, q);
            if src.starts_with("unknown-length form") || src == "Vec" {
                prefixes_rejected::<Vec<T>>(b, &origin, c);
                prefixes_rejected::<LinkedList<T>>(b, &origin, c);
                prefixes_rejected::<BTreeSet<T>>(b, &origin, c);
                if n == 3 {
                    prefixes_rejected::<[T; 3]>(b, &origin, c);
                }
            }
        }
    }
}

/// every strict prefix of `b` must be rejected by target `D` (C08; the unknown-length form is only reachable here)
fn prefixes_rejected<D: V>(b: &[u8], origin: &str, c: &mut Collector) {
    for k in 0..b.len() {
        c.stat("prefix-cuts");
        match crate::cases::impl_decode::<D>(&b[..k]) {
            Out::Err(_) => {}
            other => {
                c.fail(
                    "prefix",
                    "oracle",
                    &format!("{}|prefix-altform", D::rust_name()),
                    format!("type={} bytes={} origin={} cut={}", D::rust_name(), hex(&b[..k]), origin, k),
                    format!("strict prefix of length {} of {} gave {}", k, hex(b), other.kind()),
                );
                break;
            }
        }
    }
}

/// element types without Hash/Ord: ordered containers only
fn elems_ordered<T: V + Clone>(r: &mut Rng, c: &mut Collector, q: &mut Vec<Pending>, rounds: usize) {
    for round in 0..rounds {
        let n = match round % 4 {
            0 => 0,
            1 => 2,
            _ => r.below(5) as usize,
        };
        let items: Vec<T> = (0..n).map(|_| T::gen(r, 1)).collect();
        c.eval();
        let ordered = list_canon(items.iter().map(|x| x.canon()).collect());
        for (src, b) in [("Vec", enc(&items)), ("unknown-length form", unknown_form(&items))] {
            if let Some(b) = b {
                let origin = format!("written as {} of {}", src, T::rust_name());
                expect::<Vec<T>>(&b, &ordered, &origin, r, c, q);
                if n == 2 {
                    expect::<[T; 2]>(&b, &ordered, &origin, r, c, q);
                } else {
                    case_bytes::<[T; 2]>(&b, &origin, c, q, 0);
                }
            }
        }
    }
}

/// lists of pairs as maps
fn pairs<K: V + Clone + Eq + std::hash::Hash + Ord, W: V + Clone>(r: &mut Rng, c: &mut Collector, q: &mut Vec<Pending>, rounds: usize) {
    for _ in 0..rounds {
        let n = r.below(5) as usize;
        let items: Vec<(K, W)> = (0..n).map(|_| (K::gen(r, 1), W::gen(r, 1))).collect();
        c.eval();
        let mut m: BTreeMap<String, String> = BTreeMap::new();
        for (k, v) in items.iter() {
            m.insert(k.canon(), v.canon());
        }
        let as_map = list_canon(m.into_iter().map(|(k, v)| format!("(l {} {})", k, v)).collect());
        let ordered = list_canon(items.iter().map(|(k, v)| format!("(l {} {})", k.canon(), v.canon())).collect());
        let mut sources: Vec<(String, Vec<u8>)> = vec![];
        if let Some(b) = enc(&items) {
            sources.push(("Vec of pairs".into(), b));
        }
        if let Some(b) = unknown_form(&items) {
            sources.push(("unknown-length form of pairs".into(), b));
        }
        if let Some(b) = enc(&items.iter().cloned().collect::<HashMap<K, W>>()) {
            sources.push(("HashMap".into(), b));
        }
        if let Some(b) = enc(&items.iter().cloned().collect::<BTreeMap<K, W>>()) {
            sources.push(("BTreeMap".into(), b));
        }
        for (src, b) in sources.iter() {
            let origin = format!("written as {} <{},{}>", src, K::rust_name(), W::rust_name());
            expect::<HashMap<K, W>>(b, &as_map, &origin, r, c, q);
            expect::<BTreeMap<K, W>>(b, &as_map, &origin, r, c, q);
            if src.contains("pairs") {
                expect::<Vec<(K, W)>>(b, &ordered, &origin, r, c, q);
            }
        }
    }
}

/// byte containers are interchangeable among themselves
fn byte_containers(r: &mut Rng, c: &mut Collector, q: &mut Vec<Pending>, rounds: usize) {
    for round in 0..rounds {
        let n = match round % 4 {
            0 => 0,
            1 => 4,
            2 => 17,
            _ => r.below(9) as usize,
        };
        let data: Vec<u8> = (0..n).map(|_| r.next() as u8).collect();
        c.eval();
        let want = format!("(b {})", hex(&data));
        let mut sources: Vec<(String, Vec<u8>)> = vec![];
        if let Some(b) = enc(&data) {
            sources.push(("Vec<u8>".into(), b));
        }
        if let Some(b) = enc(&bytes::Bytes::from(data.clone())) {
            sources.push(("Bytes".into(), b));
        }
        if let Out::Ok(b) = guarded(|| {
            let mut ctx = SerializationContext::new(Vec::<u8>::new());
            desert::BinarySerializer::serialize(&data[..], &mut ctx)?;
            Ok(ctx.into_output())
        }) {
            sources.push(("[u8]".into(), b));
        }
        if n == 4 {
            let arr: [u8; 4] = [data[0], data[1], data[2], data[3]];
            if let Some(b) = enc(&arr) {
                sources.push(("[u8; 4]".into(), b));
            }
        }
        for s in sources.iter().skip(1) {
            if s.1 != sources[0].1 {
                c.fail("container-bytes", "oracle", "bytes|container-bytes", format!("data={} {} vs {}", hex(&data), sources[0].0, s.0), format!("{} vs {}", hex(&sources[0].1), hex(&s.1)));
            }
        }
        for (src, b) in sources.iter() {
            let origin = format!("written as {}", src);
            expect::<Vec<u8>>(b, &want, &origin, r, c, q);
            expect::<bytes::Bytes>(b, &want, &origin, r, c, q);
            match n {
                0 => expect::<[u8; 0]>(b, &want, &origin, r, c, q),
                4 => expect::<[u8; 4]>(b, &want, &origin, r, c, q),
                17 => expect::<[u8; 17]>(b, &want, &origin, r, c, q),
                _ => case_bytes::<[u8; 4]>(b, &origin, c, q, 0),
            }
        }
    }
}

trait OutExt<T> {
    fn ok(self) -> Option<T>;
}
impl<T> OutExt<T> for Out<T> {
    fn ok(self) -> Option<T> {
        match self {
            Out::Ok(x) => Some(x),
            _ => None,
        }
    }
}

pub fn run(a: &Args) -> Collector {
    let mut c = Collector::new("altform");
    let mut q: Vec<Pending> = vec![];
    let mut r = Rng::new(a.seed);
    let rounds = if a.thorough { 200 } else { 14 };
    elems_full::<u16>(&mut r, &mut c, &mut q, rounds);
    elems_full::<i32>(&mut r, &mut c, &mut q, rounds);
    elems_full::<i8>(&mut r, &mut c, &mut q, rounds);
    elems_full::<u64>(&mut r, &mut c, &mut q, rounds);
    elems_full::<String>(&mut r, &mut c, &mut q, rounds);
    elems_full::<(u8, String)>(&mut r, &mut c, &mut q, rounds);
    elems_full::<Option<u8>>(&mut r, &mut c, &mut q, rounds);
    elems_full::<Vec<u8>>(&mut r, &mut c, &mut q, rounds);
    elems_full::<[u16; 2]>(&mut r, &mut c, &mut q, rounds);
    elems_full::<crate::v::DStr>(&mut r, &mut c, &mut q, rounds);
    elems_full::<bool>(&mut r, &mut c, &mut q, rounds);
    elems_ordered::<f64>(&mut r, &mut c, &mut q, rounds);
    elems_ordered::<Vec<String>>(&mut r, &mut c, &mut q, rounds);
    elems_ordered::<Result<u8, String>>(&mut r, &mut c, &mut q, rounds);
    elems_ordered::<std::time::Duration>(&mut r, &mut c, &mut q, rounds);
    pairs::<String, u32>(&mut r, &mut c, &mut q, rounds);
    pairs::<u8, Vec<String>>(&mut r, &mut c, &mut q, rounds);
    pairs::<(u8, u8), Option<String>>(&mut r, &mut c, &mut q, rounds);
    byte_containers(&mut r, &mut c, &mut q, rounds * 2);
    flush(&mut c, q, &[]);
    c
}
