//! Family `frame`: compressed blocks (C16). Contents: empty, incompressible, repetitive, sizes up to 256 KiB;
//! levels 0-9; sinks x sources; data after the frame; every truncation (sampled for large frames); bit
//! flips and header rewrites with the largest single allocation request observed by the counting allocator.
//! The model's frame reader is given the real inflate's answer for the payload the header selects.
use crate::cases::{guarded, Out, Pending, MAX_ALLOC};
use crate::collect::Collector;
use crate::rng::Rng;
use crate::sexp::hex;
use crate::{flush, Args};
use bytes::BytesMut;
use desert::{BinaryInput, BinaryOutput, DeserializationContext, OwnedInput, SliceInput};
use flate2::Compression;
use std::io::Read;
use std::sync::atomic::Ordering;

fn uv(n: u32) -> Vec<u8> {
    let mut v: Vec<u8> = vec![];
    v.write_var_u32(n);
    v
}

fn contents(r: &mut Rng, thorough: bool) -> Vec<Vec<u8>> {
    let mut out: Vec<Vec<u8>> = vec![vec![], vec![0], vec![0xff; 3], b"hello hello hello hello hello".to_vec()];
    for n in [1usize, 7, 64, 127, 128, 129, 1000, 16_384, 65_535, 65_536, 65_537] {
        out.push((0..n).map(|_| r.next() as u8).collect()); // incompressible
        out.push(vec![0xAB; n]); // highly repetitive
        out.push((0..n).map(|i| (i % 7) as u8).collect());
    }
    if thorough {
        out.push((0..262_144).map(|_| r.next() as u8).collect());
        out.push(vec![0; 262_144]);
    }
    out
}

/// what the real inflate says about a payload
fn real_inflate(z: &[u8]) -> Option<Vec<u8>> {
    let mut d = flate2::read::DeflateDecoder::new(z);
    let mut out = Vec::new();
    match std::panic::catch_unwind(std::panic::AssertUnwindSafe(|| d.read_to_end(&mut out))) {
        Ok(Ok(_)) => Some(out),
        _ => None,
    }
}

/// read a frame through one source, measuring the largest single allocation request
fn read_frame(kind: usize, frame: &[u8]) -> (Out<(Vec<u8>, usize)>, usize) {
    MAX_ALLOC.store(0, Ordering::Relaxed);
    let out = guarded(|| match kind {
        0 => {
            let mut s = SliceInput::new(frame);
            let d = s.read_compressed()?;
            Ok((d, s.pos))
        }
        1 => {
            let mut s = OwnedInput::new(frame.to_vec());
            let d = s.read_compressed()?;
            let mut left = 0;
            while s.read_u8().is_ok() {
                left += 1;
            }
            Ok((d, frame.len() - left))
        }
        _ => {
            let mut s = DeserializationContext::new(frame);
            let d = s.read_compressed()?;
            let mut left = 0;
            while s.read_u8().is_ok() {
                left += 1;
            }
            Ok((d, frame.len() - left))
        }
    });
    (out, MAX_ALLOC.load(Ordering::Relaxed))
}

fn model_check(frame: &[u8], impl_text: String, case: String, q: &mut Vec<Pending>) {
    // the payload the header selects, by the implementation's own var-int reader
    let mut s = SliceInput::new(frame);
    let payload: Option<Vec<u8>> = (|| {
        let _u = s.read_var_u32().ok()?;
        let c = s.read_var_u32().ok()? as usize;
        s.read_bytes(c).ok().map(|b| b.to_vec())
    })();
    let (ph, dh) = match &payload {
        Some(p) => (hex(p), match real_inflate(p) { Some(d) => hex(&d), None => "FAIL".to_string() }),
        None => ("-".to_string(), "FAIL".to_string()),
    };
    q.push(Pending {
        req: format!("cframe {} {} {}", hex(frame), ph, dh),
        check: Box::new(move |resp, c| {
            // compare outcome, data and consumption; drop the model's reservation figure
            let m = resp.rsplitn(2, ' ').collect::<Vec<_>>();
            let model_text = if resp.starts_with("ok ") { m[1].to_string() } else { resp.to_string() };
            if model_text == impl_text {
                c.stat("model-agree");
            } else {
                c.fail("frame-model", "corr", "frame|model", case, format!("impl {} model {}", impl_text, resp));
            }
        }),
    });
}

// ---- a frame as a field of a record with evolution steps: the chunk, not the whole input, bounds what it may read ----
#[derive(Debug, Clone, PartialEq)]
struct Zipped(Vec<u8>);

impl desert::BinarySerializer for Zipped {
    fn serialize<O: BinaryOutput>(&self, ctx: &mut desert::SerializationContext<O>) -> desert::Result<()> {
        ctx.write_compressed(&self.0, Compression::new(6))
    }
}

impl desert::BinaryDeserializer for Zipped {
    fn deserialize(ctx: &mut DeserializationContext<'_>) -> desert::Result<Self> {
        Ok(Zipped(ctx.read_compressed()?))
    }
}

#[derive(Debug, Clone, PartialEq, desert::BinaryCodec)]
#[evolution(FieldAdded("t", 0u8))]
struct ZHolder {
    z: Zipped,
    x: u8,
    t: u8,
}

fn frames_in_chunks(r: &mut Rng, c: &mut Collector) {
    for round in 0..24 {
        c.eval();
        let n = [0usize, 1, 7, 20, 33][round % 5];
        let content: Vec<u8> = (0..n).map(|i| if round % 2 == 0 { (i % 3) as u8 } else { r.next() as u8 }).collect();
        let v = ZHolder { z: Zipped(content.clone()), x: 0x5a, t: 0xa5 };
        let case = format!("frame-in-chunk content={} bytes", n);
        let b = match guarded(|| desert::serialize_to_byte_vec(&v)) {
            Out::Ok(b) => b,
            other => {
                c.fail("frame", "oracle", "frame|in-chunk-write", case, format!("encoder gave {}", other.kind()));
                continue;
            }
        };
        match guarded(|| desert::deserialize::<ZHolder>(&b)) {
            Out::Ok(d) if d == v => c.stat("frame-in-chunk-rt"),
            other => c.fail("frame", "oracle", "frame|in-chunk-rt", case.clone(), format!("decoding {} gave {}", hex(&b), other.kind())),
        }
        c.nontrivial(&case);
        // layout: 01, zz(c0), zz(c1), chunk 0 = frame ++ x, chunk 1 = t   (both sizes are one-byte var-ints here)
        let c0 = (b[1] / 2) as usize;
        if b[0] != 1 || b[1] % 2 != 0 || b[2] != 2 || b.len() != 3 + c0 + 1 || c0 >= 60 {
            c.fail("frame", "oracle", "frame|in-chunk-layout", case.clone(), format!("unexpected layout {}", hex(&b)));
            continue;
        }
        // the chunk ends k bytes early (the bytes are still in the input, in the next chunk): the frame is truncated by its chunk
        for k in 1..=c0.min(6) {
            let mut m = b.clone();
            m[1] = ((c0 - k) * 2) as u8;
            m[2] = ((1 + k) * 2) as u8;
            c.stat("frame-in-chunk-truncations");
            match guarded(|| desert::deserialize::<ZHolder>(&m)) {
                Out::Err(_) => {}
                other => c.fail("frame", "oracle", "frame|in-chunk-truncated", format!("{} chunk shortened by {}: {}", case, k, hex(&m)), format!("a frame (or the field after it) cut off by its chunk gave {}", other.kind())),
            }
        }
        // lengths inside the frame rewritten: an error or a value, never a panic
        for i in 3..(3 + c0.min(4)) {
            for d in [1u8, 2, 5, 0x20, 0x7f] {
                let mut m = b.clone();
                m[i] = m[i].wrapping_add(d);
                c.stat("frame-in-chunk-damaged");
                if let Out::Panic(msg) = guarded(|| desert::deserialize::<ZHolder>(&m)) {
                    c.fail("frame", "oracle", "frame|in-chunk-panic", format!("{} byte {} += {}: {}", case, i, d, hex(&m)), msg);
                }
            }
        }
    }
}

pub fn run(a: &Args) -> Collector {
    let mut c = Collector::new("frame");
    let mut q: Vec<Pending> = vec![];
    let mut r = Rng::new(a.seed);
    let datas = contents(&mut r, a.thorough);
    for (di, d) in datas.iter().enumerate() {
        for level in 0..=9u32 {
            if d.len() > 20_000 && !(level == 0 || level == 6 || level == 9) && !a.thorough {
                continue;
            }
            c.eval();
            let case = format!("content#{} len={} level={}", di, d.len(), level);
            // all sinks write the same frame, and it has the stated layout
            let mut fv: Vec<u8> = vec![];
            let mut fb = BytesMut::new();
            let mut fs = desert::SizeCalculator::new();
            let w1 = guarded(|| fv.write_compressed(d, Compression::new(level)));
            let w2 = guarded(|| fb.write_compressed(d, Compression::new(level)));
            let w3 = guarded(|| fs.write_compressed(d, Compression::new(level)));
            if !matches!((&w1, &w2, &w3), (Out::Ok(_), Out::Ok(_), Out::Ok(_))) {
                c.fail("frame", "oracle", "frame|write", case.clone(), format!("write_compressed: {} {} {}", w1.kind(), w2.kind(), w3.kind()));
                continue;
            }
            if fv[..] != fb[..] || fs.size() != fv.len() {
                c.fail("frame", "oracle", "frame|sinks", case.clone(), "sinks disagree".to_string());
            }
            // layout: uv(len d) ++ uv(len z) ++ z with z a raw deflate stream of d
            let h1 = uv(d.len() as u32);
            let ok_layout = fv.starts_with(&h1) && {
                let rest = &fv[h1.len()..];
                let mut s = SliceInput::new(rest);
                match s.read_var_u32() {
                    Ok(cl) => {
                        let z = &rest[s.pos..];
                        z.len() == cl as usize && real_inflate(z).as_deref() == Some(&d[..])
                    }
                    Err(_) => false,
                }
            };
            if !ok_layout {
                c.fail("frame", "oracle", "frame|layout", case.clone(), format!("frame {} does not have the layout uv(len) uv(clen) deflate", hex(&fv[..fv.len().min(24)])));
            }
            c.nontrivial(&case);
            if di < 4 && level == 6 {
                c.sample(format!("{} -> {}", case, hex(&fv[..fv.len().min(24)])));
            }
            // round trip through every source, with data after the frame
            let suffix: Vec<u8> = (0..r.below(4)).map(|_| r.next() as u8).collect();
            let mut buf = fv.clone();
            buf.extend_from_slice(&suffix);
            for kind in 0..3 {
                let (out, alloc) = read_frame(kind, &buf);
                match &out {
                    Out::Ok((got, used)) if got == d && *used == fv.len() => {}
                    other => c.fail("frame", "oracle", "frame|rt", format!("{} source#{}", case, kind), format!("read gave {} (consumed {:?} of frame {})", other.kind(), match other { Out::Ok((_, u)) => Some(*u), _ => None }, fv.len())),
                }
                if alloc > std::cmp::max(65_536, 2 * d.len()) + 65_536 {
                    c.fail("frame-alloc", "oracle", "frame|alloc", format!("{} source#{}", case, kind), format!("largest single allocation request {} bytes for {} bytes of data", alloc, d.len()));
                }
                if kind == 2 && d.len() <= 2000 {
                    let text = match &out {
                        Out::Ok((g, u)) => format!("ok {} {}", hex(g), u),
                        Out::Err(k) => format!("err {}", k),
                        Out::Panic(_) => "panic".into(),
                    };
                    model_check(&buf, text, format!("{} +suffix", case), &mut q);
                }
            }
            // truncations: every cut for small frames, sampled otherwise
            let cuts: Vec<usize> = if fv.len() <= 80 { (0..fv.len()).collect() } else { (0..40).map(|_| r.below(fv.len() as u64) as usize).chain(0..8).chain(fv.len() - 8..fv.len()).collect() };
            for k in cuts {
                c.stat("truncations");
                let (out, _) = read_frame(k % 3, &fv[..k]);
                match out {
                    Out::Err(_) => {}
                    other => {
                        c.fail("frame", "oracle", "frame|truncated", format!("{} cut={}", case, k), format!("truncated frame gave {}", other.kind()));
                        break;
                    }
                }
            }
            // damage: bit flips and header rewrites; anything but a panic or an oversized reservation is allowed
            if d.len() <= 20_000 {
                for _ in 0..(if a.thorough { 60 } else { 12 }) {
                    let mut m = fv.clone();
                    match r.below(4) {
                        0 => {
                            let i = r.below(m.len() as u64) as usize;
                            m[i] ^= 1 << r.below(8);
                        }
                        1 => {
                            // rewrite the uncompressed length to something absurd
                            let mut n = uv(*r.pick(&[u32::MAX, 1 << 31, 1 << 24, 0, d.len() as u32 + 1]));
                            n.extend_from_slice(&fv[h1.len()..]);
                            m = n;
                        }
                        2 => {
                            let i = r.below(m.len().min(8) as u64) as usize;
                            m[i] = *r.pick(&[0, 1, 0x7f, 0x80, 0xff]);
                        }
                        _ => {
                            let i = r.below(m.len() as u64) as usize;
                            m.truncate(i);
                            m.extend_from_slice(&[0xff, 0xff, 0xff, 0xff, 0x0f]);
                        }
                    }
                    c.stat("damaged");
                    let (out, alloc) = read_frame(r.below(3) as usize, &m);
                    let produced = match &out {
                        Out::Ok((g, _)) => g.len(),
                        _ => 0,
                    };
                    let dcase = format!("{} damaged={}", case, hex(&m[..m.len().min(40)]));
                    if let Out::Panic(msg) = &out {
                        c.fail("frame", "oracle", "frame|damage-panic", dcase.clone(), msg.clone());
                    }
                    // memory: whatever a damaged frame yields is exactly what its compressed part inflates to — never bytes
                    // that were not produced by the decompressor (C19: only initialised data taken from the input)
                    if let Out::Ok((got, _)) = &out {
                        let mut sl = SliceInput::new(&m);
                        if let (Ok(_n), Ok(cl)) = (sl.read_var_u32(), sl.read_var_u32()) {
                            let from = sl.pos;
                            if let Some(z) = m.get(from..from + cl as usize) {
                                match real_inflate(z) {
                                    Some(x) if &x == got => c.stat("damaged-output-is-inflate-output"),
                                    Some(x) => c.fail("memory", "oracle", "frame|foreign-bytes", dcase.clone(), format!("returned {} bytes, the compressed part inflates to {} bytes: the result contains bytes that did not come from the input", got.len(), x.len())),
                                    None => c.fail("memory", "oracle", "frame|foreign-bytes", dcase.clone(), format!("returned {} bytes although the compressed part does not inflate", got.len())),
                                }
                            }
                        }
                    }
                    if alloc > std::cmp::max(65_536, 2 * produced) + 65_536 + m.len() {
                        c.fail("frame-alloc", "oracle", "frame|damage-alloc", dcase.clone(), format!("largest single allocation request {} bytes, produced {}", alloc, produced));
                    }
                    if m.len() <= 600 {
                        let (out2, _) = read_frame(2, &m);
                        let text = match &out2 {
                            Out::Ok((g, u)) => format!("ok {} {}", hex(g), u),
                            Out::Err(k) => format!("err {}", k),
                            Out::Panic(_) => "panic".into(),
                        };
                        model_check(&m, text, dcase, &mut q);
                    }
                }
            }
        }
    }
    frames_in_chunks(&mut r, &mut c);
    // the six-byte frame that used to reserve 4 GiB
    {
        c.eval();
        let (out, alloc) = read_frame(0, &[0xff, 0xff, 0xff, 0xff, 0x0f, 0x00]);
        if alloc > 2 * 65_536 {
            c.fail("frame-alloc", "oracle", "frame|4gib", "frame=ffffffff0f00".to_string(), format!("largest single allocation request {} bytes ({})", alloc, out.kind()));
        }
    }
    flush(&mut c, q, &[]);
    c
}
