//! Runs the compiled Lean driver over a batch of request lines.
use std::io::{BufRead, BufReader, Write};
use std::process::{Command, Stdio};

pub fn model_path() -> String {
    std::env::var("DESERT_MODEL").unwrap_or_else(|_| "/verif/lean/.lake/build/bin/desert-model".to_string())
}

pub fn run_model(lines: &[String]) -> Vec<String> {
    // a generous stack: the model recurses once per decoded element
    let mut child = Command::new("sh")
        .arg("-c")
        .arg(format!("ulimit -s 4000000 2>/dev/null || ulimit -s unlimited 2>/dev/null; exec {}", model_path()))
        .stdin(Stdio::piped())
        .stdout(Stdio::piped())
        .spawn()
        .expect("cannot start the Lean model driver");
    let mut stdin = child.stdin.take().unwrap();
    let payload: String = lines.iter().map(|l| format!("{}\n", l)).collect();
    let writer = std::thread::spawn(move || {
        let _ = stdin.write_all(payload.as_bytes());
    });
    let out = BufReader::new(child.stdout.take().unwrap());
    let res: Vec<String> = out.lines().map(|l| l.unwrap()).collect();
    writer.join().unwrap();
    let _ = child.wait();
    assert_eq!(res.len(), lines.len(), "model driver answered {} of {} requests", res.len(), lines.len());
    res
}
