//! Families over the generated declarations (src/generated/decls.rs):
//!  `decl`  same-definition round trips, byte equality with the model's interpretation of the
//!          declaration (translation validation of the macro expansion), transient fields,
//!          constructor indices, tampered encodings;
//!  `hist`  every (writer, reader) version pair of every generated history, top level and
//!          embedded between siblings, with all cut points;
//!  `ext`   enum extension pairs.
use crate::cases::{case_bytes, case_value, impl_decode, impl_decode_rest, impl_encode, Out, Pending, ValueOpts};
use crate::collect::Collector;
use crate::fam_builtin::{mutate, systematic};
use crate::generated::decls::{env_lines, visit_decls, visit_exts, visit_hists, DeclVisitor};
use crate::rng::Rng;
use crate::sexp::hex;
use crate::v::{VaryTransient, V};
use crate::{flush, Args};

struct Vis<'a> {
    r: Rng,
    c: &'a mut Collector,
    q: Vec<Pending>,
    values: usize,
    mode: &'static str,
    idx: u64,
    tamper_values: usize,
}

impl<'a> DeclVisitor for Vis<'a> {
    fn version<T: V + VaryTransient>(&mut self) {
        // every version of every history is also a declaration of its own (fewer values: there are many)
        let (v, t) = (self.values, self.tamper_values);
        self.values = (v / 3).max(6);
        self.tamper_values = t.min(2);
        self.decl::<T>();
        self.values = v;
        self.tamper_values = t;
    }

    fn decl<T: V + VaryTransient>(&mut self) {
        if self.mode != "decl" {
            return;
        }
        self.idx += 1;
        let mut r = self.r.fork(self.idx);
        let name = T::rust_name();
        self.c.stat(&format!("type:{}", name));
        let o = ValueOpts { prefixes: true, max_prefixes: 64, env_sig: String::new() };
        for i in 0..self.values {
            let d = 1 + (i % 3) as u32;
            let v = T::gen(&mut r, d);
            case_value::<T>(&v, &mut r, self.c, &mut self.q, &o);
            let enc = impl_encode(&v);
            if T::HAS_TRANSIENT {
                // two values that differ only in transient fields encode identically
                let v2 = v.vary_transient(&mut r);
                let e2 = impl_encode(&v2);
                self.c.stat("transient-variations");
                let same = match (&enc, &e2) {
                    (Out::Ok(a), Out::Ok(b)) => a == b,
                    (Out::Err(a), Out::Err(b)) => a == b,
                    _ => false,
                };
                if !same {
                    self.c.fail(
                        "transient-bytes",
                        "oracle",
                        &format!("{}|transient-bytes", name),
                        format!("type={} value={} varied={}", name, v.show(), v2.show()),
                        "encodings differ although the values differ only in transient fields".to_string(),
                    );
                }
            }
            if let Out::Ok(b) = &enc {
                if i < 6 {
                    crate::cases::future_version_case::<T>(&v, b, self.c, &mut self.q);
                }
            }
            // tampered encodings of derived types (C05/C06): systematic edits of a few values, random ones of the rest
            if let Out::Ok(b) = &enc {
                if T::raw_ok() && i < self.tamper_values {
                    systematic::<T>(b, self.c, &mut self.q);
                }
                if T::raw_ok() && i % 2 == 0 {
                    for _ in 0..3 {
                        let m = mutate(&mut r, b);
                        case_bytes::<T>(&m, "mutant", self.c, &mut self.q, 0);
                    }
                }
            }
        }
        // constructor indices / version bytes beyond what the definition knows
        if T::raw_ok() {
            for idx in [0u8, 1, 2, 3, 4, 5, 6, 7, 9, 0x7f] {
                case_bytes::<T>(&[0, idx], "ctor-index", self.c, &mut self.q, 0);
                case_bytes::<T>(&[0, idx, 0], "ctor-index", self.c, &mut self.q, 0);
                case_bytes::<T>(&[0, idx, 0, 0, 0, 0, 0, 0, 0, 0, 0, 0], "ctor-index", self.c, &mut self.q, 0);
            }
            case_bytes::<T>(&[0, 0xff, 0xff, 0xff, 0xff, 0x0f], "ctor-index", self.c, &mut self.q, 0);
            case_bytes::<T>(&[0, 0x80, 0x01, 0], "ctor-index", self.c, &mut self.q, 0);
        }
    }

    fn pair<W: V, R: V>(&mut self, hist: &str, w: usize, r: usize, lacks_chunk0: bool, pinned: Vec<W>) {
        if self.mode != "hist" {
            return;
        }
        self.idx += 1;
        let mut rng = self.r.fork(self.idx);
        self.c.stat(&format!("pair:w{}r{}", w.min(3), r.min(3)));
        // stored version 0 carries no sizes: a reader that dropped a chunk-0 field cannot skip it (DESIGN 9.1)
        let framed = w >= 1 || !lacks_chunk0;
        // hand-picked values of the history first (they make the known finding D17 appear on every run), then random ones
        let mut pinned = pinned;
        pinned.reverse();
        for i in 0..(self.values + pinned.len()) {
            let v = match pinned.pop() {
                Some(p) => p,
                None => W::gen(&mut rng, 1 + (i % 3) as u32),
            };
            let bytes = match impl_encode(&v) {
                Out::Ok(b) => b,
                other => {
                    // a version that cannot write its own values: compared with the model's encoder, never skipped silently
                    self.c.stat("pair-writer-failed");
                    if w == r {
                        let o = ValueOpts { prefixes: false, max_prefixes: 0, env_sig: String::new() };
                        case_value::<W>(&v, &mut rng, self.c, &mut self.q, &o);
                    }
                    let _ = other;
                    continue;
                }
            };
            let origin = format!("hist={} writer=v{} reader=v{} value={}", hist, w, r, v.show());
            // the documented outcome table (Desert/Evolution.lean `expectedRead`) and the operational model
            {
                let impl_out = match crate::cases::impl_decode::<R>(&bytes) {
                    Out::Ok(x) => format!("ok {}", x.canon()),
                    Out::Err(k) => format!("err {}", k),
                    Out::Panic(_) => "panic".to_string(),
                };
                let wn = W::rust_name();
                let rn = R::rust_name();
                let org = origin.clone();
                let vtext = v.show();
                self.q.push(Pending {
                    req: format!("hist {} {} {}", wn, rn, vtext),
                    check: Box::new(move |resp, c| {
                        let parts: Vec<&str> = resp.split(" ## ").collect();
                        if parts.len() != 4 {
                            c.fail("harness", "corr", "hist|bad-response", org, resp.to_string());
                            return;
                        }
                        let canon_of = |t: &str| -> String {
                            if let Some(rest) = t.strip_prefix("ok ") {
                                match crate::sexp::parse_all(rest).and_then(|l| l.first().and_then(|x| R::canon_sexp(x))) {
                                    Some(cv) => format!("ok {}", cv),
                                    None => format!("unparsable {}", t),
                                }
                            } else {
                                t.to_string()
                            }
                        };
                        let expected = canon_of(parts[0]);
                        // the operational model's outcome (enc with the writer's, dec with the reader's declaration)
                        let op_text = parts[1].split(" abs=").next().unwrap_or("");
                        let operational = canon_of(op_text);
                        // is this (writer, reader) pair inside the hypothesis of C03.evolution_outcome?
                        let class = parts[3];
                        if class == "aligned" {
                            c.stat("cases-of-aligned-pairs");
                        } else {
                            c.stat("cases-of-unaligned-pairs");
                            c.stat(&format!("unaligned-pair:{}>{}:{}", wn, rn, class));
                        }
                        if expected == impl_out {
                            c.stat("table-agree");
                        } else if class == "not-aligned:passed-over-dedup-string" && operational == impl_out {
                            // finding D17: the reader passes over a field that may hold the first occurrence of a deduplicated
                            // string; implementation and operational model agree with each other, not with the documented outcome
                            c.fail("table", "corr", "passed-over-dedup-string|table", format!("type={} origin={}", rn, org), format!("implementation {} documented outcome {}", impl_out, expected));
                        } else {
                            c.fail("table", "corr", &format!("{}>{}|table", wn, rn), format!("type={} origin={}", rn, org), format!("implementation {} documented outcome {}", impl_out, expected));
                        }
                        if parts[2] != "one-history" {
                            c.fail("harness", "corr", "hist|not-one-history", org, resp.to_string());
                        }
                    }),
                });
            }
            // top level, with following data
            let suffix: Vec<u8> = (0..rng.below(4)).map(|_| *rng.pick(&[0u8, 1, 0x7f, 0xff])).collect();
            let mut buf = bytes.clone();
            buf.extend_from_slice(&suffix);
            case_bytes::<R>(&buf, &origin, self.c, &mut self.q, 0);
            if framed {
                // no disturbance of what follows the record (C03, C07)
                if let Out::Ok((_, rest)) = impl_decode_rest::<R>(&buf) {
                    if rest != suffix {
                        self.c.fail(
                            "cross-consume",
                            "oracle",
                            &format!("{}|w{}r{}|cross-consume", hist, w, r),
                            format!("type={} bytes={} origin={}", R::rust_name(), hex(&buf), origin),
                            format!("left {} expected {}", hex(&rest), hex(&suffix)),
                        );
                    }
                }
                // truncation is detected under every definition (C08)
                for k in 0..bytes.len() {
                    self.c.stat("prefix-cuts");
                    match impl_decode::<R>(&bytes[..k]) {
                        Out::Err(_) => {}
                        other => {
                            self.c.fail(
                                "cross-prefix",
                                "oracle",
                                &format!("{}|w{}r{}|cross-prefix", hist, w, r),
                                format!("type={} bytes={} origin={} cut={}", R::rust_name(), hex(&bytes[..k]), origin, k),
                                format!("strict prefix of length {} of {} gave {}", k, hex(&bytes), other.kind()),
                            );
                            break;
                        }
                    }
                }
                // embedded between siblings
                let a = rng.next() as u16;
                let s = crate::v::gen_string(&mut rng);
                if let Out::Ok(eb) = impl_encode(&(a, W::gen(&mut Rng(0), 0), s.clone())) {
                    let _ = eb;
                }
                let holder = (a, v, s);
                if let Out::Ok(eb) = impl_encode(&holder) {
                    case_bytes::<(u16, R, String)>(&eb, &format!("embedded {}", origin), self.c, &mut self.q, 0);
                }
            }
        }
    }

    fn ext<E1: V, E2: V>(&mut self, n_old: usize) {
        if self.mode != "decl" {
            return;
        }
        self.idx += 1;
        let mut r = self.r.fork(self.idx);
        for _ in 0..self.values * 3 {
            // old data under the extended definition means the same
            let v = E1::gen(&mut r, 2);
            if let Out::Ok(b) = impl_encode(&v) {
                self.c.eval();
                let case = format!("type={} bytes={} origin=extension of {} value={}", E2::rust_name(), hex(&b), E1::rust_name(), v.show());
                match impl_decode::<E2>(&b) {
                    Out::Ok(v2) => match impl_encode(&v2) {
                        Out::Ok(b2) if b2 == b => self.c.stat("ext-same"),
                        other => self.c.fail("ext", "oracle", &format!("{}|ext", E2::rust_name()), case.clone(), format!("decoded {} re-encodes to {}", v2.show(), other.kind())),
                    },
                    other => self.c.fail("ext", "oracle", &format!("{}|ext", E2::rust_name()), case.clone(), format!("extended definition gave {}", other.kind())),
                }
                case_bytes::<E2>(&b, "extension", self.c, &mut self.q, 0);
            }
            // new constructors are unknown to the old definition
            let v = E2::gen(&mut r, 2);
            if let Out::Ok(b) = impl_encode(&v) {
                self.c.eval();
                let wire = b.get(1).copied().unwrap_or(0) as usize;
                if wire >= n_old {
                    let case = format!("type={} bytes={} origin=new constructor of {} value={}", E1::rust_name(), hex(&b), E2::rust_name(), v.show());
                    match impl_decode::<E1>(&b) {
                        Out::Err(k) if k.starts_with("InvalidConstructorId") => self.c.stat("ext-unknown-rejected"),
                        Out::Err(k) => self.c.fail("ext", "oracle", &format!("{}|ext-errkind", E1::rust_name()), case, format!("rejected with {}", k)),
                        Out::Ok(x) => self.c.fail("ext", "oracle", &format!("{}|ext-accepted", E1::rust_name()), case, format!("decoded {}", x.show())),
                        Out::Panic(m) => self.c.fail("ext", "oracle", &format!("{}|ext-panic", E1::rust_name()), case, m),
                    }
                }
                case_bytes::<E1>(&b, "extension-reverse", self.c, &mut self.q, 0);
            }
        }
    }
}

fn run_mode(a: &Args, mode: &'static str) -> Collector {
    let mut c = Collector::new(mode);
    let values = match (mode, a.thorough) {
        ("decl", false) => 30,
        ("decl", true) => 150,
        (_, false) => 8,
        (_, true) => 60,
    };
    let mut vis = Vis { r: Rng::new(a.seed), c: &mut c, q: vec![], values, mode, idx: 0, tamper_values: if a.thorough { 16 } else { 4 } };
    if mode == "decl" {
        visit_decls(&mut vis);
        visit_exts(&mut vis);
    } else {
        visit_hists(&mut vis);
    }
    let mut q = std::mem::take(&mut vis.q);
    // which of the generated declarations satisfy the hypothesis (declWFb) of the round-trip theorems
    q.push(crate::cases::Pending {
        req: "wfall".to_string(),
        check: Box::new(|resp: &str, c: &mut Collector| {
            let mut wf = 0u64;
            let mut outside: Vec<String> = vec![];
            for tok in resp.split_whitespace() {
                if let Some(n) = tok.strip_prefix("wf=") {
                    wf = n.parse().unwrap_or(0);
                } else if let Some(n) = tok.strip_prefix("decodable=") {
                    // hypothesis of C05.decode_never_panics on the generated environment
                    *c.stats.entry(format!("env-decodable-{}", n)).or_insert(0) += 1;
                    if n != "true" {
                        c.fail("harness", "corr", "wfall|not-decodable", "wfall".into(), resp.to_string());
                    }
                } else if let Some(n) = tok.strip_prefix("outside=") {
                    if !n.is_empty() {
                        outside.push(n.to_string());
                    }
                } else if tok != "ok" {
                    outside.push(tok.to_string());
                }
            }
            if !resp.starts_with("ok ") {
                c.fail("harness", "corr", "wfall", "wfall".into(), resp.to_string());
            }
            *c.stats.entry("decls-satisfying-declWFb".to_string()).or_insert(0) += wf;
            *c.stats.entry("decls-outside-declWFb".to_string()).or_insert(0) += outside.len() as u64;
            for n in outside {
                c.stat(&format!("outside-declWFb:{}", n));
            }
        }),
    });
    flush(&mut c, q, &env_lines());
    c
}

pub fn run_decl(a: &Args) -> Collector {
    run_mode(a, "decl")
}

pub fn run_hist(a: &Args) -> Collector {
    run_mode(a, "hist")
}
