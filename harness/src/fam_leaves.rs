//! Family `leaves`: the chrono / big-number leaf codecs against the model, through *wire descriptions*.
//!
//! The model has no calendar, no zone-name table and no decimal parser, so these types are not `Ty` leaves. But each of
//! them is laid out as a fixed sequence of primitives the model does have, and a headerless sequence of fields is what
//! the model's tuple encoder produces after its version byte. So for every leaf `T` there is a model type `D(T)` — a
//! tuple of primitives, or one primitive — and a total map `comps : T -> Val(D(T))` through the library type's public
//! accessors, such that
//!
//!   * `serialize(v)`                 = model `enc D(T) (comps v)` without its leading `0`   (layout, C04),
//!   * model `dec D(T) (0 ++ bytes)`  = `comps v`, consuming everything                      (C01's theorem then applies to `D(T)`),
//!   * on any byte string: the implementation returns `Ok(v)` only if the model decodes `comps v` with the same
//!     consumption (C06), never panics (C05), and rejects only what the model rejects or what the library type's own
//!     validating constructor rejects (`from_comps`, the part named as outside the model in DESIGN section 7).
use crate::cases::{impl_decode_rest, impl_encode, Out, Pending};
use crate::collect::Collector;
use crate::fam_builtin::{mutate, ALPHABET};
use crate::rng::Rng;
use crate::sexp::{hex, parse_all, unhex, Sexp};
use crate::v::V;
use crate::{flush, Args};
use chrono::{DateTime, Datelike, FixedOffset, Local, NaiveDate, NaiveDateTime, NaiveTime, TimeZone, Timelike, Utc};
use chrono_tz::Tz;
use std::str::FromStr;

type BigInt = bigdecimal::num_bigint::BigInt;

const NDT: &str = "varu32 u8 u8 u8 u8 u8 varu32";

fn ints(x: &[Sexp]) -> Option<Vec<i128>> {
    x.iter().map(|s| s.tagged("i").and_then(|a| if a.len() == 1 { a[0].atom()?.parse::<i128>().ok() } else { None })).collect()
}

fn hex_of(x: &Sexp, tag: &str) -> Option<Vec<u8>> {
    let a = x.tagged(tag)?;
    match a.len() {
        0 => Some(vec![]),
        1 => unhex(&a[0].atom()?.to_lowercase()),
        _ => None,
    }
}

fn date_text(d: &NaiveDate) -> String {
    format!("(i {}) (i {}) (i {})", d.year() as u32, d.month(), d.day())
}

fn time_text(t: &NaiveTime) -> String {
    format!("(i {}) (i {}) (i {}) (i {})", t.hour(), t.minute(), t.second(), t.nanosecond())
}

fn date_of(a: &[i128]) -> Option<NaiveDate> {
    NaiveDate::from_ymd_opt(a[0] as u32 as i32, a[1] as u32, a[2] as u32)
}

fn time_of(a: &[i128]) -> Option<NaiveTime> {
    NaiveTime::from_hms_nano_opt(a[0] as u32, a[1] as u32, a[2] as u32, a[3] as u32)
}

fn ndt_of(a: &[i128]) -> Option<NaiveDateTime> {
    Some(NaiveDateTime::new(date_of(&a[0..3])?, time_of(&a[3..7])?))
}

pub trait Leaf: V + PartialEq + Clone + 'static {
    /// the model type; `wrapped`: it is a tuple, whose encoding carries a leading version byte the leaf does not have
    fn model_ty() -> String;
    fn wrapped() -> bool {
        true
    }
    fn comps(&self) -> String;
    /// every value has one encoding (false: several byte strings denote the same value — leading sign bytes of a
    /// BigInt, spellings of a decimal — and accepted inputs are compared through `from_comps` instead)
    fn canonical() -> bool {
        true
    }
    /// the library's validating constructor on components decoded by the model:
    /// None = not even of the right shape (a harness / model error), Some(None) = the library rejects them
    fn from_comps(x: &Sexp) -> Option<Option<Self>>;
    /// directed byte strings: the parts at the edges of the library's ranges, combined (values the writer can never
    /// produce because the combined object does not exist)
    fn edge_cases() -> Vec<Vec<u8>> {
        vec![]
    }
}

fn ser<T: desert::BinarySerializer>(v: &T) -> Vec<u8> {
    desert::serialize_to_byte_vec(v).unwrap_or_default()
}

fn edge_naive() -> Vec<Vec<u8>> {
    let dates = [
        NaiveDate::MAX,
        NaiveDate::MIN,
        NaiveDate::from_ymd_opt(262_142, 12, 30).unwrap(),
        NaiveDate::from_ymd_opt(-262_143, 1, 2).unwrap(),
        NaiveDate::from_ymd_opt(1970, 1, 1).unwrap(),
        NaiveDate::from_ymd_opt(0, 2, 29).unwrap(),
    ];
    let times = [
        NaiveTime::from_hms_nano_opt(23, 59, 59, 1_999_999_999).unwrap(),
        NaiveTime::from_hms_nano_opt(23, 59, 59, 0).unwrap(),
        NaiveTime::from_hms_nano_opt(0, 0, 0, 0).unwrap(),
        NaiveTime::from_hms_nano_opt(12, 0, 0, 5).unwrap(),
    ];
    let mut out = vec![];
    for d in dates.iter() {
        for t in times.iter() {
            let mut b = ser(d);
            b.extend(ser(t));
            out.push(b);
        }
    }
    out
}

fn edge_with_offsets() -> Vec<Vec<u8>> {
    let mut out = vec![];
    for n in edge_naive() {
        for o in [0, 1, -1, 3600, -3600, 86_399, -86_399, 50_400, -43_200] {
            let mut b = n.clone();
            b.extend(ser(&FixedOffset::east_opt(o).unwrap()));
            out.push(b);
        }
    }
    out
}

fn edge_with_zones() -> Vec<Vec<u8>> {
    let mut out = vec![];
    for n in edge_naive() {
        for z in [Tz::UTC, Tz::Asia__Tokyo, Tz::America__Los_Angeles, Tz::Pacific__Kiritimati, Tz::Pacific__Niue, Tz::Europe__Budapest] {
            let mut b = n.clone();
            b.extend(ser(&z));
            out.push(b);
        }
    }
    out
}

impl Leaf for NaiveDate {
    fn model_ty() -> String {
        "(tup varu32 u8 u8)".into()
    }
    fn comps(&self) -> String {
        format!("(l {})", date_text(self))
    }
    fn from_comps(x: &Sexp) -> Option<Option<Self>> {
        let a = ints(x.tagged("l")?)?;
        if a.len() != 3 {
            return None;
        }
        Some(date_of(&a))
    }
}

impl Leaf for NaiveTime {
    fn model_ty() -> String {
        "(tup u8 u8 u8 varu32)".into()
    }
    fn comps(&self) -> String {
        format!("(l {})", time_text(self))
    }
    fn from_comps(x: &Sexp) -> Option<Option<Self>> {
        let a = ints(x.tagged("l")?)?;
        if a.len() != 4 {
            return None;
        }
        Some(time_of(&a))
    }
}

impl Leaf for NaiveDateTime {
    fn model_ty() -> String {
        format!("(tup {})", NDT)
    }
    fn comps(&self) -> String {
        format!("(l {} {})", date_text(&self.date()), time_text(&self.time()))
    }
    fn from_comps(x: &Sexp) -> Option<Option<Self>> {
        let a = ints(x.tagged("l")?)?;
        if a.len() != 7 {
            return None;
        }
        Some(ndt_of(&a))
    }
    fn edge_cases() -> Vec<Vec<u8>> {
        edge_naive()
    }
}

impl Leaf for DateTime<Local> {
    fn model_ty() -> String {
        format!("(tup {})", NDT)
    }
    fn comps(&self) -> String {
        format!("(l {} {})", date_text(&self.date_naive()), time_text(&self.time()))
    }
    fn from_comps(x: &Sexp) -> Option<Option<Self>> {
        let a = ints(x.tagged("l")?)?;
        if a.len() != 7 {
            return None;
        }
        Some(ndt_of(&a).and_then(|n| Local.from_local_datetime(&n).single()))
    }
    fn edge_cases() -> Vec<Vec<u8>> {
        edge_naive()
    }
}

impl Leaf for DateTime<Utc> {
    fn model_ty() -> String {
        "(tup i64 u32)".into()
    }
    fn comps(&self) -> String {
        format!("(l (i {}) (i {}))", self.timestamp(), self.timestamp_subsec_nanos())
    }
    fn from_comps(x: &Sexp) -> Option<Option<Self>> {
        let a = ints(x.tagged("l")?)?;
        if a.len() != 2 {
            return None;
        }
        Some(DateTime::<Utc>::from_timestamp(a[0] as i64, a[1] as u32))
    }
}

impl Leaf for DateTime<FixedOffset> {
    fn model_ty() -> String {
        format!("(tup {} fixedoffset)", NDT)
    }
    fn comps(&self) -> String {
        let n = self.naive_local();
        format!("(l {} {} (i {}))", date_text(&n.date()), time_text(&n.time()), self.offset().local_minus_utc())
    }
    fn from_comps(x: &Sexp) -> Option<Option<Self>> {
        let a = ints(x.tagged("l")?)?;
        if a.len() != 8 {
            return None;
        }
        Some(ndt_of(&a).and_then(|n| FixedOffset::east_opt(a[7] as i32).and_then(|o| o.from_local_datetime(&n).single())))
    }
    fn edge_cases() -> Vec<Vec<u8>> {
        edge_with_offsets()
    }
}

fn tz_of(tag: &Sexp, name: &Sexp) -> Option<Option<Tz>> {
    let t = ints(std::slice::from_ref(tag))?;
    let n = hex_of(name, "s")?;
    if t[0] != 1 {
        return Some(None);
    }
    Some(String::from_utf8(n).ok().and_then(|s| Tz::from_str(&s).ok()))
}

impl Leaf for Tz {
    fn model_ty() -> String {
        "(tup u8 string)".into()
    }
    fn comps(&self) -> String {
        format!("(l (i 1) (s {}))", hex(self.name().as_bytes()))
    }
    fn from_comps(x: &Sexp) -> Option<Option<Self>> {
        let l = x.tagged("l")?;
        if l.len() != 2 {
            return None;
        }
        tz_of(&l[0], &l[1])
    }
}

impl Leaf for DateTime<Tz> {
    fn model_ty() -> String {
        format!("(tup {} u8 string)", NDT)
    }
    fn comps(&self) -> String {
        let n = self.naive_utc();
        format!("(l {} {} (i 1) (s {}))", date_text(&n.date()), time_text(&n.time()), hex(self.timezone().name().as_bytes()))
    }
    fn from_comps(x: &Sexp) -> Option<Option<Self>> {
        let l = x.tagged("l")?;
        if l.len() != 9 {
            return None;
        }
        let a = ints(&l[0..7])?;
        let tz = tz_of(&l[7], &l[8])?;
        Some(ndt_of(&a).and_then(|n| tz.map(|tz| tz.from_utc_datetime(&n))))
    }
    fn edge_cases() -> Vec<Vec<u8>> {
        edge_with_zones()
    }
}

impl Leaf for BigInt {
    fn model_ty() -> String {
        "bytes".into()
    }
    fn wrapped() -> bool {
        false
    }
    fn canonical() -> bool {
        false
    }
    fn comps(&self) -> String {
        format!("(b {})", hex(&self.to_signed_bytes_be()))
    }
    fn from_comps(x: &Sexp) -> Option<Option<Self>> {
        Some(Some(BigInt::from_signed_bytes_be(&hex_of(x, "b")?)))
    }
}

impl Leaf for bigdecimal::BigDecimal {
    fn model_ty() -> String {
        "string".into()
    }
    fn wrapped() -> bool {
        false
    }
    fn canonical() -> bool {
        false
    }
    fn comps(&self) -> String {
        format!("(s {})", hex(self.to_string().as_bytes()))
    }
    fn from_comps(x: &Sexp) -> Option<Option<Self>> {
        let b = hex_of(x, "s")?;
        Some(String::from_utf8(b).ok().and_then(|s| bigdecimal::BigDecimal::from_str(&s).ok()))
    }
}

/// canonical text of a model value: lower case, `-` for an empty byte string
fn canon(x: &Sexp) -> String {
    match x {
        Sexp::Atom(a) => a.to_lowercase(),
        Sexp::List(l) => {
            let mut parts: Vec<String> = l.iter().map(canon).collect();
            if parts.len() == 1 && (parts[0] == "s" || parts[0] == "b") {
                parts.push("-".into());
            }
            format!("({})", parts.join(" "))
        }
    }
}

fn canon_text(s: &str) -> String {
    parse_all(s).map(|l| l.iter().map(canon).collect::<Vec<_>>().join(" ")).unwrap_or_else(|| format!("<unparsable {}>", s))
}

/// model `dec` response -> Ok((value, consumed)) / Err(kind) / Panic / Bad
enum MDec {
    Ok(Sexp, usize),
    Err(String),
    Panic,
    Bad,
}

fn parse_dec(resp: &str) -> (MDec, bool) {
    let abs_same = resp.ends_with(" abs=same") || resp.ends_with(" abs=by-theorem");
    let body = match resp.rfind(" abs=") {
        Some(i) => &resp[..i],
        None => resp,
    };
    if let Some(r) = body.strip_prefix("ok ") {
        if let Some(i) = r.rfind(' ') {
            if let (Ok(n), Some(l)) = (r[i + 1..].parse::<usize>(), parse_all(&r[..i])) {
                if l.len() == 1 {
                    return (MDec::Ok(l[0].clone(), n), abs_same);
                }
            }
        }
        (MDec::Bad, abs_same)
    } else if let Some(r) = body.strip_prefix("err ") {
        (MDec::Err(r.to_string()), abs_same)
    } else if body.starts_with("panic") {
        (MDec::Panic, abs_same)
    } else {
        (MDec::Bad, abs_same)
    }
}

fn with_head<T: Leaf>(b: &[u8]) -> (Vec<u8>, usize) {
    if T::wrapped() {
        let mut m = vec![0u8];
        m.extend_from_slice(b);
        (m, 1)
    } else {
        (b.to_vec(), 0)
    }
}

fn value_case<T: Leaf>(v: &T, r: &mut Rng, c: &mut Collector, q: &mut Vec<Pending>) {
    c.eval();
    let name = T::rust_name();
    let comps = canon_text(&v.comps());
    let case_id = format!("type={} value={} components={}", name, v.show(), comps);
    let bytes = match impl_encode(v) {
        Out::Ok(b) => b,
        Out::Err(k) => {
            c.fail("enc-outcome", "oracle", &format!("{}|leaf-enc", name), case_id, format!("encoding a valid value failed: {}", k));
            return;
        }
        Out::Panic(m) => {
            c.fail("enc-panic", "oracle", &format!("{}|enc-panic", name), case_id, m);
            return;
        }
    };
    c.nontrivial(&format!("{}|{}", name, comps));
    c.sample(format!("{} -> {}", case_id, hex(&bytes)));
    // layout: the model's encoding of the components
    let (expect, head) = with_head::<T>(&bytes);
    {
        let (cid, nm, want) = (case_id.clone(), name.clone(), format!("ok {}", hex(&expect)));
        q.push(Pending {
            req: format!("enc {} {}", T::model_ty(), v.comps()),
            check: Box::new(move |resp, c| {
                if resp == want {
                    c.stat("layout-agree");
                } else {
                    c.fail("bytes", "corr", &format!("{}|layout", nm), cid, format!("impl {} (after the description's version byte) model {}", want, resp));
                }
            }),
        });
    }
    // round trip and consumption on the implementation
    let sl = r.below(5) as usize;
    let suffix: Vec<u8> = (0..sl).map(|_| *r.pick(&[0u8, 1, 0x7f, 0x80, 0xff])).collect();
    let mut buf = bytes.clone();
    buf.extend_from_slice(&suffix);
    match impl_decode_rest::<T>(&buf) {
        Out::Ok((v2, rest)) => {
            if v2 != *v {
                c.fail("rt", "oracle", &format!("{}|rt", name), case_id.clone(), format!("bytes {} decoded {}", hex(&bytes), v2.show()));
            }
            if rest != suffix {
                c.fail("consume", "oracle", &format!("{}|consume", name), case_id.clone(), format!("buffer {} left {}", hex(&buf), hex(&rest)));
            }
        }
        Out::Err(k) => c.fail("rt", "oracle", &format!("{}|rt", name), case_id.clone(), format!("bytes {} decode error {}", hex(&bytes), k)),
        Out::Panic(m) => c.fail("rt", "oracle", &format!("{}|rt", name), case_id.clone(), format!("bytes {} decode panic {}", hex(&bytes), m)),
    }
    // the model decodes the implementation's bytes (+ suffix) to the components
    {
        let (mbuf, _) = with_head::<T>(&buf);
        let (cid, nm, want_n) = (case_id.clone(), name.clone(), bytes.len() + head);
        q.push(Pending {
            req: format!("dec {} {}", T::model_ty(), hex(&mbuf)),
            check: Box::new(move |resp, c| {
                let (m, abs_same) = parse_dec(resp);
                if !abs_same {
                    c.fail("abs-diff", "corr", &format!("{}|abs-diff", nm), cid.clone(), resp.to_string());
                }
                match m {
                    MDec::Ok(x, n) if canon(&x) == comps && n == want_n => c.stat("dec-agree"),
                    _ => c.fail("dec-model", "corr", &format!("{}|dec-model", nm), cid, format!("expected {} consumed {} model {}", comps, want_n, resp)),
                }
            }),
        });
    }
}

fn bytes_case<T: Leaf>(b: &[u8], origin: &str, c: &mut Collector, q: &mut Vec<Pending>) {
    c.eval();
    let name = T::rust_name();
    let case_id = format!("type={} bytes={} origin={}", name, hex(b), origin);
    crate::progress(&case_id);
    let out = impl_decode_rest::<T>(b);
    c.stat(&format!("impl:{}", out.kind()));
    if let Out::Panic(m) = &out {
        c.fail("dec-panic", "oracle", &format!("{}|dec-panic", name), case_id.clone(), m.clone());
        return;
    }
    let (mbuf, head) = with_head::<T>(b);
    let impl_ok: Option<(String, usize, T)> = match out {
        Out::Ok((v, rest)) => {
            c.nontrivial(&case_id);
            Some((canon_text(&v.comps()), b.len() - rest.len() + head, v))
        }
        _ => None,
    };
    let nm = name.clone();
    q.push(Pending {
        req: format!("dec {} {}", T::model_ty(), hex(&mbuf)),
        check: Box::new(move |resp, c| {
            let (m, abs_same) = parse_dec(resp);
            if !abs_same {
                c.fail("abs-diff", "corr", &format!("{}|abs-diff", nm), case_id.clone(), resp.to_string());
            }
            match (impl_ok, m) {
                (_, MDec::Bad) => c.fail("harness", "corr", &format!("{}|harness", nm), case_id, resp.to_string()),
                (_, MDec::Panic) => c.fail("model-panics", "corr", &format!("{}|model-panics", nm), case_id, resp.to_string()),
                (Some((comps, n, _)), MDec::Ok(x, mn)) if canon(&x) == comps && mn == n => c.stat("agree-ok"),
                (Some((_, n, v)), MDec::Ok(x, mn)) if !T::canonical() && mn == n && T::from_comps(&x) == Some(Some(v.clone())) => {
                    c.stat("agree-ok-other-spelling")
                }
                (Some((comps, n, _)), _) => {
                    c.fail("invent", "corr", &format!("{}|invent", nm), case_id, format!("impl ok {} consumed {} model {}", comps, n, resp))
                }
                (None, MDec::Err(_)) => c.stat("agree-err"),
                (None, MDec::Ok(x, _)) => match T::from_comps(&x) {
                    None => c.fail("harness", "corr", &format!("{}|harness", nm), case_id, format!("components not understood: {}", resp)),
                    Some(None) => c.stat("agree-err-library-rejects"),
                    Some(Some(_)) => {
                        c.drift("impl-rejects-more");
                        c.fail("reject-more", "corr", &format!("{}|reject-more", nm), case_id, format!("impl err; model {} and the library accepts these components", resp))
                    }
                },
            }
        }),
    });
}

fn run_type<T: Leaf>(r: &mut Rng, c: &mut Collector, q: &mut Vec<Pending>, n: usize) {
    c.stat(&format!("type:{}", T::rust_name()));
    for _ in 0..n {
        let v = T::gen(r, 1);
        value_case::<T>(&v, r, c, q);
        if let Out::Ok(b) = impl_encode(&v) {
            for _ in 0..4 {
                let m = mutate(r, &b);
                bytes_case::<T>(&m, "mutant", c, q);
            }
            for i in 0..b.len().min(12) {
                for d in [1u8, 0xff, 0x80] {
                    let mut m = b.clone();
                    m[i] = m[i].wrapping_add(d);
                    bytes_case::<T>(&m, "edit", c, q);
                }
            }
        }
    }
    for b in T::edge_cases() {
        bytes_case::<T>(&b, "edge", c, q);
        for _ in 0..2 {
            let m = mutate(r, &b);
            bytes_case::<T>(&m, "edge-mutant", c, q);
        }
    }
    for _ in 0..n {
        let len = r.below(14) as usize;
        let b: Vec<u8> = (0..len).map(|_| if r.chance(1, 2) { *r.pick(ALPHABET) } else { r.next() as u8 }).collect();
        bytes_case::<T>(&b, "random", c, q);
    }
}

pub fn run(a: &Args) -> Collector {
    let mut c = Collector::new("leaves");
    let n = if a.thorough { 1500 } else { 60 };
    let mut r = Rng::new(a.seed ^ 0x1eaf);
    let mut q: Vec<Pending> = vec![];
    run_type::<NaiveDate>(&mut r, &mut c, &mut q, n);
    run_type::<NaiveTime>(&mut r, &mut c, &mut q, n);
    run_type::<NaiveDateTime>(&mut r, &mut c, &mut q, n);
    run_type::<DateTime<Utc>>(&mut r, &mut c, &mut q, n);
    run_type::<DateTime<FixedOffset>>(&mut r, &mut c, &mut q, n);
    run_type::<DateTime<Local>>(&mut r, &mut c, &mut q, n);
    run_type::<Tz>(&mut r, &mut c, &mut q, n);
    run_type::<DateTime<Tz>>(&mut r, &mut c, &mut q, n);
    run_type::<BigInt>(&mut r, &mut c, &mut q, n);
    run_type::<bigdecimal::BigDecimal>(&mut r, &mut c, &mut q, n);
    flush(&mut c, q, &[]);
    c
}
