//! Family `varint`: every (sink, source) pair of the real code against the model's Nat-level
//! ladder and its bit-exact `BitVec` transcription; thorough: implementation-only exhaustive
//! sweep of all 2^32 values of both signednesses against the reference formula.
use crate::cases::Pending;
use crate::collect::Collector;
use crate::rng::Rng;
use crate::sexp::hex;
use crate::{flush, Args};
use bytes::BytesMut;
use desert::{BinaryInput, BinaryOutput, DeserializationContext, OwnedInput, SizeCalculator, SliceInput};

fn ref_len_u(v: u32) -> usize {
    let bits = 32 - v.leading_zeros() as usize;
    std::cmp::max(1, (bits + 6) / 7)
}

fn ref_bytes_u(mut v: u32) -> Vec<u8> {
    let mut out = vec![];
    loop {
        let b = (v & 0x7f) as u8;
        v >>= 7;
        if v == 0 {
            out.push(b);
            return out;
        }
        out.push(b | 0x80);
    }
}

fn zig(v: i32) -> u32 {
    if v >= 0 {
        (v as u32) * 2
    } else {
        ((-(v as i64)) as u64 * 2 - 1) as u32
    }
}

/// all three sinks must agree; returns the bytes
fn write_u(v: u32) -> Result<Vec<u8>, String> {
    let mut a: Vec<u8> = vec![];
    a.write_var_u32(v);
    let mut b = BytesMut::new();
    b.write_var_u32(v);
    let mut c = SizeCalculator::new();
    c.write_var_u32(v);
    if a[..] != b[..] || c.size() != a.len() {
        return Err(format!("sinks disagree: vec {} bytesmut {} size {}", hex(&a), hex(&b), c.size()));
    }
    Ok(a)
}

fn write_i(v: i32) -> Result<Vec<u8>, String> {
    let mut a: Vec<u8> = vec![];
    a.write_var_i32(v);
    let mut b = BytesMut::new();
    b.write_var_i32(v);
    let mut c = SizeCalculator::new();
    c.write_var_i32(v);
    if a[..] != b[..] || c.size() != a.len() {
        return Err(format!("sinks disagree: vec {} bytesmut {} size {}", hex(&a), hex(&b), c.size()));
    }
    Ok(a)
}

fn read_u(b: &[u8]) -> Result<Option<u32>, String> {
    let x = SliceInput::new(b).read_var_u32().ok();
    let y = OwnedInput::new(b.to_vec()).read_var_u32().ok();
    let z = DeserializationContext::new(b).read_var_u32().ok();
    if x != y || y != z {
        return Err(format!("sources disagree: slice {:?} owned {:?} ctx {:?}", x, y, z));
    }
    Ok(x)
}

fn read_i(b: &[u8]) -> Result<Option<i32>, String> {
    let x = SliceInput::new(b).read_var_i32().ok();
    let y = OwnedInput::new(b.to_vec()).read_var_i32().ok();
    let z = DeserializationContext::new(b).read_var_i32().ok();
    if x != y || y != z {
        return Err(format!("sources disagree: slice {:?} owned {:?} ctx {:?}", x, y, z));
    }
    Ok(x)
}

fn check_u(v: u32, c: &mut Collector) -> Option<Vec<u8>> {
    c.eval();
    let case = format!("u32={}", v);
    let b = match write_u(v) {
        Ok(b) => b,
        Err(e) => {
            c.fail("varint-sinks", "oracle", "varint|sinks", case, e);
            return None;
        }
    };
    if b.len() != ref_len_u(v) || b != ref_bytes_u(v) {
        c.fail("varint-bytes", "oracle", "varint|u32-bytes", case.clone(), format!("got {} want {}", hex(&b), hex(&ref_bytes_u(v))));
    }
    let n = b.len();
    if b[..n - 1].iter().any(|x| x & 0x80 == 0) || b[n - 1] & 0x80 != 0 {
        c.fail("varint-bytes", "oracle", "varint|continuation", case.clone(), hex(&b));
    }
    match read_u(&b) {
        Ok(Some(x)) if x == v => {}
        Ok(other) => c.fail("varint-rt", "oracle", "varint|u32-rt", case.clone(), format!("bytes {} read {:?}", hex(&b), other)),
        Err(e) => c.fail("varint-sources", "oracle", "varint|sources", case.clone(), e),
    }
    Some(b)
}

fn check_i(v: i32, c: &mut Collector) -> Option<Vec<u8>> {
    c.eval();
    let case = format!("i32={}", v);
    let b = match write_i(v) {
        Ok(b) => b,
        Err(e) => {
            c.fail("varint-sinks", "oracle", "varint|sinks", case, e);
            return None;
        }
    };
    if b != ref_bytes_u(zig(v)) {
        c.fail("varint-bytes", "oracle", "varint|i32-bytes", case.clone(), format!("got {} want {}", hex(&b), hex(&ref_bytes_u(zig(v)))));
    }
    match read_i(&b) {
        Ok(Some(x)) if x == v => {}
        Ok(other) => c.fail("varint-rt", "oracle", "varint|i32-rt", case.clone(), format!("bytes {} read {:?}", hex(&b), other)),
        Err(e) => c.fail("varint-sources", "oracle", "varint|sources", case.clone(), e),
    }
    Some(b)
}

fn model_eq(req: String, want: String, tag: &'static str, q: &mut Vec<Pending>) {
    let r2 = req.clone();
    q.push(Pending {
        req,
        check: Box::new(move |resp, c| {
            if resp == want {
                c.stat("model-agree");
            } else {
                c.fail(tag, "corr", &format!("varint|{}", tag), r2, format!("impl {} model {}", want, resp));
            }
        }),
    });
}

pub fn run(a: &Args) -> Collector {
    let mut c = Collector::new("varint");
    let mut q: Vec<Pending> = vec![];
    let mut r = Rng::new(a.seed);
    // boundaries of every width, +-2
    let mut us: Vec<u32> = vec![0, 1, u32::MAX, u32::MAX - 1, i32::MAX as u32, i32::MAX as u32 + 1];
    for k in [7u32, 14, 21, 28, 31] {
        for d in -2i64..=2 {
            us.push(((1i64 << k) + d) as u32);
        }
    }
    let n_random = if a.thorough { 400_000 } else { 60_000 };
    for _ in 0..n_random {
        let bits = r.below(33) as u32;
        let v = if bits == 0 { 0 } else { (r.next() as u32) >> (32 - bits) };
        us.push(v);
    }
    let model_every = if a.thorough { 4 } else { 6 };
    for (i, &v) in us.iter().enumerate() {
        if let Some(b) = check_u(v, &mut c) {
            c.nontrivial(&format!("u{}", v));
            if i < 40 || i % model_every == 0 {
                model_eq(format!("varu {}", v), format!("ok {}", hex(&b)), "varint-model", &mut q);
                model_eq(format!("bvaru {}", v), format!("ok {}", hex(&b)), "varint-model-bv", &mut q);
                model_eq(format!("rvaru {}", hex(&b)), format!("ok {} {}", v, b.len()), "varint-model", &mut q);
                model_eq(format!("brvaru {}", hex(&b)), format!("ok {} {}", v, b.len()), "varint-model-bv", &mut q);
            }
            if i < 4 {
                c.sample(format!("u32 {} -> {}", v, hex(&b)));
            }
        }
        let iv = v as i32;
        if let Some(b) = check_i(iv, &mut c) {
            c.nontrivial(&format!("i{}", iv));
            if i < 40 || i % model_every == 0 {
                model_eq(format!("vari {}", iv), format!("ok {}", hex(&b)), "varint-model", &mut q);
                model_eq(format!("bvari {}", iv), format!("ok {}", hex(&b)), "varint-model-bv", &mut q);
                model_eq(format!("rvari {}", hex(&b)), format!("ok {} {}", iv, b.len()), "varint-model", &mut q);
                model_eq(format!("brvari {}", hex(&b)), format!("ok {} {}", iv, b.len()), "varint-model-bv", &mut q);
            }
            if i < 4 {
                c.sample(format!("i32 {} -> {}", iv, hex(&b)));
            }
        }
    }
    // non-canonical inputs: over-long forms and truncations read the same through every source and the model
    for _ in 0..(if a.thorough { 40_000 } else { 6_000 }) {
        let n = r.below(7) as usize;
        let b: Vec<u8> = (0..n).map(|_| if r.chance(1, 2) { 0x80 | r.next() as u8 } else { r.next() as u8 }).collect();
        c.eval();
        let case = format!("bytes={}", hex(&b));
        match read_u(&b) {
            Ok(x) => {
                let want = match x {
                    Some(v) => {
                        let used = b.iter().take(5).position(|y| y & 0x80 == 0).map(|p| p + 1).unwrap_or(5);
                        format!("ok {} {}", v, used)
                    }
                    None => "err InputEndedUnexpectedly".to_string(),
                };
                model_eq(format!("rvaru {}", hex(&b)), want.clone(), "varint-model", &mut q);
                model_eq(format!("brvaru {}", hex(&b)), want, "varint-model-bv", &mut q);
            }
            Err(e) => c.fail("varint-sources", "oracle", "varint|sources", case, e),
        }
    }
    if a.thorough {
        // exhaustive, implementation only
        let t0 = std::time::Instant::now();
        let threads = 16u64;
        let handles: Vec<_> = (0..threads)
            .map(|t| {
                std::thread::spawn(move || {
                    let mut bad: Vec<String> = vec![];
                    let lo = (1u64 << 32) * t / threads;
                    let hi = (1u64 << 32) * (t + 1) / threads;
                    let mut buf: Vec<u8> = Vec::with_capacity(8);
                    for x in lo..hi {
                        let v = x as u32;
                        buf.clear();
                        buf.write_var_u32(v);
                        let ok_bytes = buf.len() == ref_len_u(v) && buf == ref_bytes_u(v);
                        let back = SliceInput::new(&buf).read_var_u32().ok();
                        let back2 = DeserializationContext::new(&buf).read_var_u32().ok();
                        if !ok_bytes || back != Some(v) || back2 != Some(v) {
                            if bad.len() < 3 {
                                bad.push(format!("u32={} bytes={} back={:?}", v, hex(&buf), back));
                            }
                        }
                        let iv = v as i32;
                        buf.clear();
                        buf.write_var_i32(iv);
                        let ok_bytes = buf == ref_bytes_u(zig(iv));
                        let back = SliceInput::new(&buf).read_var_i32().ok();
                        if !ok_bytes || back != Some(iv) {
                            if bad.len() < 3 {
                                bad.push(format!("i32={} bytes={} back={:?}", iv, hex(&buf), back));
                            }
                        }
                    }
                    bad
                })
            })
            .collect();
        for h in handles {
            for b in h.join().unwrap() {
                c.fail("varint-rt", "oracle", "varint|exhaustive", b.clone(), b);
            }
        }
        c.evaluations += 2 * (1u64 << 32);
        c.stats.insert("exhaustive-2^32-both-signednesses".into(), 1);
        c.stats.insert("exhaustive-ms".into(), t0.elapsed().as_millis() as u64);
    }
    flush(&mut c, q, &[]);
    c
}
