//! Family `sink`: the byte stream is the same whichever output it is written to, and the size
//! calculator is exact (C15). Values come from the built-in catalogue and the generated declarations
//! (evolved records exercise the serializer's buffer stack at depth).
use crate::cases::{guarded, Out};
use crate::catalogue::{builtin, Visitor};
use crate::collect::Collector;
use crate::generated::decls::{visit_decls, DeclVisitor};
use crate::rng::Rng;
use crate::sexp::hex;
use crate::v::{VaryTransient, V};
use crate::Args;
use bytes::BytesMut;
use desert::{BinaryOutput, SerializationContext, SizeCalculator};

/// a user-defined output that records every primitive write
#[derive(Default)]
struct Recording {
    log: Vec<Vec<u8>>,
}

impl BinaryOutput for Recording {
    fn write_u8(&mut self, value: u8) {
        self.log.push(vec![value]);
    }
    fn write_bytes(&mut self, bytes: &[u8]) {
        self.log.push(bytes.to_vec());
    }
}

fn one<T: V>(v: &T, c: &mut Collector) {
    c.eval();
    let name = T::rust_name();
    let case = format!("type={} value={}", name, v.show());
    let a = guarded(|| desert::serialize(v, Vec::<u8>::new()));
    let b = guarded(|| desert::serialize(v, BytesMut::new()).map(|x| x.to_vec()));
    let d = guarded(|| desert::serialize_to_bytes(v).map(|x| x.to_vec()));
    let e = guarded(|| desert::serialize_to_byte_vec(v));
    let f = guarded(|| desert::serialize(v, Recording::default()).map(|r| r.log.concat()));
    let g = guarded(|| desert::serialize(v, SizeCalculator::new()).map(|s| s.size()));
    let h = guarded(|| {
        // an explicit context, as a user codec would use it
        let mut ctx = SerializationContext::new(Vec::<u8>::new());
        desert::BinarySerializer::serialize(v, &mut ctx)?;
        Ok(ctx.into_output())
    });
    let text = |o: &Out<Vec<u8>>| match o {
        Out::Ok(x) => format!("ok {}", hex(x)),
        Out::Err(k) => format!("err {}", k),
        Out::Panic(m) => format!("panic {}", m),
    };
    let ta = text(&a);
    let all = [("BytesMut", text(&b)), ("serialize_to_bytes", text(&d)), ("serialize_to_byte_vec", text(&e)), ("recording sink", text(&f)), ("explicit context", text(&h))];
    for (n, t) in all.iter() {
        if *t != ta {
            c.fail("sink-bytes", "oracle", &format!("{}|sink-bytes", name), case.clone(), format!("Vec<u8>: {}  {}: {}", ta, n, t));
        }
    }
    match (&a, &g) {
        (Out::Ok(x), Out::Ok(n)) => {
            if x.len() != *n {
                c.fail("sink-size", "oracle", &format!("{}|sink-size", name), case.clone(), format!("bytes {} size calculator {}", x.len(), n));
            }
            if x.len() >= 2 {
                c.nontrivial(&case);
            }
            c.sample(format!("{} -> {} bytes, all sinks equal", case, x.len()));
        }
        (Out::Err(k1), Out::Err(k2)) if k1 == k2 => c.stat("both-err"),
        (x, y) => c.fail("sink-size", "oracle", &format!("{}|sink-size", name), case.clone(), format!("Vec<u8> {} size calculator {}", x.kind(), y.kind())),
    }
}

struct Vis<'a> {
    r: Rng,
    c: &'a mut Collector,
    n: usize,
    idx: u64,
}

impl<'a> Visitor for Vis<'a> {
    fn visit<T: V>(&mut self) {
        self.idx += 1;
        let mut r = self.r.fork(self.idx);
        for i in 0..self.n {
            let v = T::gen(&mut r, 1 + (i % 3) as u32);
            one(&v, self.c);
        }
    }
}

impl<'a> DeclVisitor for Vis<'a> {
    fn decl<T: V + VaryTransient>(&mut self) {
        self.visit::<T>();
    }
    fn pair<W: V, R: V>(&mut self, _h: &str, _w: usize, _r: usize, _l: bool, _p: Vec<W>) {}
    fn ext<E1: V, E2: V>(&mut self, _n: usize) {}
}

pub fn run(a: &Args) -> Collector {
    let mut c = Collector::new("sink");
    let mut vis = Vis { r: Rng::new(a.seed), c: &mut c, n: if a.thorough { 300 } else { 25 }, idx: 0 };
    builtin(&mut vis);
    visit_decls(&mut vis);
    c
}
