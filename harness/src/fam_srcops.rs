//! Family `srcops`: random sequences of primitive reads (including absurd lengths up to usize::MAX)
//! over random buffers through the three real inputs and the model's context; family `limits`:
//! counts that do not fit the format (C17).
use crate::cases::{guarded, Out, Pending};
use crate::collect::Collector;
use crate::rng::Rng;
use crate::sexp::hex;
use crate::{flush, Args};
use desert::{BinaryInput, DeserializationContext, OwnedInput, SliceInput};

#[derive(Clone, Debug)]
enum Op {
    U8,
    Bytes(usize),
    Skip(usize),
    VarU,
    VarI,
}

fn run_ops<I: BinaryInput>(input: &mut I, ops: &[Op]) -> Vec<String> {
    ops.iter()
        .map(|op| {
            let r = std::panic::catch_unwind(std::panic::AssertUnwindSafe(|| match op {
                Op::U8 => input.read_u8().map(|b| b.to_string()),
                Op::Bytes(n) => input.read_bytes(*n).map(|b| hex(b)),
                Op::Skip(n) => input.skip(*n).map(|_| "ok".to_string()),
                Op::VarU => input.read_var_u32().map(|v| v.to_string()),
                Op::VarI => input.read_var_i32().map(|v| v.to_string()),
            }));
            match r {
                Ok(Ok(s)) => s,
                Ok(Err(e)) => crate::cases::err_text(&e),
                Err(_) => "panic".to_string(),
            }
        })
        .collect()
}

pub fn run(a: &Args) -> Collector {
    let mut c = Collector::new("srcops");
    let mut q: Vec<Pending> = vec![];
    let mut r = Rng::new(a.seed);
    let n = if a.thorough { 60_000 } else { 4_000 };
    for i in 0..n {
        let len = r.below(12) as usize;
        let data: Vec<u8> = (0..len).map(|_| if r.chance(1, 3) { 0x80 | r.next() as u8 } else { r.next() as u8 }).collect();
        let nops = 1 + r.below(7) as usize;
        let ops: Vec<Op> = (0..nops)
            .map(|_| match r.below(9) {
                0 | 1 => Op::U8,
                2 => Op::Bytes(r.below(5) as usize),
                3 => Op::Skip(r.below(5) as usize),
                4 => Op::VarU,
                5 => Op::VarI,
                6 => Op::Bytes(*r.pick(&[usize::MAX, usize::MAX - 1, usize::MAX / 2 + 1, 1 << 32, (1 << 31) - 1, len, len + 1])),
                7 => Op::Skip(*r.pick(&[usize::MAX, usize::MAX - 3, 1 << 63, len, len + 1])),
                _ => Op::Bytes(len.saturating_sub(r.below(3) as usize)),
            })
            .collect();
        c.eval();
        let case = format!("data={} ops={:?}", hex(&data), ops);
        let rs = run_ops(&mut SliceInput::new(&data), &ops);
        let ro = run_ops(&mut OwnedInput::new(data.clone()), &ops);
        let rc = run_ops(&mut DeserializationContext::new(&data), &ops);
        if rs.iter().any(|x| x == "panic") || ro.iter().any(|x| x == "panic") || rc.iter().any(|x| x == "panic") {
            c.fail("src-panic", "oracle", "srcops|panic", case.clone(), format!("slice {:?} owned {:?} ctx {:?}", rs, ro, rc));
        }
        if rs != ro || ro != rc {
            c.fail("src-agree", "oracle", "srcops|agree", case.clone(), format!("slice {:?} owned {:?} ctx {:?}", rs, ro, rc));
        }
        if rs.iter().filter(|x| !x.contains("Ended")).count() >= 2 {
            c.nontrivial(&case);
        }
        if i < 4 {
            c.sample(format!("{} -> {:?}", case, rs));
        }
        let req = format!(
            "src {} {}",
            hex(&data),
            ops.iter()
                .map(|o| match o {
                    Op::U8 => "u8".to_string(),
                    Op::Bytes(n) => format!("b{}", n),
                    Op::Skip(n) => format!("s{}", n),
                    Op::VarU => "vu".to_string(),
                    Op::VarI => "vi".to_string(),
                })
                .collect::<Vec<_>>()
                .join(" ")
        );
        // the model is compared up to and including the first reported end of input (a failed var-int read
        // leaves the real cursor after the bytes it consumed; the model's run does not keep that state)
        let cut = rs.iter().position(|x| x.contains("Ended")).map(|p| p + 1).unwrap_or(rs.len());
        let want = rs[..cut].join(";");
        q.push(Pending {
            req: req.clone(),
            check: Box::new(move |resp, c| {
                let got = resp.split(';').take(cut).collect::<Vec<_>>().join(";");
                if got == want {
                    c.stat("model-agree");
                } else {
                    c.fail("src-model", "corr", "srcops|model", req, format!("impl {} model {}", want, resp));
                }
            }),
        });
    }
    flush(&mut c, q, &[]);
    c
}

/// an iterator that only claims a size
struct Claimed {
    n: usize,
    pulled: std::rc::Rc<std::cell::Cell<usize>>,
}
impl Iterator for Claimed {
    type Item = u8;
    fn next(&mut self) -> Option<u8> {
        self.pulled.set(self.pulled.get() + 1);
        None
    }
    fn size_hint(&self) -> (usize, Option<usize>) {
        (self.n, Some(self.n))
    }
}

pub fn run_limits(_a: &Args) -> Collector {
    let mut c = Collector::new("limits");
    let big: Vec<()> = vec![(); (1usize << 31) + 5];
    let mut check = |name: &str, out: Out<usize>, c: &mut Collector| {
        c.eval();
        c.nontrivial(name);
        c.sample(format!("{} -> {}", name, match &out { Out::Ok(n) => format!("Ok({} bytes)", n), Out::Err(k) => format!("Err({})", k), Out::Panic(m) => format!("panic {}", m) }));
        match out {
            Out::Err(k) if k == "LengthTooLarge" => {}
            Out::Err(k) => c.fail("enc-err", "oracle", &format!("limits|{}", name), name.to_string(), format!("error {} instead of LengthTooLarge", k)),
            Out::Ok(n) => c.fail("enc-outcome", "oracle", &format!("limits|{}", name), name.to_string(), format!("encoded to {} bytes instead of LengthTooLarge", n)),
            Out::Panic(m) => c.fail("enc-panic", "oracle", &format!("limits|{}", name), name.to_string(), m),
        }
    };
    for n in [1usize << 31, (1usize << 31) + 5] {
        let slice: &[()] = &big[..n];
        check(&format!("&[()] of {} elements", n), guarded(|| desert::serialize_to_byte_vec(&slice).map(|b| b.len())), &mut c);
        let v: Vec<()> = vec![(); n];
        check(&format!("Vec<()> of {} elements", n), guarded(|| desert::serialize_to_byte_vec(&v).map(|b| b.len())), &mut c);
        let l: std::collections::LinkedList<()> = std::collections::LinkedList::new();
        let _ = l;
        let pulled = std::rc::Rc::new(std::cell::Cell::new(0usize));
        let p2 = pulled.clone();
        check(
            &format!("serialize_iterator with exact size hint {}", n),
            guarded(move || {
                let mut ctx = desert::SerializationContext::new(Vec::<u8>::new());
                let mut it = Claimed { n, pulled: p2 };
                desert::serialize_iterator(&mut it, &mut ctx)?;
                Ok(ctx.into_output().len())
            }),
            &mut c,
        );
    }
    // i32::MAX elements is still representable
    {
        c.eval();
        let n = i32::MAX as usize;
        let slice: &[()] = &big[..n];
        match guarded(|| desert::serialize_to_byte_vec(&slice).map(|b| b.len())) {
            Out::Ok(5) => c.nontrivial("max"),
            other => c.fail("enc-outcome", "oracle", "limits|i32max", format!("&[()] of {} elements", n), format!("{}", other.kind())),
        }
    }
    c
}
