//! Family `graph` (C10): every rooted digraph with <= 4 nodes and out-degree <= 2 (exhaustive: self-loops,
//! diamonds, back-edges, unreachable nodes), random graphs up to 12 nodes, and records that embed a tracked
//! object at offset 0 of another tracked object (two identities at one address), through a codec written
//! only against the public API (`store_ref_or_object`, `try_read_ref`, `State::store_ref`).
//! Oracles: each reachable node written once, ids in first-encounter (pre-order) numbering, the decoded
//! graph isomorphic with sharing (`Rc::ptr_eq`), ids never introduced are errors; the ref tokens and the
//! resolution of every offer are compared with the model (`writeOffers` / `readOffers`).
use crate::cases::{guarded, Out, Pending};
use crate::collect::Collector;
use crate::rng::Rng;
use crate::sexp::hex;
use crate::{flush, Args};
use desert::{BinaryDeserializer, BinaryInput, BinaryOutput, BinarySerializer, DeserializationContext, SerializationContext};
use std::cell::RefCell;
use std::rc::Rc;

pub struct Node {
    label: u8,
    edges: Vec<Rc<RefCell<Node>>>,
}

type NodeRef = Rc<RefCell<Node>>;

thread_local! {
    /// keeps every decoded node handle at a stable address for as long as the decode runs
    static ARENA: RefCell<Vec<Box<NodeRef>>> = RefCell::new(Vec::new());
    /// writer-side trace: which node (by construction index) was offered, in order
    static OFFERS: RefCell<Vec<usize>> = RefCell::new(Vec::new());
    static INDEX_OF: RefCell<Vec<(*const RefCell<Node>, usize)>> = RefCell::new(Vec::new());
}

fn index_of(n: &NodeRef) -> usize {
    let p = Rc::as_ptr(n);
    INDEX_OF.with(|m| m.borrow().iter().find(|(q, _)| *q == p).map(|(_, i)| *i).unwrap_or(usize::MAX))
}

fn write_node<O: BinaryOutput>(n: &NodeRef, ctx: &mut SerializationContext<O>) -> desert::Result<()> {
    OFFERS.with(|o| o.borrow_mut().push(index_of(n)));
    // identity = the node's allocation
    let cell: &RefCell<Node> = &**n;
    if ctx.store_ref_or_object(cell)? {
        let node = n.borrow();
        ctx.write_u8(node.label);
        ctx.write_var_u32(node.edges.len() as u32);
        for e in node.edges.iter() {
            write_node(e, ctx)?;
        }
    }
    Ok(())
}

#[derive(Clone)]
pub struct Graph(pub NodeRef);

impl BinarySerializer for Graph {
    fn serialize<O: BinaryOutput>(&self, ctx: &mut SerializationContext<O>) -> desert::Result<()> {
        write_node(&self.0, ctx)
    }
}

fn read_node(ctx: &mut DeserializationContext<'_>) -> desert::Result<NodeRef> {
    match ctx.try_read_ref()? {
        Some(r) => match r.downcast_ref::<NodeRef>() {
            Some(n) => Ok(n.clone()),
            None => Err(desert::Error::DeserializationFailure("reference is not a node".to_string())),
        },
        None => {
            let label = ctx.read_u8()?;
            let n: NodeRef = Rc::new(RefCell::new(Node { label, edges: vec![] }));
            // register before reading the edges (cycles), at an address that stays valid
            let stable: *const NodeRef = ARENA.with(|a| {
                let mut a = a.borrow_mut();
                a.push(Box::new(n.clone()));
                &**a.last().unwrap() as *const NodeRef
            });
            ctx.state_mut().store_ref(unsafe_free_ref(stable));
            let k = ctx.read_var_u32()?;
            if k > 64 {
                return Err(desert::Error::DeserializationFailure("too many edges".to_string()));
            }
            for _ in 0..k {
                let e = read_node(ctx)?;
                n.borrow_mut().edges.push(e);
            }
            Ok(n)
        }
    }
}

/// the arena box outlives the context for the duration of the decode; this is the one place where the
/// harness has to vouch for a lifetime itself (the library's API erases it anyway: DESIGN D13)
fn unsafe_free_ref<'a>(p: *const NodeRef) -> &'a NodeRef {
    unsafe { &*p }
}

impl BinaryDeserializer for Graph {
    fn deserialize(ctx: &mut DeserializationContext<'_>) -> desert::Result<Self> {
        Ok(Graph(read_node(ctx)?))
    }
}

/// adjacency (node i -> successor indices); node 0 is the root
fn build(adj: &[Vec<usize>]) -> Vec<NodeRef> {
    let nodes: Vec<NodeRef> = (0..adj.len()).map(|i| Rc::new(RefCell::new(Node { label: 10 + i as u8, edges: vec![] }))).collect();
    for (i, succ) in adj.iter().enumerate() {
        for &j in succ {
            let e = nodes[j].clone();
            nodes[i].borrow_mut().edges.push(e);
        }
    }
    nodes
}

/// break cycles so the Rc graph is freed
fn dismantle(nodes: &[NodeRef]) {
    for n in nodes {
        n.borrow_mut().edges.clear();
    }
}

/// canonical description by pre-order numbering of first encounter: (label, successor numbers) per node
fn canonical(root: &NodeRef) -> Vec<(u8, Vec<usize>)> {
    let mut order: Vec<NodeRef> = vec![];
    fn visit(n: &NodeRef, order: &mut Vec<NodeRef>) {
        if order.iter().any(|m| Rc::ptr_eq(m, n)) {
            return;
        }
        order.push(n.clone());
        let succ: Vec<NodeRef> = n.borrow().edges.clone();
        for s in succ.iter() {
            visit(s, order);
        }
    }
    visit(root, &mut order);
    order
        .iter()
        .map(|n| {
            let b = n.borrow();
            (b.label, b.edges.iter().map(|e| order.iter().position(|m| Rc::ptr_eq(m, e)).unwrap()).collect())
        })
        .collect()
}

fn check_graph(adj: &[Vec<usize>], c: &mut Collector, q: &mut Vec<Pending>) {
    c.eval();
    let case = format!("graph={:?}", adj);
    let nodes = build(adj);
    INDEX_OF.with(|m| *m.borrow_mut() = nodes.iter().enumerate().map(|(i, n)| (Rc::as_ptr(n), i)).collect());
    OFFERS.with(|o| o.borrow_mut().clear());
    let want = canonical(&nodes[0]);
    let enc = guarded(|| desert::serialize_to_byte_vec(&Graph(nodes[0].clone())));
    let offers: Vec<usize> = OFFERS.with(|o| o.borrow().clone());
    let bytes = match enc {
        Out::Ok(b) => b,
        other => {
            c.fail("graph", "oracle", "graph|encode", case, format!("encoder gave {}", other.kind()));
            dismantle(&nodes);
            return;
        }
    };
    // each reachable object written once; ids in first-encounter order: re-derive the expected stream
    let mut expect: Vec<u8> = vec![];
    let mut seen: Vec<usize> = vec![];
    let mut tokens: Vec<u32> = vec![];
    fn emit(i: usize, adj: &[Vec<usize>], seen: &mut Vec<usize>, out: &mut Vec<u8>, tokens: &mut Vec<u32>) {
        if let Some(p) = seen.iter().position(|x| *x == i) {
            out.write_var_u32(p as u32 + 1);
            tokens.push(p as u32 + 1);
        } else {
            seen.push(i);
            out.write_var_u32(0);
            tokens.push(0);
            out.write_u8(10 + i as u8);
            out.write_var_u32(adj[i].len() as u32);
            for &j in adj[i].iter() {
                emit(j, adj, seen, out, tokens);
            }
        }
    }
    emit(0, adj, &mut seen, &mut expect, &mut tokens);
    if bytes != expect {
        c.fail("graph", "oracle", "graph|bytes", case.clone(), format!("bytes {} expected {} (each reachable node once, ids in pre-order)", hex(&bytes), hex(&expect)));
    }
    if tokens.iter().filter(|t| **t == 0).count() != want.len() {
        c.fail("graph", "oracle", "graph|count", case.clone(), "number of new markers differs from the number of reachable nodes".to_string());
    }
    if want.len() >= 2 {
        c.nontrivial(&case);
    }
    // decode and compare shape, labels, edge order and sharing
    ARENA.with(|a| a.borrow_mut().clear());
    match guarded(|| desert::deserialize::<Graph>(&bytes)) {
        Out::Ok(g) => {
            let got = canonical(&g.0);
            if got != want {
                c.fail("graph", "oracle", "graph|shape", case.clone(), format!("decoded {:?} expected {:?}", got, want));
            }
            let decoded: Vec<NodeRef> = ARENA.with(|a| a.borrow().iter().map(|b| (**b).clone()).collect());
            dismantle(&decoded);
        }
        other => c.fail("graph", "oracle", "graph|decode", case.clone(), format!("bytes {} decoder gave {}", hex(&bytes), other.kind())),
    }
    ARENA.with(|a| a.borrow_mut().clear());
    // a stream citing an id that was never introduced is an error
    {
        let mut bad = bytes.clone();
        bad.pop(); // drop the last token / byte and cite id = introduced + 1 instead
        let mut tail: Vec<u8> = vec![];
        tail.write_var_u32(want.len() as u32 + 1);
        let mut probe: Vec<u8> = vec![];
        probe.write_var_u32(0);
        probe.write_u8(1);
        probe.write_var_u32(1);
        probe.extend_from_slice(&tail);
        match guarded(|| desert::deserialize::<Graph>(&probe)) {
            Out::Err(k) if k.starts_with("InvalidRefId") => {}
            other => c.fail("graph", "oracle", "graph|bad-ref", format!("bytes={}", hex(&probe)), format!("decoder gave {}", other.kind())),
        }
        ARENA.with(|a| {
            let d: Vec<NodeRef> = a.borrow().iter().map(|b| (**b).clone()).collect();
            dismantle(&d);
            a.borrow_mut().clear()
        });
    }
    // model: tokens of the offer sequence and the reader's resolution
    let req = format!("offers {}", offers.iter().map(|x| x.to_string()).collect::<Vec<_>>().join(" "));
    let want_tokens = tokens.iter().map(|x| x.to_string()).collect::<Vec<_>>().join(",");
    let case2 = case.clone();
    q.push(Pending {
        req,
        check: Box::new(move |resp, c| {
            let parts: Vec<&str> = resp.split(' ').collect();
            if parts.len() == 3 && parts[0] == "ok" && parts[1] == want_tokens {
                c.stat("model-agree");
            } else {
                c.fail("graph-model", "corr", "graph|model", case2, format!("impl tokens {} model {}", want_tokens, resp));
            }
        }),
    });
    dismantle(&nodes);
}

// ---- two identities at one address: a tracked object embedded at offset 0 of another tracked object -------

#[repr(C)]
struct Person {
    name: u8,
}
#[repr(C)]
struct Employee {
    person: Person,
    badge: u8,
}

fn embedded_identities(c: &mut Collector) {
    c.eval();
    let staff: Vec<Employee> = (0..3).map(|i| Employee { person: Person { name: 100 + i }, badge: i }).collect();
    let out = guarded(|| {
        let mut ctx = SerializationContext::new(Vec::<u8>::new());
        let mut person_bodies = 0;
        let mut employee_bodies = 0;
        for round in 0..2 {
            for e in staff.iter() {
                if ctx.store_ref_or_object(e)? {
                    employee_bodies += 1;
                    ctx.write_u8(e.badge);
                }
                if ctx.store_ref_or_object(&e.person)? {
                    person_bodies += 1;
                    ctx.write_u8(e.person.name);
                }
            }
            let _ = round;
        }
        Ok((person_bodies, employee_bodies, ctx.into_output()))
    });
    match out {
        Out::Ok((3, 3, bytes)) => {
            // ids: e0=1 p0=2 e1=3 p1=4 e2=5 p2=6; second round cites them in order
            let want: Vec<u8> = vec![0, 0, 0, 100, 0, 1, 0, 101, 0, 2, 0, 102, 1, 2, 3, 4, 5, 6];
            if bytes != want {
                c.fail("graph", "oracle", "graph|embedded-bytes", "embedded tracked objects".to_string(), format!("bytes {} expected {}", hex(&bytes), hex(&want)));
            }
            c.nontrivial("embedded");
        }
        Out::Ok((p, e, bytes)) => c.fail("graph", "oracle", "graph|embedded", "embedded tracked objects".to_string(), format!("{} person bodies and {} employee bodies written (3 and 3 expected): an object embedded at offset 0 was identified with its owner; bytes {}", p, e, hex(&bytes))),
        other => c.fail("graph", "oracle", "graph|embedded", "embedded tracked objects".to_string(), format!("writer gave {}", other.kind())),
    }
}

// ---- a tracked graph as a field of derived records: the tokens must land where the offer is made, also when the record
// buffers its fields per chunk (evolution steps) ------------------------------------------------------------------
#[derive(desert::BinaryCodec)]
struct HolderV0 {
    g: Graph,
    tail: u8,
}

#[derive(desert::BinaryCodec)]
#[evolution(FieldAdded("title", String::new()))]
struct HolderEv {
    g: Graph,
    title: String,
    tail: u8,
}

/// three handles into one graph, the first field added by an evolution step but declared first: tokens and ids must
/// follow the declaration order on both sides (first-encounter numbering across fields)
#[derive(desert::BinaryCodec)]
#[evolution(FieldAdded("ann", Graph(Rc::new(RefCell::new(Node { label: 0, edges: vec![] })))))]
struct HolderOrd {
    ann: Graph,
    main: Graph,
    tail: Graph,
}

fn graph_fields_in_order(c: &mut Collector) {
    for (ia, im, it) in [(1usize, 0usize, 0usize), (0, 0, 1), (0, 1, 0), (1, 1, 0), (0, 0, 0)] {
        c.eval();
        let case = format!("three handles ann=n{} main=n{} tail=n{} (n0 -> n1 -> n0)", ia, im, it);
        let nodes = build(&[vec![1], vec![0]]);
        INDEX_OF.with(|m| *m.borrow_mut() = nodes.iter().enumerate().map(|(i, n)| (Rc::as_ptr(n), i)).collect());
        let h = HolderOrd { ann: Graph(nodes[ia].clone()), main: Graph(nodes[im].clone()), tail: Graph(nodes[it].clone()) };
        let enc = guarded(|| desert::serialize_to_byte_vec(&h));
        match enc {
            Out::Ok(b) => {
                ARENA.with(|a| a.borrow_mut().clear());
                match guarded(|| desert::deserialize::<HolderOrd>(&b)) {
                    Out::Ok(d) => {
                        let lab = |g: &Graph| g.0.borrow().label;
                        let labels_ok = lab(&d.ann) == 10 + ia as u8 && lab(&d.main) == 10 + im as u8 && lab(&d.tail) == 10 + it as u8;
                        let share = |x: &Graph, y: &Graph, same: bool| Rc::ptr_eq(&x.0, &y.0) == same;
                        let sharing_ok = share(&d.ann, &d.main, ia == im) && share(&d.main, &d.tail, im == it) && share(&d.ann, &d.tail, ia == it);
                        // the cycle is rebuilt: every node's successor's successor is the node itself
                        let cyc = |g: &Graph| {
                            let n = g.0.borrow();
                            n.edges.len() == 1 && {
                                let m = n.edges[0].borrow();
                                m.edges.len() == 1 && Rc::ptr_eq(&m.edges[0], &g.0)
                            }
                        };
                        if labels_ok && sharing_ok && cyc(&d.ann) && cyc(&d.main) && cyc(&d.tail) {
                            c.stat("graph-fields-in-order-ok");
                            c.nontrivial(&case);
                        } else {
                            c.fail("graph", "oracle", "graph|fields-order", case.clone(), format!("decoded labels {} {} {} (sharing ok: {}) from {}", lab(&d.ann), lab(&d.main), lab(&d.tail), sharing_ok, hex(&b)));
                        }
                        for g in [&d.ann, &d.main, &d.tail] {
                            let succ: Vec<NodeRef> = g.0.borrow().edges.clone();
                            for s2 in succ {
                                s2.borrow_mut().edges.clear();
                            }
                            g.0.borrow_mut().edges.clear();
                        }
                    }
                    other => c.fail("graph", "oracle", "graph|fields-order", case.clone(), format!("decoding {} gave {}", hex(&b), other.kind())),
                }
                ARENA.with(|a| a.borrow_mut().clear());
            }
            other => c.fail("graph", "oracle", "graph|fields-order", case.clone(), format!("encoder gave {}", other.kind())),
        }
        dismantle(&nodes);
    }
}

fn zz_bytes(v: i32) -> Vec<u8> {
    let mut out: Vec<u8> = vec![];
    out.write_var_i32(v);
    out
}

fn graph_in_records(adj: &[Vec<usize>], c: &mut Collector) {
    c.eval();
    let case = format!("graph-in-record={:?}", adj);
    let nodes = build(adj);
    INDEX_OF.with(|m| *m.borrow_mut() = nodes.iter().enumerate().map(|(i, n)| (Rc::as_ptr(n), i)).collect());
    let want = canonical(&nodes[0]);
    let gb = match guarded(|| desert::serialize_to_byte_vec(&Graph(nodes[0].clone()))) {
        Out::Ok(b) => b,
        _ => {
            dismantle(&nodes);
            return;
        }
    };
    // headerless record: 0, fields in order
    let mut want0 = vec![0u8];
    want0.extend_from_slice(&gb);
    want0.push(7);
    // version 1: size of chunk 0, size of chunk 1, chunk 0 = graph ++ tail, chunk 1 = title
    let tb = {
        let mut t = zz_bytes(1);
        t.push(b't');
        t
    };
    let mut want1 = vec![1u8];
    want1.extend_from_slice(&zz_bytes(gb.len() as i32 + 1));
    want1.extend_from_slice(&zz_bytes(tb.len() as i32));
    want1.extend_from_slice(&gb);
    want1.push(7);
    want1.extend_from_slice(&tb);
    let e0 = guarded(|| desert::serialize_to_byte_vec(&HolderV0 { g: Graph(nodes[0].clone()), tail: 7 }));
    let e1 = guarded(|| desert::serialize_to_byte_vec(&HolderEv { g: Graph(nodes[0].clone()), title: "t".to_string(), tail: 7 }));
    for (which, enc, wantb) in [("headerless", e0, want0), ("evolved", e1, want1)] {
        match enc {
            Out::Ok(b) => {
                if b != wantb {
                    c.fail("graph", "oracle", &format!("graph|in-record-bytes-{}", which), case.clone(), format!("bytes {} expected {}", hex(&b), hex(&wantb)));
                    continue;
                }
                ARENA.with(|a| a.borrow_mut().clear());
                let dec = if which == "headerless" {
                    guarded(|| desert::deserialize::<HolderV0>(&b).map(|h| (h.g, h.tail, String::new())))
                } else {
                    guarded(|| desert::deserialize::<HolderEv>(&b).map(|h| (h.g, h.tail, h.title)))
                };
                match dec {
                    Out::Ok((g, tail, title)) => {
                        let got = canonical(&g.0);
                        if got != want || tail != 7 || (which == "evolved" && title != "t") {
                            c.fail("graph", "oracle", &format!("graph|in-record-{}", which), case.clone(), format!("decoded {:?} tail {} title {:?}, expected {:?}", got, tail, title, want));
                        } else {
                            c.stat("graph-in-record-ok");
                        }
                        let all: Vec<NodeRef> = {
                            let mut order: Vec<NodeRef> = vec![];
                            fn visit(n: &NodeRef, order: &mut Vec<NodeRef>) {
                                if order.iter().any(|m| Rc::ptr_eq(m, n)) {
                                    return;
                                }
                                order.push(n.clone());
                                let succ: Vec<NodeRef> = n.borrow().edges.clone();
                                for s in succ.iter() {
                                    visit(s, order);
                                }
                            }
                            visit(&g.0, &mut order);
                            order
                        };
                        dismantle(&all);
                    }
                    other => c.fail("graph", "oracle", &format!("graph|in-record-{}", which), case.clone(), format!("decoding gave {}", other.kind())),
                }
                ARENA.with(|a| a.borrow_mut().clear());
            }
            other => c.fail("graph", "oracle", &format!("graph|in-record-{}", which), case.clone(), format!("encoder gave {}", other.kind())),
        }
    }
    dismantle(&nodes);
}

pub fn run(a: &Args) -> Collector {
    let mut c = Collector::new("graph");
    let mut q: Vec<Pending> = vec![];
    // exhaustive: n <= 4 nodes, each node's successor list of length <= 2 over the n nodes
    let maxn = if a.thorough { 4 } else { 3 };
    for n in 1..=maxn {
        let mut lists: Vec<Vec<usize>> = vec![vec![]];
        for i in 0..n {
            lists.push(vec![i]);
        }
        for i in 0..n {
            for j in 0..n {
                lists.push(vec![i, j]);
            }
        }
        let k = lists.len();
        let total = (k as u64).pow(n as u32);
        for code in 0..total {
            let mut x = code;
            let adj: Vec<Vec<usize>> = (0..n)
                .map(|_| {
                    let l = lists[(x % k as u64) as usize].clone();
                    x /= k as u64;
                    l
                })
                .collect();
            check_graph(&adj, &mut c, &mut q);
            if code < 2 && n == 3 {
                c.sample(format!("graph={:?}", adj));
            }
        }
    }
    if !a.thorough {
        // a stratified sample of the 4-node graphs
        let mut r = Rng::new(a.seed ^ 0x44);
        for _ in 0..1500 {
            let adj: Vec<Vec<usize>> = (0..4).map(|_| (0..r.below(3)).map(|_| r.below(4) as usize).collect()).collect();
            check_graph(&adj, &mut c, &mut q);
        }
    }
    // random larger graphs
    let mut r = Rng::new(a.seed);
    for _ in 0..(if a.thorough { 4000 } else { 400 }) {
        let n = 5 + r.below(8) as usize;
        let adj: Vec<Vec<usize>> = (0..n).map(|_| (0..r.below(4)).map(|_| r.below(n as u64) as usize).collect()).collect();
        check_graph(&adj, &mut c, &mut q);
    }
    embedded_identities(&mut c);
    graph_fields_in_order(&mut c);
    // graphs inside derived records (headerless and with evolution steps)
    {
        let mut r = Rng::new(a.seed ^ 0x77);
        for adj in [vec![vec![]], vec![vec![0]], vec![vec![1, 1], vec![0]], vec![vec![1, 2], vec![3], vec![3], vec![0, 3]]] {
            graph_in_records(&adj, &mut c);
        }
        for _ in 0..(if a.thorough { 600 } else { 80 }) {
            let n = 1 + r.below(6) as usize;
            let adj: Vec<Vec<usize>> = (0..n).map(|_| (0..r.below(3)).map(|_| r.below(n as u64) as usize).collect()).collect();
            graph_in_records(&adj, &mut c);
        }
    }
    flush(&mut c, q, &[]);
    c
}
