//! Family `dedup`: every sequence (length <= 5) of deduplicated / plain string writes over a small
//! alphabet: as a flat stream through an explicit context (oracles on the exact bytes of first
//! occurrences and back-references, unknown ids) and as `Vec<Result<DStr, String>>` values through the
//! generic value checks (round trip, model bytes, model decode). Placements inside evolved records with
//! removed names in the header are covered by the `decl` family (DedupR, DedupR2, DedupMix, DedupNest).
use crate::cases::{case_bytes, case_value, guarded, Out, Pending, ValueOpts};
use crate::collect::Collector;
use crate::rng::Rng;
use crate::sexp::hex;
use crate::v::DStr;
use crate::{flush, Args};
use desert::{BinaryDeserializer, BinaryOutput, BinarySerializer, DeduplicatedString, DeserializationContext, SerializationContext};


const ALPHABET: &[&str] = &["", "a", "bb", "a long string that repeats itself, a long string that repeats itself, a long string that repeats itself"];

fn zz(n: i32) -> Vec<u8> {
    let mut v: Vec<u8> = vec![];
    v.write_var_i32(n);
    v
}

fn plain(s: &str) -> Vec<u8> {
    let mut v = zz(s.len() as i32);
    v.extend_from_slice(s.as_bytes());
    v
}

pub fn run(a: &Args) -> Collector {
    let mut c = Collector::new("dedup");
    let mut q: Vec<Pending> = vec![];
    let mut r = Rng::new(a.seed);
    let maxlen = if a.thorough { 6 } else { 5 };
    let k = ALPHABET.len() * 2;
    let o = ValueOpts { prefixes: true, max_prefixes: 64, env_sig: String::new() };
    for len in 0..=maxlen {
        let total = (k as u64).pow(len as u32);
        for code in 0..total {
            // op i: (dedup?, alphabet index)
            let mut x = code;
            let ops: Vec<(bool, &str)> = (0..len)
                .map(|_| {
                    let d = (x % k as u64) as usize;
                    x /= k as u64;
                    (d % 2 == 0, ALPHABET[d / 2])
                })
                .collect();
            c.eval();
            let case = format!("ops={}", ops.iter().map(|(d, s)| format!("{}{:?}", if *d { "D" } else { "P" }, &s[..s.len().min(6)])).collect::<Vec<_>>().join(","));
            // flat stream through an explicit context
            let out = guarded(|| {
                let mut ctx = SerializationContext::new(Vec::<u8>::new());
                for (d, s) in ops.iter() {
                    if *d {
                        DeduplicatedString(s.to_string()).serialize(&mut ctx)?;
                    } else {
                        s.to_string().serialize(&mut ctx)?;
                    }
                }
                Ok(ctx.into_output())
            });
            let bytes = match out {
                Out::Ok(b) => b,
                other => {
                    c.fail("dedup", "oracle", "dedup|write", case.clone(), format!("writer gave {}", other.kind()));
                    continue;
                }
            };
            // expected bytes from the property statement: first occurrence plain, repeats zz(-id), ids from 1 in first-occurrence order
            let mut table: Vec<&str> = vec![];
            let mut want: Vec<u8> = vec![];
            let mut repeats = 0;
            for (d, s) in ops.iter() {
                if *d {
                    if let Some(i) = table.iter().position(|t| t == s) {
                        want.extend(zz(-((i as i32) + 1)));
                        repeats += 1;
                    } else {
                        table.push(s);
                        want.extend(plain(s));
                    }
                } else {
                    want.extend(plain(s));
                }
            }
            if bytes != want {
                c.fail("dedup", "oracle", "dedup|bytes", case.clone(), format!("bytes {} expected {}", hex(&bytes), hex(&want)));
            }
            if repeats > 0 {
                c.nontrivial(&case);
            }
            // read back with the mirrored reader
            let back = guarded(|| {
                let mut ctx = DeserializationContext::new(&bytes);
                let mut got: Vec<String> = vec![];
                for (d, _) in ops.iter() {
                    if *d {
                        got.push(DeduplicatedString::deserialize(&mut ctx)?.0);
                    } else {
                        got.push(String::deserialize(&mut ctx)?);
                    }
                }
                Ok(got)
            });
            match back {
                Out::Ok(got) => {
                    if got.iter().map(|s| s.as_str()).collect::<Vec<_>>() != ops.iter().map(|(_, s)| *s).collect::<Vec<_>>() {
                        c.fail("dedup", "oracle", "dedup|rt", case.clone(), format!("bytes {} read back {:?}", hex(&bytes), got));
                    }
                }
                other => c.fail("dedup", "oracle", "dedup|rt", case.clone(), format!("bytes {} reader gave {}", hex(&bytes), other.kind())),
            }
            if len <= 4 || code % 7 == 0 {
                // the same sequence as a value of Vec<Result<DStr, String>> through the generic checks and the model
                let v: Vec<Result<DStr, String>> = ops.iter().map(|(d, s)| if *d { Ok(DStr(s.to_string())) } else { Err(s.to_string()) }).collect();
                case_value::<Vec<Result<DStr, String>>>(&v, &mut r, &mut c, &mut q, &o);
            }
            if len == 3 {
                c.sample(format!("{} -> {}", case, hex(&bytes)));
            }
        }
    }
    // ids that were never introduced must be errors: back-reference ids 1..4 after 0..3 registered strings
    for known in 0..4usize {
        for id in 1..=5i32 {
            let mut b: Vec<u8> = vec![];
            b.extend(zz(known as i32 + 1)); // count of the Vec<DStr>
            for s in ALPHABET.iter().take(known) {
                b.extend(plain(s));
            }
            b.extend(zz(-id));
            c.eval();
            let case = format!("type=Vec<DStr> bytes={} origin=backref id {} after {} strings", hex(&b), id, known);
            match crate::cases::impl_decode::<Vec<DStr>>(&b) {
                Out::Ok(v) if (id as usize) <= known => {
                    if v.last().map(|x| x.0.as_str()) != Some(ALPHABET[id as usize - 1]) {
                        c.fail("dedup", "oracle", "dedup|backref", case.clone(), format!("resolved to {:?}", v.last()));
                    }
                }
                Out::Err(k) if (id as usize) > known && k.starts_with("InvalidStringId") => {}
                other => c.fail("dedup", "oracle", "dedup|unknown-id", case.clone(), format!("decoder gave {}", other.kind())),
            }
            case_bytes::<Vec<DStr>>(&b, "backref", &mut c, &mut q, 0);
        }
    }
    flush(&mut c, q, &[]);
    c
}

