//! Family `threads` (C18): 16 real threads released by a barrier perform the *first use* of every
//! generated derived type (so each type's lazy metadata cell is initialised under contention exactly
//! once per process; this phase runs before anything else touches the types), each in a different
//! order, repeating every call; every result is compared with the single-threaded result in the same
//! process, with a fresh single-threaded process, and (bytes) with the model.
use crate::cases::{impl_decode, impl_encode, Out, Pending};
use crate::collect::Collector;
use crate::generated::decls::{env_lines, visit_decls, DeclVisitor, N_DECLS};
use crate::rng::Rng;
use crate::sexp::hex;
use crate::v::{VaryTransient, V};
use crate::{flush, Args};
use std::collections::BTreeMap;
use std::sync::{Arc, Barrier};

struct TVis {
    seed: u64,
    idx: usize,
    lo: usize,
    hi: usize,
    values: usize,
    out: BTreeMap<String, Vec<String>>,
    model: Vec<(String, String, String)>,
    repeat_diffs: Vec<String>,
}

impl DeclVisitor for TVis {
    fn decl<T: V + VaryTransient>(&mut self) {
        let i = self.idx;
        self.idx += 1;
        if i < self.lo || i >= self.hi {
            return;
        }
        let mut r = Rng::new(self.seed ^ (i as u64).wrapping_mul(0x9E37_79B9));
        let mut res = vec![];
        for k in 0..self.values {
            let v = T::gen(&mut r, 1 + (k % 3) as u32);
            // each call repeated: earlier calls must not influence later ones (exact bytes: same instance,
            // same hash iteration order)
            let mut first_bytes: Option<String> = None;
            for rep in 0..3 {
                let e = impl_encode(&v);
                if let Out::Ok(b) = &e {
                    let h = hex(b);
                    match &first_bytes {
                        None => first_bytes = Some(h),
                        Some(f) if *f != h => self.repeat_diffs.push(format!("type={} value={} first {} later {}", T::rust_name(), v.show(), f, h)),
                        _ => {}
                    }
                }
                let text = match &e {
                    Out::Ok(b) => {
                        let d = match impl_decode::<T>(b) {
                            Out::Ok(x) => format!("ok {}", x.canon()),
                            Out::Err(k) => format!("err {}", k),
                            Out::Panic(_) => "panic".to_string(),
                        };
                        // across threads / processes hash containers iterate differently: compare length and decoded value
                        format!("ok {} bytes / {}", b.len(), d)
                    }
                    Out::Err(k) => format!("err {}", k),
                    Out::Panic(m) => format!("panic {}", m),
                };
                res.push(text);
                if rep == 0 && k < 2 {
                    if let (Some(ty), Out::Ok(b)) = (T::ty(), &e) {
                        self.model.push((format!("enc {} {}", ty, v.show()), format!("ok {}", hex(b)), format!("type={} value={}", T::rust_name(), v.show())));
                    }
                }
            }
        }
        self.out.insert(T::rust_name(), res);
    }
    fn pair<W: V, R: V>(&mut self, _h: &str, _w: usize, _r: usize, _l: bool, _p: Vec<W>) {}
    fn ext<E1: V, E2: V>(&mut self, _n: usize) {}
}

fn one_pass(seed: u64, offset: usize, values: usize) -> (BTreeMap<String, Vec<String>>, Vec<(String, String, String)>) {
    let mut all = BTreeMap::new();
    let mut model = vec![];
    let mut diffs: Vec<String> = vec![];
    for (lo, hi) in [(offset, usize::MAX), (0, offset)] {
        let mut v = TVis { seed, idx: 0, lo, hi, values, out: BTreeMap::new(), model: vec![], repeat_diffs: vec![] };
        visit_decls(&mut v);
        all.extend(v.out);
        model.extend(v.model);
        diffs.extend(v.repeat_diffs);
    }
    if !diffs.is_empty() {
        all.insert("~repeat-diffs".to_string(), diffs);
    }
    (all, model)
}

/// the single-threaded reference run of a fresh process: `harness threads-child --seed S --out file`
pub fn run_child(a: &Args) -> Collector {
    let (res, _) = one_pass(a.seed, 0, if a.thorough { 12 } else { 4 });
    let mut text = String::new();
    for (k, v) in res {
        text.push_str(&format!("{}\t{}\n", k, v.join("\t")));
    }
    if let Some(p) = a.extra.iter().position(|x| x == "--child-out") {
        std::fs::write(&a.extra[p + 1], text).expect("child out");
    }
    Collector::new("threads-child")
}

pub fn run(a: &Args) -> Collector {
    let mut c = Collector::new("threads");
    let values = if a.thorough { 12 } else { 4 };
    let nthreads = 16usize;
    // phase 1 must be the first use of the derived types in this process
    let barrier = Arc::new(Barrier::new(nthreads));
    let seed = a.seed;
    let handles: Vec<_> = (0..nthreads)
        .map(|t| {
            let b = barrier.clone();
            std::thread::spawn(move || {
                b.wait();
                one_pass(seed, (t * 7) % N_DECLS, values).0
            })
        })
        .collect();
    let per_thread: Vec<BTreeMap<String, Vec<String>>> = handles.into_iter().map(|h| h.join().expect("thread")).collect();
    // phase 2: steady state, single thread, same process
    let (reference, model) = one_pass(seed, 0, values);
    // phase 3: a fresh process
    let child_out = std::env::temp_dir().join(format!("desert_threads_child_{}_{}.txt", std::process::id(), seed));
    let exe = std::env::current_exe().expect("exe");
    let st = std::process::Command::new(exe)
        .args(["threads-child", "--out", "/dev/null", "--seed", &seed.to_string(), "--tier", if a.thorough { "thorough" } else { "quick" }, "--child-out", child_out.to_str().unwrap()])
        .status();
    let mut fresh: BTreeMap<String, Vec<String>> = BTreeMap::new();
    if let Ok(text) = std::fs::read_to_string(&child_out) {
        for line in text.lines() {
            let mut parts = line.split('\t');
            if let Some(k) = parts.next() {
                fresh.insert(k.to_string(), parts.map(|x| x.to_string()).collect());
            }
        }
    }
    let _ = std::fs::remove_file(&child_out);
    if st.map(|s| !s.success()).unwrap_or(true) || fresh.is_empty() {
        c.fail("harness", "corr", "threads|child", "fresh-process reference".to_string(), "child process failed".to_string());
    }
    for res in per_thread.iter().chain(std::iter::once(&reference)) {
        if let Some(d) = res.get("~repeat-diffs") {
            c.fail("repeat", "oracle", "threads|repeat-bytes", d[0].clone(), "encoding the same value again gave different bytes".to_string());
        }
    }
    for (name, want) in reference.iter() {
        if name.starts_with('~') {
            continue;
        }
        c.evaluations += (want.len() * (nthreads + 1)) as u64;
        c.nontrivial(name);
        // repeated calls agree with themselves
        for k in (0..want.len()).step_by(3) {
            if want[k] != want[k + 1] || want[k] != want[k + 2] {
                c.fail("repeat", "oracle", &format!("{}|repeat", name), format!("type={} call#{}", name, k / 3), format!("first {} second {} third {}", &want[k], &want[k + 1], &want[k + 2]));
                break;
            }
        }
        for (t, res) in per_thread.iter().enumerate() {
            match res.get(name) {
                Some(got) if got == want => {}
                Some(got) => {
                    let k = (0..want.len()).find(|&k| got.get(k) != want.get(k)).unwrap_or(0);
                    c.fail("threads", "oracle", &format!("{}|threads", name), format!("type={} thread={} call#{} rep={}", name, t, k / 3, k % 3), format!("concurrent first use gave {} single-threaded {}", got.get(k).cloned().unwrap_or_default(), want[k]));
                }
                None => c.fail("threads", "oracle", &format!("{}|threads", name), format!("type={} thread={}", name, t), "no result".to_string()),
            }
        }
        match fresh.get(name) {
            Some(got) if got == want => {}
            Some(got) => {
                let k = (0..want.len()).find(|&k| got.get(k) != want.get(k)).unwrap_or(0);
                c.fail("fresh", "oracle", &format!("{}|fresh", name), format!("type={} call#{} rep={}", name, k / 3, k % 3), format!("fresh process gave {} this process {}", got.get(k).cloned().unwrap_or_default(), want[k]));
            }
            None => {}
        }
    }
    if let Some((n, w)) = reference.iter().next() {
        c.sample(format!("type={} first call -> {}", n, &w[0][..w[0].len().min(120)]));
    }
    let mut q: Vec<Pending> = vec![];
    for (req, want, case) in model {
        q.push(Pending {
            req,
            check: Box::new(move |resp, c| {
                if resp == want {
                    c.stat("model-agree");
                } else {
                    c.fail("bytes", "corr", "threads|bytes", case, format!("impl {} model {}", want, resp));
                }
            }),
        });
    }
    flush(&mut c, q, &env_lines());
    c
}
