//! SplitMix64: every random choice of a run derives from one seed, so a disagreement replays exactly.
#[derive(Clone)]
pub struct Rng(pub u64);

impl Rng {
    pub fn new(seed: u64) -> Self {
        Rng(seed ^ 0x9E37_79B9_7F4A_7C15)
    }
    pub fn next(&mut self) -> u64 {
        self.0 = self.0.wrapping_add(0x9E37_79B9_7F4A_7C15);
        let mut z = self.0;
        z = (z ^ (z >> 30)).wrapping_mul(0xBF58_476D_1CE4_E5B9);
        z = (z ^ (z >> 27)).wrapping_mul(0x94D0_49BB_1331_11EB);
        z ^ (z >> 31)
    }
    pub fn below(&mut self, n: u64) -> u64 {
        if n == 0 {
            0
        } else {
            self.next() % n
        }
    }
    pub fn chance(&mut self, num: u64, den: u64) -> bool {
        self.below(den) < num
    }
    pub fn pick<'a, T>(&mut self, xs: &'a [T]) -> &'a T {
        &xs[self.below(xs.len() as u64) as usize]
    }
    pub fn fork(&mut self, salt: u64) -> Rng {
        Rng(self.next() ^ salt.wrapping_mul(0xD6E8_FEB8_6659_FD93))
    }
}
