//! What a family run reports: counts, distribution, samples, failures.
use std::collections::{BTreeMap, HashSet};
use std::hash::{Hash, Hasher};

#[derive(Clone, Debug)]
pub struct Failure {
    /// which check failed (maps to properties in /verif/check)
    pub tag: String,
    /// "oracle": the implementation alone violates the property's predicate;
    /// "corr": implementation and model disagree under the transport relation
    pub kind: String,
    /// stable signature used for known-findings matching
    pub sig: String,
    /// everything needed to replay
    pub case: String,
    pub detail: String,
}

pub struct Collector {
    pub family: String,
    pub evaluations: u64,
    pub nontrivial: HashSet<u64>,
    pub samples: Vec<String>,
    pub failures: Vec<Failure>,
    pub stats: BTreeMap<String, u64>,
    pub drift: BTreeMap<String, u64>,
    pub max_failures: usize,
}

pub fn jstr(s: &str) -> String {
    let mut o = String::from("\"");
    for c in s.chars() {
        match c {
            '"' => o.push_str("\\\""),
            '\\' => o.push_str("\\\\"),
            '\n' => o.push_str("\\n"),
            '\r' => o.push_str("\\r"),
            '\t' => o.push_str("\\t"),
            c if (c as u32) < 0x20 => o.push_str(&format!("\\u{:04x}", c as u32)),
            c => o.push(c),
        }
    }
    o.push('"');
    o
}

impl Collector {
    pub fn new(family: &str) -> Self {
        Collector {
            family: family.to_string(),
            evaluations: 0,
            nontrivial: HashSet::new(),
            samples: vec![],
            failures: vec![],
            stats: BTreeMap::new(),
            drift: BTreeMap::new(),
            max_failures: 25,
        }
    }
    pub fn eval(&mut self) {
        self.evaluations += 1;
    }
    pub fn stat(&mut self, k: &str) {
        *self.stats.entry(k.to_string()).or_insert(0) += 1;
    }
    pub fn drift(&mut self, k: &str) {
        *self.drift.entry(k.to_string()).or_insert(0) += 1;
    }
    /// count a case as distinct and non-trivial (hash of its canonical text)
    pub fn nontrivial(&mut self, text: &str) {
        let mut h = std::collections::hash_map::DefaultHasher::new();
        text.hash(&mut h);
        self.nontrivial.insert(h.finish());
    }
    pub fn sample(&mut self, text: String) {
        if self.samples.len() < 6 {
            self.samples.push(text);
        }
    }
    pub fn fail(&mut self, tag: &str, kind: &str, sig: &str, case: String, detail: String) {
        // the cap is per check tag: a flood of one kind of failure must not hide another kind
        if self.failures.iter().filter(|f| f.tag == tag).count() < self.max_failures {
            self.failures.push(Failure {
                tag: tag.to_string(),
                kind: kind.to_string(),
                sig: sig.to_string(),
                case,
                detail,
            });
        }
        self.stat(&format!("FAIL:{}", tag));
    }
    pub fn to_json(&self) -> String {
        let mut s = String::from("{");
        s.push_str(&format!("\"family\":{},", jstr(&self.family)));
        s.push_str(&format!("\"evaluations\":{},", self.evaluations));
        s.push_str(&format!("\"distinct_nontrivial\":{},", self.nontrivial.len()));
        s.push_str("\"samples\":[");
        s.push_str(&self.samples.iter().map(|x| jstr(x)).collect::<Vec<_>>().join(","));
        s.push_str("],\"stats\":{");
        s.push_str(&self.stats.iter().map(|(k, v)| format!("{}:{}", jstr(k), v)).collect::<Vec<_>>().join(","));
        s.push_str("},\"drift\":{");
        s.push_str(&self.drift.iter().map(|(k, v)| format!("{}:{}", jstr(k), v)).collect::<Vec<_>>().join(","));
        s.push_str("},\"failures\":[");
        s.push_str(
            &self
                .failures
                .iter()
                .map(|f| {
                    format!(
                        "{{\"tag\":{},\"kind\":{},\"sig\":{},\"case\":{},\"detail\":{}}}",
                        jstr(&f.tag),
                        jstr(&f.kind),
                        jstr(&f.sig),
                        jstr(&f.case),
                        jstr(&f.detail)
                    )
                })
                .collect::<Vec<_>>()
                .join(","),
        );
        s.push_str("]}");
        s
    }
}
