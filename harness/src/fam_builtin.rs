//! Families `ty` (values of the built-in catalogue) and `raw` (byte strings against the catalogue).
use crate::cases::{case_bytes, case_value, impl_encode, Out, Pending, ValueOpts};
use crate::catalogue::{builtin, Visitor};
use crate::collect::Collector;
use crate::rng::Rng;
use crate::v::V;
use crate::{flush, Args};

struct TyVis<'a> {
    r: Rng,
    c: &'a mut Collector,
    q: Vec<Pending>,
    per_type: usize,
    idx: u64,
}

impl<'a> Visitor for TyVis<'a> {
    fn visit<T: V>(&mut self) {
        self.idx += 1;
        let mut r = self.r.fork(self.idx);
        let o = ValueOpts { prefixes: true, max_prefixes: 96, env_sig: String::new() };
        self.c.stat(&format!("type:{}", T::rust_name()));
        for i in 0..self.per_type {
            let d = 1 + (i % 3) as u32;
            let v = T::gen(&mut r, d);
            case_value::<T>(&v, &mut r, self.c, &mut self.q, &o);
            // tuples are version-0 records: the same fields under a later version's header
            let name = T::rust_name();
            if i < 4 && name.starts_with('(') && name != "()" {
                if let Out::Ok(b) = impl_encode(&v) {
                    crate::cases::future_version_case::<T>(&v, &b, self.c, &mut self.q);
                }
            }
        }
    }
}

pub fn run_ty(a: &Args) -> Collector {
    let mut c = Collector::new("ty");
    let per_type = if a.thorough { 600 } else { 40 };
    let mut vis = TyVis { r: Rng::new(a.seed), c: &mut c, q: vec![], per_type, idx: 0 };
    builtin(&mut vis);
    let q = std::mem::take(&mut vis.q);
    flush(&mut c, q, &[]);
    c
}

pub const ALPHABET: &[u8] = &[0x00, 0x01, 0x02, 0x03, 0x05, 0x0f, 0x40, 0x7f, 0x80, 0x81, 0xfe, 0xff];

pub const VARINT_PREFIXES: &[&[u8]] = &[
    &[0xff, 0xff, 0xff, 0xff, 0x0f],
    &[0xfe, 0xff, 0xff, 0xff, 0x0f],
    &[0xfd, 0xff, 0xff, 0xff, 0x0f],
    &[0xff, 0xff, 0xff, 0xff, 0x07],
    &[0xff, 0xff, 0xff, 0xff, 0xff],
    &[0x80, 0x80, 0x80, 0x80, 0x10],
    &[0x80, 0x80, 0x80, 0x80, 0x00],
    &[0x81, 0x80, 0x00],
    &[0x03],
    &[0xff, 0x01],
    &[0x80, 0x01],
];

pub fn mutate(r: &mut Rng, b: &[u8]) -> Vec<u8> {
    let mut m = b.to_vec();
    let edits = 1 + r.below(2);
    for _ in 0..edits {
        let choice = r.below(7);
        if m.is_empty() {
            m.push(*r.pick(ALPHABET));
            continue;
        }
        let i = r.below(m.len() as u64) as usize;
        match choice {
            0 => m[i] = *r.pick(ALPHABET),
            1 => m[i] = m[i].wrapping_add(1),
            2 => m[i] = m[i].wrapping_sub(1),
            3 => {
                m.remove(i);
            }
            4 => m.insert(i, *r.pick(ALPHABET)),
            5 => m.truncate(i),
            _ => m[i] ^= 1 << r.below(8),
        }
    }
    m
}

/// systematic single-byte edits: every position (up to a cap) incremented, decremented and bumped by 7 --
/// this is what rewrites a chunk size, a count, a length, a tag, a position byte or a version byte
pub fn systematic<T: V>(b: &[u8], c: &mut Collector, q: &mut Vec<Pending>) {
    for p in 0..b.len().min(160) {
        for delta in [1u8, 255, 7] {
            let mut m = b.to_vec();
            m[p] = m[p].wrapping_add(delta);
            case_bytes::<T>(&m, "tamper", c, q, 0);
        }
    }
}

struct RawVis<'a> {
    r: Rng,
    c: &'a mut Collector,
    q: Vec<Pending>,
    random_per_type: usize,
    mutants_per_type: usize,
    idx: u64,
}

impl<'a> Visitor for RawVis<'a> {
    fn visit<T: V>(&mut self) {
        self.idx += 1;
        if !T::raw_ok() {
            self.c.stat("skipped-zero-width-seq");
            return;
        }
        let mut r = self.r.fork(self.idx);
        let budget = 0;
        // exhaustive: all strings of length <= 2 over the alphabet
        case_bytes::<T>(&[], "exhaustive", self.c, &mut self.q, budget);
        for &x in ALPHABET {
            case_bytes::<T>(&[x], "exhaustive", self.c, &mut self.q, budget);
            for &y in ALPHABET {
                case_bytes::<T>(&[x, y], "exhaustive", self.c, &mut self.q, budget);
            }
        }
        // var-int boundary prefixes (u32::MAX, i32::MIN, i32::MAX, -1, -2, over-long forms) + short tails
        for pre in VARINT_PREFIXES {
            case_bytes::<T>(pre, "varint-boundary", self.c, &mut self.q, budget);
            for &x in ALPHABET {
                let mut b = pre.to_vec();
                b.push(x);
                case_bytes::<T>(&b, "varint-boundary", self.c, &mut self.q, budget);
                b.insert(0, x);
                case_bytes::<T>(&b, "varint-boundary", self.c, &mut self.q, budget);
            }
        }
        // random strings with small-number bias
        for _ in 0..self.random_per_type {
            let n = 3 + r.below(22) as usize;
            let b: Vec<u8> = (0..n)
                .map(|_| match r.below(4) {
                    0 => *r.pick(ALPHABET),
                    1 => r.below(8) as u8,
                    _ => r.next() as u8,
                })
                .collect();
            case_bytes::<T>(&b, "random", self.c, &mut self.q, budget);
        }
        // structure-aware: systematic single-byte edits of a few valid encodings
        for _ in 0..2 {
            let v = T::gen(&mut r, 2);
            if let Out::Ok(b) = impl_encode(&v) {
                systematic::<T>(&b, self.c, &mut self.q);
            }
        }
        // structure-aware: random mutants of valid encodings
        let mut made = 0;
        let mut tries = 0;
        while made < self.mutants_per_type && tries < self.mutants_per_type * 4 {
            tries += 1;
            let v = T::gen(&mut r, 2);
            if let Out::Ok(b) = impl_encode(&v) {
                for _ in 0..4 {
                    let m = mutate(&mut r, &b);
                    case_bytes::<T>(&m, "mutant", self.c, &mut self.q, budget);
                    made += 1;
                }
            }
        }
    }
}

pub fn run_raw(a: &Args) -> Collector {
    let mut c = Collector::new("raw");
    let mut vis = RawVis {
        r: Rng::new(a.seed),
        c: &mut c,
        q: vec![],
        random_per_type: if a.thorough { 4000 } else { 150 },
        mutants_per_type: if a.thorough { 8000 } else { 300 },
        idx: 0,
    };
    builtin(&mut vis);
    let q = std::mem::take(&mut vis.q);
    flush(&mut c, q, &[]);
    c
}

/// Family `chars`: every Unicode scalar value through the real char codec against the one-line rule
/// (implementation only; the model's rule is `C17.char_in_bmp` / `C17.char_outside_bmp`).
pub fn run_chars(a: &Args) -> Collector {
    let mut c = Collector::new("chars");
    let step = if a.thorough { 1 } else { 1 };
    let mut cp: u32 = 0;
    while cp < 0x11_0000 {
        if let Some(ch) = char::from_u32(cp) {
            c.evaluations += 1;
            let enc = crate::cases::impl_encode(&ch);
            let case = format!("type=char value=(i {})", cp);
            match (&enc, cp < 0x1_0000) {
                (Out::Ok(b), true) => {
                    if b[..] != [(cp >> 8) as u8, cp as u8] {
                        c.fail("bytes", "oracle", "char|bytes", case.clone(), format!("bytes {}", crate::sexp::hex(b)));
                    }
                    match crate::cases::impl_decode::<char>(b) {
                        Out::Ok(x) if x == ch => {}
                        other => c.fail("rt", "oracle", "char|rt", case.clone(), format!("decode {}", other.kind())),
                    }
                }
                (Out::Err(k), false) if k == "UnsupportedCharacter" => {}
                (Out::Panic(m), _) => c.fail("enc-panic", "oracle", "char|enc-panic", case.clone(), m.clone()),
                (other, _) => c.fail("enc-err", "oracle", "char|enc-err", case.clone(), format!("outcome {}", other.kind())),
            }
            if cp % 0x1_0000 == 0x41 {
                c.sample(format!("{} -> {}", case, enc.kind()));
            }
        }
        cp += step;
    }
    c.nontrivial.extend((0..64u64).map(|i| i)); // 1 112 064 distinct scalar values were run; the set is not hashed individually
    c.stats.insert("all-unicode-scalar-values".into(), c.evaluations);
    c
}
