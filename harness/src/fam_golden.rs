//! family `golden`: the repository's golden file (written by the original Scala desert) decoded by the
//! implementation *and by the model*; the decoded value against the literals of the repository's own golden test;
//! the value re-encoded on both sides. The types are mirrors of `desert_macro/tests/golden.rs` (same attributes and
//! field order; `StackTraceElement`'s hand-written codec is a headerless record ending in a bare var-u32).

use crate::cases::{case_bytes, impl_decode, impl_encode, Out, Pending};
use crate::sexp::hex;
use crate::v::V;
use crate::collect::Collector;
use crate::generated::decls::{env_lines, GListElement2, GTestModel1};
use crate::{flush, Args};

const GOLDEN: &str = "/repo/desert_macro/golden/dataset1.bin";

pub fn run(_a: &Args) -> Collector {
    let mut c = Collector::new("golden");
    let mut q: Vec<Pending> = vec![];
    crate::cases::MODEL_MAX_BYTES.store(1 << 20, std::sync::atomic::Ordering::Relaxed);
    let bytes = match std::fs::read(GOLDEN) {
        Ok(b) => b,
        Err(e) => {
            c.fail("harness", "corr", "golden|missing", GOLDEN.to_string(), format!("{}", e));
            return c;
        }
    };
    c.stat("golden-bytes");
    *c.stats.entry("golden-file-length".to_string()).or_insert(0) = bytes.len() as u64;
    let case = format!("type=GTestModel1 file={}", GOLDEN);
    match impl_decode::<GTestModel1>(&bytes) {
        Out::Ok(v) => {
            c.eval();
            c.nontrivial(&case);
            // the literals of desert_macro/tests/golden.rs
            let mut wrong: Vec<String> = vec![];
            let mut chk = |name: &str, ok: bool| {
                if !ok {
                    wrong.push(name.to_string());
                }
            };
            chk("byte", v.byte == -10);
            chk("short", v.short == 10000);
            chk("int", v.int == -2000000000);
            chk("long", v.long == 100000000001i64);
            chk("float", v.float == 3.14f32);
            chk("double", v.double == 0.1234e-10f64);
            chk("boolean", !v.boolean);
            chk("string", v.string == "Example data set");
            chk("uuid", v.uuid == uuid::Uuid::parse_str("d90c4285-544d-424d-885c-3940fe00883d").unwrap());
            chk("exception.class_name", v.exception.class_name == "java.lang.RuntimeException");
            chk("exception.message", v.exception.message == "Example exception");
            chk("exception.stack_trace.len", v.exception.stack_trace.len() == 16);
            chk(
                "exception.stack_trace[3]",
                v.exception.stack_trace.get(3).map(|e| (e.class_name.clone(), e.method_name.clone(), e.file_name.clone(), e.line_number.0))
                    == Some((Some("zio.ZIO$FlatMap".to_string()), Some("apply".to_string()), Some("ZIO.scala".to_string()), 5210)),
            );
            chk(
                "exception.cause",
                v.exception.cause.as_ref().map(|t| (t.class_name.clone(), t.message.clone(), t.stack_trace.len(), t.cause.is_none()))
                    == Some(("java.lang.IllegalArgumentException".to_string(), "param should not be negative".to_string(), 16, true)),
            );
            chk("list", v.list.iter().map(|e| e.id.clone()).collect::<Vec<_>>() == vec!["a", "aa", "aaa"]);
            chk("array", v.array == (1i64..=30000i64).collect::<Vec<_>>());
            chk("vector", v.vector.iter().map(|e| e.id.clone()).collect::<Vec<_>>() == (1..=100).map(|i| i.to_string()).collect::<Vec<_>>());
            chk("set", v.set == ["hello".to_string(), "world".to_string()].into_iter().collect());
            chk("either", v.either == Ok(true));
            chk("tried", matches!(&v.tried, Ok(GListElement2::First { elem }) if elem.id.is_empty()));
            let second = uuid::Uuid::parse_str("0ca26648-edee-4a2d-bd88-eebf92d19c30").unwrap();
            chk(
                "option",
                match &v.option {
                    Some(m) => {
                        m.len() == 3
                            && matches!(m.get("first"), Some(GListElement2::First { elem }) if elem.id == "1st")
                            && matches!(m.get("second"), Some(GListElement2::Second { uuid, desc, .. }) if *uuid == second && desc.is_none())
                            && matches!(m.get("third"), Some(GListElement2::Second { uuid, desc, .. }) if *uuid == second && desc.as_deref() == Some("some description"))
                    }
                    None => false,
                },
            );
            if wrong.is_empty() {
                c.stat("golden-value-as-documented");
            } else {
                c.fail("golden", "oracle", "golden|value", case.clone(), format!("fields that differ from the golden test's literals: {}", wrong.join(", ")));
            }
            // the value written again: implementation bytes == model bytes (hash iteration order supplied by the value text),
            // and the implementation reads its own bytes back
            match impl_encode(&v) {
                Out::Ok(b2) => {
                    match impl_decode::<GTestModel1>(&b2) {
                        Out::Ok(v2) if v.deep_eq(&v2) => c.stat("golden-reencode-roundtrip"),
                        other => c.fail("rt", "oracle", "golden|rt", case.clone(), format!("re-encoded value decodes to {}", other.kind())),
                    }
                    let expect = format!("ok {}", hex(&b2));
                    let cid = case.clone();
                    q.push(Pending {
                        req: format!("enc (named GTestModel1) {}", v.show()),
                        check: Box::new(move |resp, c| {
                            if resp == expect {
                                c.stat("enc-agree");
                            } else {
                                c.fail("bytes", "corr", "golden|bytes", cid, format!("model encoding differs ({} vs {} characters)", resp.len(), expect.len()));
                            }
                        }),
                    });
                }
                other => c.fail("golden", "oracle", "golden|reencode", case.clone(), format!("re-encoding gave {}", other.kind())),
            }
        }
        other => c.fail("golden", "oracle", "golden|decode", case.clone(), format!("the implementation gave {}", other.kind())),
    }
    // the model decodes the Scala-written bytes to the same value, consuming exactly the file
    case_bytes::<GTestModel1>(&bytes, "golden dataset1.bin", &mut c, &mut q, 0);
    flush(&mut c, q, &env_lines());
    c
}
