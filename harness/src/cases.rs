//! Generic per-case logic shared by the families: run the real codec under `catch_unwind`,
//! queue the matching request for the Lean model, compare.
use crate::collect::Collector;
use crate::rng::Rng;
use crate::sexp::{hex, parse_all};
use crate::v::V;
use desert::{BinaryInput, DeserializationContext};
use std::panic::{catch_unwind, AssertUnwindSafe};
use std::sync::atomic::{AtomicUsize, Ordering};

pub static MAX_ALLOC: AtomicUsize = AtomicUsize::new(0);

pub struct Pending {
    pub req: String,
    pub check: Box<dyn FnOnce(&str, &mut Collector)>,
}

pub fn err_text(e: &desert::Error) -> String {
    use desert::Error::*;
    match e {
        UnsupportedCharacter(_) => "UnsupportedCharacter".into(),
        FailedToDecodeCharacter(_) => "FailedToDecodeCharacter".into(),
        LengthTooLarge => "LengthTooLarge".into(),
        InvalidTimeZone(_) => "InvalidTimeZone".into(),
        InputEndedUnexpectedly => "InputEndedUnexpectedly".into(),
        CompressionFailure(_) => "CompressionFailure".into(),
        DecompressionFailure(_) => "DecompressionFailure".into(),
        FailedToDecodeString(_) => "FailedToDecodeString".into(),
        InvalidStringId(id) => format!("InvalidStringId({})", id.0),
        DeserializationFailure(_) => "DeserializationFailure".into(),
        UnknownFieldReferenceInEvolutionStep(n) => format!("UnknownFieldReferenceInEvolutionStep({})", n),
        InvalidConstructorName { constructor_name, type_name } => {
            format!("InvalidConstructorName({},{})", type_name, constructor_name)
        }
        DeserializingNonExistingChunk(c) => format!("DeserializingNonExistingChunk({})", c),
        FieldRemovedInSerializedVersion(n) => format!("FieldRemovedInSerializedVersion({})", n),
        FieldWithoutDefaultValueIsMissing(n) => format!("FieldWithoutDefaultValueIsMissing({})", n),
        NonOptionalFieldSerializedAsNone(n) => format!("NonOptionalFieldSerializedAsNone({})", n),
        InvalidRefId(id) => format!("InvalidRefId({})", id.0),
        InvalidConstructorId { constructor_id, type_name } => {
            format!("InvalidConstructorId({},{})", constructor_id, type_name)
        }
        DeserializingTransientConstructor { constructor_name, type_name } => {
            format!("DeserializingTransientConstructor({},{})", type_name, constructor_name)
        }
        SerializingTransientConstructor { constructor_name, type_name } => {
            format!("SerializingTransientConstructor({},{})", type_name, constructor_name)
        }
    }
}

/// outcome of a real call: Ok(x) / Err(kind text) / Panic(message)
pub enum Out<T> {
    Ok(T),
    Err(String),
    Panic(String),
}

impl<T> Out<T> {
    pub fn kind(&self) -> &'static str {
        match self {
            Out::Ok(_) => "ok",
            Out::Err(_) => "err",
            Out::Panic(_) => "panic",
        }
    }
}

pub fn guarded<T>(f: impl FnOnce() -> desert::Result<T>) -> Out<T> {
    match catch_unwind(AssertUnwindSafe(f)) {
        Ok(Ok(x)) => Out::Ok(x),
        Ok(Err(e)) => Out::Err(err_text(&e)),
        Err(p) => {
            let msg = if let Some(s) = p.downcast_ref::<&str>() {
                s.to_string()
            } else if let Some(s) = p.downcast_ref::<String>() {
                s.clone()
            } else {
                "panic".to_string()
            };
            Out::Panic(msg)
        }
    }
}

pub fn impl_encode<T: V>(v: &T) -> Out<Vec<u8>> {
    guarded(|| desert::serialize_to_byte_vec(v))
}

pub fn impl_decode<T: V>(b: &[u8]) -> Out<T> {
    guarded(|| desert::deserialize::<T>(b))
}

/// decode through an explicit context and report how many bytes were left unread
pub fn impl_decode_rest<T: V>(b: &[u8]) -> Out<(T, Vec<u8>)> {
    guarded(|| {
        let mut ctx = DeserializationContext::new(b);
        let v = <T as desert::BinaryDeserializer>::deserialize(&mut ctx)?;
        let mut rest = Vec::new();
        while let Ok(x) = ctx.read_u8() {
            rest.push(x);
        }
        Ok((v, rest))
    })
}

/// parse a model `dec` response: Ok((value sexp text canonicalised for T, consumed)) or Err(kind) or Panic
pub enum ModelDec {
    Ok(Option<String>, usize),
    Err(String),
    Panic(String),
    Bad(String),
}

pub fn parse_model_dec<T: V>(resp: &str) -> (ModelDec, bool) {
    let abs_same = resp.ends_with(" abs=same") || resp.ends_with(" abs=by-theorem");
    let body = match resp.rfind(" abs=") {
        Some(i) => &resp[..i],
        None => resp,
    };
    if let Some(r) = body.strip_prefix("ok ") {
        // "<val sexp> <consumed>"
        match r.rfind(' ') {
            Some(i) => {
                let consumed = r[i + 1..].parse::<usize>().unwrap_or(usize::MAX);
                let canon = parse_all(&r[..i]).and_then(|l| if l.len() == 1 { T::canon_sexp(&l[0]) } else { None });
                (ModelDec::Ok(canon, consumed), abs_same)
            }
            None => (ModelDec::Bad(resp.to_string()), abs_same),
        }
    } else if let Some(r) = body.strip_prefix("err ") {
        (ModelDec::Err(r.to_string()), abs_same)
    } else if let Some(r) = body.strip_prefix("panic ") {
        (ModelDec::Panic(r.to_string()), abs_same)
    } else {
        (ModelDec::Bad(resp.to_string()), abs_same)
    }
}

/// inputs beyond this size are not sent to the model (its list-backed interpreter is quadratic in the input length);
/// the implementation-side oracles still run on them. The golden family raises it for the golden file.
pub static MODEL_MAX_BYTES: std::sync::atomic::AtomicUsize = std::sync::atomic::AtomicUsize::new(49152);

fn model_ok(len: usize, c: &mut Collector) -> bool {
    if len > MODEL_MAX_BYTES.load(Ordering::Relaxed) {
        c.stat("model-skipped-large-input");
        false
    } else {
        true
    }
}

pub struct ValueOpts {
    pub prefixes: bool,
    pub max_prefixes: usize,
    pub env_sig: String,
}

/// All value-level checks for one (type, value): encode on both sides, round trip, consumption
/// with a suffix, prefix rejection, model decode of the implementation's bytes.
pub fn case_value<T: V>(v: &T, r: &mut Rng, c: &mut Collector, q: &mut Vec<Pending>, o: &ValueOpts) {
    c.eval();
    let name = T::rust_name();
    let text = v.show();
    let canon = v.expected();
    let case_id = format!("type={} value={}", name, text);
    let enc = impl_encode(v);
    c.stat(&format!("enc:{}", enc.kind()));
    if let Out::Panic(m) = &enc {
        c.fail("enc-panic", "oracle", &format!("{}|enc-panic", name), case_id.clone(), m.clone());
    }
    let enc_len = match &enc {
        Out::Ok(b) => b.len(),
        _ => 0,
    };
    if let Some(ty) = T::ty().filter(|_| model_ok(enc_len, c)) {
        let impl_enc_text = match &enc {
            Out::Ok(b) => format!("ok {}", hex(b)),
            Out::Err(k) => format!("err {}", k),
            Out::Panic(_) => "panic".to_string(),
        };
        let cid = case_id.clone();
        let nm = name.clone();
        q.push(Pending {
            req: format!("enc {} {}", ty, text),
            check: Box::new(move |resp, c| {
                let model_kind = resp.split(' ').next().unwrap_or("");
                if resp.starts_with("bad-request") {
                    c.fail("harness", "corr", &format!("{}|bad-request", nm), cid, resp.to_string());
                } else if resp == impl_enc_text {
                    c.stat("enc-agree");
                } else if model_kind == "ok" && impl_enc_text.starts_with("ok ") {
                    c.fail("bytes", "corr", &format!("{}|bytes", nm), cid, format!("impl {} model {}", impl_enc_text, resp));
                } else if model_kind == "err" && impl_enc_text.starts_with("err ") {
                    c.fail("enc-err", "corr", &format!("{}|enc-err", nm), cid, format!("impl {} model {}", impl_enc_text, resp));
                } else if model_kind == "panic" && impl_enc_text == "panic" {
                    c.stat("enc-agree-panic");
                } else {
                    c.fail("enc-outcome", "corr", &format!("{}|enc-outcome", nm), cid, format!("impl {} model {}", impl_enc_text, resp));
                }
            }),
        });
    }
    let bytes = match enc {
        Out::Ok(b) => b,
        _ => return,
    };
    if bytes.len() >= 2 {
        c.nontrivial(&format!("{}|{}", name, canon));
    }
    c.sample(format!("{} -> {}", case_id, hex(&bytes)));
    // round trip on the implementation
    match impl_decode::<T>(&bytes) {
        Out::Ok(v2) => {
            if !v.deep_eq(&v2) {
                c.fail("rt", "oracle", &format!("{}|rt", name), case_id.clone(), format!("bytes {} decoded {}", hex(&bytes), v2.show()));
            }
        }
        Out::Err(k) => c.fail("rt", "oracle", &format!("{}|rt", name), case_id.clone(), format!("bytes {} decode error {}", hex(&bytes), k)),
        Out::Panic(m) => c.fail("rt", "oracle", &format!("{}|rt", name), case_id.clone(), format!("bytes {} decode panic {}", hex(&bytes), m)),
    }
    // consumption with an arbitrary suffix
    let sl = r.below(6) as usize;
    let suffix: Vec<u8> = (0..sl).map(|_| *r.pick(&[0u8, 1, 2, 0x7f, 0x80, 0xff])).collect();
    let mut buf = bytes.clone();
    buf.extend_from_slice(&suffix);
    match impl_decode_rest::<T>(&buf) {
        Out::Ok((v2, rest)) => {
            if rest != suffix || !v.deep_eq(&v2) {
                c.fail(
                    "consume",
                    "oracle",
                    &format!("{}|consume", name),
                    case_id.clone(),
                    format!("buffer {} left {} expected suffix {} value {}", hex(&buf), hex(&rest), hex(&suffix), v2.show()),
                );
            }
        }
        Out::Err(k) => c.fail("consume", "oracle", &format!("{}|consume", name), case_id.clone(), format!("buffer {} error {}", hex(&buf), k)),
        Out::Panic(m) => c.fail("consume", "oracle", &format!("{}|consume", name), case_id.clone(), format!("buffer {} panic {}", hex(&buf), m)),
    }
    // every strict prefix must be rejected
    if o.prefixes && !bytes.is_empty() {
        let n = bytes.len();
        let cuts: Vec<usize> = if n <= o.max_prefixes {
            (0..n).collect()
        } else {
            let mut cs: Vec<usize> = (0..o.max_prefixes / 2).collect();
            cs.extend((n - o.max_prefixes / 4..n).collect::<Vec<_>>());
            for _ in 0..o.max_prefixes / 4 {
                cs.push(r.below(n as u64) as usize);
            }
            cs
        };
        for k in cuts {
            c.stat("prefix-cuts");
            match impl_decode::<T>(&bytes[..k]) {
                Out::Err(_) => {}
                Out::Ok(v2) => {
                    c.fail("prefix", "oracle", &format!("{}|prefix-ok", name), case_id.clone(), format!("bytes {} cut {} decoded Ok({})", hex(&bytes), k, v2.show()));
                    break;
                }
                Out::Panic(m) => {
                    c.fail("prefix", "oracle", &format!("{}|prefix-panic", name), case_id.clone(), format!("bytes {} cut {} panic {}", hex(&bytes), k, m));
                    break;
                }
            }
        }
    }
    // the model decodes the implementation's bytes (+ suffix)
    if let Some(ty) = T::ty().filter(|_| model_ok(bytes.len(), c)) {
        let cid = case_id.clone();
        let nm = name.clone();
        let blen = bytes.len();
        let bufhex = hex(&buf);
        q.push(Pending {
            req: format!("dec {} {}", ty, bufhex),
            check: Box::new(move |resp, c| {
                let (m, abs_same) = parse_model_dec::<T>(resp);
                if !abs_same {
                    c.fail("abs-diff", "corr", &format!("{}|abs-diff", nm), cid.clone(), resp.to_string());
                }
                match m {
                    ModelDec::Ok(Some(cv), consumed) if cv == canon && consumed == blen => c.stat("dec-agree"),
                    _ => c.fail("dec-model", "corr", &format!("{}|dec-model", nm), cid, format!("buffer {} expected {} consumed {} model {}", bufhex, canon, blen, resp)),
                }
            }),
        });
    }
}

/// A headerless record / enum / tuple value as a *later version* would have written it: version 1, chunk 0 = the same
/// fields, one empty added chunk. The reader (any definition of version 0) must read the same value and consume all of
/// it — the reader's path through `AdtDeserializer::new` with regions, which data written by the same definition never takes.
pub fn future_version_case<T: V>(v: &T, bytes: &[u8], c: &mut Collector, q: &mut Vec<Pending>) {
    if bytes.first() != Some(&0) || bytes.len() > 20_000 {
        return;
    }
    let rest = &bytes[1..];
    let mut m: Vec<u8> = vec![1];
    let mut push_zz = |n: usize, out: &mut Vec<u8>| {
        let mut x = (n as u64) << 1;
        loop {
            let b = (x & 0x7f) as u8;
            x >>= 7;
            if x == 0 {
                out.push(b);
                break;
            }
            out.push(b | 0x80);
        }
    };
    push_zz(rest.len(), &mut m);
    push_zz(0, &mut m);
    m.extend_from_slice(rest);
    c.stat("future-version-cases");
    let case = format!("type={} bytes={} origin=future version of {}", T::rust_name(), hex(&m), v.show());
    match impl_decode_rest::<T>(&m) {
        Out::Ok((v2, left)) if left.is_empty() && v.deep_eq(&v2) => {}
        Out::Ok((v2, left)) => c.fail("cross-consume", "oracle", &format!("{}|future-version", T::rust_name()), case.clone(), format!("decoded {} leaving {} bytes", v2.show(), left.len())),
        other => c.fail("rt", "oracle", &format!("{}|future-version", T::rust_name()), case.clone(), format!("the same fields under a version-1 header with an empty added chunk gave {}", other.kind())),
    }
    case_bytes::<T>(&m, "future-version", c, q, 0);
}

/// One raw / tampered byte string against one target type: totality on the implementation
/// (C05), and "accepted means what the reference says" (C06).
pub fn case_bytes<T: V>(b: &[u8], origin: &str, c: &mut Collector, q: &mut Vec<Pending>, alloc_budget: usize) {
    c.eval();
    let name = T::rust_name();
    let case_id = format!("type={} bytes={} origin={}", name, hex(b), origin);
    crate::progress(&case_id);
    MAX_ALLOC.store(0, Ordering::Relaxed);
    let t0 = std::time::Instant::now();
    let out = impl_decode_rest::<T>(b);
    let dt = t0.elapsed();
    let max_alloc = MAX_ALLOC.load(Ordering::Relaxed);
    c.stat(&format!("impl:{}", out.kind()));
    if let Out::Panic(m) = &out {
        c.fail("dec-panic", "oracle", &format!("{}|dec-panic", name), case_id.clone(), m.clone());
    }
    if dt.as_secs_f64() > 5.0 {
        c.fail("dec-slow", "oracle", &format!("{}|dec-slow", name), case_id.clone(), format!("{:?}", dt));
    }
    if max_alloc > alloc_budget.max(65536).max(16 * b.len()) {
        c.fail("dec-alloc", "oracle", &format!("{}|dec-alloc", name), case_id.clone(), format!("largest single allocation request {} bytes", max_alloc));
    }
    if let Some(ty) = T::ty().filter(|_| model_ok(b.len(), c)) {
        let impl_text = match &out {
            Out::Ok((v, rest)) => format!("ok {} {}", v.canon(), b.len() - rest.len()),
            Out::Err(k) => format!("err {}", k),
            Out::Panic(_) => "panic".to_string(),
        };
        if let Out::Ok(_) = &out {
            c.nontrivial(&case_id);
            c.sample(format!("{} -> {}", case_id, impl_text));
        }
        let nm = name.clone();
        q.push(Pending {
            req: format!("dec {} {}", ty, hex(b)),
            check: Box::new(move |resp, c| {
                let (m, abs_same) = parse_model_dec::<T>(resp);
                if !abs_same {
                    c.fail("abs-diff", "corr", &format!("{}|abs-diff", nm), case_id.clone(), resp.to_string());
                }
                let model_text = match &m {
                    ModelDec::Ok(Some(cv), n) => format!("ok {} {}", cv, n),
                    ModelDec::Ok(None, _) => format!("ok <unparsable> {}", resp),
                    ModelDec::Err(k) => format!("err {}", k),
                    ModelDec::Panic(_) => "panic".to_string(),
                    ModelDec::Bad(x) => format!("bad {}", x),
                };
                c.stat(&format!("model:{}", model_text.split(' ').next().unwrap_or("")));
                if model_text == impl_text {
                    c.stat("agree");
                    return;
                }
                let ik = impl_text.split(' ').next().unwrap_or("").to_string();
                let mk = model_text.split(' ').next().unwrap_or("").to_string();
                match (ik.as_str(), mk.as_str()) {
                    // the implementation accepted something the reference decoder does not assign that value to
                    ("ok", _) => c.fail("invent", "corr", &format!("{}|invent", nm), case_id, format!("impl {} model {}", impl_text, model_text)),
                    // impl panics: must be predicted, otherwise the never-panics theorem does not transfer
                    ("panic", "panic") => c.stat("panic-predicted"),
                    ("panic", _) => c.fail("panic-unpredicted", "corr", &format!("{}|panic-unpredicted", nm), case_id, format!("impl {} model {}", impl_text, model_text)),
                    ("err", "panic") => c.fail("model-panics", "corr", &format!("{}|model-panics", nm), case_id, format!("impl {} model {}", impl_text, model_text)),
                    ("err", "ok") => {
                        c.drift("impl-rejects-more");
                        c.fail("reject-more", "corr", &format!("{}|reject-more", nm), case_id, format!("impl {} model {}", impl_text, model_text))
                    }
                    ("err", "err") => {
                        c.drift("error-kind");
                        c.fail("err-kind", "corr", &format!("{}|err-kind", nm), case_id, format!("impl {} model {}", impl_text, model_text))
                    }
                    _ => c.fail("harness", "corr", &format!("{}|harness", nm), case_id, format!("impl {} model {}", impl_text, model_text)),
                }
            }),
        });
    }
}
