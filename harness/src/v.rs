//! `V`: everything the harness needs to know about a Rust type to put it through the real codec
//! and through the Lean model: its model type expression, a boundary-biased generator, the value's
//! model text (in the order the real serializer will visit it) and a canonical text for comparing
//! decoded values (hash containers sorted).
use crate::rng::Rng;
use crate::sexp::{hex, unhex, Sexp};
use desert::{BinaryDeserializer, BinarySerializer};
use std::collections::{BTreeMap, BTreeSet, HashMap, HashSet, LinkedList};
use std::marker::PhantomData;
use std::rc::Rc;
use std::sync::Arc;
use std::time::Duration;

pub trait V: BinarySerializer + BinaryDeserializer + Sized + 'static {
    /// model type expression; `None` when the type is outside the model (impl-only oracles)
    fn ty() -> Option<String>;
    fn gen(r: &mut Rng, d: u32) -> Self;
    /// model value text, elements in the order the serializer iterates them
    fn show(&self) -> String;
    /// canonical text (sets and maps sorted by element text); with `norm`, transient fields of
    /// derived types are printed as their declared defaults (what a decode of this value must give)
    fn canon_m(&self, _norm: bool) -> String {
        self.show()
    }
    fn canon(&self) -> String {
        self.canon_m(false)
    }
    /// canonical text of the value a round trip must produce
    fn expected(&self) -> String {
        self.canon_m(true)
    }
    /// canonical text of a value printed by the model for this type
    fn canon_sexp(x: &Sexp) -> Option<String>;
    /// a readable Rust-ish name
    fn rust_name() -> String;
    /// no encoded bytes at all (sequences of these do not consume input per element)
    fn zero_width() -> bool {
        false
    }
    /// usable as a target of the raw/tamper families: no sequence of zero-width elements inside
    /// (a huge count then iterates without consuming input; DESIGN §9.7)
    fn raw_ok() -> bool {
        true
    }
    /// can the generator produce values whose encoding fails (e.g. char >= U+10000)?
    /// `other` is what decoding an encoding of `self` must look like
    fn deep_eq(&self, other: &Self) -> bool {
        self.expected() == other.canon()
    }
}

/// derived types with `#[transient]` fields: the same value with those fields re-generated
pub trait VaryTransient: Sized {
    const HAS_TRANSIENT: bool;
    fn vary_transient(&self, r: &mut Rng) -> Self;
}

fn int_canon(x: &Sexp) -> Option<String> {
    let a = x.tagged("i")?;
    if a.len() == 1 {
        Some(format!("(i {})", a[0].atom()?))
    } else {
        None
    }
}

macro_rules! int_v {
    ($t:ty, $name:expr) => {
        impl V for $t {
            fn ty() -> Option<String> {
                Some($name.to_string())
            }
            fn gen(r: &mut Rng, _d: u32) -> Self {
                let bits = <$t>::BITS;
                match r.below(8) {
                    0 => 0 as $t,
                    1 => <$t>::MAX,
                    2 => <$t>::MIN,
                    3 => 1 as $t,
                    4 => (<$t>::MAX >> r.below(bits as u64) as u32),
                    5 => ((1 as $t) << r.below((bits - 1) as u64) as u32).wrapping_sub(r.below(3) as $t).wrapping_add(1),
                    6 => (0 as $t).wrapping_sub(r.below(300) as $t),
                    _ => {
                        let mut x: u128 = r.next() as u128;
                        x = (x << 64) | r.next() as u128;
                        x as $t
                    }
                }
            }
            fn show(&self) -> String {
                format!("(i {})", self)
            }
            fn canon_sexp(x: &Sexp) -> Option<String> {
                int_canon(x)
            }
            fn rust_name() -> String {
                stringify!($t).to_string()
            }
        }
    };
}
int_v!(u8, "u8");
int_v!(i8, "i8");
int_v!(u16, "u16");
int_v!(i16, "i16");
int_v!(u32, "u32");
int_v!(i32, "i32");
int_v!(u64, "u64");
int_v!(i64, "i64");
int_v!(u128, "u128");
int_v!(i128, "i128");

impl V for f32 {
    fn ty() -> Option<String> {
        Some("f32".into())
    }
    fn gen(r: &mut Rng, _d: u32) -> Self {
        match r.below(8) {
            0 => 0.0,
            1 => -0.0,
            2 => f32::NAN,
            3 => f32::from_bits(0x7fc0_0001 | (r.next() as u32 & 0x003f_ffff)),
            4 => f32::INFINITY,
            5 => f32::MIN_POSITIVE / 2.0,
            6 => 3.14,
            _ => f32::from_bits(r.next() as u32),
        }
    }
    fn show(&self) -> String {
        format!("(i {})", self.to_bits())
    }
    fn canon_sexp(x: &Sexp) -> Option<String> {
        int_canon(x)
    }
    fn rust_name() -> String {
        "f32".into()
    }
}

impl V for f64 {
    fn ty() -> Option<String> {
        Some("f64".into())
    }
    fn gen(r: &mut Rng, _d: u32) -> Self {
        match r.below(8) {
            0 => 0.0,
            1 => -0.0,
            2 => f64::NAN,
            3 => f64::from_bits(0x7ff8_0000_0000_0001 | (r.next() & 0x0007_ffff_ffff_ffff)),
            4 => f64::NEG_INFINITY,
            5 => f64::MIN_POSITIVE / 2.0,
            6 => 0.1234e-10,
            _ => f64::from_bits(r.next()),
        }
    }
    fn show(&self) -> String {
        format!("(i {})", self.to_bits())
    }
    fn canon_sexp(x: &Sexp) -> Option<String> {
        int_canon(x)
    }
    fn rust_name() -> String {
        "f64".into()
    }
}

impl V for bool {
    fn ty() -> Option<String> {
        Some("bool".into())
    }
    fn gen(r: &mut Rng, _d: u32) -> Self {
        r.chance(1, 2)
    }
    fn show(&self) -> String {
        if *self { "T" } else { "F" }.to_string()
    }
    fn canon_sexp(x: &Sexp) -> Option<String> {
        match x.atom()? {
            "T" => Some("T".into()),
            "F" => Some("F".into()),
            _ => None,
        }
    }
    fn rust_name() -> String {
        "bool".into()
    }
}

impl V for () {
    fn ty() -> Option<String> {
        Some("unit".into())
    }
    fn gen(_r: &mut Rng, _d: u32) -> Self {}
    fn show(&self) -> String {
        "U".into()
    }
    fn canon_sexp(x: &Sexp) -> Option<String> {
        if x.atom()? == "U" {
            Some("U".into())
        } else {
            None
        }
    }
    fn rust_name() -> String {
        "()".into()
    }
    fn zero_width() -> bool {
        true
    }
}

impl<T: 'static> V for PhantomData<T> {
    fn ty() -> Option<String> {
        Some("unit".into())
    }
    fn gen(_r: &mut Rng, _d: u32) -> Self {
        PhantomData
    }
    fn show(&self) -> String {
        "U".into()
    }
    fn canon_sexp(x: &Sexp) -> Option<String> {
        <()>::canon_sexp(x)
    }
    fn rust_name() -> String {
        "PhantomData<_>".into()
    }
    fn zero_width() -> bool {
        true
    }
}

pub const CHAR_TABLE: &[u32] = &[
    0, 1, 0x41, 0x7f, 0x80, 0xff, 0x100, 0x7ff, 0x800, 0xd7ff, 0xe000, 0xfffd, 0xfffe, 0xffff, 0x10000, 0x10001, 0x1f600,
    0x10ffff,
];

impl V for char {
    fn ty() -> Option<String> {
        Some("char".into())
    }
    fn gen(r: &mut Rng, _d: u32) -> Self {
        if r.chance(1, 2) {
            char::from_u32(*r.pick(CHAR_TABLE)).unwrap()
        } else {
            loop {
                let lim = if r.chance(9, 10) { 0x10000 } else { 0x110000 };
                if let Some(c) = char::from_u32(r.below(lim) as u32) {
                    return c;
                }
            }
        }
    }
    fn show(&self) -> String {
        format!("(i {})", *self as u32)
    }
    fn canon_sexp(x: &Sexp) -> Option<String> {
        int_canon(x)
    }
    fn rust_name() -> String {
        "char".into()
    }
}

pub const STR_TABLE: &[&str] = &[
    "", "a", "x", "gone", "hello", "héllo wörld", "日本語", "\u{0}", "\u{7f}\u{80}", "\u{ffff}", "\u{10000}𝄞", "ab\ncd",
    "this is a test string", "and another one",
];

pub fn gen_string(r: &mut Rng) -> String {
    match r.below(4) {
        0 | 1 => r.pick(STR_TABLE).to_string(),
        2 => {
            let n = r.below(6);
            (0..n).map(|_| (b'a' + r.below(4) as u8) as char).collect()
        }
        _ => {
            let n = match r.below(4) {
                0 => 63,
                1 => 64,
                2 => 130,
                _ => r.below(20),
            };
            (0..n).map(|_| char::gen(r, 0)).collect()
        }
    }
}

fn tagged_hex(x: &Sexp, tag: &str) -> Option<String> {
    let a = x.tagged(tag)?;
    if a.len() == 1 {
        let h = a[0].atom()?;
        unhex(h)?;
        Some(format!("({} {})", tag, h.to_lowercase()))
    } else if a.is_empty() {
        Some(format!("({} -)", tag))
    } else {
        None
    }
}

impl V for String {
    fn ty() -> Option<String> {
        Some("string".into())
    }
    fn gen(r: &mut Rng, _d: u32) -> Self {
        gen_string(r)
    }
    fn show(&self) -> String {
        format!("(s {})", hex(self.as_bytes()))
    }
    fn canon_sexp(x: &Sexp) -> Option<String> {
        tagged_hex(x, "s")
    }
    fn rust_name() -> String {
        "String".into()
    }
}

impl V for Duration {
    fn ty() -> Option<String> {
        Some("duration".into())
    }
    fn gen(r: &mut Rng, _d: u32) -> Self {
        let secs = u64::gen(r, 0);
        let nanos = match r.below(4) {
            0 => 0,
            1 => 999_999_999,
            _ => r.below(1_000_000_000) as u32,
        };
        Duration::new(secs, nanos)
    }
    fn show(&self) -> String {
        format!("(d {} {})", self.as_secs(), self.subsec_nanos())
    }
    fn canon_sexp(x: &Sexp) -> Option<String> {
        let a = x.tagged("d")?;
        if a.len() == 2 {
            Some(format!("(d {} {})", a[0].atom()?, a[1].atom()?))
        } else {
            None
        }
    }
    fn rust_name() -> String {
        "Duration".into()
    }
}

pub fn gen_bytes(r: &mut Rng) -> Vec<u8> {
    let n = match r.below(8) {
        0 => 0,
        1 => 1,
        2 => 127,
        3 => 128,
        4 => 300,
        _ => r.below(12),
    };
    (0..n)
        .map(|_| match r.below(4) {
            0 => 0,
            1 => 0xff,
            _ => r.next() as u8,
        })
        .collect()
}

impl V for bytes::Bytes {
    fn ty() -> Option<String> {
        Some("bytes".into())
    }
    fn gen(r: &mut Rng, _d: u32) -> Self {
        bytes::Bytes::from(gen_bytes(r))
    }
    fn show(&self) -> String {
        format!("(b {})", hex(self))
    }
    fn canon_sexp(x: &Sexp) -> Option<String> {
        tagged_hex(x, "b")
    }
    fn rust_name() -> String {
        "Bytes".into()
    }
}

impl V for uuid::Uuid {
    fn ty() -> Option<String> {
        Some("uuid".into())
    }
    fn gen(r: &mut Rng, _d: u32) -> Self {
        let hi = r.next();
        let lo = r.next();
        uuid::Uuid::from_u64_pair(hi, lo)
    }
    fn show(&self) -> String {
        format!("(b {})", hex(self.as_bytes()))
    }
    fn canon_sexp(x: &Sexp) -> Option<String> {
        tagged_hex(x, "b")
    }
    fn rust_name() -> String {
        "Uuid".into()
    }
}

impl V for desert::DeduplicatedString {
    fn ty() -> Option<String> {
        Some("dstring".into())
    }
    fn gen(r: &mut Rng, _d: u32) -> Self {
        // a small alphabet so that repeats are frequent
        let s = match r.below(6) {
            0 => "x".to_string(),
            1 => "gone".to_string(),
            2 => "y".to_string(),
            3 => "".to_string(),
            4 => "a long string that repeats itself, a long string that repeats itself".to_string(),
            _ => gen_string(r),
        };
        desert::DeduplicatedString(s)
    }
    fn show(&self) -> String {
        format!("(s {})", hex(self.0.as_bytes()))
    }
    fn canon_sexp(x: &Sexp) -> Option<String> {
        tagged_hex(x, "s")
    }
    fn rust_name() -> String {
        "DeduplicatedString".into()
    }
}

/// a bare `write_var_u32` / `read_var_u32` (what hand-written codecs such as the golden test's `StackTraceElement`
/// use for counters); model type `varu32`
#[derive(Debug, Clone, Copy, PartialEq, Eq, Hash, PartialOrd, Ord)]
pub struct VarU32(pub u32);

impl BinarySerializer for VarU32 {
    fn serialize<O: desert::BinaryOutput>(&self, context: &mut desert::SerializationContext<O>) -> desert::Result<()> {
        use desert::BinaryOutput;
        context.write_var_u32(self.0);
        Ok(())
    }
}

impl BinaryDeserializer for VarU32 {
    fn deserialize(context: &mut desert::DeserializationContext<'_>) -> desert::Result<Self> {
        use desert::BinaryInput;
        Ok(VarU32(context.read_var_u32()?))
    }
}

impl V for VarU32 {
    fn ty() -> Option<String> {
        Some("varu32".into())
    }
    fn gen(r: &mut Rng, d: u32) -> Self {
        VarU32(u32::gen(r, d))
    }
    fn show(&self) -> String {
        format!("(i {})", self.0)
    }
    fn canon_sexp(x: &Sexp) -> Option<String> {
        int_canon(x)
    }
    fn rust_name() -> String {
        "VarU32".into()
    }
}

/// `DeduplicatedString` has no Debug/Clone/Eq; the harness uses this transparent wrapper in
/// generated declarations and containers (same codec, by delegation)
#[derive(Debug, Clone, PartialEq, Eq, Hash, PartialOrd, Ord)]
pub struct DStr(pub String);

impl BinarySerializer for DStr {
    fn serialize<O: desert::BinaryOutput>(&self, context: &mut desert::SerializationContext<O>) -> desert::Result<()> {
        desert::DeduplicatedString(self.0.clone()).serialize(context)
    }
}

impl BinaryDeserializer for DStr {
    fn deserialize(context: &mut desert::DeserializationContext<'_>) -> desert::Result<Self> {
        Ok(DStr(desert::DeduplicatedString::deserialize(context)?.0))
    }
}

impl V for DStr {
    fn ty() -> Option<String> {
        Some("dstring".into())
    }
    fn gen(r: &mut Rng, d: u32) -> Self {
        DStr(desert::DeduplicatedString::gen(r, d).0)
    }
    fn show(&self) -> String {
        format!("(s {})", hex(self.0.as_bytes()))
    }
    fn canon_sexp(x: &Sexp) -> Option<String> {
        tagged_hex(x, "s")
    }
    fn rust_name() -> String {
        "DStr".into()
    }
}

impl<T: V> V for Option<T> {
    fn ty() -> Option<String> {
        Some(format!("(opt {})", T::ty()?))
    }
    fn gen(r: &mut Rng, d: u32) -> Self {
        if r.chance(1, 3) {
            None
        } else {
            Some(T::gen(r, d.saturating_sub(1)))
        }
    }
    fn show(&self) -> String {
        match self {
            None => "N".into(),
            Some(v) => format!("(S {})", v.show()),
        }
    }
    fn canon_m(&self, n: bool) -> String {
        match self {
            None => "N".into(),
            Some(v) => format!("(S {})", v.canon_m(n)),
        }
    }
    fn canon_sexp(x: &Sexp) -> Option<String> {
        if x.atom() == Some("N") {
            return Some("N".into());
        }
        let a = x.tagged("S")?;
        if a.len() == 1 {
            Some(format!("(S {})", T::canon_sexp(&a[0])?))
        } else {
            None
        }
    }
    fn rust_name() -> String {
        format!("Option<{}>", T::rust_name())
    }
    fn raw_ok() -> bool {
        T::raw_ok()
    }
}

impl<A: V, E: V> V for Result<A, E> {
    fn ty() -> Option<String> {
        Some(format!("(res {} {})", A::ty()?, E::ty()?))
    }
    fn gen(r: &mut Rng, d: u32) -> Self {
        if r.chance(1, 2) {
            Ok(A::gen(r, d.saturating_sub(1)))
        } else {
            Err(E::gen(r, d.saturating_sub(1)))
        }
    }
    fn show(&self) -> String {
        match self {
            Ok(v) => format!("(O {})", v.show()),
            Err(v) => format!("(E {})", v.show()),
        }
    }
    fn canon_m(&self, n: bool) -> String {
        match self {
            Ok(v) => format!("(O {})", v.canon_m(n)),
            Err(v) => format!("(E {})", v.canon_m(n)),
        }
    }
    fn canon_sexp(x: &Sexp) -> Option<String> {
        if let Some(a) = x.tagged("O") {
            if a.len() == 1 {
                return Some(format!("(O {})", A::canon_sexp(&a[0])?));
            }
        }
        let a = x.tagged("E")?;
        if a.len() == 1 {
            Some(format!("(E {})", E::canon_sexp(&a[0])?))
        } else {
            None
        }
    }
    fn rust_name() -> String {
        format!("Result<{},{}>", A::rust_name(), E::rust_name())
    }
    fn raw_ok() -> bool {
        A::raw_ok() && E::raw_ok()
    }
}

pub fn gen_len(r: &mut Rng, d: u32) -> usize {
    if d == 0 {
        return r.below(2) as usize;
    }
    match r.below(8) {
        0 => 0,
        1 => 1,
        2 => 64 + r.below(2) as usize, // zig-zag width boundary
        _ => r.below(5) as usize,
    }
}

fn list_text(items: impl Iterator<Item = String>) -> String {
    let mut s = String::from("(l");
    for i in items {
        s.push(' ');
        s.push_str(&i);
    }
    s.push(')');
    s
}

fn canon_items<T: V>(x: &Sexp) -> Option<Vec<String>> {
    x.tagged("l")?.iter().map(|i| T::canon_sexp(i)).collect()
}

/// byte-specialised containers: the model type is `bytes`, values are `(b hex)`
fn is_u8<T: 'static>() -> bool {
    std::any::TypeId::of::<T>() == std::any::TypeId::of::<u8>()
}

fn bytes_of<T: V>(items: &[T]) -> Vec<u8> {
    // only called when T = u8
    items.iter().map(|x| x.show()[3..].trim_end_matches(')').parse::<u8>().unwrap()).collect()
}

impl<T: V> V for Vec<T> {
    fn ty() -> Option<String> {
        if is_u8::<T>() {
            Some("bytes".into())
        } else {
            Some(format!("(seq {})", T::ty()?))
        }
    }
    fn gen(r: &mut Rng, d: u32) -> Self {
        if is_u8::<T>() {
            let b = gen_bytes(r);
            let mut rr = Rng(0);
            let mut v: Vec<T> = Vec::new();
            for x in b {
                // materialise u8 values through the generic interface
                let mut t = T::gen(&mut rr, 0);
                // SAFETY-free trick: regenerate until the text matches is too slow; use Any downcast instead
                let any: &mut dyn std::any::Any = &mut t;
                *any.downcast_mut::<u8>().unwrap() = x;
                v.push(t);
            }
            v
        } else {
            let n = if T::zero_width() { r.below(4) as usize } else { gen_len(r, d) };
            (0..n).map(|_| T::gen(r, d.saturating_sub(1))).collect()
        }
    }
    fn show(&self) -> String {
        if is_u8::<T>() {
            format!("(b {})", hex(&bytes_of(self)))
        } else {
            list_text(self.iter().map(|x| x.show()))
        }
    }
    fn canon_m(&self, n: bool) -> String {
        if is_u8::<T>() {
            self.show()
        } else {
            list_text(self.iter().map(|x| x.canon_m(n)))
        }
    }
    fn canon_sexp(x: &Sexp) -> Option<String> {
        if is_u8::<T>() {
            tagged_hex(x, "b")
        } else {
            Some(list_text(canon_items::<T>(x)?.into_iter()))
        }
    }
    fn rust_name() -> String {
        format!("Vec<{}>", T::rust_name())
    }
    fn raw_ok() -> bool {
        !T::zero_width() && T::raw_ok()
    }
}

impl<T: V, const N: usize> V for [T; N] {
    fn ty() -> Option<String> {
        if is_u8::<T>() {
            Some(format!("(barr {})", N))
        } else {
            Some(format!("(arr {} {})", N, T::ty()?))
        }
    }
    fn gen(r: &mut Rng, d: u32) -> Self {
        let v: Vec<T> = (0..N).map(|_| T::gen(r, d.saturating_sub(1))).collect();
        match v.try_into() {
            Ok(a) => a,
            Err(_) => unreachable!(),
        }
    }
    fn show(&self) -> String {
        if is_u8::<T>() {
            format!("(b {})", hex(&bytes_of(self)))
        } else {
            list_text(self.iter().map(|x| x.show()))
        }
    }
    fn canon_m(&self, n: bool) -> String {
        if is_u8::<T>() {
            self.show()
        } else {
            list_text(self.iter().map(|x| x.canon_m(n)))
        }
    }
    fn canon_sexp(x: &Sexp) -> Option<String> {
        if is_u8::<T>() {
            tagged_hex(x, "b")
        } else {
            Some(list_text(canon_items::<T>(x)?.into_iter()))
        }
    }
    fn rust_name() -> String {
        format!("[{}; {}]", T::rust_name(), N)
    }
    fn raw_ok() -> bool {
        !T::zero_width() && T::raw_ok()
    }
}

impl<T: V + Eq + std::hash::Hash> V for LinkedList<T> {
    fn ty() -> Option<String> {
        Some(format!("(seq {})", T::ty()?))
    }
    fn gen(r: &mut Rng, d: u32) -> Self {
        let n = gen_len(r, d);
        (0..n).map(|_| T::gen(r, d.saturating_sub(1))).collect()
    }
    fn show(&self) -> String {
        list_text(self.iter().map(|x| x.show()))
    }
    fn canon_m(&self, n: bool) -> String {
        list_text(self.iter().map(|x| x.canon_m(n)))
    }
    fn canon_sexp(x: &Sexp) -> Option<String> {
        Some(list_text(canon_items::<T>(x)?.into_iter()))
    }
    fn rust_name() -> String {
        format!("LinkedList<{}>", T::rust_name())
    }
    fn raw_ok() -> bool {
        !T::zero_width() && T::raw_ok()
    }
}

fn set_canon(mut items: Vec<String>) -> String {
    items.sort();
    items.dedup();
    list_text(items.into_iter())
}

impl<T: V + Eq + std::hash::Hash> V for HashSet<T> {
    fn ty() -> Option<String> {
        Some(format!("(seq {})", T::ty()?))
    }
    fn gen(r: &mut Rng, d: u32) -> Self {
        let n = gen_len(r, d);
        (0..n).map(|_| T::gen(r, d.saturating_sub(1))).collect()
    }
    fn show(&self) -> String {
        list_text(self.iter().map(|x| x.show()))
    }
    fn canon_m(&self, n: bool) -> String {
        set_canon(self.iter().map(|x| x.canon_m(n)).collect())
    }
    fn canon_sexp(x: &Sexp) -> Option<String> {
        Some(set_canon(canon_items::<T>(x)?))
    }
    fn rust_name() -> String {
        format!("HashSet<{}>", T::rust_name())
    }
    fn raw_ok() -> bool {
        !T::zero_width() && T::raw_ok()
    }
}

impl<T: V + Ord> V for BTreeSet<T> {
    fn ty() -> Option<String> {
        Some(format!("(seq {})", T::ty()?))
    }
    fn gen(r: &mut Rng, d: u32) -> Self {
        let n = gen_len(r, d);
        (0..n).map(|_| T::gen(r, d.saturating_sub(1))).collect()
    }
    fn show(&self) -> String {
        list_text(self.iter().map(|x| x.show()))
    }
    fn canon_m(&self, n: bool) -> String {
        set_canon(self.iter().map(|x| x.canon_m(n)).collect())
    }
    fn canon_sexp(x: &Sexp) -> Option<String> {
        Some(set_canon(canon_items::<T>(x)?))
    }
    fn rust_name() -> String {
        format!("BTreeSet<{}>", T::rust_name())
    }
    fn raw_ok() -> bool {
        !T::zero_width() && T::raw_ok()
    }
}

fn map_canon(entries: Vec<(String, String)>) -> String {
    // last value of a duplicated key wins, as in collect()
    let mut m: BTreeMap<String, String> = BTreeMap::new();
    for (k, v) in entries {
        m.insert(k, v);
    }
    list_text(m.into_iter().map(|(k, v)| format!("(l {} {})", k, v)))
}

fn canon_entries<K: V, W: V>(x: &Sexp) -> Option<Vec<(String, String)>> {
    x.tagged("l")?
        .iter()
        .map(|e| {
            let kv = e.tagged("l")?;
            if kv.len() != 2 {
                return None;
            }
            Some((K::canon_sexp(&kv[0])?, W::canon_sexp(&kv[1])?))
        })
        .collect()
}

impl<K: V + Eq + std::hash::Hash, W: V> V for HashMap<K, W> {
    fn ty() -> Option<String> {
        Some(format!("(seq (tup {} {}))", K::ty()?, W::ty()?))
    }
    fn gen(r: &mut Rng, d: u32) -> Self {
        let n = gen_len(r, d);
        (0..n).map(|_| (K::gen(r, d.saturating_sub(1)), W::gen(r, d.saturating_sub(1)))).collect()
    }
    fn show(&self) -> String {
        list_text(self.iter().map(|(k, v)| format!("(l {} {})", k.show(), v.show())))
    }
    fn canon_m(&self, n: bool) -> String {
        map_canon(self.iter().map(|(k, v)| (k.canon_m(n), v.canon_m(n))).collect())
    }
    fn canon_sexp(x: &Sexp) -> Option<String> {
        Some(map_canon(canon_entries::<K, W>(x)?))
    }
    fn rust_name() -> String {
        format!("HashMap<{},{}>", K::rust_name(), W::rust_name())
    }
    fn raw_ok() -> bool {
        K::raw_ok() && W::raw_ok()
    }
}

impl<K: V + Ord, W: V> V for BTreeMap<K, W> {
    fn ty() -> Option<String> {
        Some(format!("(seq (tup {} {}))", K::ty()?, W::ty()?))
    }
    fn gen(r: &mut Rng, d: u32) -> Self {
        let n = gen_len(r, d);
        (0..n).map(|_| (K::gen(r, d.saturating_sub(1)), W::gen(r, d.saturating_sub(1)))).collect()
    }
    fn show(&self) -> String {
        list_text(self.iter().map(|(k, v)| format!("(l {} {})", k.show(), v.show())))
    }
    fn canon_m(&self, n: bool) -> String {
        map_canon(self.iter().map(|(k, v)| (k.canon_m(n), v.canon_m(n))).collect())
    }
    fn canon_sexp(x: &Sexp) -> Option<String> {
        Some(map_canon(canon_entries::<K, W>(x)?))
    }
    fn rust_name() -> String {
        format!("BTreeMap<{},{}>", K::rust_name(), W::rust_name())
    }
    fn raw_ok() -> bool {
        K::raw_ok() && W::raw_ok()
    }
}

macro_rules! ptr_v {
    ($p:ident) => {
        impl<T: V> V for $p<T> {
            fn ty() -> Option<String> {
                T::ty()
            }
            fn gen(r: &mut Rng, d: u32) -> Self {
                $p::new(T::gen(r, d))
            }
            fn show(&self) -> String {
                (**self).show()
            }
            fn canon_m(&self, n: bool) -> String {
                (**self).canon_m(n)
            }
            fn canon_sexp(x: &Sexp) -> Option<String> {
                T::canon_sexp(x)
            }
            fn rust_name() -> String {
                format!("{}<{}>", stringify!($p), T::rust_name())
            }
            fn zero_width() -> bool {
                T::zero_width()
            }
            fn raw_ok() -> bool {
                T::raw_ok()
            }
        }
    };
}
ptr_v!(Box);
ptr_v!(Rc);
ptr_v!(Arc);

macro_rules! tuple_v {
    ($($t:ident $i:tt),+) => {
        impl<$($t: V),+> V for ($($t,)+) {
            fn ty() -> Option<String> {
                let parts: Vec<String> = vec![$($t::ty()?),+];
                Some(format!("(tup {})", parts.join(" ")))
            }
            fn gen(r: &mut Rng, d: u32) -> Self {
                ($($t::gen(r, d.saturating_sub(1)),)+)
            }
            fn show(&self) -> String {
                list_text(vec![$(self.$i.show()),+].into_iter())
            }
            fn canon_m(&self, n: bool) -> String {
                list_text(vec![$(self.$i.canon_m(n)),+].into_iter())
            }
            fn canon_sexp(x: &Sexp) -> Option<String> {
                let a = x.tagged("l")?;
                let n = [$($i),+].len();
                if a.len() != n { return None; }
                Some(list_text(vec![$($t::canon_sexp(&a[$i])?),+].into_iter()))
            }
            fn rust_name() -> String {
                let parts: Vec<String> = vec![$($t::rust_name()),+];
                format!("({},)", parts.join(","))
            }
            fn raw_ok() -> bool {
                true $(&& $t::raw_ok())+
            }
        }
    };
}
tuple_v!(A 0);
tuple_v!(A 0, B 1);
tuple_v!(A 0, B 1, C 2);
tuple_v!(A 0, B 1, C 2, D 3);
tuple_v!(A 0, B 1, C 2, D 3, E 4);
tuple_v!(A 0, B 1, C 2, D 3, E 4, F 5);
tuple_v!(A 0, B 1, C 2, D 3, E 4, F 5, G 6);
tuple_v!(A 0, B 1, C 2, D 3, E 4, F 5, G 6, H 7);

// ---- chrono leaves ----------------------------------------------------------------------------

impl V for chrono::Weekday {
    fn ty() -> Option<String> {
        Some("weekday".into())
    }
    fn gen(r: &mut Rng, _d: u32) -> Self {
        use chrono::Weekday::*;
        *r.pick(&[Mon, Tue, Wed, Thu, Fri, Sat, Sun])
    }
    fn show(&self) -> String {
        format!("(i {})", self.number_from_monday())
    }
    fn canon_sexp(x: &Sexp) -> Option<String> {
        int_canon(x)
    }
    fn rust_name() -> String {
        "Weekday".into()
    }
}

impl V for chrono::Month {
    fn ty() -> Option<String> {
        Some("month".into())
    }
    fn gen(r: &mut Rng, _d: u32) -> Self {
        chrono::Month::try_from(1 + r.below(12) as u8).unwrap()
    }
    fn show(&self) -> String {
        format!("(i {})", self.number_from_month())
    }
    fn canon_sexp(x: &Sexp) -> Option<String> {
        int_canon(x)
    }
    fn rust_name() -> String {
        "Month".into()
    }
}

impl V for chrono::FixedOffset {
    fn ty() -> Option<String> {
        Some("fixedoffset".into())
    }
    fn gen(r: &mut Rng, _d: u32) -> Self {
        let s = match r.below(5) {
            0 => 0,
            1 => 86_399,
            2 => -86_399,
            _ => r.below(172_799) as i32 - 86_399,
        };
        chrono::FixedOffset::east_opt(s).unwrap()
    }
    fn show(&self) -> String {
        format!("(i {})", self.local_minus_utc())
    }
    fn canon_sexp(x: &Sexp) -> Option<String> {
        int_canon(x)
    }
    fn rust_name() -> String {
        "FixedOffset".into()
    }
}

/// types outside the model: only the implementation-side oracles apply; `show` is a debug text
macro_rules! unmodelled_v {
    ($t:ty, $name:expr, $gen:expr) => {
        impl V for $t {
            fn ty() -> Option<String> {
                None
            }
            fn gen(r: &mut Rng, _d: u32) -> Self {
                let g: fn(&mut Rng) -> $t = $gen;
                g(r)
            }
            fn show(&self) -> String {
                format!("{:?}", self).replace(' ', "_").replace('(', "<").replace(')', ">")
            }
            fn canon_sexp(_x: &Sexp) -> Option<String> {
                None
            }
            fn rust_name() -> String {
                $name.into()
            }
            fn deep_eq(&self, other: &Self) -> bool {
                self == other
            }
        }
    };
}

fn gen_naive_date(r: &mut Rng) -> chrono::NaiveDate {
    loop {
        let y = match r.below(6) {
            0 => 0,
            1 => 1970,
            2 => -1,
            3 => 262_142,
            4 => -262_143,
            _ => r.below(6000) as i32 - 2000,
        };
        let m = 1 + r.below(12) as u32;
        let d = 1 + r.below(31) as u32;
        if let Some(x) = chrono::NaiveDate::from_ymd_opt(y, m, d) {
            return x;
        }
    }
}

fn gen_naive_time(r: &mut Rng) -> chrono::NaiveTime {
    let (h, m, s) = (r.below(24) as u32, r.below(60) as u32, r.below(60) as u32);
    let n = match r.below(4) {
        0 => 0,
        1 => 999_999_999,
        2 if s == 59 => 1_000_000_000 + r.below(1_000_000_000) as u32,
        _ => r.below(1_000_000_000) as u32,
    };
    chrono::NaiveTime::from_hms_nano_opt(h, m, s, n).unwrap()
}

unmodelled_v!(chrono::NaiveDate, "NaiveDate", gen_naive_date);
unmodelled_v!(chrono::NaiveTime, "NaiveTime", gen_naive_time);
unmodelled_v!(chrono::NaiveDateTime, "NaiveDateTime", |r| chrono::NaiveDateTime::new(gen_naive_date(r), gen_naive_time(r)));
unmodelled_v!(chrono::DateTime<chrono::Utc>, "DateTime<Utc>", |r| {
    let secs = match r.below(4) {
        0 => 0,
        1 => -1,
        _ => (r.below(8_000_000_000_000) as i64) - 4_000_000_000_000,
    };
    chrono::DateTime::<chrono::Utc>::from_timestamp(secs, r.below(1_000_000_000) as u32).unwrap()
});
unmodelled_v!(chrono_tz::Tz, "Tz", |r| {
    let all = chrono_tz::TZ_VARIANTS;
    all[r.below(all.len() as u64) as usize]
});
unmodelled_v!(chrono::DateTime<chrono::FixedOffset>, "DateTime<FixedOffset>", |r| {
    use chrono::TimeZone;
    loop {
        let naive = chrono::NaiveDateTime::new(gen_naive_date(r), gen_naive_time(r));
        let off = chrono::FixedOffset::gen(r, 0);
        if let Some(x) = off.from_local_datetime(&naive).single() {
            return x;
        }
    }
});
unmodelled_v!(chrono::DateTime<chrono_tz::Tz>, "DateTime<Tz>", |r| {
    use chrono::TimeZone;
    let all = chrono_tz::TZ_VARIANTS;
    let tz = all[r.below(all.len() as u64) as usize];
    let naive = chrono::NaiveDateTime::new(
        chrono::NaiveDate::from_ymd_opt(1800 + r.below(400) as i32, 1 + r.below(12) as u32, 1 + r.below(28) as u32).unwrap(),
        gen_naive_time(r),
    );
    tz.from_utc_datetime(&naive)
});
unmodelled_v!(chrono::DateTime<chrono::Local>, "DateTime<Local>", |r| {
    use chrono::TimeZone;
    loop {
        let naive = chrono::NaiveDateTime::new(
            chrono::NaiveDate::from_ymd_opt(1800 + r.below(400) as i32, 1 + r.below(12) as u32, 1 + r.below(28) as u32).unwrap(),
            gen_naive_time(r),
        );
        if let Some(x) = chrono::Local.from_local_datetime(&naive).single() {
            return x;
        }
    }
});
unmodelled_v!(bigdecimal::num_bigint::BigInt, "BigInt", |r| {
    let n = r.below(20) as usize;
    let bytes: Vec<u8> = (0..n).map(|_| r.next() as u8).collect();
    bigdecimal::num_bigint::BigInt::from_signed_bytes_be(&bytes)
});
unmodelled_v!(bigdecimal::BigDecimal, "BigDecimal", |r| {
    // unscaled values of every size against scales on both sides of the digit count: plain notation, leading
    // fractional zeros (scientific notation below 1e-6), negative scales (exponent notation), zero
    let a = match r.below(6) {
        0 => bigdecimal::num_bigint::BigInt::from(r.below(10) as i64),
        1 => bigdecimal::num_bigint::BigInt::from(r.below(2000) as i64 - 1000),
        2 => {
            let n = 9 + r.below(12) as usize;
            let bytes: Vec<u8> = (0..n).map(|_| r.next() as u8).collect();
            bigdecimal::num_bigint::BigInt::from_signed_bytes_be(&bytes)
        }
        _ => bigdecimal::num_bigint::BigInt::from(r.next() as i64),
    };
    let scale = match r.below(5) {
        0 => 0,
        1 => r.below(12) as i64,
        2 => -(r.below(30) as i64),
        _ => r.below(70) as i64 - 20,
    };
    bigdecimal::BigDecimal::new(a, scale)
});
