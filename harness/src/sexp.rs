//! S-expressions of the line protocol (see /verif/lean/Desert/Sexp.lean).
#[derive(Debug, Clone, PartialEq)]
pub enum Sexp {
    Atom(String),
    List(Vec<Sexp>),
}

impl Sexp {
    pub fn atom(&self) -> Option<&str> {
        match self {
            Sexp::Atom(a) => Some(a),
            _ => None,
        }
    }
    pub fn list(&self) -> Option<&[Sexp]> {
        match self {
            Sexp::List(l) => Some(l),
            _ => None,
        }
    }
    /// `(head a b ..)` -> Some([a, b, ..])
    pub fn tagged(&self, head: &str) -> Option<&[Sexp]> {
        let l = self.list()?;
        if l.first()?.atom()? == head {
            Some(&l[1..])
        } else {
            None
        }
    }
    pub fn show(&self) -> String {
        match self {
            Sexp::Atom(a) => a.clone(),
            Sexp::List(l) => format!("({})", l.iter().map(|x| x.show()).collect::<Vec<_>>().join(" ")),
        }
    }
}

pub fn parse_all(s: &str) -> Option<Vec<Sexp>> {
    let mut stack: Vec<Vec<Sexp>> = vec![vec![]];
    let mut cur = String::new();
    let flush = |cur: &mut String, stack: &mut Vec<Vec<Sexp>>| {
        if !cur.is_empty() {
            stack.last_mut().unwrap().push(Sexp::Atom(std::mem::take(cur)));
        }
    };
    for c in s.chars() {
        match c {
            '(' => {
                flush(&mut cur, &mut stack);
                stack.push(vec![]);
            }
            ')' => {
                flush(&mut cur, &mut stack);
                let l = stack.pop()?;
                stack.last_mut()?.push(Sexp::List(l));
            }
            c if c.is_whitespace() => flush(&mut cur, &mut stack),
            c => cur.push(c),
        }
    }
    flush(&mut cur, &mut stack);
    if stack.len() == 1 {
        stack.pop()
    } else {
        None
    }
}

pub fn hex(bytes: &[u8]) -> String {
    if bytes.is_empty() {
        return "-".to_string();
    }
    let mut s = String::with_capacity(bytes.len() * 2);
    for b in bytes {
        s.push_str(&format!("{:02x}", b));
    }
    s
}

pub fn unhex(s: &str) -> Option<Vec<u8>> {
    if s == "-" {
        return Some(vec![]);
    }
    if s.len() % 2 != 0 {
        return None;
    }
    (0..s.len() / 2).map(|i| u8::from_str_radix(&s[2 * i..2 * i + 2], 16).ok()).collect()
}
