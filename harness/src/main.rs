//! Correspondence harness: runs the real desert code (path dependency on /repo) and the Lean
//! model's executable definitions on the same generated cases and reports where they differ,
//! and evaluates each property's predicate directly on the implementation.
mod cases;
mod catalogue;
mod collect;
mod fam_altform;
mod fam_builtin;
mod fam_frame;
mod fam_golden;
mod fam_leaves;
mod fam_graph;
mod fam_sink;
mod fam_srcops;
mod fam_threads;
mod fam_decl;
mod fam_dedup;
mod generated {
    pub mod decls;
}
mod fam_varint;
mod model;
mod rng;
mod sexp;
mod v;

use std::alloc::{GlobalAlloc, Layout, System};
use std::io::{Seek, SeekFrom, Write};
use std::sync::atomic::Ordering;
use std::sync::Mutex;

struct Counting;
unsafe impl GlobalAlloc for Counting {
    unsafe fn alloc(&self, l: Layout) -> *mut u8 {
        cases::MAX_ALLOC.fetch_max(l.size(), Ordering::Relaxed);
        System.alloc(l)
    }
    unsafe fn dealloc(&self, p: *mut u8, l: Layout) {
        System.dealloc(p, l)
    }
    unsafe fn realloc(&self, p: *mut u8, l: Layout, n: usize) -> *mut u8 {
        cases::MAX_ALLOC.fetch_max(n, Ordering::Relaxed);
        System.realloc(p, l, n)
    }
}
#[global_allocator]
static A: Counting = Counting;

lazy_static::lazy_static! {
    static ref PROGRESS: Mutex<Option<std::fs::File>> = Mutex::new(None);
}

/// remember the case about to run, so that a hang, abort or stack overflow can be attributed
pub fn progress(case: &str) {
    if let Ok(mut g) = PROGRESS.lock() {
        if let Some(f) = g.as_mut() {
            let _ = f.seek(SeekFrom::Start(0));
            let _ = f.write_all(case.as_bytes());
            let _ = f.write_all(b"\n\0");
        }
    }
}

pub struct Args {
    pub family: String,
    pub seed: u64,
    pub thorough: bool,
    pub out: Option<String>,
    pub extra: Vec<String>,
}

fn main() {
    let argv: Vec<String> = std::env::args().collect();
    if argv.len() < 2 {
        eprintln!("usage: harness <family> [--seed N] [--tier quick|thorough] [--out file] [--progress file]");
        std::process::exit(2);
    }
    let mut a = Args { family: argv[1].clone(), seed: 1, thorough: false, out: None, extra: vec![] };
    let mut i = 2;
    while i < argv.len() {
        match argv[i].as_str() {
            "--seed" => {
                a.seed = argv[i + 1].parse().expect("seed");
                i += 2;
            }
            "--tier" => {
                a.thorough = argv[i + 1] == "thorough";
                i += 2;
            }
            "--out" => {
                a.out = Some(argv[i + 1].clone());
                i += 2;
            }
            "--progress" => {
                *PROGRESS.lock().unwrap() = Some(std::fs::File::create(&argv[i + 1]).expect("progress file"));
                i += 2;
            }
            "--child-out" => {
                a.extra.push(argv[i].clone());
                a.extra.push(argv[i + 1].clone());
                i += 2;
            }
            x => {
                a.extra.push(x.to_string());
                i += 1;
            }
        }
    }
    // panics of the code under test are caught and reported; keep stderr quiet
    std::panic::set_hook(Box::new(|_| {}));
    let t0 = std::time::Instant::now();
    let coll = match a.family.as_str() {
        "ty" => fam_builtin::run_ty(&a),
        "raw" => fam_builtin::run_raw(&a),
        "chars" => fam_builtin::run_chars(&a),
        "varint" => fam_varint::run(&a),
        "sink" => fam_sink::run(&a),
        "dedup" => fam_dedup::run(&a),
        "graph" => fam_graph::run(&a),
        "threads" => fam_threads::run(&a),
        "threads-child" => fam_threads::run_child(&a),
        "frame" => fam_frame::run(&a),
        "golden" => fam_golden::run(&a),
        "leaves" => fam_leaves::run(&a),
        "srcops" => fam_srcops::run(&a),
        "limits" => fam_srcops::run_limits(&a),
        "altform" => fam_altform::run(&a),
        "decl" => fam_decl::run_decl(&a),
        "hist" => fam_decl::run_hist(&a),
        other => {
            eprintln!("unknown family {}", other);
            std::process::exit(2);
        }
    };
    let mut json = coll.to_json();
    json.pop();
    json.push_str(&format!(",\"seed\":{},\"wall_s\":{:.3}}}", a.seed, t0.elapsed().as_secs_f64()));
    match &a.out {
        Some(p) => std::fs::write(p, json).expect("write out"),
        None => println!("{}", json),
    }
}

/// run all queued model requests (in parallel driver processes, each given the prelude) and their checks
pub fn flush(c: &mut collect::Collector, q: Vec<cases::Pending>, prelude: &[String]) {
    let reqs: Vec<String> = q.iter().map(|p| p.req.clone()).collect();
    if let Ok(p) = std::env::var("HARNESS_DUMP_REQ") {
        let _ = std::fs::write(p, prelude.join("\n") + "\n" + &reqs.join("\n") + "\n");
    }
    let t0 = std::time::Instant::now();
    // round-robin over up to 14 driver processes (heavy requests cluster by declaration, so contiguous chunks are unbalanced)
    let parts = if reqs.len() < 2000 { 1 } else { 14.min(reqs.len() / 500).max(1) };
    let mut handles = vec![];
    for part in 0..parts {
        let mut lines: Vec<String> = prelude.to_vec();
        lines.extend(reqs.iter().skip(part).step_by(parts).cloned());
        let np = prelude.len();
        handles.push(std::thread::spawn(move || {
            let resp = model::run_model(&lines);
            let bad: Vec<(String, String)> =
                resp.iter().take(np).enumerate().filter(|(_, r)| r.as_str() != "ok").map(|(i, r)| (lines[i].clone(), r.clone())).collect();
            (bad, resp.into_iter().skip(np).collect::<Vec<String>>())
        }));
    }
    let mut per_part: Vec<Vec<String>> = vec![];
    let mut first = true;
    for h in handles {
        let (bad, r) = h.join().expect("model thread");
        if first {
            for (l, r) in bad {
                c.fail("harness", "corr", "prelude", l, r);
            }
            first = false;
        }
        per_part.push(r);
    }
    let mut iters: Vec<std::vec::IntoIter<String>> = per_part.into_iter().map(|v| v.into_iter()).collect();
    let mut resp: Vec<String> = Vec::with_capacity(reqs.len());
    for i in 0..reqs.len() {
        resp.push(iters[i % parts].next().expect("model response"));
    }
    *c.stats.entry("model-ms".to_string()).or_insert(0) += t0.elapsed().as_millis() as u64;
    assert_eq!(resp.len(), q.len());
    for (p, r) in q.into_iter().zip(resp.into_iter()) {
        c.stat("model-requests");
        (p.check)(&r, c);
    }
}
