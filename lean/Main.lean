import Desert.Sexp
import Desert.Bits
import Desert.Compress
import Desert.Refs
import Desert.Own
import Desert.Evolution
import Desert.DeclWF
import Desert.DecWF
import Desert.FastCtx
import Desert.AlignDiag
import Desert.Normalize
/-!
Line-protocol driver: one request per line on stdin, one response per line on stdout.
Executes the model's definitions (`enc`, `dec` through `runCtx` and `runAbs`, var-ints, …) so the
correspondence harness can diff them against the implementation.
-/

def showOutcomeBytes : Outcome Bytes → String
  | .ok b => s!"ok {hexOfBytes b}"
  | .err e => s!"err {showErr e}"
  | .panic w => s!"panic {w}"

def decResponse (env : Env) (ty : Ty) (b : Bytes) : String :=
  if b.length > 4096 then
    -- large inputs (the golden file): the array-backed faithful context, proved equal to `decodeTop`
    -- (`decodeTopFast_eq`); the abstract run is not repeated — for these inputs `C06.decode_honest_total` stands in
    match decodeTopFast env ty b.toArray with
    | .ok (v, c) => s!"ok {showVal v} {c.cur.pos} abs=by-theorem"
    | .err e => s!"err {showErr e} abs=by-theorem"
    | .panic w => s!"panic {w} abs=by-theorem"
  else
  let r1 := decodeTop env ty b
  let r2 := decodeAbs env ty b
  let s1 := match r1 with
    | .ok (v, c) => s!"ok {showVal v} {c.cur.pos}"
    | .err e => s!"err {showErr e}"
    | .panic w => s!"panic {w}"
  let s2 := match r2 with
    | .ok (v, s) => s!"ok {showVal v} {s.cur.pos}"
    | .err e => s!"err {showErr e}"
    | .panic w => s!"panic {w}"
  if s1 = s2 then s1 ++ " abs=same" else s1 ++ " abs=DIFF[" ++ s2 ++ "]"

/-- `src <hex> op…`: primitive reads through the faithful context, one result per op -/
def srcOps (c : Ctx) : List String → List String
  | [] => []
  | op :: rest =>
    let go {α : Type} (p : DProg α) (sh : α → String) : List String :=
      match runCtx p c with
      | .ok (a, c') => sh a :: srcOps c' rest
      | .err e => showErr e :: srcOps c rest
      | .panic w => ("panic " ++ w) :: srcOps c rest
    if op = "u8" then go readU8 (fun b => toString b.toNat)
    else if op = "vu" then go readVarU32 (fun n => toString n)
    else if op = "vi" then go readVarI32 (fun n => toString n)
    else if op.startsWith "b" then
      match (op.drop 1).toNat? with
      | some n => go (readBytes n) (fun bs => hexOfBytes bs)
      | none => ["bad-op"]
    else if op.startsWith "s" then
      match (op.drop 1).toNat? with
      | some n => go (skipN n) (fun _ => "ok")
      | none => ["bad-op"]
    else ["bad-op"]

def step (env : Env) (line : String) : Env × String :=
  match Sexp.parseLine line with
  | none => (env, "bad-request unbalanced")
  | some [] => (env, "bad-request empty")
  | some (.atom "reset" :: _) => ([], "ok")
  | some [.atom "wfall"] =>
    -- which declarations satisfy the hypothesis of the round-trip theorems (`declWFb`)
    let bad := env.filter fun p => !tyDeclWFb p.2
    (env, s!"ok wf={env.length - bad.length} decodable={envDecOKb env} outside={" ".intercalate (bad.map (·.1))}")
  | some [.atom "env", d] =>
    match tyDeclOfSexp d with
    | some (k, td) => ((k, td) :: env, "ok")
    | none => (env, "bad-request decl")
  | some [.atom "enc", t, v] =>
    match tyOfSexp t, valOfSexp v with
    | some ty, some val => (env, showOutcomeBytes (encodeTop env ty val))
    | none, _ => (env, "bad-request type")
    | _, none => (env, "bad-request value")
  | some [.atom "dec", t, .atom h] =>
    match tyOfSexp t, bytesOfHex h with
    | some ty, some b => (env, decResponse env ty b)
    | none, _ => (env, "bad-request type")
    | _, none => (env, "bad-request hex")
  | some [.atom "varu", .atom n] =>
    match n.toNat? with
    | some k => (env, if k < 2 ^ 32 then s!"ok {hexOfBytes (uv k)}" else "bad-request range")
    | none => (env, "bad-request nat")
  | some [.atom "vari", .atom n] =>
    match n.toInt? with
    | some k => (env, if decide (inI32 k) then s!"ok {hexOfBytes (zz k)}" else "bad-request range")
    | none => (env, "bad-request int")
  | some [.atom "bvaru", .atom n] =>
    match n.toNat? with
    | some k => (env, if k < 2 ^ 32 then s!"ok {hexOfBytes ((Bits.writeVarU32 (BitVec.ofNat 32 k)).map fun b => byteOf b.toNat)}" else "bad-request range")
    | none => (env, "bad-request nat")
  | some [.atom "bvari", .atom n] =>
    match n.toInt? with
    | some k => (env, if decide (inI32 k) then s!"ok {hexOfBytes ((Bits.writeVarI32 (BitVec.ofInt 32 k)).map fun b => byteOf b.toNat)}" else "bad-request range")
    | none => (env, "bad-request int")
  | some [.atom "brvaru", .atom h] =>
    match bytesOfHex h with
    | some b =>
      match Bits.readVarU32 (b.map fun x => BitVec.ofNat 8 x.toNat) with
      | some (v, rest) => (env, s!"ok {v.toNat} {b.length - rest.length}")
      | none => (env, "err InputEndedUnexpectedly")
    | none => (env, "bad-request hex")
  | some [.atom "brvari", .atom h] =>
    match bytesOfHex h with
    | some b =>
      match Bits.readVarI32 (b.map fun x => BitVec.ofNat 8 x.toNat) with
      | some (v, rest) => (env, s!"ok {v.toInt} {b.length - rest.length}")
      | none => (env, "err InputEndedUnexpectedly")
    | none => (env, "bad-request hex")
  | some [.atom "rvaru", .atom h] =>
    match bytesOfHex h with
    | some b =>
      match runCtx readVarU32 (Ctx.new b) with
      | .ok (v, c) => (env, s!"ok {v} {c.cur.pos}")
      | .err e => (env, s!"err {showErr e}")
      | .panic w => (env, s!"panic {w}")
    | none => (env, "bad-request hex")
  | some [.atom "rvari", .atom h] =>
    match bytesOfHex h with
    | some b =>
      match runCtx readVarI32 (Ctx.new b) with
      | .ok (v, c) => (env, s!"ok {v} {c.cur.pos}")
      | .err e => (env, s!"err {showErr e}")
      | .panic w => (env, s!"panic {w}")
    | none => (env, "bad-request hex")
  | some [.atom "cframe", .atom fh, .atom ph, .atom dh] =>
    match bytesOfHex fh, bytesOfHex ph with
    | some frame, some payload =>
      let res : Option (Option Bytes) := if dh = "FAIL" then some none else (bytesOfHex dh).map some
      match res with
      | none => (env, "bad-request hex")
      | some infl =>
        let C : Codec := { deflate := fun _ _ => [], inflate := fun z => if z = payload then infl else none }
        match runCtx (readCompressed C) (Ctx.new frame) with
        | .ok ((d, cap), c) => (env, s!"ok {hexOfBytes d} {c.cur.pos} {cap}")
        | .err e => (env, s!"err {showErr e}")
        | .panic w => (env, s!"panic {w}")
    | _, _ => (env, "bad-request hex")
  | some (.atom "offers" :: objs) =>
    match (objs.mapM fun | .atom a => a.toNat? | _ => none) with
    | some os =>
      let toks := writeOffers [] os
      let back := match readOffers 0 toks with
        | some l => String.intercalate "," (l.map toString)
        | none => "InvalidRefId"
      (env, s!"ok {String.intercalate "," (toks.map toString)} {back}")
    | none => (env, "bad-request objs")
  | some (.atom "rtokens" :: toks) =>
    match (toks.mapM fun | .atom a => a.toNat? | _ => none) with
    | some ts => (env, match readOffers 0 ts with
        | some l => s!"ok {String.intercalate "," (l.map toString)}"
        | none => "err InvalidRefId")
    | none => (env, "bad-request toks")
  | some (.atom "own" :: .atom pol :: acts) =>
    let parse : Sexp → Option Act
      | .atom "enter" => some .enter
      | .atom "alloc" => some .alloc
      | .atom "leave" => some .leave
      | .list [.atom "store", .atom n] => n.toNat?.map Act.storeRef
      | .list [.atom "get", .atom n] => n.toNat?.map Act.getRef
      | _ => none
    match acts.mapM parse with
    | some as =>
      let v := runOwn (pol = "bounded") OwnSt.start as
      (env, match v with | .safe => "safe" | .rejected => "rejected" | .deadRead => "dead-read" | .badProgram => "bad-program")
    | none => (env, "bad-request acts")
  | some [.atom "hist", .atom wn, .atom rn, v] =>
    let op (val : Val) : String := match encodeTop env (.named wn) val with
      | .ok b => decResponse env (.named rn) b
      | .err e => s!"encerr {showErr e}"
      | .panic w => s!"encpanic {w}"
    match env.find wn, env.find rn, valOfSexp v with
    | some (.record dw), some (.record dr), some val =>
      let exp := match expectedRead dw dr (normalize env (.named wn) val) with
        | .ok x => s!"ok {showVal x}"
        | .error e => s!"err {showErr e}"
      (env, s!"{exp} ## {op val} ## {if onOneHistory dw dr then "one-history" else "NOT-one-history"} ## {alignmentClass dw dr}")
    | some (.enum _ srtw csw), some (.enum nr srtr csr), some (.ctor idx fields) =>
      -- evolution steps on an enum variant: constructor by wire index (C13), fields by the variant's own history
      match findCtorWire (wireCtors srtw csw) idx with
      | none => (env, "bad-request hist ctor")
      | some (w, cw) =>
        match (wireCtors srtr csr)[w]? with
        | none => (env, s!"err InvalidConstructorId ## {op (.ctor idx fields)} ## one-history ## not-aligned:other")
        | some (idx', cr) =>
          let exp :=
            if cr.transient then s!"err {showErr (.deserTransientCtor nr cr.name)}"
            else match expectedRead cw.decl cr.decl (.list (normFields env cw.decl.fields fields)) with
              | .ok (.list xs) => s!"ok {showVal (.ctor idx' xs)}"
              | .ok _ => "err DeserializationFailure"
              | .error e => s!"err {showErr e}"
          (env, s!"{exp} ## {op (.ctor idx fields)} ## {if onOneHistory cw.decl cr.decl then "one-history" else "NOT-one-history"} ## {alignmentClass cw.decl cr.decl}")
    | _, _, _ => (env, "bad-request hist")
  | some (.atom "src" :: .atom h :: ops) =>
    match bytesOfHex h with
    | some b => (env, String.intercalate ";" (srcOps (Ctx.new b) (ops.filterMap fun | .atom a => some a | _ => none)))
    | none => (env, "bad-request hex")
  | some _ => (env, "bad-request unknown")

partial def loop (h : IO.FS.Stream) (out : IO.FS.Stream) (env : Env) : IO Unit := do
  let line ← h.getLine
  if line.isEmpty then return ()
  let (env', resp) := step env line
  out.putStrLn resp
  loop h out env'

def main : IO Unit := do
  let stdin ← IO.getStdin
  let stdout ← IO.getStdout
  loop stdin stdout []
