-- This module serves as the root of the `Desert` library.
-- Import modules here that should be built as part of the library.
import Desert.Basic
