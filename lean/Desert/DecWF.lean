import Desert.Decode
/-!
# Declarations a decoder can be built from

Decidable conditions under which `dec env fuel ty` contains no ill-formedness `panic` node that a
run could reach: every named type is declared, field lists are only used inside tuples, a
transient field has its default, a field read with `read_optional_field` has an `Option` type.
The derive macro guarantees these for every Rust type that compiles; the driver evaluates
`envDecOKb` on the declarations the harness sends.
-/

mutual
def tyOKb (env : Env) : Ty → Bool
  | .prim _ => true
  | .option t => tyOKb env t
  | .result a e => tyOKb env a && tyOKb env e
  | .seq t => tyOKb env t
  | .array _ t => tyOKb env t
  | .tuple fs => chainOKb env fs
  | .fnil => false
  | .fcons _ _ => false
  | .named id => (env.find id).isSome
def chainOKb (env : Env) : Ty → Bool
  | .fcons a r => tyOKb env a && chainOKb env r
  | _ => true
end

def fieldDecOKb (env : Env) (f : Field) : Bool :=
  tyOKb env f.ty && (f.role != .transient || f.default.isSome) &&
  (f.role != .optional || match f.ty with | .option _ => true | _ => false)

def declDecOKb (env : Env) (d : Decl) : Bool := d.fields.all (fieldDecOKb env)

def tyDeclDecOKb (env : Env) : TyDecl → Bool
  | .record d => declDecOKb env d
  | .enum _ _ cs => cs.all fun c => declDecOKb env c.decl

def envDecOKb (env : Env) : Bool := env.all fun p => tyDeclDecOKb env p.2
