import Desert.Prog
/-!
# Outputs and inputs (`binary_output.rs`, `binary_input.rs`, `SerializationContext`)

A writer is an operation tree over the two primitive writes every `BinaryOutput` must provide
(`write_u8`, `write_bytes`) plus the serialization context's buffer stack (`push_buffer`,
`pop_buffer`); all composite writes of the trait's default methods funnel into these.
-/

inductive WProg where
  | done
  | u8 (b : Byte) (k : WProg)
  | bytes (bs : Bytes) (k : WProg)
  /-- `push_buffer(buffer)` -/
  | push (init : Bytes) (k : WProg)
  /-- `pop_buffer()`: the program continues with the popped buffer's contents -/
  | pop (k : Bytes → WProg)

/-- a sink: state and the two primitive writes -/
structure Sink (σ : Type) where
  init : σ
  writeU8 : σ → Byte → σ
  writeBytes : σ → Bytes → σ

/-- `Vec<u8>` and `BytesMut`: append -/
def vecSink : Sink Bytes := ⟨[], fun s b => s ++ [b], fun s bs => s ++ bs⟩
/-- `SizeCalculator` -/
def sizeSink : Sink Nat := ⟨0, fun n _ => n + 1, fun n bs => n + bs.length⟩
/-- a user-defined output recording each primitive write -/
def recSink : Sink (List Bytes) := ⟨[], fun l b => l ++ [[b]], fun l bs => l ++ [bs]⟩

/-- `SerializationContext`: writes go to the top of the buffer stack if any, else to the output.
`none` = `pop_buffer()` on an empty stack (`unwrap` panic). -/
def runSink {σ : Type} (k : Sink σ) : WProg → List Bytes → σ → Option σ
  | .done, _, out => some out
  | .u8 b p, [], out => runSink k p [] (k.writeU8 out b)
  | .u8 b p, top :: rest, out => runSink k p ((top ++ [b]) :: rest) out
  | .bytes bs p, [], out => runSink k p [] (k.writeBytes out bs)
  | .bytes bs p, top :: rest, out => runSink k p ((top ++ bs) :: rest) out
  | .push init p, stack, out => runSink k p (init :: stack) out
  | .pop _, [], _ => none
  | .pop f, top :: rest, out => runSink k (f top) rest out

/-! ## the three inputs at top level -/

/-- `SliceInput` / `OwnedInput`: data and position (`count > len - pos` check, after the fix) -/
structure FlatSrc where
  data : Bytes
  pos : Nat
deriving Repr

inductive ROp where
  | u8
  | bytes (n : Nat)
  | skip (n : Nat)
deriving Repr

inductive RRes where
  | byte (b : Byte)
  | bytes (bs : Bytes)
  | unit
  | ended
deriving Repr, DecidableEq

def FlatSrc.step (s : FlatSrc) : ROp → RRes × FlatSrc
  | .u8 =>
    if s.pos = s.data.length then (.ended, s) else
    match s.data[s.pos]? with
    | some b => (.byte b, { s with pos := s.pos + 1 })
    | none => (.ended, s)
  | .bytes n =>
    if n > s.data.length - s.pos then (.ended, s)
    else (.bytes ((s.data.drop s.pos).take n), { s with pos := s.pos + n })
  | .skip n =>
    if n > s.data.length - s.pos then (.ended, s) else (.unit, { s with pos := s.pos + n })

/-- the same operation on the context (top-level region) through `runCtx` -/
def ctxStep (c : Ctx) : ROp → RRes × Ctx
  | .u8 => match runCtx readU8 c with
    | .ok (b, c') => (.byte b, c')
    | _ => (.ended, c)
  | .bytes n => match runCtx (readBytes n) c with
    | .ok (bs, c') => (.bytes bs, c')
    | _ => (.ended, c)
  | .skip n => match runCtx (skipN n) c with
    | .ok (_, c') => (.unit, c')
    | _ => (.ended, c)

def FlatSrc.run (s : FlatSrc) : List ROp → List RRes
  | [] => []
  | op :: rest => let (r, s') := s.step op; r :: FlatSrc.run s' rest

def ctxRun (c : Ctx) : List ROp → List RRes
  | [] => []
  | op :: rest => let (r, c') := ctxStep c op; r :: ctxRun c' rest
