import Desert.Encode
/-!
# The decoder, written once as an operation tree

Transcribed from `binary_input.rs` (var-ints), `deserializer/mod.rs`, `deserializer/tuples.rs`,
`adt/deserializer.rs`, `evolution.rs`, `adt/mod.rs`, `features/chrono.rs` and the expansion in
`desert_macro/src/lib.rs`. `fuel` bounds (a) nesting through `named` and (b) the iterations of
unknown-length sequences; both consume at least one input byte per unit of fuel, so
`|input| + 1` is always enough (`decodeTop`).
-/



/-- `read_var_u32` (div/mod form; the fifth byte contributes only its low 4 bits) -/
def readVarU32 : DProg Nat :=
  readU8 >>= fun b0 =>
  let r0 := b0.toNat % 128
  if b0.toNat < 128 then pure r0 else
  readU8 >>= fun b1 =>
  let r1 := r0 + (b1.toNat % 128) * 2 ^ 7
  if b1.toNat < 128 then pure r1 else
  readU8 >>= fun b2 =>
  let r2 := r1 + (b2.toNat % 128) * 2 ^ 14
  if b2.toNat < 128 then pure r2 else
  readU8 >>= fun b3 =>
  let r3 := r2 + (b3.toNat % 128) * 2 ^ 21
  if b3.toNat < 128 then pure r3 else
  readU8 >>= fun b4 =>
  pure (r3 + (b4.toNat % 16) * 2 ^ 28)

/-- `read_var_i32` -/
def readVarI32 : DProg Int := readVarU32 >>= fun r => pure (unzigzag r)

/-! ## UTF-8 validity (`String::from_utf8`) -/

def isCont (b : Byte) : Bool := 0x80 ≤ b.toNat && b.toNat < 0xC0

def validUtf8 : Bytes → Bool
  | [] => true
  | b0 :: rest =>
    let n0 := b0.toNat
    if n0 < 0x80 then validUtf8 rest
    else if 0xC2 ≤ n0 ∧ n0 < 0xE0 then
      match rest with
      | b1 :: r => isCont b1 && validUtf8 r
      | _ => false
    else if 0xE0 ≤ n0 ∧ n0 < 0xF0 then
      match rest with
      | b1 :: b2 :: r =>
        isCont b1 && isCont b2 &&
        (if n0 = 0xE0 then 0xA0 ≤ b1.toNat else true) &&
        (if n0 = 0xED then b1.toNat < 0xA0 else true) && validUtf8 r
      | _ => false
    else if 0xF0 ≤ n0 ∧ n0 < 0xF5 then
      match rest with
      | b1 :: b2 :: b3 :: r =>
        isCont b1 && isCont b2 && isCont b3 &&
        (if n0 = 0xF0 then 0x90 ≤ b1.toNat else true) &&
        (if n0 = 0xF4 then b1.toNat < 0x90 else true) && validUtf8 r
      | _ => false
    else false

def decUtf8 (bs : Bytes) : DProg Val :=
  if validUtf8 bs then pure (.str bs) else .fail .failedToDecodeString

/-- a byte read with `read_i8` -/
def i8Of (b : Byte) : Int := toSigned 1 b.toNat

def decPrim : Prim → DProg Val
  | .int w s =>
    readBytes w >>= fun bs =>
    pure (.int (if s then toSigned w (ofBE bs) else (ofBE bs : Nat)))
  | .bool => readU8 >>= fun b => pure (.bool (b != 0))
  | .unit => pure .unit
  | .char =>
    readBytes 2 >>= fun bs =>
    let code := ofBE bs
    if 0xD800 ≤ code ∧ code < 0xE000 then .fail .failedToDecodeCharacter
    else pure (.int code)
  | .string =>
    readVarI32 >>= fun len =>
    readBytes (i32AsUsize len) >>= fun bs => decUtf8 bs
  | .dstring =>
    readVarI32 >>= fun n =>
    if n < 0 then
      -- `StringId(count_or_id.wrapping_neg())`: i32::MIN negates to itself and is never a known id
      if n = -(2 ^ 31 : Int) then .fail (.invalidStringId n) else
      strGet n.natAbs >>= fun s? =>
      match s? with
      | some s => pure (.str s)
      | none => .fail (.invalidStringId (-n))
    else
      readBytes (i32AsUsize n) >>= fun bs =>
      if validUtf8 bs then strPut bs >>= fun _ => pure (.str bs)
      else .fail .failedToDecodeString
  | .duration =>
    readBytes 8 >>= fun sb =>
    readBytes 4 >>= fun nb =>
    let secs := ofBE sb
    let nanos := ofBE nb
    let carry := nanos / 10 ^ 9
    if secs + carry < 2 ^ 64 then pure (.dur (secs + carry) (nanos % 10 ^ 9))
    else .fail .deserializationFailure
  | .bytes => readVarU32 >>= fun len => readBytes len >>= fun bs => pure (.bytes bs)
  | .barr n =>
    readVarU32 >>= fun len =>
    readBytes len >>= fun bs =>
    if len = n then pure (.bytes bs) else .fail .deserializationFailure
  | .raw n => readBytes n >>= fun bs => pure (.bytes bs)
  | .weekday =>
    readU8 >>= fun b =>
    let i := i8Of b
    if 1 ≤ i ∧ i ≤ 7 then pure (.int i) else .fail .deserializationFailure
  | .month =>
    readU8 >>= fun b =>
    let i := i8Of b
    if 1 ≤ i ∧ i ≤ 12 then pure (.int i) else .fail .deserializationFailure
  | .fixedOffset =>
    readU8 >>= fun t =>
    if t ≠ 0 then .fail .deserializationFailure else
    readVarI32 >>= fun off =>
    if -86400 < off ∧ off < 86400 then pure (.int off) else .fail .deserializationFailure
  | .varu32 => readVarU32 >>= fun n => pure (.int n)

/-- `KnownSize` iterator: exactly `n` items -/
def decKnown (d : DProg Val) : Nat → DProg (List Val)
  | 0 => pure []
  | n+1 => d >>= fun v => decKnown d n >>= fun vs => pure (v :: vs)

/-- `UnknownSize` iterator: `Option<T>` items until `None` -/
def decUnknown (d : DProg Val) : Nat → DProg (List Val)
  | 0 => .panic "fuel exhausted"
  | fuel+1 =>
    readU8 >>= fun tag =>
    if tag = 0 then pure []
    else if tag = 1 then d >>= fun v => decUnknown d fuel >>= fun vs => pure (v :: vs)
    else .fail .deserializationFailure

/-- `deserialize_iterator(..)` fully drained (`Vec`, sets, maps, lists) -/
def decSeq (fuel : Nat) (d : DProg Val) : DProg (List Val) :=
  readVarI32 >>= fun n =>
  if n = -1 then decUnknown d fuel
  else if n < 0 then .fail .deserializationFailure
  else decKnown d n.toNat

/-- `[T; L]`: at most `L + 1` items are pulled; the count must be exactly `L` -/
def decUnknownArr (d : DProg Val) (L : Nat) : Nat → Nat → DProg (List Val)
  | 0, _ => .panic "fuel exhausted"
  | fuel+1, have_ =>
    readU8 >>= fun tag =>
    if tag = 0 then (if have_ = L then pure [] else .fail .deserializationFailure)
    else if tag = 1 then
      d >>= fun v =>
      if have_ = L then .fail .deserializationFailure
      else decUnknownArr d L fuel (have_ + 1) >>= fun vs => pure (v :: vs)
    else .fail .deserializationFailure

def decArray (fuel : Nat) (d : DProg Val) (L : Nat) : DProg (List Val) :=
  readVarI32 >>= fun n =>
  if n = -1 then decUnknownArr d L fuel 0
  else if n < 0 then .fail .deserializationFailure
  else if n.toNat ≤ L then
    decKnown d n.toNat >>= fun vs =>
    if n.toNat = L then pure vs else .fail .deserializationFailure
  else decKnown d (L + 1) >>= fun _ => .fail .deserializationFailure

/-! ## Records (`AdtDeserializer`) -/

/-- what the record reader needs to know about one field of the reading definition -/
structure FieldDec where
  field : Field
  /-- `T::deserialize` for the declared field type -/
  decFull : DProg Val
  /-- for `optional` fields: `T::deserialize` of the type inside the `Option` -/
  decInner : DProg Val

/-- `SerializedEvolutionStep` -/
inductive HStep where
  | size (n : Int)
  | madeOptional (chunk pos : Nat)
  | removed (name : Bytes)
  | unknown
deriving Repr, DecidableEq

/-- `SerializedEvolutionStep::deserialize` -/
def readHStep : DProg HStep :=
  readVarI32 >>= fun code =>
  if code = 0 then pure .unknown
  else if code = -1 then
    readU8 >>= fun b =>
    let i := i8Of b
    -- `FieldPosition::deserialize`
    if i < 0 then pure (.madeOptional 0 i.natAbs) else pure (.madeOptional i.toNat 0)
  else if code = -2 then
    decPrim .dstring >>= fun v =>
    match v with
    | .str s => pure (.removed s)
    | _ => .panic "unreachable"
  else pure (.size code)

def readHSteps : Nat → DProg (List HStep)
  | 0 => pure []
  | n+1 => readHStep >>= fun s => readHSteps n >>= fun ss => pure (s :: ss)

structure RecSt where
  storedVersion : Nat
  /-- `inputs`: one region per header step; empty for `new_v0` -/
  inputs : List Region
  /-- `made_optional_at` keys -/
  madeOpt : List (Nat × Nat)
  removed : List Bytes
  /-- `last_index_per_chunk`, as "next index" (`last + 1`) -/
  nextIdx : List Nat
deriving Repr

/-- the second loop of `AdtDeserializer::new`: skip every chunk, remember its region -/
def skipChunks : List HStep → DProg (List Region × List (Nat × Nat) × List Bytes)
  | [] => pure ([], [], [])
  | .size n :: rest =>
    getPos >>= fun start =>
    skipN (i32AsUsize n) >>= fun _ =>
    skipChunks rest >>= fun (rs, mo, rm) => pure (Region.new start (i32AsUsize n) :: rs, mo, rm)
  | .madeOptional c p :: rest =>
    skipChunks rest >>= fun (rs, mo, rm) => pure (Region.empty :: rs, (c, p) :: mo, rm)
  | .removed name :: rest =>
    skipChunks rest >>= fun (rs, mo, rm) => pure (Region.empty :: rs, mo, name :: rm)
  | .unknown :: rest =>
    skipChunks rest >>= fun (rs, mo, rm) => pure (Region.empty :: rs, mo, rm)

/-- `AdtDeserializer::new_v0` / `new` for reader version `readerVersion` -/
def recNew (readerVersion stored : Nat) : DProg RecSt :=
  if stored = 0 then
    pure { storedVersion := 0, inputs := [], madeOpt := [], removed := [],
           nextIdx := List.replicate (readerVersion + 1) 0 }
  else
    readHSteps (stored + 1) >>= fun hs =>
    skipChunks hs >>= fun (rs, mo, rm) =>
    pure { storedVersion := stored, inputs := rs, madeOpt := mo, removed := rm,
           nextIdx := List.replicate (readerVersion + 1) 0 }

/-- run `body` inside `inputs[chunk]` when the record has chunk regions -/
def inChunk {α : Type} (st : RecSt) (chunk : Nat) (body : DProg α) : DProg (α × RecSt) :=
  if st.inputs.isEmpty then body >>= fun a => pure (a, st)
  else
    match st.inputs[chunk]? with
    | none => .panic "index out of bounds: inputs[chunk]"
    | some r =>
      pushR r >>= fun _ =>
      body >>= fun a =>
      popR >>= fun r' =>
      pure (a, { st with inputs := st.inputs.set chunk r' })

/-- `record_field_index` -/
def takeIdx (st : RecSt) (chunk : Nat) : Outcome (Nat × RecSt) :=
  match st.nextIdx[chunk]? with
  | none => .panic "index out of bounds: last_index_per_chunk[chunk]"
  | some i => .ok (i % 256, { st with nextIdx := st.nextIdx.set chunk (i + 1) })


/-- `read_field` / `read_optional_field` / transient default, by role -/
def readField (steps : List Step) (st : RecSt) (fd : FieldDec) : DProg (Val × RecSt) :=
  let f := fd.field
  match f.role with
  | .transient =>
    match f.default with
    | some v => pure (v, st)
    | none => .panic "transient field without default"
  | .plain =>
    if nameBytes f.name ∈ st.removed then .fail (.fieldRemoved f.name) else
    let chunk := genOf steps f.name
    match takeIdx st chunk with
    | .panic w => .panic w
    | .err e => .fail e
    | .ok (pos, st) =>
      if st.storedVersion < chunk then
        match f.default with
        | some v => pure (v, st)
        | none => .fail (.fieldMissing f.name)
      else
        inChunk st chunk
          (if (chunk, pos) ∈ st.madeOpt then
            readU8 >>= fun b => if b != 0 then fd.decFull else .fail (.nonOptionalNone f.name)
           else fd.decFull)
  | .optional =>
    if nameBytes f.name ∈ st.removed then pure (.none, st) else
    let chunk := genOf steps f.name
    let optSince := optSinceOf steps f.name
    match takeIdx st chunk with
    | .panic w => .panic w
    | .err e => .fail e
    | .ok (_, st) =>
      if st.storedVersion < chunk then
        match f.default with
        | some v => pure (v, st)
        | none => .fail .deserializationFailure
      else
        inChunk st chunk
          (if st.storedVersion < optSince then fd.decInner >>= fun v => pure (.some v)
           else fd.decFull)

def readFields (steps : List Step) : RecSt → List FieldDec → DProg (List Val)
  | _, [] => pure []
  | st, fd :: rest =>
    readField steps st fd >>= fun (v, st') =>
    readFields steps st' rest >>= fun vs => pure (v :: vs)

/-- a record body after its version byte has been read -/
def readRecordBody (steps : List Step) (fds : List FieldDec) (stored : Nat) : DProg Val :=
  recNew steps.length stored >>= fun st =>
  readFields steps st fds >>= fun vs => pure (.list (Val.ofList vs))

/-- version byte, then the body -/
def readRecord (steps : List Step) (fds : List FieldDec) : DProg Val :=
  readU8 >>= fun ver => readRecordBody steps fds ver.toNat

def tupleField (i : Nat) (t : Ty) : Field :=
  { name := "_" ++ toString i, ty := t, role := .plain, default := none }

mutual

/-- decoder of a type, given the decoder of named types -/
def decTy (fuel : Nat) (named : String → DProg Val) : Ty → DProg Val
  | .prim p => decPrim p
  | .option t =>
    readU8 >>= fun tag =>
    if tag = 0 then pure .none
    else if tag = 1 then decTy fuel named t >>= fun v => pure (.some v)
    else .fail .deserializationFailure
  | .result a e =>
    readU8 >>= fun tag =>
    if tag = 0 then decTy fuel named e >>= fun v => pure (.error v)
    else if tag = 1 then decTy fuel named a >>= fun v => pure (.ok v)
    else .fail .deserializationFailure
  | .seq t => decSeq fuel (decTy fuel named t) >>= fun vs => pure (.list (Val.ofList vs))
  | .array n t => decArray fuel (decTy fuel named t) n >>= fun vs => pure (.list (Val.ofList vs))
  | .tuple fs => readRecord [] (tupleDecs fuel named fs 0)
  | .fnil => .panic "field list used as a type"
  | .fcons _ _ => .panic "field list used as a type"
  | .named id => named id

/-- field decoders of a tuple's component chain -/
def tupleDecs (fuel : Nat) (named : String → DProg Val) : Ty → Nat → List FieldDec
  | .fcons a r, i =>
    { field := tupleField i a, decFull := decTy fuel named a, decInner := .panic "not optional" }
      :: tupleDecs fuel named r (i + 1)
  | _, _ => []

end

def mkFieldDec (decT : Ty → DProg Val) (f : Field) : FieldDec :=
  { field := f, decFull := decT f.ty,
    decInner := match f.ty with
      | .option inner => decT inner
      | _ => .panic "optional field whose type is not an Option" }

def declDecs (decT : Ty → DProg Val) (d : Decl) : List FieldDec := d.fields.map (mkFieldDec decT)

/-- the derived enum reader -/
def readEnum (decT : Ty → DProg Val) (name : String) (sorted : Bool) (ctors : List Ctor) : DProg Val :=
  readU8 >>= fun ver =>
  recNew 0 ver.toNat >>= fun st =>
  inChunk st 0 readVarU32 >>= fun (idx, st) =>
  match (wireCtors sorted ctors)[idx]? with
  | none => .fail (.invalidCtorId idx name)
  | some (declIdx, c) =>
    if c.transient then .fail (.deserTransientCtor name c.name)
    else
      inChunk st 0 (readRecord c.decl.steps (declDecs decT c.decl)) >>= fun (v, _) =>
      match v with
      | .list fields => pure (.ctor declIdx fields)
      | _ => .panic "unreachable"

def decNamed (env : Env) : Nat → String → DProg Val
  | 0, _ => .panic "fuel exhausted"
  | fuel+1, id =>
    match env.find id with
    | none => .panic "unknown type"
    | some (.record d) => readRecord d.steps (declDecs (decTy fuel (decNamed env fuel)) d)
    | some (.enum name sorted ctors) =>
      readEnum (decTy fuel (decNamed env fuel)) name sorted ctors

def dec (env : Env) (fuel : Nat) (ty : Ty) : DProg Val := decTy fuel (decNamed env fuel) ty

/-- top-level `deserialize` through the faithful context -/
def decodeTop (env : Env) (ty : Ty) (b : Bytes) : Outcome (Val × Ctx) :=
  runCtx (dec env (b.length + 1) ty) (Ctx.new b)

/-- the same through the abstract source -/
def decodeAbs (env : Env) (ty : Ty) (b : Bytes) : Outcome (Val × AbsSrc) :=
  runAbs (dec env (b.length + 1) ty) (AbsSrc.new b)
