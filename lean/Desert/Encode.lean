import Desert.Ty
/-!
# The encoder

`enc env ty v strs` returns the bytes and the new string table. State effects happen in the
order of the Rust code: a chunked record registers the removed-field names of its header when
the serializer is created (`AdtSerializer::new`), then its fields in declaration order.
Transcribed from `serializer/mod.rs`, `serializer/tuples.rs`, `adt/serializer.rs`,
`evolution.rs`, `adt/mod.rs` and the expansion in `desert_macro/src/lib.rs`.
-/

abbrev EncSt := List Bytes

def indexOf? (tbl : List Bytes) (s : Bytes) : Option Nat :=
  go tbl 0
where
  go : List Bytes → Nat → Option Nat
    | [], _ => none
    | x :: xs, i => if x = s then some i else go xs (i + 1)

/-- `String::serialize` -/
def encString (bs : Bytes) : Outcome Bytes :=
  if bs.length < 2 ^ 31 then .ok (zz bs.length ++ bs) else .err .lengthTooLarge

/-- `DeduplicatedString::serialize` -/
def encDString (bs : Bytes) (st : EncSt) : Outcome (Bytes × EncSt) :=
  match indexOf? st bs with
  | some i => .ok (zz (-((i : Int) + 1)), st)
  | none =>
    -- `last_string_id.next()`: the i32 id counter overflows after 2^31 - 1 strings
    if st.length < 2 ^ 31 - 1 then (encString bs).bind fun b => .ok (b, st ++ [bs])
    else .panic "attempt to add with overflow"

def intInRange (w : Nat) (signed : Bool) (n : Int) : Bool :=
  if signed then decide (-((256 ^ w / 2 : Nat) : Int) ≤ n ∧ n < ((256 ^ w / 2 : Nat) : Int))
  else decide (0 ≤ n ∧ n < ((256 ^ w : Nat) : Int))

def illTyped {α : Type} : Outcome α := .panic "ill-typed value"

def encPrim (p : Prim) (v : Val) (st : EncSt) : Outcome (Bytes × EncSt) :=
  match p, v with
  | .int w s, .int n => if intInRange w s n then .ok (beBytes w (toUnsigned w n), st) else illTyped
  | .bool, .bool b => .ok ([if b then 1 else 0], st)
  | .unit, .unit => .ok ([], st)
  | .char, .int n =>
      if n < 0 ∨ n ≥ 0x110000 ∨ (0xD800 ≤ n ∧ n < 0xE000) then illTyped
      else if n < 0x10000 then .ok (beBytes 2 n.toNat, st) else .err .unsupportedCharacter
  | .string, .str bs => (encString bs).bind fun b => .ok (b, st)
  | .dstring, .str bs => encDString bs st
  | .duration, .dur s n =>
      if s < 2 ^ 64 ∧ n < 10 ^ 9 then .ok (beBytes 8 s ++ beBytes 4 n, st) else illTyped
  | .bytes, .bytes bs =>
      if bs.length < 2 ^ 32 then .ok (uv bs.length ++ bs, st) else .err .lengthTooLarge
  | .barr n, .bytes bs =>
      if bs.length ≠ n then illTyped
      else if n < 2 ^ 32 then .ok (uv n ++ bs, st) else .err .lengthTooLarge
  | .raw n, .bytes bs => if bs.length = n then .ok (bs, st) else illTyped
  | .weekday, .int n => if 1 ≤ n ∧ n ≤ 7 then .ok ([byteOf n.toNat], st) else illTyped
  | .month, .int n => if 1 ≤ n ∧ n ≤ 12 then .ok ([byteOf n.toNat], st) else illTyped
  | .fixedOffset, .int n => if -86400 < n ∧ n < 86400 then .ok (0 :: zz n, st) else illTyped
  | .varu32, .int n => if 0 ≤ n ∧ n < 2 ^ 32 then .ok (uv n.toNat, st) else illTyped
  | _, _ => illTyped

/-- `FieldPosition::to_byte` -/
def positionByte (chunk pos : Nat) : Byte :=
  if chunk = 0 then byteOf ((256 - pos % 256) % 256) else byteOf chunk

/-- one encoded field: name, chunk (generation) and bytes -/
structure EncField where
  name : String
  chunk : Nat
  bytes : Bytes
deriving Repr

/-- UTF-8 bytes of a field name (kernel-reducible, unlike `String.toUTF8`) -/
def nameBytes (s : String) : Bytes := s.toList.flatMap String.utf8EncodeChar

/-- `AdtSerializer::new`: names of the header steps that are written in the removed form are
serialized (as deduplicated strings) before the fields. One entry per step incl. `InitialVersion`. -/
def preNames (steps : List Step) (removed : List String) (st : EncSt) :
    Outcome (List (Option Bytes) × EncSt) :=
  match steps with
  | [] => .ok ([], st)
  | s :: rest =>
    let name? : Option String := match s with
      | .removed n => some n
      | .madeTransient n => some n
      | .madeOptional n => if n ∈ removed then some n else none
      | .added _ => none
    match name? with
    | none => (preNames rest removed st).bind fun (l, st') => .ok (none :: l, st')
    | some n =>
      (encDString (nameBytes n) st).bind fun (b, st1) =>
      (preNames rest removed st1).bind fun (l, st') => .ok (some b :: l, st')

/-- bytes of chunk `k`: concatenation, in write order, of the fields whose generation is `k` -/
def chunkBytes (fs : List EncField) (k : Nat) : Bytes :=
  (fs.filter (·.chunk = k)).flatMap (·.bytes)

/-- `field_indices.get(name)`: position among the fields written to the same chunk -/
def fieldIndex (fs : List EncField) (name : String) : Option (Nat × Nat) :=
  go fs []
where
  go : List EncField → List EncField → Option (Nat × Nat)
    | [], _ => none
    | f :: rest, seen =>
      -- later writes of the same name overwrite earlier ones in the HashMap
      match go rest (seen ++ [f]) with
      | some r => some r
      | none => if f.name = name then some (f.chunk, (seen.filter (·.chunk = f.chunk)).length) else none

def sizeStep (len : Nat) : Outcome Bytes :=
  if len < 2 ^ 31 then .ok (zz len) else .err .lengthTooLarge

/-- `write_evolution_header`, step `k ≥ 1` -/
def headerStep (fs : List EncField) (k : Nat) (s : Step) (pre : Option Bytes) : Outcome Bytes :=
  match pre with
  | some b => .ok (zz (-2) ++ b)
  | none =>
    match s with
    | .added _ => sizeStep (chunkBytes fs k).length
    | .madeOptional n =>
      match fieldIndex fs n with
      | some (c, p) => .ok (zz (-1) ++ [positionByte c p])
      | none => .err (.unknownFieldRef n)
    -- unreachable: removed / transient steps are always pre-serialized
    | .removed _ => .panic "removed step without pre-serialized name"
    | .madeTransient _ => .panic "transient step without pre-serialized name"

def headerSteps (fs : List EncField) : Nat → List Step → List (Option Bytes) → Outcome Bytes
  | _, [], _ => .ok []
  | k, s :: rest, pre =>
    (headerStep fs k s (pre.head?.join)).bind fun b =>
    (headerSteps fs (k + 1) rest pre.tail).bind fun bs => .ok (b ++ bs)

def chunksFrom (fs : List EncField) (k : Nat) : Nat → Bytes
  | 0 => []
  | n+1 => chunkBytes fs k ++ chunksFrom fs (k + 1) n

/-- assemble a chunked record from its encoded fields (`finish()`) -/
def assembleRecord (d : Decl) (pre : List (Option Bytes)) (fs : List EncField) : Outcome Bytes :=
  (sizeStep (chunkBytes fs 0).length).bind fun h0 =>
  (headerSteps fs 1 d.steps pre).bind fun hs =>
  .ok (byteOf d.version :: (h0 ++ hs ++ chunksFrom fs 0 (d.version + 1)))

/-- before the fields: `new_v0` does nothing, `new` registers the header's removed names -/
def recordPre (d : Decl) (st : EncSt) : Outcome (List (Option Bytes) × EncSt) :=
  if d.steps.isEmpty then .ok ([], st)
  else if d.steps.length > 254 then .panic "Too many evolution steps"
  else preNames d.steps (removedNames d.steps) st

/-- after the fields: `finish()` -/
def recordFinish (d : Decl) (pre : List (Option Bytes)) (fs : List EncField) : Outcome Bytes :=
  if d.steps.isEmpty then .ok (0 :: fs.flatMap (·.bytes))
  else assembleRecord d pre fs

def findCtorWire (l : List (Nat × Ctor)) (idx : Nat) : Option (Nat × Ctor) :=
  go l 0
where
  go : List (Nat × Ctor) → Nat → Option (Nat × Ctor)
    | [], _ => none
    | (i, c) :: rest, w => if i = idx then some (w, c) else go rest (w + 1)

mutual

def enc (env : Env) (ty : Ty) (v : Val) (st : EncSt) : Outcome (Bytes × EncSt) :=
  match ty, v with
  | .prim p, v => encPrim p v st
  | .option _, .none => .ok ([0], st)
  | .option t, .some x => (enc env t x st).bind fun (b, st') => .ok (1 :: b, st')
  | .result t _, .ok x => (enc env t x st).bind fun (b, st') => .ok (1 :: b, st')
  | .result _ e, .error x => (enc env e x st).bind fun (b, st') => .ok (0 :: b, st')
  | .seq t, .list v =>
    if v.chainLength < 2 ^ 31 then
      (encItems env t v st).bind fun (b, st') => .ok (zz v.chainLength ++ b, st')
    else .err .lengthTooLarge
  | .array n t, .list v =>
    if v.chainLength ≠ n then illTyped
    else if n < 2 ^ 31 then
      (encItems env t v st).bind fun (b, st') => .ok (zz n ++ b, st')
    else .err .lengthTooLarge
  | .tuple fs, .list v => (encTupleFields env fs v st).bind fun (b, st') => .ok (0 :: b, st')
  | .fnil, _ => illTyped
  | .fcons _ _, _ => illTyped
  | .named id, v =>
    match env.find id with
    | none => illTyped
    | some (.record d) =>
      match v with
      | .list fields =>
        (recordPre d st).bind fun (pre, st1) =>
        (encFields env d.steps d.fields fields st1).bind fun (fs, st2) =>
        (recordFinish d pre fs).bind fun b => .ok (b, st2)
      | _ => illTyped
    | some (.enum name sorted ctors) =>
      match v with
      | .ctor idx fields =>
        match findCtorWire (wireCtors sorted ctors) idx with
        | none => illTyped
        | some (w, c) =>
          if c.transient then .err (.serTransientCtor name c.name)
          else
            (recordPre c.decl st).bind fun (pre, st1) =>
            (encFields env c.decl.steps c.decl.fields fields st1).bind fun (fs, st2) =>
            (recordFinish c.decl pre fs).bind fun b => .ok (0 :: (uv w ++ b), st2)
      | _ => illTyped
  | _, _ => illTyped

/-- items of a sequence, all of type `t` -/
def encItems (env : Env) (t : Ty) (v : Val) (st : EncSt) : Outcome (Bytes × EncSt) :=
  match v with
  | .vnil => .ok ([], st)
  | .vcons x rest =>
    (enc env t x st).bind fun (b, st1) =>
    (encItems env t rest st1).bind fun (bs, st2) => .ok (b ++ bs, st2)
  | _ => illTyped

/-- components of a tuple (`fnil`/`fcons` chain against a `vnil`/`vcons` chain) -/
def encTupleFields (env : Env) (fs : Ty) (v : Val) (st : EncSt) : Outcome (Bytes × EncSt) :=
  match fs, v with
  | .fnil, .vnil => .ok ([], st)
  | .fcons a r, .vcons x rest =>
    (enc env a x st).bind fun (b, st1) =>
    (encTupleFields env r rest st1).bind fun (bs, st2) => .ok (b ++ bs, st2)
  | _, _ => illTyped

/-- `write_field` per non-transient field in declaration order -/
def encFields (env : Env) (steps : List Step) (fields : List Field) (v : Val) (st : EncSt) :
    Outcome (List EncField × EncSt) :=
  match fields, v with
  | [], .vnil => .ok ([], st)
  | f :: fs, .vcons x rest =>
    match f.role with
    | .transient => encFields env steps fs rest st
    | _ =>
      (enc env f.ty x st).bind fun (b, st1) =>
      (encFields env steps fs rest st1).bind fun (l, st2) =>
        .ok ({ name := f.name, chunk := genOf steps f.name, bytes := b } :: l, st2)
  | _, _ => illTyped

end

/-- top-level `serialize_to_byte_vec` -/
def encodeTop (env : Env) (ty : Ty) (v : Val) : Outcome Bytes :=
  (enc env ty v []).bind fun (b, _) => .ok b
