import Desert.Decode
/-!
# Compressed blocks (`write_compressed` / `read_compressed`)

Raw deflate itself is a parameter (`Codec`): the model never compresses. The harness hands the model
the `(level, data) ↦ compressed` pairs it observed from the real flate2.
-/

structure Codec where
  deflate : Nat → Bytes → Bytes
  /-- `none` = `DecompressionFailure` -/
  inflate : Bytes → Option Bytes

/-- `write_compressed`: `bytes.len() as u32`, `compressed.len() as u32`, payload -/
def writeCompressed (C : Codec) (level : Nat) (d : Bytes) : Bytes :=
  uv (d.length % 2 ^ 32) ++ uv ((C.deflate level d).length % 2 ^ 32) ++ C.deflate level d

/-- `read_compressed`; the second component is the capacity reserved before inflating
(`Vec::with_capacity(uncompressed_len.min(64 * 1024))`) -/
def readCompressed (C : Codec) : DProg (Bytes × Nat) :=
  readVarU32 >>= fun ulen =>
  readVarU32 >>= fun clen =>
  readBytes clen >>= fun z =>
  match C.inflate z with
  | some d => pure (d, min ulen 65536)
  | none => .fail .decompressionFailure

/-- programs that contain no panic node and no region operation -/
def PanicFree {α : Type} : DProg α → Prop
  | .ret _ => True
  | .fail _ => True
  | .panic _ => False
  | .readU8 k => ∀ b, PanicFree (k b)
  | .readBytes _ k => ∀ bs, PanicFree (k bs)
  | .skip _ k => PanicFree (k ())
  | .pos k => ∀ p, PanicFree (k p)
  | .push _ _ => False
  | .pop _ => False
  | .strGet _ k => ∀ x, PanicFree (k x)
  | .strPut _ k => PanicFree (k ())
