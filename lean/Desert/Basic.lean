/-!
# Basic vocabulary of the model

`Outcome` has an explicit third constructor `panic`: every Rust expression in desert that can
panic (indexing, `unwrap`, arithmetic overflow in a debug build, `unreachable!`) is transcribed
with its panic condition, so that "never panics" is a theorem about the model and "panics" is a
comparable observation on the implementation (`catch_unwind`).
-/

abbrev Byte := UInt8
abbrev Bytes := List Byte

/-- Mirror of `desert::Error`; payloads are kept where a property names them. -/
inductive Err where
  | unsupportedCharacter
  | failedToDecodeCharacter
  | lengthTooLarge
  | inputEnded
  | failedToDecodeString
  | invalidStringId (id : Int)
  | deserializationFailure
  | unknownFieldRef (name : String)
  | fieldRemoved (name : String)
  | fieldMissing (name : String)
  | nonOptionalNone (name : String)
  | invalidRefId (id : Nat)
  | invalidCtorId (id : Nat) (ty : String)
  | deserTransientCtor (ty ctor : String)
  | serTransientCtor (ty ctor : String)
  | decompressionFailure
deriving DecidableEq, Repr, Inhabited

inductive Outcome (α : Type) where
  | ok (a : α)
  | err (e : Err)
  | panic (why : String)
deriving Repr, DecidableEq

namespace Outcome

def bind {α β : Type} : Outcome α → (α → Outcome β) → Outcome β
  | .ok a, f => f a
  | .err e, _ => .err e
  | .panic w, _ => .panic w

instance : Monad Outcome where
  pure := .ok
  bind := Outcome.bind

def map' {α β : Type} (f : α → β) : Outcome α → Outcome β
  | .ok a => .ok (f a)
  | .err e => .err e
  | .panic w => .panic w

def isPanic {α : Type} : Outcome α → Bool
  | .panic _ => true
  | _ => false

def isOk {α : Type} : Outcome α → Bool
  | .ok _ => true
  | _ => false

@[simp] theorem bind_ok {α β : Type} (a : α) (f : α → Outcome β) : (Outcome.ok a).bind f = f a := rfl
@[simp] theorem bind_err {α β : Type} (e : Err) (f : α → Outcome β) : (Outcome.err e : Outcome α).bind f = .err e := rfl
@[simp] theorem bind_panic {α β : Type} (w : String) (f : α → Outcome β) : (Outcome.panic w : Outcome α).bind f = .panic w := rfl

end Outcome

/-- `usize::MAX + 1` on the 64-bit targets the checks run on. -/
def usizeModulus : Nat := 2 ^ 64

/-- Rust `x as usize` for an `i32` value `x` (sign-extending). -/
def i32AsUsize (i : Int) : Nat :=
  if i < 0 then (usizeModulus - i.natAbs) else i.toNat
