import Desert.Align
/-!
# Why is a pair not aligned? (diagnostics for the `hist` family)

`seekG` / `alignG` are `seekB` / `alignB` with the string-freeness test as a parameter. With
`fun _ => true` they accept a pair exactly when the *only* thing `pairAlignedB` objects to is a
passed-over field that may hold a deduplicated string — the situation of finding D17.
-/

def seekG (df : Ty → Bool) (wsteps : List Step) (name : String) : List Field → List Nat → List Nat →
    Option (Field × List Field × List Nat × List Nat)
  | [], _, _ => none
  | g :: ws, dc, dead =>
    if g.role = .transient then seekG df wsteps name ws dc dead
    else if g.name = name then some (g, ws, dc, dead)
    else if df g.ty then
      seekG df wsteps name ws (dc ++ [genOf wsteps g.name]) (genOf wsteps g.name :: dead)
    else none

def alignG (df : Ty → Bool) (dw dr : Decl) (mo : List (Nat × Nat)) (rmB : List Bytes) :
    List Field → List Nat → List Nat → List Field → Bool
  | ws, _, _, [] => ws.all fun g => g.role == .transient || df g.ty
  | ws, dc, dead, f :: fs =>
    match f.role with
    | .transient => f.default.isSome && alignG df dw dr mo rmB ws dc dead fs
    | _ =>
      (decide (nameBytes f.name ∈ rmB) == removedInData dw.steps f.name) &&
      (if removedInData dw.steps f.name then alignG df dw dr mo rmB ws dc dead fs
       else if dw.steps.length < genOf dr.steps f.name then alignG df dw dr mo rmB ws dc dead fs
       else
        match seekG df dw.steps f.name ws dc dead with
        | none => false
        | some (g, ws', dc', dead') =>
          let c := genOf dr.steps f.name
          (genOf dw.steps g.name == c) && !(decide (c ∈ dead')) &&
          typeOKB dw dr mo f g c (dc'.filter (· = c)).length &&
          alignG df dw dr mo rmB ws' (dc' ++ [c]) dead' fs)

def pairAlignedG (df : Ty → Bool) (dw dr : Decl) : Bool :=
  decide (dw.fields.map (·.name)).Nodup &&
  alignG df dw dr (madeOptPositions dw.steps (skel dw.steps dw.fields)) ((removedForm dw.steps).map nameBytes)
    dw.fields [] [] dr.fields

theorem seekG_dedupFree (wsteps : List Step) (name : String) : ∀ ws dc dead,
    seekG dedupFree wsteps name ws dc dead = seekB wsteps name ws dc dead := by
  intro ws
  induction ws with
  | nil => intro dc dead; rfl
  | cons g ws ih => intro dc dead; simp only [seekG, seekB, ih]

theorem alignG_dedupFree (dw dr : Decl) (mo : List (Nat × Nat)) (rmB : List Bytes) : ∀ frs ws dc dead,
    alignG dedupFree dw dr mo rmB ws dc dead frs = alignB dw dr mo rmB ws dc dead frs := by
  intro frs
  induction frs with
  | nil => intro ws dc dead; simp [alignG, alignB]
  | cons f fs ih =>
    intro ws dc dead
    rw [alignG, alignB]
    cases hr : f.role with
    | transient => simp only [ih]
    | plain =>
      simp only [ih, seekG_dedupFree]
      cases seekB dw.steps f.name ws dc dead with
      | none => rfl
      | some r => obtain ⟨g, ws', dc', dead'⟩ := r; simp only [ih]
    | optional =>
      simp only [ih, seekG_dedupFree]
      cases seekB dw.steps f.name ws dc dead with
      | none => rfl
      | some r => obtain ⟨g, ws', dc', dead'⟩ := r; simp only [ih]

/-- the diagnostic check with the real string-freeness test is the check of the theorem -/
theorem pairAlignedG_dedupFree (dw dr : Decl) : pairAlignedG dedupFree dw dr = pairAlignedB dw dr := by
  simp only [pairAlignedG, pairAlignedB, alignG_dedupFree]

/-- classification used by the driver -/
def alignmentClass (dw dr : Decl) : String :=
  if !declWFb dw then "not-aligned:writer-not-wellformed"
  else if pairAlignedB dw dr then "aligned"
  else if pairAlignedG (fun _ => true) dw dr then "not-aligned:passed-over-dedup-string"
  else "not-aligned:other"
