import Desert.Encode
/-!
# Process-wide state: one write-once cell per derived type (`lazy_static` metadata)

What is logic in C18: (1) `serialize` / `deserialize` build their context — and so their string and
reference tables — inside the call; (2) the only state that outlives a call is one write-once cell
per derived type whose content is a pure function of the declaration. A process is the list of
cells; threads interleave `begin` / `finish` of an initialisation and `call`s that read a cell.
Not modelled (trusted, DESIGN §7): the memory-model correctness of `std::sync::Once` and of reads
after publication.
-/

inductive Cell (M : Type) where
  | uninit
  | running (tid : Nat)
  | done (m : M)
deriving Repr

/-- events of an execution; `call` is the body of an encode/decode call reading the cell of type `i` -/
inductive Ev where
  | begin (tid i : Nat)
  | finish (tid i : Nat)
  | call (tid i : Nat)
deriving Repr

structure Proc (M : Type) where
  cells : List (Cell M)

def Proc.init (M : Type) (n : Nat) : Proc M := ⟨List.replicate n .uninit⟩

/-- one step; `none` = the event is not enabled (`Once` blocks a second initialiser, a call needs a
published cell). `mdOf i` is the metadata computed from declaration `i`; the observation of a call
is the cell content it read. -/
def Proc.step {M : Type} (mdOf : Nat → M) (p : Proc M) : Ev → Option (Proc M × Option M)
  | .begin t i =>
    match p.cells[i]? with
    | some .uninit => some (⟨p.cells.set i (.running t)⟩, none)
    | _ => none
  | .finish t i =>
    match p.cells[i]? with
    | some (.running t') => if t = t' then some (⟨p.cells.set i (.done (mdOf i))⟩, none) else none
    | _ => none
  | .call _ i =>
    match p.cells[i]? with
    | some (.done m) => some (p, some m)
    | _ => none

/-- run a schedule; collects the observation of every call -/
def Proc.run {M : Type} (mdOf : Nat → M) : Proc M → List Ev → Option (Proc M × List (Nat × M))
  | p, [] => some (p, [])
  | p, e :: rest =>
    match p.step mdOf e with
    | none => none
    | some (p', obs) =>
      match Proc.run mdOf p' rest with
      | none => none
      | some (p'', l) =>
        match e, obs with
        | .call _ i, some m => some (p'', (i, m) :: l)
        | _, _ => some (p'', l)

/-- every cell is untouched, being initialised, or holds exactly the metadata of its declaration -/
def Proc.Inv {M : Type} (mdOf : Nat → M) (p : Proc M) : Prop :=
  ∀ i m, p.cells[i]? = some (.done m) → m = mdOf i

/-- a top-level call as a function of the process state: the context (string table `[]`) is created
inside the call; the process state contributes only the declaration metadata, here the environment -/
def callEncode (envOf : Nat → Env) (i : Nat) (ty : Ty) (v : Val) : Outcome Bytes := encodeTop (envOf i) ty v
