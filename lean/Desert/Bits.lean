import Desert.Basic
/-!
# Bit-exact transcription of the var-int code (`binary_output.rs`, `binary_input.rs`)

Same shifts, masks and casts as the Rust source, on `BitVec 32` / `BitVec 8`.
-/

namespace Bits

/-- `value as u8` -/
@[reducible] def lo8 (v : BitVec 32) : BitVec 8 := v.setWidth 8
/-- `b as u32` -/
@[reducible] def up32 (b : BitVec 8) : BitVec 32 := b.setWidth 32

/-- `write_var_u32` -/
def writeVarU32 (value : BitVec 32) : List (BitVec 8) :=
  if value >>> 7 = 0 then [lo8 value]
  else if value >>> 14 = 0 then [lo8 ((value &&& 0x7F) ||| 0x80), lo8 (value >>> 7)]
  else if value >>> 21 = 0 then
    [lo8 ((value &&& 0x7F) ||| 0x80), lo8 ((value >>> 7) ||| 0x80), lo8 (value >>> 14)]
  else if value >>> 28 = 0 then
    [lo8 ((value &&& 0x7F) ||| 0x80), lo8 ((value >>> 7) ||| 0x80), lo8 ((value >>> 14) ||| 0x80),
     lo8 (value >>> 21)]
  else
    [lo8 ((value &&& 0x7F) ||| 0x80), lo8 ((value >>> 7) ||| 0x80), lo8 ((value >>> 14) ||| 0x80),
     lo8 ((value >>> 21) ||| 0x80), lo8 (value >>> 28)]

/-- zig-zag: `((value << 1) ^ (value >> 31)) as u32` with an arithmetic right shift -/
def zigzag (value : BitVec 32) : BitVec 32 := (value <<< 1) ^^^ (value.sshiftRight 31)

/-- `write_var_i32` -/
def writeVarI32 (value : BitVec 32) : List (BitVec 8) := writeVarU32 (zigzag value)

/-- `read_var_u32` over a byte list: value and the unread rest, `none` = `InputEndedUnexpectedly` -/
def readVarU32 : List (BitVec 8) → Option (BitVec 32 × List (BitVec 8))
  | [] => none
  | b0 :: r0 =>
    let r := up32 (b0 &&& 0x7F)
    if b0 &&& 0x80 = 0 then some (r, r0) else
    match r0 with
    | [] => none
    | b1 :: r1 =>
      let r := r ||| (up32 (b1 &&& 0x7F) <<< 7)
      if b1 &&& 0x80 = 0 then some (r, r1) else
      match r1 with
      | [] => none
      | b2 :: r2 =>
        let r := r ||| (up32 (b2 &&& 0x7F) <<< 14)
        if b2 &&& 0x80 = 0 then some (r, r2) else
        match r2 with
        | [] => none
        | b3 :: r3 =>
          let r := r ||| (up32 (b3 &&& 0x7F) <<< 21)
          if b3 &&& 0x80 = 0 then some (r, r3) else
          match r3 with
          | [] => none
          | b4 :: r4 => some (r ||| (up32 (b4 &&& 0x7F) <<< 28), r4)

/-- un-zig-zag: `((r >> 1) ^ (-((r & 1) as i32) as u32)) as i32` -/
def unzigzag (r : BitVec 32) : BitVec 32 := (r >>> 1) ^^^ (-(r &&& 1))

/-- `read_var_i32` -/
def readVarI32 (bs : List (BitVec 8)) : Option (BitVec 32 × List (BitVec 8)) :=
  match readVarU32 bs with
  | some (r, rest) => some (unzigzag r, rest)
  | none => none

/-- `FieldPosition::to_byte` for chunk 0 -/
def negPos (p : BitVec 8) : BitVec 8 := -p

end Bits
