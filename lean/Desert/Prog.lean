import Desert.Num
/-!
# Decoder programs and their two interpreters

A decoder is an *operation tree* whose nodes are the operations the Rust reader performs on its
`DeserializationContext` (`read_u8`, `read_bytes n`, `skip n`, `pos`, `push_region`, `pop_region`,
string-table access). `runCtx` interprets a tree over a transcription of the context's region
arithmetic (`deserializer/mod.rs`), `runAbs` over plain list windows.
-/

/-- `InputRegion` (`deserializer/mod.rs`): `start`/`end_` relative to the parent region,
`pos` relative to `start`. -/
structure Region where
  start : Nat
  pos : Nat
  end_ : Nat
deriving Repr, DecidableEq, Inhabited

def Region.new (start len : Nat) : Region := ⟨start, 0, start + len⟩
def Region.empty : Region := ⟨0, 0, 0⟩

inductive DProg (α : Type) where
  | ret (a : α)
  | fail (e : Err)
  | panic (w : String)
  | readU8 (k : Byte → DProg α)
  | readBytes (n : Nat) (k : Bytes → DProg α)
  | skip (n : Nat) (k : Unit → DProg α)
  | pos (k : Nat → DProg α)
  | push (r : Region) (k : Unit → DProg α)
  | pop (k : Region → DProg α)
  | strGet (id : Nat) (k : Option Bytes → DProg α)
  | strPut (s : Bytes) (k : Unit → DProg α)

namespace DProg

def bind {α β : Type} : DProg α → (α → DProg β) → DProg β
  | .ret a, f => f a
  | .fail e, _ => .fail e
  | .panic w, _ => .panic w
  | .readU8 k, f => .readU8 fun b => (k b).bind f
  | .readBytes n k, f => .readBytes n fun b => (k b).bind f
  | .skip n k, f => .skip n fun u => (k u).bind f
  | .pos k, f => .pos fun p => (k p).bind f
  | .push r k, f => .push r fun u => (k u).bind f
  | .pop k, f => .pop fun r => (k r).bind f
  | .strGet i k, f => .strGet i fun s => (k s).bind f
  | .strPut s k, f => .strPut s fun u => (k u).bind f

instance : Monad DProg where
  pure := .ret
  bind := DProg.bind

end DProg

def readU8 : DProg Byte := .readU8 .ret
def readBytes (n : Nat) : DProg Bytes := .readBytes n .ret
def skipN (n : Nat) : DProg Unit := .skip n .ret
def getPos : DProg Nat := .pos .ret
def pushR (r : Region) : DProg Unit := .push r .ret
def popR : DProg Region := .pop .ret
def strGet (id : Nat) : DProg (Option Bytes) := .strGet id .ret
def strPut (s : Bytes) : DProg Unit := .strPut s .ret

/-- `State::store_string` as seen by later lookups: insert if absent; id = index + 1. -/
def strInsert (tbl : List Bytes) (s : Bytes) : List Bytes :=
  if s ∈ tbl then tbl else tbl ++ [s]

def strLookup (tbl : List Bytes) (id : Nat) : Option Bytes :=
  if id = 0 then none else tbl[id - 1]?

/-! ## Abstract source: a stack of list windows -/

structure Win where
  off : Nat
  window : Bytes
  pos : Nat
deriving Repr

structure AbsSrc where
  cur : Win
  stack : List Win
  strs : List Bytes
deriving Repr

def AbsSrc.new (b : Bytes) : AbsSrc := { cur := ⟨0, b, 0⟩, stack := [], strs := [] }

def runAbs {α : Type} : DProg α → AbsSrc → Outcome (α × AbsSrc)
  | .ret a, s => .ok (a, s)
  | .fail e, _ => .err e
  | .panic w, _ => .panic w
  | .readU8 k, s =>
    match s.cur.window[s.cur.pos]? with
    | some b => runAbs (k b) { s with cur := { s.cur with pos := s.cur.pos + 1 } }
    | none => .err .inputEnded
  | .readBytes n k, s =>
    if s.cur.pos + n ≤ s.cur.window.length then
      runAbs (k ((s.cur.window.drop s.cur.pos).take n)) { s with cur := { s.cur with pos := s.cur.pos + n } }
    else .err .inputEnded
  | .skip n k, s =>
    if s.cur.pos + n ≤ s.cur.window.length then
      runAbs (k ()) { s with cur := { s.cur with pos := s.cur.pos + n } }
    else .err .inputEnded
  | .pos k, s => runAbs (k s.cur.pos) s
  | .push r k, s =>
    if r.start ≤ r.end_ ∧ r.end_ ≤ s.cur.window.length ∧ r.start + r.pos ≤ r.end_ then
      runAbs (k ()) { s with
        cur := { off := r.start, window := (s.cur.window.drop r.start).take (r.end_ - r.start), pos := r.pos },
        stack := s.cur :: s.stack }
    else .panic "region escapes window"
  | .pop k, s =>
    match s.stack with
    | [] => .panic "pop on empty region stack"
    | w :: rest =>
      runAbs (k { start := s.cur.off, pos := s.cur.pos, end_ := s.cur.off + s.cur.window.length })
        { s with cur := w, stack := rest }
  | .strGet id k, s => runAbs (k (strLookup s.strs id)) s
  | .strPut x k, s => runAbs (k ()) { s with strs := strInsert s.strs x }

/-! ## Faithful context: `DeserializationContext` -/

/-- `ResolvedInputRegion`: `start` absolute, `pos` and `end_` relative to `start`, `delta` the
absolute start of the parent. -/
structure RR where
  start : Nat
  pos : Nat
  end_ : Nat
  delta : Nat
deriving Repr

structure Ctx where
  input : Bytes
  cur : RR
  stack : List RR
  strs : List Bytes
deriving Repr

def Ctx.new (b : Bytes) : Ctx :=
  { input := b, cur := ⟨0, 0, b.length, 0⟩, stack := [], strs := [] }

def runCtx {α : Type} : DProg α → Ctx → Outcome (α × Ctx)
  | .ret a, c => .ok (a, c)
  | .fail e, _ => .err e
  | .panic w, _ => .panic w
  | .readU8 k, c =>
    -- if self.current.pos == self.current.end { Err } else { pos += 1; Ok(input[start + pos - 1]) }
    if c.cur.pos = c.cur.end_ then .err .inputEnded else
    match c.input[c.cur.start + c.cur.pos]? with
    | some b => runCtx (k b) { c with cur := { c.cur with pos := c.cur.pos + 1 } }
    | none => .panic "index out of bounds"
  | .readBytes n k, c =>
    -- if count > self.current.end - self.current.pos { Err } else { &input[start+pos .. start+pos+count] }
    if c.cur.end_ < c.cur.pos then .panic "attempt to subtract with overflow" else
    if n > c.cur.end_ - c.cur.pos then .err .inputEnded else
    if c.cur.start + c.cur.pos + n > c.input.length then .panic "slice index out of range" else
      runCtx (k ((c.input.drop (c.cur.start + c.cur.pos)).take n))
        { c with cur := { c.cur with pos := c.cur.pos + n } }
  | .skip n k, c =>
    if c.cur.end_ < c.cur.pos then .panic "attempt to subtract with overflow" else
    if n > c.cur.end_ - c.cur.pos then .err .inputEnded else
      runCtx (k ()) { c with cur := { c.cur with pos := c.cur.pos + n } }
  | .pos k, c => runCtx (k c.cur.pos) c
  | .push r k, c =>
    if r.end_ < r.start then .panic "attempt to subtract with overflow" else
    runCtx (k ()) { c with
      cur := { start := c.cur.start + r.start, pos := r.pos, end_ := r.end_ - r.start, delta := c.cur.start },
      stack := c.cur :: c.stack }
  | .pop k, c =>
    match c.stack with
    | [] => .panic "called `Option::unwrap()` on a `None` value"
    | w :: rest =>
      if c.cur.start < c.cur.delta then .panic "attempt to subtract with overflow" else
      runCtx (k { start := c.cur.start - c.cur.delta, pos := c.cur.pos,
                  end_ := c.cur.start - c.cur.delta + c.cur.end_ })
        { c with cur := w, stack := rest }
  | .strGet id k, c => runCtx (k (strLookup c.strs id)) c
  | .strPut x k, c => runCtx (k ()) { c with strs := strInsert c.strs x }
