import Desert.Encode
/-!
# Forms of the format that this writer never emits for std containers

The unknown-length sequence form (`-1`, flagged items, terminator) is what Scala desert writes for
lazy collections and what `serialize_iterator` writes for an iterator without an exact size hint.
-/

/-- `(1 item)* 0` -/
def encItemsFlagged (env : Env) (t : Ty) : Val → EncSt → Outcome (Bytes × EncSt)
  | .vnil, st => .ok ([0], st)
  | .vcons x r, st =>
    (enc env t x st).bind fun (b, st1) =>
    (encItemsFlagged env t r st1).bind fun (bs, st2) => .ok (1 :: (b ++ bs), st2)
  | _, _ => illTyped

/-- the unknown-length form of a sequence of `t` -/
def encSeqUnknown (env : Env) (t : Ty) (items : Val) (st : EncSt) : Outcome (Bytes × EncSt) :=
  (encItemsFlagged env t items st).bind fun (b, st') => .ok (zz (-1) ++ b, st')
