import Desert.Evolution
import Desert.DeclWF
/-!
# When can a definition read what another definition wrote?

`pairAlignedB dw dr` is a decidable, value-independent check on a pair of record definitions: the
writer `dw` (whose steps are the history up to the stored version) and the reader `dr`. It walks
the reader's fields in declaration order against the writer's serialized fields in declaration
order and demands what the chunked layout needs for the two to meet:

* every field the reader takes from the data is found, in order, among the writer's serialized
  fields, in the chunk the reader expects, with a type that is equal, or `Option` of it exactly
  where the header / the reader's steps say so;
* a writer field the reader passes over (it was removed or made transient later) is passed over
  for good — nothing is read from its chunk afterwards, which is "the last one serialized in its
  chunk" of the statement — and holds no deduplicated string (a passed-over first occurrence would
  shift every later string id; `Props/C03.lean` proves that this exclusion is necessary);
* names agree as bytes exactly when they agree as strings, positions announced in the header
  agree with `madeOptionalInData`.

It never looks at values. `Props/C03.lean`: for every aligned pair and every value, reading
gives the documented outcome `expectedRead`.
-/

/-- the type holds no `DeduplicatedString` (named types are not looked into: conservative) -/
def dedupFree : Ty → Bool
  | .prim p => p != .dstring
  | .option t => dedupFree t
  | .result a e => dedupFree a && dedupFree e
  | .seq t => dedupFree t
  | .array _ t => dedupFree t
  | .tuple fs => dedupFree fs
  | .fnil => true
  | .fcons a r => dedupFree a && dedupFree r
  | .named _ => false

/-- walk the writer's remaining fields to the serialized field called `name`; fields passed over
must be transient or string-free, and their chunks are dead from then on.
Returns the field found, the fields after it, the chunks of the serialized fields before it and
the dead chunks. -/
def seekB (wsteps : List Step) (name : String) : List Field → List Nat → List Nat →
    Option (Field × List Field × List Nat × List Nat)
  | [], _, _ => none
  | g :: ws, dc, dead =>
    if g.role = .transient then seekB wsteps name ws dc dead
    else if g.name = name then some (g, ws, dc, dead)
    else if dedupFree g.ty then
      seekB wsteps name ws (dc ++ [genOf wsteps g.name]) (genOf wsteps g.name :: dead)
    else none

/-- type of the writer's field `g` against the reader's field `f` read at position (c, i) -/
def typeOKB (dw dr : Decl) (mo : List (Nat × Nat)) (f g : Field) (c i : Nat) : Bool :=
  match f.role with
  | .plain =>
    let inMo := decide ((c, i % 256) ∈ mo)
    (inMo == madeOptionalInData dw.steps f.name) && (if inMo then g.ty == .option f.ty else g.ty == f.ty)
  | .optional =>
    if dw.steps.length < optSinceOf dr.steps f.name then f.ty == .option g.ty else g.ty == f.ty
  | .transient => true

def alignB (dw dr : Decl) (mo : List (Nat × Nat)) (rmB : List Bytes) :
    List Field → List Nat → List Nat → List Field → Bool
  | ws, _, _, [] => ws.all fun g => g.role == .transient || dedupFree g.ty
  | ws, dc, dead, f :: fs =>
    match f.role with
    | .transient => f.default.isSome && alignB dw dr mo rmB ws dc dead fs
    | _ =>
      (decide (nameBytes f.name ∈ rmB) == removedInData dw.steps f.name) &&
      (if removedInData dw.steps f.name then alignB dw dr mo rmB ws dc dead fs
       else if dw.steps.length < genOf dr.steps f.name then alignB dw dr mo rmB ws dc dead fs
       else
        match seekB dw.steps f.name ws dc dead with
        | none => false
        | some (g, ws', dc', dead') =>
          let c := genOf dr.steps f.name
          (genOf dw.steps g.name == c) && !(decide (c ∈ dead')) &&
          typeOKB dw dr mo f g c (dc'.filter (· = c)).length &&
          alignB dw dr mo rmB ws' (dc' ++ [c]) dead' fs)

/-- the pair of definitions is aligned (see the file comment) -/
def pairAlignedB (dw dr : Decl) : Bool :=
  decide (dw.fields.map (·.name)).Nodup &&
  alignB dw dr (madeOptPositions dw.steps (skel dw.steps dw.fields)) ((removedForm dw.steps).map nameBytes)
    dw.fields [] [] dr.fields
