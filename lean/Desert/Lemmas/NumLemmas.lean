import Desert.Num
/-!
# Big-endian and two's-complement lemmas
-/
set_option linter.unusedSimpArgs false

theorem beBytes_length (w n : Nat) : (beBytes w n).length = w := by
  induction w with
  | zero => simp [beBytes]
  | succ w ih => simp [beBytes, ih]

theorem ofBEAcc_append (acc : Nat) (a b : Bytes) : ofBEAcc acc (a ++ b) = ofBEAcc (ofBEAcc acc a) b := by
  induction a generalizing acc with
  | nil => simp [ofBEAcc]
  | cons x xs ih => simp [ofBEAcc, ih]

theorem ofBEAcc_beBytes (w : Nat) : ∀ (acc n : Nat), ofBEAcc acc (beBytes w n) = acc * 256 ^ w + n % 256 ^ w := by
  induction w with
  | zero => intro acc n; simp [beBytes, ofBEAcc, Nat.mod_one]
  | succ w ih =>
    intro acc n
    simp only [beBytes, ofBEAcc, byteOf_toNat]
    rw [ih]
    have h1 : n % 256 ^ (w + 1) = (n / 256 ^ w % 256) * 256 ^ w + n % 256 ^ w := by
      rw [Nat.pow_succ, Nat.mod_mul, Nat.add_comm, Nat.mul_comm]
    rw [h1, Nat.pow_succ]
    rw [Nat.add_mul, Nat.mul_assoc, Nat.mul_comm 256 (256 ^ w)]
    omega

theorem ofBE_beBytes (w n : Nat) : ofBE (beBytes w n) = n % 256 ^ w := by
  simp [ofBE, ofBEAcc_beBytes]

theorem ofBE_beBytes_lt {w n : Nat} (h : n < 256 ^ w) : ofBE (beBytes w n) = n := by
  rw [ofBE_beBytes, Nat.mod_eq_of_lt h]

theorem toUnsigned_lt (w : Nat) (i : Int) : toUnsigned w i < 256 ^ w := by
  unfold toUnsigned
  have hp : (0 : Int) < ((256 ^ w : Nat) : Int) := by
    have : 0 < 256 ^ w := Nat.pow_pos (by decide)
    omega
  have h1 := Int.emod_lt_of_pos i hp
  have h2 := Int.emod_nonneg i (Int.ne_of_gt hp)
  omega

theorem toSigned_toUnsigned {w : Nat} {i : Int}
    (h : -((256 ^ w / 2 : Nat) : Int) ≤ i ∧ i < ((256 ^ w / 2 : Nat) : Int)) (hw : 0 < w) :
    toSigned w (toUnsigned w i) = i := by
  unfold toSigned toUnsigned
  have heven : 256 ^ w = 2 * (256 ^ w / 2) := by
    cases w with
    | zero => omega
    | succ k => rw [Nat.pow_succ]; omega
  generalize 256 ^ w = m at *
  have hp : (0 : Int) < (m : Int) := by omega
  by_cases hi : 0 ≤ i
  · have e : i % (m : Int) = i := Int.emod_eq_of_lt hi (by omega)
    rw [e]
    split <;> omega
  · have e : i % (m : Int) = i + m := by
      have := Int.emod_emod_of_dvd i (Int.dvd_refl (m : Int))
      have h1 : (i + m) % (m : Int) = i % m := by simp
      rw [← h1]; exact Int.emod_eq_of_lt (by omega) (by omega)
    rw [e]
    split <;> omega

theorem toUnsigned_nat {w : Nat} {i : Int} (h : 0 ≤ i ∧ i < ((256 ^ w : Nat) : Int)) :
    ((toUnsigned w i : Nat) : Int) = i := by
  unfold toUnsigned
  have e : i % ((256 ^ w : Nat) : Int) = i := Int.emod_eq_of_lt h.1 h.2
  rw [e]; omega
