import Desert.Lemmas.RoundTripFull
import Desert.AltForm
import Desert.Lemmas.Misc
/-!
# The unknown-length form decodes to the same elements
-/
set_option linter.unusedSimpArgs false
set_option linter.unusedVariables false

theorem rt_flagged (env : Env) (henv : EnvWF env) (t : Ty) : ∀ (items : Val) (st : EncSt) (b : Bytes) (st' : EncSt)
    (fuel loop : Nat), encItemsFlagged env t items st = .ok (b, st') → items.utf8OK → StOK st → items.depth < fuel →
    items.chainLength < loop →
    ∀ (s : AbsSrc) (tl : Bytes), s.WF → s.view = b ++ tl → s.strs = st →
      runAbs (decUnknown (dec env fuel t) loop) s = .ok ((normItems env t items).toList, s.after b.length st')
        ∧ StOK st' ∧ Val.ofList (normItems env t items).toList = normItems env t items := by
  intro items
  induction items with
  | vnil =>
    intro st b st' fuel loop he hu hst hd hl s tl hw hv hs
    simp [encItemsFlagged] at he
    obtain ⟨rfl, rfl⟩ := he
    cases loop with
    | zero => simp [Val.chainLength] at hl
    | succ k =>
      simp only [decUnknown, bind_eq_dbind, pure_eq_ret]
      rw [readU8_bind' _ (by simpa using hv)]
      simp [runAbs, normItems, Val.toList, Val.ofList, hst, hs]
  | vcons x r ihx ihr =>
    intro st b st' fuel loop he hu hst hd hl s tl hw hv hs
    simp only [encItemsFlagged] at he
    cases hx : enc env t x st with
    | ok r1 =>
      obtain ⟨b1, st1⟩ := r1
      simp only [hx, Outcome.bind_ok] at he
      cases hr : encItemsFlagged env t r st1 with
      | ok r2 =>
        obtain ⟨b2, st2⟩ := r2
        simp [hr] at he
        obtain ⟨rfl, rfl⟩ := he
        simp only [Val.utf8OK] at hu
        simp only [Val.depth] at hd
        simp only [Val.chainLength] at hl
        cases loop with
        | zero => omega
        | succ k =>
          have hv' : s.view = 1 :: (b1 ++ (b2 ++ tl)) := by simpa using hv
          have hv1 : (s.after 1 s.strs).view = b1 ++ (b2 ++ tl) := by
            have := (view_cons hv').2; simpa [adv_eq_after] using this
          have hw1 : (s.after 1 s.strs).WF := by
            have := AbsSrc.WF_adv1 hw hv'; simpa [adv_eq_after] using this
          have h1 := (rt_wf env henv x).1 t st b1 st1 fuel hx hu.1 hst (by omega) _ _ hw1 hv1 (by simpa using hs)
          have hw2 := WF_after hw1 hv1 st1
          have hv2 := view_after_append hv1 st1
          have h2 := ihr st1 b2 st2 fuel k hr hu.2 h1.2 (by omega) (by omega) _ tl hw2 hv2 (by simp)
          simp only [decUnknown, bind_eq_dbind, pure_eq_ret]
          rw [readU8_bind' _ hv']
          simp only [show ¬ ((1 : Byte) = 0) by decide, if_false, if_true]
          rw [runAbs_bind, h1.1]
          simp only [Outcome.bindS_ok]
          rw [runAbs_bind, h2.1]
          simp [runAbs, normItems, Val.toList, Val.ofList, h2.2.1, h2.2.2]
          congr 1; omega
      | err e => simp [hr] at he
      | panic w => simp [hr] at he
    | err e => simp [hx] at he
    | panic w => simp [hx] at he
  | _ => intro st b st' fuel loop he; simp [encItemsFlagged, illTyped] at he

/-- a sequence written in the unknown-length form decodes to exactly the elements the
known-length form denotes -/
theorem rt_seq_unknown (env : Env) (henv : EnvWF env) (t : Ty) (items : Val) (st : EncSt) (b : Bytes) (st' : EncSt)
    (fuel : Nat) (he : encSeqUnknown env t items st = .ok (b, st')) (hu : items.utf8OK) (hst : StOK st)
    (hd : items.depth < fuel) (hl : items.chainLength < fuel)
    (s : AbsSrc) (tl : Bytes) (hw : s.WF) (hv : s.view = b ++ tl) (hs : s.strs = st) :
    runAbs (dec env fuel (.seq t)) s = .ok (.list (normItems env t items), s.after b.length st') := by
  unfold encSeqUnknown at he
  cases hf : encItemsFlagged env t items st with
  | ok r =>
    obtain ⟨b0, st0⟩ := r
    simp [hf] at he
    obtain ⟨rfl, rfl⟩ := he
    have hv' : s.view = zz (-1) ++ (b0 ++ tl) := by simpa using hv
    have hw1 := WF_after hw hv' s.strs
    have hv1 := view_after_append hv' s.strs
    have h := rt_flagged env henv t items st b0 st0 fuel fuel hf hu hst hd hl _ tl hw1 hv1 (by simpa using hs)
    simp only [dec, decTy, decSeq, bind_eq_dbind, pure_eq_ret]
    rw [runAbs_bind, readVarI32_bind (by unfold inI32; omega) _ hv']
    simp only [if_true]
    have h' : runAbs (decUnknown (decTy fuel (decNamed env fuel) t) fuel) (s.after (zz (-1)).length s.strs)
        = .ok ((normItems env t items).toList, (s.after (zz (-1)).length s.strs).after b0.length st0) := h.1
    rw [h']
    simp [runAbs, h.2.2]
  | err e => simp [hf] at he
  | panic w => simp [hf] at he
