import Desert.Lemmas.Header
/-!
# Chunk regions: what `AdtDeserializer::new` computes from a header it has just read
-/
set_option linter.unusedSimpArgs false
set_option linter.unusedVariables false

def regionsOf : Nat → List HStep → List Region
  | _, [] => []
  | p, .size n :: rest => Region.new p n.toNat :: regionsOf (p + n.toNat) rest
  | p, _ :: rest => Region.empty :: regionsOf p rest

def totalSize : List HStep → Nat
  | [] => 0
  | .size n :: rest => n.toNat + totalSize rest
  | _ :: rest => totalSize rest

def madeOptOf : List HStep → List (Nat × Nat)
  | [] => []
  | .madeOptional c p :: rest => (c, p) :: madeOptOf rest
  | _ :: rest => madeOptOf rest

def removedOf : List HStep → List Bytes
  | [] => []
  | .removed n :: rest => n :: removedOf rest
  | _ :: rest => removedOf rest

def sizesNonneg (hl : List HStep) : Prop := ∀ n, HStep.size n ∈ hl → 0 ≤ n

theorem regionsOf_length (p : Nat) (hl : List HStep) : (regionsOf p hl).length = hl.length := by
  induction hl generalizing p with
  | nil => simp [regionsOf]
  | cons h rest ih => cases h <;> simp [regionsOf, ih]

theorem i32AsUsize_nonneg {n : Int} (h : 0 ≤ n) : i32AsUsize n = n.toNat := by
  unfold i32AsUsize; simp; omega

/-- skipping every chunk advances the cursor by the total of the sizes and remembers one region
per header step -/
theorem run_skipChunks : ∀ (hl : List HStep) (s : AbsSrc), s.WF → sizesNonneg hl → totalSize hl ≤ s.view.length →
    runAbs (skipChunks hl) s = .ok ((regionsOf s.cur.pos hl, madeOptOf hl, removedOf hl), s.adv (totalSize hl)) := by
  intro hl
  induction hl with
  | nil => intro s hw hn ht; simp [skipChunks, runAbs, regionsOf, madeOptOf, removedOf, totalSize]
  | cons h rest ih =>
    intro s hw hn ht
    have hn' : sizesNonneg rest := fun n hm => hn n (by simp [hm])
    cases h with
    | size n =>
      have hnn : 0 ≤ n := hn n (by simp)
      simp only [totalSize] at ht
      simp only [skipChunks, bind_eq_dbind, pure_eq_ret, i32AsUsize_nonneg hnn]
      simp only [getPos, DProg.bind, runAbs]
      have hskip := run_skip hw (n := n.toNat) (by omega)
      rw [runAbs_bind]
      have : runAbs (skipN n.toNat) s = .ok ((), s.adv n.toNat) := hskip
      rw [this]
      simp only [Outcome.bindS_ok]
      rw [runAbs_bind]
      have hw1 : (s.adv n.toNat).WF := by
        unfold AbsSrc.WF AbsSrc.adv at *
        simp; rw [view_len] at ht; omega
      have ht1 : totalSize rest ≤ (s.adv n.toNat).view.length := by
        rw [view_adv]; simp; omega
      rw [ih (s.adv n.toNat) hw1 hn' ht1]
      simp [runAbs, regionsOf, madeOptOf, removedOf, totalSize, AbsSrc.adv, Nat.add_assoc]
    | madeOptional c p =>
      simp only [totalSize] at ht
      simp only [skipChunks, bind_eq_dbind, pure_eq_ret]
      rw [runAbs_bind, ih s hw hn' ht]
      simp [runAbs, regionsOf, madeOptOf, removedOf, totalSize]
    | removed nm =>
      simp only [totalSize] at ht
      simp only [skipChunks, bind_eq_dbind, pure_eq_ret]
      rw [runAbs_bind, ih s hw hn' ht]
      simp [runAbs, regionsOf, madeOptOf, removedOf, totalSize]
    | unknown =>
      simp only [totalSize] at ht
      simp only [skipChunks, bind_eq_dbind, pure_eq_ret]
      rw [runAbs_bind, ih s hw hn' ht]
      simp [runAbs, regionsOf, madeOptOf, removedOf, totalSize]

/-! ## the regions cover exactly the chunks the writer laid out -/

theorem chunksFrom_length_succ (fs : List EncField) (k n : Nat) :
    chunksFrom fs k (n + 1) = chunkBytes fs k ++ chunksFrom fs (k + 1) n := rfl

/-- a region list describes the chunks `k0, k0+1, …` of `fs` inside the window `W` -/
def RegionsDescribe (W : Bytes) (fs : List EncField) (k0 : Nat) (rs : List Region) : Prop :=
  ∀ i r, rs[i]? = some r →
    r.start ≤ r.end_ ∧ r.end_ ≤ W.length ∧ (W.drop r.start).take (r.end_ - r.start) = chunkBytes fs (k0 + i) ∧ r.pos = 0

theorem regionsOf_spec (fs : List EncField) : ∀ (hl : List HStep) (k0 p : Nat) (W t : Bytes),
    W.drop p = chunksFrom fs k0 hl.length ++ t →
    (∀ i h, hl[i]? = some h →
        h = sizeHStep (chunkBytes fs (k0 + i)).length ∨ ((∀ n, h ≠ .size n) ∧ chunkBytes fs (k0 + i) = [])) →
    totalSize hl = (chunksFrom fs k0 hl.length).length ∧ sizesNonneg hl ∧ RegionsDescribe W fs k0 (regionsOf p hl) := by
  intro hl
  induction hl with
  | nil => intro k0 p W t _ _; simp [totalSize, chunksFrom, sizesNonneg, RegionsDescribe, regionsOf]
  | cons h rest ih =>
    intro k0 p W t hW hcond
    have h0 := hcond 0 h (by simp)
    simp only [Nat.add_zero] at h0
    have hcond' : ∀ i h', rest[i]? = some h' →
        h' = sizeHStep (chunkBytes fs (k0 + 1 + i)).length ∨ ((∀ n, h' ≠ .size n) ∧ chunkBytes fs (k0 + 1 + i) = []) := by
      intro i h' hi
      have := hcond (i + 1) h' (by simpa using hi)
      have e : k0 + (i + 1) = k0 + 1 + i := by omega
      rw [e] at this; exact this
    simp only [List.length_cons, chunksFrom_length_succ] at hW ⊢
    -- the chunk of this step
    by_cases hlen : (chunkBytes fs k0).length = 0
    · -- empty chunk: whatever the step, the region is empty or of size 0
      have hnil : chunkBytes fs k0 = [] := List.length_eq_zero_iff.mp hlen
      have hns : ∀ n, h ≠ .size n := by
        rcases h0 with h0 | h0
        · rw [h0]; simp [sizeHStep, hlen]
        · exact h0.1
      have hW' : W.drop p = chunksFrom fs (k0 + 1) rest.length ++ t := by simpa [hnil] using hW
      obtain ⟨ht, hn, hr⟩ := ih (k0 + 1) p W t hW' hcond'
      have hreg : regionsOf p (h :: rest) = Region.empty :: regionsOf p rest := by
        cases h <;> simp [regionsOf] at hns ⊢
      have htot : totalSize (h :: rest) = totalSize rest := by
        cases h <;> simp [totalSize] at hns ⊢
      refine ⟨by rw [htot, ht, hnil]; simp, ?_, ?_⟩
      · intro n hm; simp at hm; rcases hm with hm | hm
        · exact absurd hm.symm (hns n)
        · exact hn n hm
      · intro i r hi
        rw [hreg] at hi
        cases i with
        | zero => simp at hi; subst hi; simp [Region.empty, hnil]
        | succ j =>
          have := hr j r (by simpa using hi)
          have e : k0 + (j + 1) = k0 + 1 + j := by omega
          rw [e]; exact this
    · -- non-empty chunk: the step must be its size
      have hsz : h = .size ((chunkBytes fs k0).length : Int) := by
        rcases h0 with h0 | h0
        · rw [h0]; simp [sizeHStep, hlen]
        · exact absurd (by rw [h0.2]; rfl) hlen
      subst hsz
      have hW' : W.drop (p + (chunkBytes fs k0).length) = chunksFrom fs (k0 + 1) rest.length ++ t := by
        rw [← List.drop_drop, hW]; simp
      obtain ⟨ht, hn, hr⟩ := ih (k0 + 1) (p + (chunkBytes fs k0).length) W t hW' hcond'
      refine ⟨by simp [totalSize, ht], ?_, ?_⟩
      · intro n hm; simp at hm; rcases hm with hm | hm
        · rw [hm]; omega
        · exact hn n hm
      · intro i r hi
        simp only [regionsOf, Int.toNat_natCast] at hi
        cases i with
        | zero =>
          simp at hi; subst hi
          have hWl : p + (chunkBytes fs k0).length ≤ W.length := by
            have := congrArg List.length hW
            simp at this; omega
          refine ⟨by simp [Region.new], by simpa [Region.new] using hWl, ?_, by simp [Region.new]⟩
          simp only [Region.new, Nat.add_sub_cancel_left, Nat.add_zero]
          rw [hW]; simp
        | succ j =>
          have := hr j r (by simpa using hi)
          have e : k0 + (j + 1) = k0 + 1 + j := by omega
          rw [e]; exact this

/-! ## facts about generations and chunk contents -/

theorem genOf_go_le (name : String) : ∀ (steps : List Step) (i acc : Nat), acc < i → genOf.go name steps i acc < i + steps.length := by
  intro steps
  induction steps with
  | nil => intro i acc h; simp [genOf.go]; omega
  | cons s rest ih =>
    intro i acc h
    cases s with
    | added n =>
      simp only [genOf.go, List.length_cons]
      split
      · have := ih (i + 1) i (by omega); omega
      · have := ih (i + 1) acc (by omega); omega
    | _ => simp only [genOf.go, List.length_cons]; have := ih (i + 1) acc (by omega); omega

theorem genOf_le (steps : List Step) (name : String) : genOf steps name ≤ steps.length := by
  have := genOf_go_le name steps 1 0 (by omega)
  unfold genOf; omega

/-- a non-zero generation is the index of a `FieldAdded` step -/
theorem genOf_go_added (name : String) : ∀ (steps : List Step) (i acc : Nat), acc < i →
    genOf.go name steps i acc = acc ∨ ∃ j m, steps[j]? = some (.added m) ∧ genOf.go name steps i acc = i + j := by
  intro steps
  induction steps with
  | nil => intro i acc _; left; simp [genOf.go]
  | cons s rest ih =>
    intro i acc h
    cases s with
    | added n =>
      simp only [genOf.go]
      split
      · rcases ih (i + 1) i (by omega) with h1 | ⟨j, m, hj, he⟩
        · right; exact ⟨0, n, by simp, by rw [h1]; simp⟩
        · right; exact ⟨j + 1, m, by simpa using hj, by rw [he]; omega⟩
      · rcases ih (i + 1) acc (by omega) with h1 | ⟨j, m, hj, he⟩
        · left; exact h1
        · right; exact ⟨j + 1, m, by simpa using hj, by rw [he]; omega⟩
    | madeOptional n =>
      simp only [genOf.go]
      rcases ih (i + 1) acc (by omega) with h1 | ⟨j, m, hj, he⟩
      · left; exact h1
      · right; exact ⟨j + 1, m, by simpa using hj, by rw [he]; omega⟩
    | removed n =>
      simp only [genOf.go]
      rcases ih (i + 1) acc (by omega) with h1 | ⟨j, m, hj, he⟩
      · left; exact h1
      · right; exact ⟨j + 1, m, by simpa using hj, by rw [he]; omega⟩
    | madeTransient n =>
      simp only [genOf.go]
      rcases ih (i + 1) acc (by omega) with h1 | ⟨j, m, hj, he⟩
      · left; exact h1
      · right; exact ⟨j + 1, m, by simpa using hj, by rw [he]; omega⟩

theorem genOf_added (steps : List Step) (name : String) (k : Nat) (hk : genOf steps name = k) (h0 : k ≠ 0) :
    ∃ m, steps[k - 1]? = some (.added m) := by
  unfold genOf at hk
  rcases genOf_go_added name steps 1 0 (by omega) with h1 | ⟨j, m, hj, he⟩
  · omega
  · refine ⟨m, ?_⟩
    have : k - 1 = j := by omega
    rw [this]; exact hj

theorem chunkBytes_append (a b : List EncField) (k : Nat) : chunkBytes (a ++ b) k = chunkBytes a k ++ chunkBytes b k := by
  simp [chunkBytes, List.filter_append, List.flatMap_append]

theorem chunkBytes_cons_eq (f : EncField) (l : List EncField) : chunkBytes (f :: l) f.chunk = f.bytes ++ chunkBytes l f.chunk := by
  simp [chunkBytes, List.filter_cons]

theorem chunkBytes_cons_ne (f : EncField) (l : List EncField) (k : Nat) (h : f.chunk ≠ k) : chunkBytes (f :: l) k = chunkBytes l k := by
  simp [chunkBytes, List.filter_cons, h]

theorem chunkBytes_nil_of_no_field (fs : List EncField) (k : Nat) (h : ∀ e ∈ fs, e.chunk ≠ k) : chunkBytes fs k = [] := by
  induction fs with
  | nil => simp [chunkBytes]
  | cons f rest ih =>
    rw [chunkBytes_cons_ne f rest k (h f (by simp))]
    exact ih (fun e he => h e (by simp [he]))

/-- the fields the writer produced carry the generation of their name -/
theorem encFields_chunks (env : Env) (steps : List Step) : ∀ (fields : List Field) (v : Val) (st : EncSt) (l : List EncField) (st' : EncSt),
    encFields env steps fields v st = .ok (l, st') → ∀ e ∈ l, e.chunk = genOf steps e.name := by
  intro fields
  induction fields with
  | nil => intro v st l st' h; cases v <;> simp [encFields, illTyped] at h; obtain ⟨rfl, _⟩ := h; simp
  | cons f fs ih =>
    intro v st l st' h
    cases v with
    | vcons x rest =>
      simp only [encFields] at h
      cases hr : f.role with
      | transient => simp only [hr] at h; exact ih rest st l st' h
      | plain =>
        simp only [hr] at h
        cases hx : enc env f.ty x st with
        | ok p =>
          obtain ⟨b, st1⟩ := p
          simp only [hx, Outcome.bind_ok] at h
          cases hq : encFields env steps fs rest st1 with
          | ok q =>
            obtain ⟨l2, st2⟩ := q
            simp [hq] at h
            obtain ⟨rfl, rfl⟩ := h
            intro e he
            simp at he
            rcases he with rfl | he
            · rfl
            · exact ih rest st1 l2 st2 hq e he
          | err e => simp [hq] at h
          | panic w => simp [hq] at h
        | err e => simp [hx] at h
        | panic w => simp [hx] at h
      | optional =>
        simp only [hr] at h
        cases hx : enc env f.ty x st with
        | ok p =>
          obtain ⟨b, st1⟩ := p
          simp only [hx, Outcome.bind_ok] at h
          cases hq : encFields env steps fs rest st1 with
          | ok q =>
            obtain ⟨l2, st2⟩ := q
            simp [hq] at h
            obtain ⟨rfl, rfl⟩ := h
            intro e he
            simp at he
            rcases he with rfl | he
            · rfl
            · exact ih rest st1 l2 st2 hq e he
          | err e => simp [hq] at h
          | panic w => simp [hq] at h
        | err e => simp [hx] at h
        | panic w => simp [hx] at h
    | _ => simp [encFields, illTyped] at h

/-- a chunk whose step is not `FieldAdded` holds no field -/
theorem chunk_empty_of_not_added (steps : List Step) (fs : List EncField) (hfs : ∀ e ∈ fs, e.chunk = genOf steps e.name)
    (k : Nat) (hk : k ≠ 0) (hna : ∀ m, steps[k - 1]? ≠ some (.added m)) : chunkBytes fs k = [] := by
  apply chunkBytes_nil_of_no_field
  intro e he heq
  obtain ⟨m, hm⟩ := genOf_added steps e.name k (by rw [← hfs e he]; exact heq) hk
  exact hna m hm
