import Desert.Lemmas.Header
/-!
# Chunk regions: what `AdtDeserializer::new` computes from a header it has just read
-/
set_option linter.unusedSimpArgs false
set_option linter.unusedVariables false

def regionsOf : Nat → List HStep → List Region
  | _, [] => []
  | p, .size n :: rest => Region.new p n.toNat :: regionsOf (p + n.toNat) rest
  | p, _ :: rest => Region.empty :: regionsOf p rest

def totalSize : List HStep → Nat
  | [] => 0
  | .size n :: rest => n.toNat + totalSize rest
  | _ :: rest => totalSize rest

def madeOptOf : List HStep → List (Nat × Nat)
  | [] => []
  | .madeOptional c p :: rest => (c, p) :: madeOptOf rest
  | _ :: rest => madeOptOf rest

def removedOf : List HStep → List Bytes
  | [] => []
  | .removed n :: rest => n :: removedOf rest
  | _ :: rest => removedOf rest

def sizesNonneg (hl : List HStep) : Prop := ∀ n, HStep.size n ∈ hl → 0 ≤ n

theorem regionsOf_length (p : Nat) (hl : List HStep) : (regionsOf p hl).length = hl.length := by
  induction hl generalizing p with
  | nil => simp [regionsOf]
  | cons h rest ih => cases h <;> simp [regionsOf, ih]

theorem i32AsUsize_nonneg {n : Int} (h : 0 ≤ n) : i32AsUsize n = n.toNat := by
  unfold i32AsUsize; simp; omega

/-- skipping every chunk advances the cursor by the total of the sizes and remembers one region
per header step -/
theorem run_skipChunks : ∀ (hl : List HStep) (s : AbsSrc), s.WF → sizesNonneg hl → totalSize hl ≤ s.view.length →
    runAbs (skipChunks hl) s = .ok ((regionsOf s.cur.pos hl, madeOptOf hl, removedOf hl), s.adv (totalSize hl)) := by
  intro hl
  induction hl with
  | nil => intro s hw hn ht; simp [skipChunks, runAbs, regionsOf, madeOptOf, removedOf, totalSize]
  | cons h rest ih =>
    intro s hw hn ht
    have hn' : sizesNonneg rest := fun n hm => hn n (by simp [hm])
    cases h with
    | size n =>
      have hnn : 0 ≤ n := hn n (by simp)
      simp only [totalSize] at ht
      simp only [skipChunks, bind_eq_dbind, pure_eq_ret, i32AsUsize_nonneg hnn]
      simp only [getPos, DProg.bind, runAbs]
      have hskip := run_skip hw (n := n.toNat) (by omega)
      rw [runAbs_bind]
      have : runAbs (skipN n.toNat) s = .ok ((), s.adv n.toNat) := hskip
      rw [this]
      simp only [Outcome.bindS_ok]
      rw [runAbs_bind]
      have hw1 : (s.adv n.toNat).WF := by
        unfold AbsSrc.WF AbsSrc.adv at *
        simp; rw [view_len] at ht; omega
      have ht1 : totalSize rest ≤ (s.adv n.toNat).view.length := by
        rw [view_adv]; simp; omega
      rw [ih (s.adv n.toNat) hw1 hn' ht1]
      simp [runAbs, regionsOf, madeOptOf, removedOf, totalSize, AbsSrc.adv, Nat.add_assoc]
    | madeOptional c p =>
      simp only [totalSize] at ht
      simp only [skipChunks, bind_eq_dbind, pure_eq_ret]
      rw [runAbs_bind, ih s hw hn' ht]
      simp [runAbs, regionsOf, madeOptOf, removedOf, totalSize]
    | removed nm =>
      simp only [totalSize] at ht
      simp only [skipChunks, bind_eq_dbind, pure_eq_ret]
      rw [runAbs_bind, ih s hw hn' ht]
      simp [runAbs, regionsOf, madeOptOf, removedOf, totalSize]
    | unknown =>
      simp only [totalSize] at ht
      simp only [skipChunks, bind_eq_dbind, pure_eq_ret]
      rw [runAbs_bind, ih s hw hn' ht]
      simp [runAbs, regionsOf, madeOptOf, removedOf, totalSize]
