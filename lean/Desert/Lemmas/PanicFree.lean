import Desert.Compress
import Desert.Lemmas.Run
/-!
# Programs without panic nodes never panic
-/
set_option linter.unusedSimpArgs false

theorem panicFree_run {α : Type} (p : DProg α) : PanicFree p → ∀ s w, runAbs p s ≠ .panic w := by
  induction p with
  | ret a => intro _ s w; simp [runAbs]
  | fail e => intro _ s w; simp [runAbs]
  | panic w => intro h; simp [PanicFree] at h
  | readU8 k ih =>
    intro h s w
    simp only [runAbs]
    split
    · exact ih _ (h _) _ w
    · simp
  | readBytes n k ih =>
    intro h s w
    simp only [runAbs]
    split
    · exact ih _ (h _) _ w
    · simp
  | skip n k ih =>
    intro h s w
    simp only [runAbs]
    split
    · exact ih _ h _ w
    · simp
  | pos k ih => intro h s w; simp only [runAbs]; exact ih _ (h _) _ w
  | push r k ih => intro h; simp [PanicFree] at h
  | pop k ih => intro h; simp [PanicFree] at h
  | strGet i k ih => intro h s w; simp only [runAbs]; exact ih _ (h _) _ w
  | strPut x k ih => intro h s w; simp only [runAbs]; exact ih _ h _ w

theorem panicFree_bind {α β : Type} (p : DProg α) (f : α → DProg β) :
    PanicFree p → (∀ a, PanicFree (f a)) → PanicFree (p.bind f) := by
  induction p with
  | ret a => intro _ hf; exact hf a
  | fail e => intro _ _; simp [DProg.bind, PanicFree]
  | panic w => intro h; simp [PanicFree] at h
  | readU8 k ih => intro h hf; simp only [DProg.bind, PanicFree]; intro b; exact ih b (h b) hf
  | readBytes n k ih => intro h hf; simp only [DProg.bind, PanicFree]; intro b; exact ih b (h b) hf
  | skip n k ih => intro h hf; simp only [DProg.bind, PanicFree]; exact ih () h hf
  | pos k ih => intro h hf; simp only [DProg.bind, PanicFree]; intro b; exact ih b (h b) hf
  | push r k ih => intro h; simp [PanicFree] at h
  | pop k ih => intro h; simp [PanicFree] at h
  | strGet i k ih => intro h hf; simp only [DProg.bind, PanicFree]; intro b; exact ih b (h b) hf
  | strPut x k ih => intro h hf; simp only [DProg.bind, PanicFree]; exact ih () h hf

theorem panicFree_readU8 : PanicFree readU8 := by simp [readU8, PanicFree]
theorem panicFree_readBytes (n : Nat) : PanicFree (readBytes n) := by simp [readBytes, PanicFree]

theorem panicFree_ite {α : Type} (c : Prop) [Decidable c] (p q : DProg α) (hp : PanicFree p) (hq : PanicFree q) :
    PanicFree (if c then p else q) := by split <;> assumption

theorem panicFree_readVarU32 : PanicFree readVarU32 := by
  unfold readVarU32
  simp only [bind_eq_dbind, pure_eq_ret]
  refine panicFree_bind _ _ panicFree_readU8 fun b0 => panicFree_ite _ _ _ (by simp [PanicFree]) ?_
  refine panicFree_bind _ _ panicFree_readU8 fun b1 => panicFree_ite _ _ _ (by simp [PanicFree]) ?_
  refine panicFree_bind _ _ panicFree_readU8 fun b2 => panicFree_ite _ _ _ (by simp [PanicFree]) ?_
  refine panicFree_bind _ _ panicFree_readU8 fun b3 => panicFree_ite _ _ _ (by simp [PanicFree]) ?_
  exact panicFree_bind _ _ panicFree_readU8 fun b4 => by simp [PanicFree]

theorem panicFree_readVarI32 : PanicFree readVarI32 := by
  unfold readVarI32
  simp only [bind_eq_dbind, pure_eq_ret]
  exact panicFree_bind _ _ panicFree_readVarU32 fun r => by simp [PanicFree]
