import Desert.Lemmas.Chunks
/-!
# Reading one field of a chunked record from its chunk region
-/
set_option linter.unusedSimpArgs false
set_option linter.unusedVariables false

/-- reader state while the fields `done` have been read, inside the window `W` that holds all chunks -/
structure LoopInv (W : Bytes) (fsAll done : List EncField) (n : Nat) (mo : List (Nat × Nat)) (rm : List Bytes)
    (rs : RecSt) : Prop where
  ver : rs.storedVersion = n
  mo_eq : rs.madeOpt = mo
  rm_eq : rs.removed = rm
  len_in : rs.inputs.length = n + 1
  len_ix : rs.nextIdx.length = n + 1
  regions : ∀ k r, rs.inputs[k]? = some r →
    r.start ≤ r.end_ ∧ r.end_ ≤ W.length ∧ (W.drop r.start).take (r.end_ - r.start) = chunkBytes fsAll k ∧
    r.pos = (chunkBytes done k).length
  idx : ∀ k i, rs.nextIdx[k]? = some i → i = (done.filter (·.chunk = k)).length

theorem optSinceOf_go_le (name : String) : ∀ (steps : List Step) (i acc : Nat), acc < i →
    optSinceOf.go name steps i acc < i + steps.length := by
  intro steps
  induction steps with
  | nil => intro i acc h; simp [optSinceOf.go]; omega
  | cons s rest ih =>
    intro i acc h
    cases s with
    | madeOptional n =>
      simp only [optSinceOf.go, List.length_cons]
      split
      · have := ih (i + 1) i (by omega); omega
      · have := ih (i + 1) acc (by omega); omega
    | _ => simp only [optSinceOf.go, List.length_cons]; have := ih (i + 1) acc (by omega); omega

theorem optSinceOf_le (steps : List Step) (name : String) : optSinceOf steps name ≤ steps.length := by
  have := optSinceOf_go_le name steps 1 0 (by omega)
  unfold optSinceOf; omega

theorem filter_chunk_append_single (done : List EncField) (ef : EncField) (k : Nat) :
    ((done ++ [ef]).filter (·.chunk = k)).length =
      (done.filter (·.chunk = k)).length + (if ef.chunk = k then 1 else 0) := by
  simp [List.filter_append, List.filter_cons]
  split <;> simp

/-- one non-transient field: pushed into its chunk region, decoded, popped; the invariant moves on -/
theorem readField_chunked (steps : List Step) (W : Bytes) (fsAll done : List EncField) (n : Nat)
    (mo : List (Nat × Nat)) (rm : List Bytes) (rs : RecSt) (fd : FieldDec) (hrole : fd.field.role ≠ .transient)
    (ef : EncField) (l' : List EncField) (hall : fsAll = done ++ ef :: l')
    (hef : ef.chunk = genOf steps fd.field.name) (hn : n = steps.length)
    (hinv : LoopInv W fsAll done n mo rm rs) (hnotrem : nameBytes fd.field.name ∉ rm)
    (hfree : fd.field.role = .plain → (ef.chunk, (done.filter (·.chunk = ef.chunk)).length % 256) ∉ mo)
    (xv : Val) (st st1 : EncSt)
    (hdec : ∀ (s' : AbsSrc) (t' : Bytes), s'.WF → s'.view = ef.bytes ++ t' → s'.strs = st →
        runAbs fd.decFull s' = .ok (xv, s'.after ef.bytes.length st1))
    (s : AbsSrc) (hW : s.cur.window = W) (hs : s.strs = st) :
    ∃ rs', runAbs (readField steps rs fd) s = .ok ((xv, rs'), { s with strs := st1 }) ∧
      LoopInv W fsAll (done ++ [ef]) n mo rm rs' := by
  obtain ⟨hver, hmo, hrm, hlin, hlix, hreg, hidx⟩ := hinv
  have hg : ef.chunk ≤ n := by rw [hef, hn]; exact genOf_le _ _
  -- the index counter and the region of this chunk
  have hix : ∃ i, rs.nextIdx[ef.chunk]? = some i := by
    have : ef.chunk < rs.nextIdx.length := by omega
    exact ⟨rs.nextIdx[ef.chunk], by simp [this]⟩
  obtain ⟨i, hi⟩ := hix
  have hicount := hidx ef.chunk i hi
  have hrx : ∃ r, rs.inputs[ef.chunk]? = some r := by
    have : ef.chunk < rs.inputs.length := by omega
    exact ⟨rs.inputs[ef.chunk], by simp [this]⟩
  obtain ⟨r, hr⟩ := hrx
  obtain ⟨hr1, hr2, hr3, hr4⟩ := hreg ef.chunk r hr
  have hne : rs.inputs.isEmpty = false := by
    cases hh : rs.inputs with
    | nil => rw [hh] at hlin; simp at hlin
    | cons a b => rfl
  -- the chunk's bytes split around this field
  have hsplit : chunkBytes fsAll ef.chunk = chunkBytes done ef.chunk ++ (ef.bytes ++ chunkBytes l' ef.chunk) := by
    rw [hall, chunkBytes_append, chunkBytes_cons_eq]
  have hlenr : r.end_ - r.start = (chunkBytes fsAll ef.chunk).length := by
    have := congrArg List.length hr3
    simp [List.length_take, List.length_drop] at this
    omega
  -- the pushed source state
  obtain ⟨sp, hsp⟩ : ∃ sp : AbsSrc, sp = { s with
      cur := { off := r.start, window := (s.cur.window.drop r.start).take (r.end_ - r.start), pos := r.pos },
      stack := s.cur :: s.stack } := ⟨_, rfl⟩
  have hspw : sp.cur.window = chunkBytes fsAll ef.chunk := by rw [hsp]; simp [hW, hr3]
  have hsppos : sp.cur.pos = (chunkBytes done ef.chunk).length := by rw [hsp]; simp [hr4]
  have hspv : sp.view = ef.bytes ++ chunkBytes l' ef.chunk := by
    unfold AbsSrc.view
    rw [hspw, hsppos, hsplit]
    simp
  have hspwf : sp.WF := by
    unfold AbsSrc.WF
    rw [hspw, hsppos, hsplit]
    simp
  have hguard : r.start ≤ r.end_ ∧ r.end_ ≤ s.cur.window.length ∧ r.start + r.pos ≤ r.end_ := by
    refine ⟨hr1, by rw [hW]; exact hr2, ?_⟩
    rw [hr4]
    have : (chunkBytes done ef.chunk).length ≤ (chunkBytes fsAll ef.chunk).length := by
      rw [hsplit]; simp
    omega
  have hbody := hdec sp (chunkBytes l' ef.chunk) hspwf hspv (by rw [hsp]; exact hs)
  -- the region handed back by the pop
  obtain ⟨r', hr'⟩ : ∃ r' : Region, r' = ⟨r.start, r.pos + ef.bytes.length, r.start + (chunkBytes fsAll ef.chunk).length⟩ := ⟨_, rfl⟩
  obtain ⟨rs1, hrs1⟩ : ∃ rs1 : RecSt, rs1 = { rs with nextIdx := rs.nextIdx.set ef.chunk (i + 1) } := ⟨_, rfl⟩
  obtain ⟨rs', hrs'⟩ : ∃ rs' : RecSt, rs' = { rs1 with inputs := rs1.inputs.set ef.chunk r' } := ⟨_, rfl⟩
  refine ⟨rs', ?_, ?_⟩
  · -- the run
    have hrun_in : runAbs (inChunk rs1 ef.chunk fd.decFull) s = .ok ((xv, rs'), { s with strs := st1 }) := by
      have hne1 : rs1.inputs.isEmpty = false := by rw [hrs1]; exact hne
      have hr1' : rs1.inputs[ef.chunk]? = some r := by rw [hrs1]; exact hr
      simp only [inChunk, hne1, Bool.false_eq_true, if_false, hr1', bind_eq_dbind, pure_eq_ret]
      simp only [pushR, popR, DProg.bind, runAbs, hguard, and_self, if_true]
      rw [runAbs_bind]
      rw [← hsp, hbody]
      simp only [Outcome.bindS_ok, runAbs]
      rw [hsp]
      simp only [AbsSrc.after]
      rw [hrs', hr']
      have hmin : min (chunkBytes fsAll ef.chunk).length (W.length - r.start) = (chunkBytes fsAll ef.chunk).length := by omega
      simp [hlenr, hW, hr3, hmin]
    unfold readField
    cases hrl : fd.field.role with
    | transient => exact absurd hrl hrole
    | plain =>
      have hnm : ¬ (nameBytes fd.field.name ∈ rs.removed) := by rw [hrm]; exact hnotrem
      simp only [hrl, hnm, if_false, ← hef, takeIdx, hi]
      have hv' : ¬ (rs.storedVersion < ef.chunk) := by rw [hver]; omega
      simp only [hv', if_false]
      have hnf : ¬ ((ef.chunk, i % 256) ∈ rs.madeOpt) := by
        rw [hmo, hicount]; exact hfree hrl
      simp only [hnf, if_false, ← hrs1]
      exact hrun_in
    | optional =>
      have hnm : ¬ (nameBytes fd.field.name ∈ rs.removed) := by rw [hrm]; exact hnotrem
      simp only [hrl, hnm, if_false, ← hef, takeIdx, hi]
      have hv' : ¬ (rs.storedVersion < ef.chunk) := by rw [hver]; omega
      simp only [hv', if_false]
      have hos : ¬ (rs.storedVersion < optSinceOf steps fd.field.name) := by
        rw [hver, hn]; have := optSinceOf_le steps fd.field.name; omega
      simp only [hos, if_false, ← hrs1]
      exact hrun_in
  · -- the invariant for `done ++ [ef]`
    have hin' : rs'.inputs = rs.inputs.set ef.chunk r' := by rw [hrs', hrs1]
    have hix' : rs'.nextIdx = rs.nextIdx.set ef.chunk (i + 1) := by rw [hrs', hrs1]
    refine ⟨by rw [hrs', hrs1]; exact hver, by rw [hrs', hrs1]; exact hmo, by rw [hrs', hrs1]; exact hrm,
      by rw [hin']; simp [hlin], by rw [hix']; simp [hlix], ?_, ?_⟩
    · intro k rr hk
      rw [hin'] at hk
      by_cases hkc : ef.chunk = k
      · subst hkc
        have hlt : ef.chunk < rs.inputs.length := by omega
        simp [List.getElem?_set, hlt] at hk
        subst hk
        rw [hr']
        refine ⟨by simp, ?_, ?_, ?_⟩
        · simp only; omega
        · simp only [Nat.add_sub_cancel_left]; rw [← hlenr]; exact hr3
        · simp only; rw [hr4, chunkBytes_append]; simp [chunkBytes, List.filter_cons]
      · rw [List.getElem?_set_ne hkc] at hk
        obtain ⟨a1, a2, a3, a4⟩ := hreg k rr hk
        refine ⟨a1, a2, a3, ?_⟩
        rw [a4, chunkBytes_append]
        simp [chunkBytes, List.filter_cons, hkc]
    · intro k j hk
      rw [hix'] at hk
      rw [filter_chunk_append_single]
      by_cases hkc : ef.chunk = k
      · subst hkc
        have hlt : ef.chunk < rs.nextIdx.length := by omega
        simp [List.getElem?_set, hlt] at hk
        simp [← hk, hicount]
      · rw [List.getElem?_set_ne hkc] at hk
        simp [hkc, hidx k j hk]
