import Desert.Bits
/-!
# Unrolling lemmas for the bit-exact var-int reader
-/
set_option linter.unusedSimpArgs false

namespace Bits

theorem read1 (b0 : BitVec 8) (s : List (BitVec 8)) (h : b0 &&& 0x80 = 0) :
    readVarU32 (b0 :: s) = some (up32 (b0 &&& 0x7F), s) := by
  simp only [readVarU32, h, if_true]

theorem read2 (b0 b1 : BitVec 8) (s : List (BitVec 8)) (h0 : ¬ b0 &&& 0x80 = 0) (h1 : b1 &&& 0x80 = 0) :
    readVarU32 (b0 :: b1 :: s) = some (up32 (b0 &&& 0x7F) ||| (up32 (b1 &&& 0x7F) <<< 7), s) := by
  simp only [readVarU32, h0, h1, if_true, if_false]

theorem read3 (b0 b1 b2 : BitVec 8) (s : List (BitVec 8)) (h0 : ¬ b0 &&& 0x80 = 0) (h1 : ¬ b1 &&& 0x80 = 0)
    (h2 : b2 &&& 0x80 = 0) :
    readVarU32 (b0 :: b1 :: b2 :: s) =
      some (up32 (b0 &&& 0x7F) ||| (up32 (b1 &&& 0x7F) <<< 7) ||| (up32 (b2 &&& 0x7F) <<< 14), s) := by
  simp only [readVarU32, h0, h1, h2, if_true, if_false]

theorem read4 (b0 b1 b2 b3 : BitVec 8) (s : List (BitVec 8)) (h0 : ¬ b0 &&& 0x80 = 0) (h1 : ¬ b1 &&& 0x80 = 0)
    (h2 : ¬ b2 &&& 0x80 = 0) (h3 : b3 &&& 0x80 = 0) :
    readVarU32 (b0 :: b1 :: b2 :: b3 :: s) =
      some (up32 (b0 &&& 0x7F) ||| (up32 (b1 &&& 0x7F) <<< 7) ||| (up32 (b2 &&& 0x7F) <<< 14)
        ||| (up32 (b3 &&& 0x7F) <<< 21), s) := by
  simp only [readVarU32, h0, h1, h2, h3, if_true, if_false]

theorem read5 (b0 b1 b2 b3 b4 : BitVec 8) (s : List (BitVec 8)) (h0 : ¬ b0 &&& 0x80 = 0) (h1 : ¬ b1 &&& 0x80 = 0)
    (h2 : ¬ b2 &&& 0x80 = 0) (h3 : ¬ b3 &&& 0x80 = 0) :
    readVarU32 (b0 :: b1 :: b2 :: b3 :: b4 :: s) =
      some (up32 (b0 &&& 0x7F) ||| (up32 (b1 &&& 0x7F) <<< 7) ||| (up32 (b2 &&& 0x7F) <<< 14)
        ||| (up32 (b3 &&& 0x7F) <<< 21) ||| (up32 (b4 &&& 0x7F) <<< 28), s) := by
  simp only [readVarU32, h0, h1, h2, h3, if_true, if_false]


end Bits
