import Desert.Decode
import Desert.Lemmas.Run
import Desert.Lemmas.Chunks
/-!
# Decoding is total: no decoder program of a well-formed environment reaches a panic, on any input

`Ok1 p s Q`: from the source state `s` the program `p` either fails with an error or returns a
value satisfying `Q`, leaving the current window, its offset and the region stack as they were and
the cursor inside the window, not before where it started (`Frame`). It never panics. The fuel
of `dec` (consumed by `named` and by unknown-length loops) is bounded by the bytes left in the
current window: every nested record reads its version byte first, and chunk regions lie inside
what is left after that byte.
-/
set_option linter.unusedSimpArgs false
set_option linter.unusedVariables false

def AbsSrc.rem (s : AbsSrc) : Nat := s.cur.window.length - s.cur.pos

structure Frame (s s' : AbsSrc) : Prop where
  win : s'.cur.window = s.cur.window
  off : s'.cur.off = s.cur.off
  stack : s'.stack = s.stack
  mono : s.cur.pos ≤ s'.cur.pos
  wf : s'.WF

theorem Frame.refl {s : AbsSrc} (h : s.WF) : Frame s s := ⟨rfl, rfl, rfl, Nat.le_refl _, h⟩

theorem Frame.trans {a b c : AbsSrc} (h1 : Frame a b) (h2 : Frame b c) : Frame a c :=
  ⟨h2.win.trans h1.win, h2.off.trans h1.off, h2.stack.trans h1.stack, Nat.le_trans h1.mono h2.mono, h2.wf⟩

theorem Frame.rem_le {a b : AbsSrc} (h : Frame a b) : b.rem ≤ a.rem := by
  unfold AbsSrc.rem; rw [h.win]; have := h.mono; omega

def Ok1 {α : Type} (p : DProg α) (s : AbsSrc) (Q : α → Prop) : Prop :=
  match runAbs p s with
  | .ok (a, s') => Frame s s' ∧ Q a
  | .err _ => True
  | .panic _ => False

theorem ok1_ret {α : Type} (a : α) (s : AbsSrc) (hw : s.WF) (Q : α → Prop) (h : Q a) : Ok1 (.ret a) s Q := by
  simp [Ok1, runAbs]; exact ⟨Frame.refl hw, h⟩

theorem ok1_pure {α : Type} (a : α) (s : AbsSrc) (hw : s.WF) (Q : α → Prop) (h : Q a) : Ok1 (pure a) s Q :=
  ok1_ret a s hw Q h

theorem ok1_fail {α : Type} (e : Err) (s : AbsSrc) (Q : α → Prop) : Ok1 (.fail e : DProg α) s Q := by
  simp [Ok1, runAbs]

theorem ok1_bind {α β : Type} (p : DProg α) (k : α → DProg β) (s : AbsSrc) (Q : α → Prop) (R : β → Prop)
    (hp : Ok1 p s Q) (hk : ∀ a s', Frame s s' → Q a → Ok1 (k a) s' R) : Ok1 (p >>= k) s R := by
  unfold Ok1 at hp ⊢
  rw [bind_eq_dbind, runAbs_bind]
  cases hr : runAbs p s with
  | ok r =>
    obtain ⟨a, s'⟩ := r
    rw [hr] at hp
    simp only [Outcome.bindS_ok]
    have := hk a s' hp.1 hp.2
    unfold Ok1 at this
    cases hr2 : runAbs (k a) s' with
    | ok r2 => obtain ⟨b, s2⟩ := r2; rw [hr2] at this; exact ⟨hp.1.trans this.1, this.2⟩
    | err e => trivial
    | panic w => rw [hr2] at this; exact this
  | err e => simp [Outcome.bindS]
  | panic w => rw [hr] at hp; exact hp.elim

theorem ok1_weaken {α : Type} {p : DProg α} {s : AbsSrc} {Q R : α → Prop} (h : Ok1 p s Q) (hqr : ∀ a, Q a → R a) :
    Ok1 p s R := by
  unfold Ok1 at h ⊢
  cases hr : runAbs p s with
  | ok r => obtain ⟨a, s'⟩ := r; rw [hr] at h; exact ⟨h.1, hqr a h.2⟩
  | err e => trivial
  | panic w => rw [hr] at h; exact h

theorem ok1_readU8 (s : AbsSrc) (hw : s.WF) : Ok1 readU8 s (fun _ => True) := by
  simp only [Ok1, readU8, runAbs]
  cases h : s.cur.window[s.cur.pos]? with
  | none => trivial
  | some b =>
    simp only [runAbs]
    have : s.cur.pos < s.cur.window.length := by
      rcases Nat.lt_or_ge s.cur.pos s.cur.window.length with h' | h'
      · exact h'
      · simp [List.getElem?_eq_none h'] at h
    exact ⟨⟨rfl, rfl, rfl, by simp, by simp [AbsSrc.WF]; omega⟩, trivial⟩

theorem ok1_readBytes (n : Nat) (s : AbsSrc) (hw : s.WF) : Ok1 (readBytes n) s (fun _ => True) := by
  simp only [Ok1, readBytes, runAbs]
  by_cases h : s.cur.pos + n ≤ s.cur.window.length
  · simp only [h, if_true]; exact ⟨⟨rfl, rfl, rfl, by simp, by simp [AbsSrc.WF]; omega⟩, trivial⟩
  · simp only [h, if_false]

theorem ok1_skip (n : Nat) (s : AbsSrc) (hw : s.WF) : Ok1 (skipN n) s (fun _ => True) := by
  simp only [Ok1, skipN, runAbs]
  by_cases h : s.cur.pos + n ≤ s.cur.window.length
  · simp only [h, if_true]; exact ⟨⟨rfl, rfl, rfl, by simp, by simp [AbsSrc.WF]; omega⟩, trivial⟩
  · simp only [h, if_false]

theorem ok1_strGet (id : Nat) (s : AbsSrc) (hw : s.WF) : Ok1 (strGet id) s (fun _ => True) := by
  simp only [Ok1, strGet, runAbs]; exact ⟨Frame.refl hw, trivial⟩

theorem ok1_strPut (x : Bytes) (s : AbsSrc) (hw : s.WF) : Ok1 (strPut x) s (fun _ => True) := by
  simp only [Ok1, strPut, runAbs]; exact ⟨⟨rfl, rfl, rfl, Nat.le_refl _, hw⟩, trivial⟩

theorem ok1_ite {α : Type} (c : Prop) [Decidable c] (a b : DProg α) (s : AbsSrc) (Q : α → Prop)
    (ha : c → Ok1 a s Q) (hb : ¬ c → Ok1 b s Q) : Ok1 (if c then a else b) s Q := by
  split
  · exact ha ‹_›
  · exact hb ‹_›

theorem ok1_readVarU32 (s : AbsSrc) (hw : s.WF) : Ok1 readVarU32 s (fun _ => True) := by
  unfold readVarU32
  refine ok1_bind _ _ _ _ _ (ok1_readU8 s hw) (fun b0 s0 f0 _ => ?_)
  refine ok1_ite _ _ _ _ _ (fun _ => ok1_pure _ _ f0.wf _ trivial) (fun _ => ?_)
  refine ok1_bind _ _ _ _ _ (ok1_readU8 s0 f0.wf) (fun b1 s1 f1 _ => ?_)
  refine ok1_ite _ _ _ _ _ (fun _ => ok1_pure _ _ f1.wf _ trivial) (fun _ => ?_)
  refine ok1_bind _ _ _ _ _ (ok1_readU8 s1 f1.wf) (fun b2 s2 f2 _ => ?_)
  refine ok1_ite _ _ _ _ _ (fun _ => ok1_pure _ _ f2.wf _ trivial) (fun _ => ?_)
  refine ok1_bind _ _ _ _ _ (ok1_readU8 s2 f2.wf) (fun b3 s3 f3 _ => ?_)
  refine ok1_ite _ _ _ _ _ (fun _ => ok1_pure _ _ f3.wf _ trivial) (fun _ => ?_)
  refine ok1_bind _ _ _ _ _ (ok1_readU8 s3 f3.wf) (fun b4 s4 f4 _ => ?_)
  exact ok1_pure _ _ f4.wf _ trivial

theorem ok1_readVarI32 (s : AbsSrc) (hw : s.WF) : Ok1 readVarI32 s (fun _ => True) := by
  unfold readVarI32
  exact ok1_bind _ _ _ _ _ (ok1_readVarU32 s hw) (fun r s0 f0 _ => ok1_pure _ _ f0.wf _ trivial)

/-- every leaf decoder is total; the deduplicated-string decoder returns a string -/
theorem ok1_decPrim (p : Prim) (s : AbsSrc) (hw : s.WF) :
    Ok1 (decPrim p) s (fun v => p = .dstring → ∃ b, v = .str b) := by
  cases p with
  | int w sg =>
    simp only [decPrim]
    exact ok1_bind _ _ _ _ _ (ok1_readBytes w s hw) (fun _ s0 f0 _ => ok1_pure _ _ f0.wf _ (by simp))
  | bool =>
    simp only [decPrim]
    exact ok1_bind _ _ _ _ _ (ok1_readU8 s hw) (fun _ s0 f0 _ => ok1_pure _ _ f0.wf _ (by simp))
  | unit => simp only [decPrim]; exact ok1_pure _ _ hw _ (by simp)
  | char =>
    simp only [decPrim]
    refine ok1_bind _ _ _ _ _ (ok1_readBytes 2 s hw) (fun _ s0 f0 _ => ?_)
    exact ok1_ite _ _ _ _ _ (fun _ => ok1_fail _ _ _) (fun _ => ok1_pure _ _ f0.wf _ (by simp))
  | string =>
    simp only [decPrim]
    refine ok1_bind _ _ _ _ _ (ok1_readVarI32 s hw) (fun _ s0 f0 _ => ?_)
    refine ok1_bind _ _ _ _ _ (ok1_readBytes _ s0 f0.wf) (fun bs s1 f1 _ => ?_)
    unfold decUtf8
    exact ok1_ite _ _ _ _ _ (fun _ => ok1_pure _ _ f1.wf _ (by simp)) (fun _ => ok1_fail _ _ _)
  | dstring =>
    simp only [decPrim]
    refine ok1_bind _ _ _ _ _ (ok1_readVarI32 s hw) (fun n s0 f0 _ => ?_)
    refine ok1_ite _ _ _ _ _ (fun _ => ?_) (fun _ => ?_)
    · refine ok1_ite _ _ _ _ _ (fun _ => ok1_fail _ _ _) (fun _ => ?_)
      refine ok1_bind _ _ _ _ _ (ok1_strGet _ s0 f0.wf) (fun so s1 f1 _ => ?_)
      cases so with
      | none => exact ok1_fail _ _ _
      | some x => exact ok1_pure _ _ f1.wf _ (fun _ => ⟨x, rfl⟩)
    · refine ok1_bind _ _ _ _ _ (ok1_readBytes _ s0 f0.wf) (fun bs s1 f1 _ => ?_)
      refine ok1_ite _ _ _ _ _ (fun _ => ?_) (fun _ => ok1_fail _ _ _)
      exact ok1_bind _ _ _ _ _ (ok1_strPut bs s1 f1.wf) (fun _ s2 f2 _ => ok1_pure _ _ f2.wf _ (fun _ => ⟨bs, rfl⟩))
  | duration =>
    simp only [decPrim]
    refine ok1_bind _ _ _ _ _ (ok1_readBytes 8 s hw) (fun _ s0 f0 _ => ?_)
    refine ok1_bind _ _ _ _ _ (ok1_readBytes 4 s0 f0.wf) (fun _ s1 f1 _ => ?_)
    exact ok1_ite _ _ _ _ _ (fun _ => ok1_pure _ _ f1.wf _ (by simp)) (fun _ => ok1_fail _ _ _)
  | bytes =>
    simp only [decPrim]
    refine ok1_bind _ _ _ _ _ (ok1_readVarU32 s hw) (fun _ s0 f0 _ => ?_)
    exact ok1_bind _ _ _ _ _ (ok1_readBytes _ s0 f0.wf) (fun _ s1 f1 _ => ok1_pure _ _ f1.wf _ (by simp))
  | barr n =>
    simp only [decPrim]
    refine ok1_bind _ _ _ _ _ (ok1_readVarU32 s hw) (fun _ s0 f0 _ => ?_)
    refine ok1_bind _ _ _ _ _ (ok1_readBytes _ s0 f0.wf) (fun _ s1 f1 _ => ?_)
    exact ok1_ite _ _ _ _ _ (fun _ => ok1_pure _ _ f1.wf _ (by simp)) (fun _ => ok1_fail _ _ _)
  | raw n =>
    simp only [decPrim]
    exact ok1_bind _ _ _ _ _ (ok1_readBytes n s hw) (fun _ s0 f0 _ => ok1_pure _ _ f0.wf _ (by simp))
  | weekday =>
    simp only [decPrim]
    refine ok1_bind _ _ _ _ _ (ok1_readU8 s hw) (fun _ s0 f0 _ => ?_)
    exact ok1_ite _ _ _ _ _ (fun _ => ok1_pure _ _ f0.wf _ (by simp)) (fun _ => ok1_fail _ _ _)
  | month =>
    simp only [decPrim]
    refine ok1_bind _ _ _ _ _ (ok1_readU8 s hw) (fun _ s0 f0 _ => ?_)
    exact ok1_ite _ _ _ _ _ (fun _ => ok1_pure _ _ f0.wf _ (by simp)) (fun _ => ok1_fail _ _ _)
  | fixedOffset =>
    simp only [decPrim]
    refine ok1_bind _ _ _ _ _ (ok1_readU8 s hw) (fun _ s0 f0 _ => ?_)
    refine ok1_ite _ _ _ _ _ (fun _ => ok1_fail _ _ _) (fun _ => ?_)
    refine ok1_bind _ _ _ _ _ (ok1_readVarI32 s0 f0.wf) (fun _ s1 f1 _ => ?_)
    exact ok1_ite _ _ _ _ _ (fun _ => ok1_pure _ _ f1.wf _ (by simp)) (fun _ => ok1_fail _ _ _)
  | varu32 =>
    simp only [decPrim]
    exact ok1_bind _ _ _ _ _ (ok1_readVarU32 s hw) (fun _ s0 f0 _ => ok1_pure _ _ f0.wf _ (by simp))

/-- a byte read makes progress: the continuation runs with strictly fewer bytes left -/
theorem ok1_readU8_bind {β : Type} (k : Byte → DProg β) (s : AbsSrc) (hw : s.WF) (R : β → Prop)
    (hk : ∀ b s', Frame s s' → s'.rem + 1 ≤ s.rem → Ok1 (k b) s' R) : Ok1 (readU8 >>= k) s R := by
  unfold Ok1
  rw [bind_eq_dbind, runAbs_bind]
  simp only [readU8, runAbs]
  cases h : s.cur.window[s.cur.pos]? with
  | none => simp [Outcome.bindS]
  | some b =>
    have hlt : s.cur.pos < s.cur.window.length := by
      rcases Nat.lt_or_ge s.cur.pos s.cur.window.length with h' | h'
      · exact h'
      · simp [List.getElem?_eq_none h'] at h
    simp only [runAbs, Outcome.bindS_ok]
    obtain ⟨s1, hs1⟩ : ∃ s1 : AbsSrc, s1 = { s with cur := { s.cur with pos := s.cur.pos + 1 } } := ⟨_, rfl⟩
    rw [← hs1]
    have hf : Frame s s1 := by rw [hs1]; exact ⟨rfl, rfl, rfl, by simp, by simp [AbsSrc.WF]; omega⟩
    have := hk b s1 hf (by rw [hs1]; simp [AbsSrc.rem]; omega)
    unfold Ok1 at this
    cases hr : runAbs (k b) s1 with
    | ok r => obtain ⟨x, s2⟩ := r; rw [hr] at this; exact ⟨hf.trans this.1, this.2⟩
    | err e => trivial
    | panic w => rw [hr] at this; exact this

section seqs
variable (d : DProg Val) (m : Nat) (hd : ∀ s : AbsSrc, s.WF → s.rem < m → Ok1 d s (fun _ => True))
include hd

theorem ok1_decKnown : ∀ (n : Nat) (s : AbsSrc), s.WF → s.rem < m → Ok1 (decKnown d n) s (fun _ => True) := by
  intro n
  induction n with
  | zero => intro s hw _; exact ok1_pure _ _ hw _ trivial
  | succ n ih =>
    intro s hw hm
    simp only [decKnown]
    refine ok1_bind _ _ _ _ _ (hd s hw hm) (fun v s0 f0 _ => ?_)
    refine ok1_bind _ _ _ _ _ (ih s0 f0.wf (by have := f0.rem_le; omega)) (fun vs s1 f1 _ => ?_)
    exact ok1_pure _ _ f1.wf _ trivial

theorem ok1_decUnknown : ∀ (fuel : Nat) (s : AbsSrc), s.WF → s.rem < fuel → s.rem < m →
    Ok1 (decUnknown d fuel) s (fun _ => True) := by
  intro fuel
  induction fuel with
  | zero => intro s _ h; omega
  | succ fuel ih =>
    intro s hw hf hm
    simp only [decUnknown]
    refine ok1_readU8_bind _ s hw _ (fun tag s0 f0 hlt => ?_)
    refine ok1_ite _ _ _ _ _ (fun _ => ok1_pure _ _ f0.wf _ trivial) (fun _ => ?_)
    refine ok1_ite _ _ _ _ _ (fun _ => ?_) (fun _ => ok1_fail _ _ _)
    refine ok1_bind _ _ _ _ _ (hd s0 f0.wf (by omega)) (fun v s1 f1 _ => ?_)
    have := f1.rem_le
    refine ok1_bind _ _ _ _ _ (ih s1 f1.wf (by omega) (by omega)) (fun vs s2 f2 _ => ?_)
    exact ok1_pure _ _ f2.wf _ trivial

theorem ok1_decSeq (fuel : Nat) (s : AbsSrc) (hw : s.WF) (hf : s.rem < fuel) (hm : s.rem < m) :
    Ok1 (decSeq fuel d) s (fun _ => True) := by
  unfold decSeq
  refine ok1_bind _ _ _ _ _ (ok1_readVarI32 s hw) (fun n s0 f0 _ => ?_)
  have := f0.rem_le
  refine ok1_ite _ _ _ _ _ (fun _ => ok1_decUnknown d m hd fuel s0 f0.wf (by omega) (by omega)) (fun _ => ?_)
  refine ok1_ite _ _ _ _ _ (fun _ => ok1_fail _ _ _) (fun _ => ?_)
  exact ok1_decKnown d m hd _ s0 f0.wf (by omega)

theorem ok1_decUnknownArr (L : Nat) : ∀ (fuel have_ : Nat) (s : AbsSrc), s.WF → s.rem < fuel → s.rem < m →
    Ok1 (decUnknownArr d L fuel have_) s (fun _ => True) := by
  intro fuel
  induction fuel with
  | zero => intro _ s _ h; omega
  | succ fuel ih =>
    intro have_ s hw hf hm
    simp only [decUnknownArr]
    refine ok1_readU8_bind _ s hw _ (fun tag s0 f0 hlt => ?_)
    refine ok1_ite _ _ _ _ _ (fun _ => ?_) (fun _ => ?_)
    · exact ok1_ite _ _ _ _ _ (fun _ => ok1_pure _ _ f0.wf _ trivial) (fun _ => ok1_fail _ _ _)
    refine ok1_ite _ _ _ _ _ (fun _ => ?_) (fun _ => ok1_fail _ _ _)
    refine ok1_bind _ _ _ _ _ (hd s0 f0.wf (by omega)) (fun v s1 f1 _ => ?_)
    have := f1.rem_le
    refine ok1_ite _ _ _ _ _ (fun _ => ok1_fail _ _ _) (fun _ => ?_)
    refine ok1_bind _ _ _ _ _ (ih _ s1 f1.wf (by omega) (by omega)) (fun vs s2 f2 _ => ?_)
    exact ok1_pure _ _ f2.wf _ trivial

theorem ok1_decArray (fuel L : Nat) (s : AbsSrc) (hw : s.WF) (hf : s.rem < fuel) (hm : s.rem < m) :
    Ok1 (decArray fuel d L) s (fun _ => True) := by
  unfold decArray
  refine ok1_bind _ _ _ _ _ (ok1_readVarI32 s hw) (fun n s0 f0 _ => ?_)
  have := f0.rem_le
  refine ok1_ite _ _ _ _ _ (fun _ => ok1_decUnknownArr d m hd L fuel 0 s0 f0.wf (by omega) (by omega)) (fun _ => ?_)
  refine ok1_ite _ _ _ _ _ (fun _ => ok1_fail _ _ _) (fun _ => ?_)
  refine ok1_ite _ _ _ _ _ (fun _ => ?_) (fun _ => ?_)
  · refine ok1_bind _ _ _ _ _ (ok1_decKnown d m hd _ s0 f0.wf (by omega)) (fun vs s1 f1 _ => ?_)
    exact ok1_ite _ _ _ _ _ (fun _ => ok1_pure _ _ f1.wf _ trivial) (fun _ => ok1_fail _ _ _)
  · exact ok1_bind _ _ _ _ _ (ok1_decKnown d m hd _ s0 f0.wf (by omega)) (fun vs s1 f1 _ => ok1_fail _ _ _)

end seqs

/-! ## Records -/

theorem ok1_getPos_bind {β : Type} (k : Nat → DProg β) (s : AbsSrc) (R : β → Prop)
    (hk : Ok1 (k s.cur.pos) s R) : Ok1 (getPos >>= k) s R := by
  unfold Ok1 at hk ⊢
  rw [bind_eq_dbind, runAbs_bind]
  simp only [getPos, runAbs, Outcome.bindS_ok]
  exact hk

theorem ok1_skip_bind {β : Type} (n : Nat) (k : Unit → DProg β) (s : AbsSrc) (hw : s.WF) (R : β → Prop)
    (hk : s.cur.pos + n ≤ s.cur.window.length →
      Ok1 (k ()) { s with cur := { s.cur with pos := s.cur.pos + n } } R) : Ok1 (skipN n >>= k) s R := by
  unfold Ok1
  rw [bind_eq_dbind, runAbs_bind]
  simp only [skipN, runAbs]
  by_cases h : s.cur.pos + n ≤ s.cur.window.length
  · simp only [h, if_true, runAbs, Outcome.bindS_ok]
    obtain ⟨s1, hs1⟩ : ∃ s1 : AbsSrc, s1 = { s with cur := { s.cur with pos := s.cur.pos + n } } := ⟨_, rfl⟩
    have hf : Frame s s1 := by rw [hs1]; exact ⟨rfl, rfl, rfl, by simp, by simp [AbsSrc.WF]; omega⟩
    have := hk h
    rw [← hs1] at this ⊢
    unfold Ok1 at this
    cases hr : runAbs (k ()) s1 with
    | ok r => obtain ⟨x, s2⟩ := r; rw [hr] at this; exact ⟨hf.trans this.1, this.2⟩
    | err e => trivial
    | panic w => rw [hr] at this; exact this
  · simp [h, Outcome.bindS]

theorem ok1_readHStep (s : AbsSrc) (hw : s.WF) : Ok1 readHStep s (fun _ => True) := by
  unfold readHStep
  refine ok1_bind _ _ _ _ _ (ok1_readVarI32 s hw) (fun code s0 f0 _ => ?_)
  refine ok1_ite _ _ _ _ _ (fun _ => ok1_pure _ _ f0.wf _ trivial) (fun _ => ?_)
  refine ok1_ite _ _ _ _ _ (fun _ => ?_) (fun _ => ?_)
  · refine ok1_bind _ _ _ _ _ (ok1_readU8 s0 f0.wf) (fun b s1 f1 _ => ?_)
    exact ok1_ite _ _ _ _ _ (fun _ => ok1_pure _ _ f1.wf _ trivial) (fun _ => ok1_pure _ _ f1.wf _ trivial)
  · refine ok1_ite _ _ _ _ _ (fun _ => ?_) (fun _ => ok1_pure _ _ f0.wf _ trivial)
    refine ok1_bind _ _ _ _ _ (ok1_decPrim .dstring s0 f0.wf) (fun v s1 f1 hv => ?_)
    obtain ⟨b, rfl⟩ := hv rfl
    exact ok1_pure _ _ f1.wf _ trivial

theorem ok1_readHSteps : ∀ (n : Nat) (s : AbsSrc), s.WF → Ok1 (readHSteps n) s (fun hs => hs.length = n) := by
  intro n
  induction n with
  | zero => intro s hw; exact ok1_pure _ _ hw _ rfl
  | succ n ih =>
    intro s hw
    simp only [readHSteps]
    refine ok1_bind _ _ _ _ _ (ok1_readHStep s hw) (fun h s0 f0 _ => ?_)
    refine ok1_bind _ _ _ _ _ (ih s0 f0.wf) (fun hs s1 f1 hl => ?_)
    exact ok1_pure _ _ f1.wf _ (by simp [hl])

/-- a region that the field reader may push: inside the window `W`, cursor inside, shorter than `m` -/
def RegionOK (W : Bytes) (m : Nat) (rg : Region) : Prop :=
  rg.start ≤ rg.end_ ∧ rg.end_ ≤ W.length ∧ rg.start + rg.pos ≤ rg.end_ ∧ rg.end_ - rg.start < m

theorem ok1_skipChunks : ∀ (hs : List HStep) (s : AbsSrc), s.WF →
    Ok1 (skipChunks hs) s (fun r => r.1.length = hs.length ∧ ∀ rg ∈ r.1, RegionOK s.cur.window (s.rem + 1) rg) := by
  intro hs
  induction hs with
  | nil => intro s hw; exact ok1_pure _ _ hw _ (by simp)
  | cons h rest ih =>
    intro s hw
    have hempty : RegionOK s.cur.window (s.rem + 1) Region.empty := by
      simp [RegionOK, Region.empty]
    have hcons : ∀ (s0 : AbsSrc), Frame s s0 → ∀ (r : List Region × List (Nat × Nat) × List Bytes),
        (r.1.length = rest.length ∧ ∀ rg ∈ r.1, RegionOK s0.cur.window (s0.rem + 1) rg) →
        ∀ rg ∈ r.1, RegionOK s.cur.window (s.rem + 1) rg := by
      intro s0 f0 r hr rg hrg
      obtain ⟨a, b, c, d⟩ := hr.2 rg hrg
      have := f0.rem_le
      exact ⟨a, by rw [← f0.win]; exact b, c, by omega⟩
    cases h with
    | size n =>
      simp only [skipChunks]
      refine ok1_getPos_bind _ s _ ?_
      refine ok1_skip_bind _ _ s hw _ (fun hle => ?_)
      obtain ⟨s1, hs1⟩ : ∃ s1 : AbsSrc, s1 = { s with cur := { s.cur with pos := s.cur.pos + i32AsUsize n } } := ⟨_, rfl⟩
      rw [← hs1]
      have hf : Frame s s1 := by rw [hs1]; exact ⟨rfl, rfl, rfl, by simp, by simp [AbsSrc.WF]; omega⟩
      refine ok1_bind _ _ _ _ _ (ih s1 hf.wf) (fun r s2 f2 hr => ?_)
      obtain ⟨rs, mo, rm⟩ := r
      refine ok1_pure _ _ f2.wf _ ⟨by simp [hr.1], ?_⟩
      intro rg hrg
      simp only [List.mem_cons] at hrg
      rcases hrg with rfl | hrg
      · have hwf := hw
        simp only [AbsSrc.WF] at hwf
        refine ⟨by simp [Region.new], by simp [Region.new]; omega, by simp [Region.new], ?_⟩
        simp [Region.new, AbsSrc.rem]; omega
      · exact hcons s1 hf (rs, mo, rm) hr rg hrg
    | madeOptional c p =>
      simp only [skipChunks]
      refine ok1_bind _ _ _ _ _ (ih s hw) (fun r s2 f2 hr => ?_)
      obtain ⟨rs, mo, rm⟩ := r
      refine ok1_pure _ _ f2.wf _ ⟨by simp [hr.1], ?_⟩
      intro rg hrg
      simp only [List.mem_cons] at hrg
      rcases hrg with rfl | hrg
      · exact hempty
      · exact hr.2 rg hrg
    | removed nm =>
      simp only [skipChunks]
      refine ok1_bind _ _ _ _ _ (ih s hw) (fun r s2 f2 hr => ?_)
      obtain ⟨rs, mo, rm⟩ := r
      refine ok1_pure _ _ f2.wf _ ⟨by simp [hr.1], ?_⟩
      intro rg hrg
      simp only [List.mem_cons] at hrg
      rcases hrg with rfl | hrg
      · exact hempty
      · exact hr.2 rg hrg
    | unknown =>
      simp only [skipChunks]
      refine ok1_bind _ _ _ _ _ (ih s hw) (fun r s2 f2 hr => ?_)
      obtain ⟨rs, mo, rm⟩ := r
      refine ok1_pure _ _ f2.wf _ ⟨by simp [hr.1], ?_⟩
      intro rg hrg
      simp only [List.mem_cons] at hrg
      rcases hrg with rfl | hrg
      · exact hempty
      · exact hr.2 rg hrg

/-- invariant of the record reader's state: `r` = reader's version, regions pushable -/
structure RsOK (W : Bytes) (m r : Nat) (rs : RecSt) : Prop where
  len_ix : rs.nextIdx.length = r + 1
  inputs : rs.inputs = [] ∨ rs.inputs.length = rs.storedVersion + 1
  regions : ∀ rg ∈ rs.inputs, RegionOK W m rg

theorem ok1_recNew (r stored : Nat) (s : AbsSrc) (hw : s.WF) :
    Ok1 (recNew r stored) s (fun rs => RsOK s.cur.window (s.rem + 1) r rs ∧ rs.storedVersion = stored) := by
  unfold recNew
  refine ok1_ite _ _ _ _ _ (fun h0 => ?_) (fun h0 => ?_)
  · refine ok1_pure _ _ hw _ ⟨⟨by simp, Or.inl rfl, by simp⟩, by simp [h0]⟩
  · refine ok1_bind _ _ _ _ _ (ok1_readHSteps (stored + 1) s hw) (fun hs s0 f0 hl => ?_)
    refine ok1_bind _ _ _ _ _ (ok1_skipChunks hs s0 f0.wf) (fun res s1 f1 hres => ?_)
    obtain ⟨rgs, mo, rm⟩ := res
    refine ok1_pure _ _ f1.wf _ ⟨⟨by simp, Or.inr (by simp [hres.1, hl]), ?_⟩, rfl⟩
    intro rg hrg
    obtain ⟨a, b, c, d⟩ := hres.2 rg hrg
    have := f0.rem_le
    exact ⟨a, by rw [← f0.win]; exact b, c, by omega⟩

theorem RsOK.mono {W : Bytes} {m m' r : Nat} {rs : RecSt} (h : RsOK W m r rs) (hm : m ≤ m') : RsOK W m' r rs :=
  ⟨h.len_ix, h.inputs, fun rg hrg => by
    obtain ⟨a, b, c, d⟩ := h.regions rg hrg; exact ⟨a, b, c, by omega⟩⟩

/-- a body run inside a chunk region (or straight on the stream of a headerless record) -/
theorem ok1_inChunk {α : Type} (W : Bytes) (m r : Nat) (rs : RecSt) (hrs : RsOK W m r rs) (chunk : Nat)
    (hc : rs.inputs = [] ∨ chunk < rs.inputs.length) (body : DProg α) (Q : α → Prop)
    (s : AbsSrc) (hw : s.WF) (hW : s.cur.window = W) (hm : s.rem < m)
    (hbody : ∀ s' : AbsSrc, s'.WF → s'.rem < m → Ok1 body s' Q) :
    Ok1 (inChunk rs chunk body) s (fun p => Q p.1 ∧ RsOK W m r p.2) := by
  unfold inChunk
  by_cases hemp : rs.inputs.isEmpty = true
  · simp only [hemp, if_true]
    exact ok1_bind _ _ _ _ _ (hbody s hw hm) (fun a s0 f0 ha => ok1_pure _ _ f0.wf _ ⟨ha, hrs⟩)
  · simp only [hemp, Bool.false_eq_true, if_false]
    have hne : rs.inputs ≠ [] := by intro h; simp [h] at hemp
    have hlt : chunk < rs.inputs.length := by rcases hc with h | h; exact absurd h hne; exact h
    have hget : rs.inputs[chunk]? = some rs.inputs[chunk] := by simp [hlt]
    obtain ⟨rg, hrg⟩ : ∃ rg, rg = rs.inputs[chunk] := ⟨_, rfl⟩
    rw [← hrg] at hget
    simp only [hget]
    have hmem : rg ∈ rs.inputs := by rw [hrg]; exact List.getElem_mem hlt
    obtain ⟨g1, g2, g3, g4⟩ := hrs.regions rg hmem
    -- run it by hand: the pushed state is not a frame of `s`
    unfold Ok1
    simp only [bind_eq_dbind, pure_eq_ret, pushR, popR, DProg.bind, runAbs]
    have hguard : rg.start ≤ rg.end_ ∧ rg.end_ ≤ s.cur.window.length ∧ rg.start + rg.pos ≤ rg.end_ :=
      ⟨g1, by rw [hW]; exact g2, g3⟩
    simp only [hguard, and_self, if_true]
    obtain ⟨sp, hsp⟩ : ∃ sp : AbsSrc, sp = { s with
        cur := { off := rg.start, window := (s.cur.window.drop rg.start).take (rg.end_ - rg.start), pos := rg.pos },
        stack := s.cur :: s.stack } := ⟨_, rfl⟩
    rw [← hsp]
    have hwl : sp.cur.window.length = rg.end_ - rg.start := by
      rw [hsp]; simp [List.length_take, List.length_drop, hW]; omega
    have hspwf : sp.WF := by
      unfold AbsSrc.WF; rw [hwl]; rw [hsp]; simp; omega
    have hsprem : sp.rem < m := by unfold AbsSrc.rem; rw [hwl]; omega
    have hb := hbody sp hspwf hsprem
    unfold Ok1 at hb
    rw [runAbs_bind]
    cases hr : runAbs body sp with
    | err e => simp [Outcome.bindS]
    | panic w => rw [hr] at hb; exact hb.elim
    | ok res =>
      obtain ⟨a, sp'⟩ := res
      rw [hr] at hb
      obtain ⟨fr, hq⟩ := hb
      simp only [Outcome.bindS_ok, runAbs]
      have hstk : sp'.stack = s.cur :: s.stack := by rw [fr.stack, hsp]
      simp only [hstk, runAbs]
      refine ⟨⟨rfl, rfl, rfl, Nat.le_refl _, hw⟩, hq, ?_⟩
      refine ⟨by simpa using hrs.len_ix, ?_, ?_⟩
      · rcases hrs.inputs with h | h
        · exact absurd h hne
        · right; simpa using h
      · intro rg' hrg'
        simp only at hrg'
        rcases List.mem_or_eq_of_mem_set hrg' with h | h
        · exact hrs.regions rg' h
        · subst h
          have hoff : sp'.cur.off = rg.start := by rw [fr.off, hsp]
          have hwl' : sp'.cur.window.length = rg.end_ - rg.start := by rw [fr.win, hwl]
          have hpos : sp'.cur.pos ≤ rg.end_ - rg.start := by have := fr.wf; unfold AbsSrc.WF at this; omega
          refine ⟨by simp [hoff], ?_, ?_, ?_⟩
          · simp only [hoff, hwl']; omega
          · simp only [hoff, hwl']; omega
          · simp only [hoff, hwl']; omega

/-- what the record reader needs from a field decoder -/
structure FdOK (m : Nat) (fd : FieldDec) : Prop where
  dflt : fd.field.role = .transient → fd.field.default.isSome
  full : ∀ s : AbsSrc, s.WF → s.rem < m → Ok1 fd.decFull s (fun _ => True)
  inner : fd.field.role = .optional → ∀ s : AbsSrc, s.WF → s.rem < m → Ok1 fd.decInner s (fun _ => True)

theorem takeIdx_ok (rs : RecSt) (chunk : Nat) (h : chunk < rs.nextIdx.length) :
    ∃ i, takeIdx rs chunk = .ok (i % 256, { rs with nextIdx := rs.nextIdx.set chunk (i + 1) }) := by
  refine ⟨rs.nextIdx[chunk], ?_⟩
  simp [takeIdx, h]

theorem readField_unfold (steps : List Step) (rs : RecSt) (fd : FieldDec) :
    readField steps rs fd =
    match fd.field.role with
    | .transient =>
      match fd.field.default with
      | some v => pure (v, rs)
      | none => .panic "transient field without default"
    | .plain =>
      if nameBytes fd.field.name ∈ rs.removed then .fail (.fieldRemoved fd.field.name) else
      match takeIdx rs (genOf steps fd.field.name) with
      | .panic w => .panic w
      | .err e => .fail e
      | .ok (pos, st) =>
        if st.storedVersion < genOf steps fd.field.name then
          match fd.field.default with
          | some v => pure (v, st)
          | none => .fail (.fieldMissing fd.field.name)
        else
          inChunk st (genOf steps fd.field.name)
            (if (genOf steps fd.field.name, pos) ∈ st.madeOpt then
              readU8 >>= fun b => if b != 0 then fd.decFull else .fail (.nonOptionalNone fd.field.name)
             else fd.decFull)
    | .optional =>
      if nameBytes fd.field.name ∈ rs.removed then pure (.none, rs) else
      match takeIdx rs (genOf steps fd.field.name) with
      | .panic w => .panic w
      | .err e => .fail e
      | .ok (_, st) =>
        if st.storedVersion < genOf steps fd.field.name then
          match fd.field.default with
          | some v => pure (v, st)
          | none => .fail .deserializationFailure
        else
          inChunk st (genOf steps fd.field.name)
            (if st.storedVersion < optSinceOf steps fd.field.name then fd.decInner >>= fun v => pure (.some v)
             else fd.decFull) := by
  rfl

theorem ok1_readField (W : Bytes) (m : Nat) (steps : List Step) (rs : RecSt) (hrs : RsOK W m steps.length rs)
    (fd : FieldDec) (hfd : FdOK m fd) (s : AbsSrc) (hw : s.WF) (hW : s.cur.window = W) (hm : s.rem < m) :
    Ok1 (readField steps rs fd) s (fun p => RsOK W m steps.length p.2) := by
  have hcl : genOf steps fd.field.name < rs.nextIdx.length := by
    rw [hrs.len_ix]; have := genOf_le steps fd.field.name; omega
  obtain ⟨i, hti⟩ := takeIdx_ok rs _ hcl
  obtain ⟨rs1, hrs1⟩ : ∃ rs1 : RecSt, rs1 = { rs with nextIdx := rs.nextIdx.set (genOf steps fd.field.name) (i + 1) } := ⟨_, rfl⟩
  rw [← hrs1] at hti
  have hrs1ok : RsOK W m steps.length rs1 := by
    rw [hrs1]; exact ⟨by simp [hrs.len_ix], hrs.inputs, hrs.regions⟩
  have hchunk : ¬ rs1.storedVersion < genOf steps fd.field.name →
      rs1.inputs = [] ∨ genOf steps fd.field.name < rs1.inputs.length := by
    intro h
    rcases hrs1ok.inputs with h1 | h1
    · exact Or.inl h1
    · right; omega
  rw [readField_unfold]
  cases hrole : fd.field.role with
  | transient =>
    simp only
    obtain ⟨dv, hdv⟩ := Option.isSome_iff_exists.mp (hfd.dflt hrole)
    simp only [hdv]
    exact ok1_pure _ _ hw _ hrs
  | plain =>
    simp only
    refine ok1_ite _ _ _ _ _ (fun _ => ok1_fail _ _ _) (fun _ => ?_)
    simp only [hti]
    refine ok1_ite _ _ _ _ _ (fun _ => ?_) (fun hnv => ?_)
    · cases fd.field.default with
      | none => exact ok1_fail _ _ _
      | some dv => exact ok1_pure _ _ hw _ hrs1ok
    · refine ok1_weaken (ok1_inChunk W m steps.length rs1 hrs1ok _ (hchunk hnv) _ (fun _ => True) s hw hW hm ?_) (fun p hp => hp.2)
      intro s' hw' hm'
      refine ok1_ite _ _ _ _ _ (fun _ => ?_) (fun _ => hfd.full s' hw' hm')
      refine ok1_readU8_bind _ s' hw' _ (fun b s0 f0 hlt => ?_)
      exact ok1_ite _ _ _ _ _ (fun _ => hfd.full s0 f0.wf (by omega)) (fun _ => ok1_fail _ _ _)
  | optional =>
    simp only
    refine ok1_ite _ _ _ _ _ (fun _ => ok1_pure _ _ hw _ hrs) (fun _ => ?_)
    simp only [hti]
    refine ok1_ite _ _ _ _ _ (fun _ => ?_) (fun hnv => ?_)
    · cases fd.field.default with
      | none => exact ok1_fail _ _ _
      | some dv => exact ok1_pure _ _ hw _ hrs1ok
    · refine ok1_weaken (ok1_inChunk W m steps.length rs1 hrs1ok _ (hchunk hnv) _ (fun _ => True) s hw hW hm ?_) (fun p hp => hp.2)
      intro s' hw' hm'
      refine ok1_ite _ _ _ _ _ (fun _ => ?_) (fun _ => hfd.full s' hw' hm')
      exact ok1_bind _ _ _ _ _ (hfd.inner hrole s' hw' hm') (fun v s0 f0 _ => ok1_pure _ _ f0.wf _ trivial)

theorem ok1_readFields (W : Bytes) (m : Nat) (steps : List Step) : ∀ (fds : List FieldDec) (rs : RecSt),
    RsOK W m steps.length rs → (∀ fd ∈ fds, FdOK m fd) → ∀ (s : AbsSrc), s.WF → s.cur.window = W → s.rem < m →
    Ok1 (readFields steps rs fds) s (fun _ => True) := by
  intro fds
  induction fds with
  | nil => intro rs _ _ s hw _ _; exact ok1_pure _ _ hw _ trivial
  | cons fd rest ih =>
    intro rs hrs hfds s hw hW hm
    simp only [readFields]
    refine ok1_bind _ _ _ _ _ (ok1_readField W m steps rs hrs fd (hfds fd (by simp)) s hw hW hm) (fun p s0 f0 hp => ?_)
    obtain ⟨v, rs'⟩ := p
    have := f0.rem_le
    refine ok1_bind _ _ _ _ _ (ih rs' hp (fun fd' h => hfds fd' (by simp [h])) s0 f0.wf (by rw [f0.win]; exact hW) (by omega))
      (fun vs s1 f1 _ => ?_)
    exact ok1_pure _ _ f1.wf _ trivial

/-- a whole record: the field decoders must be total wherever fewer than `m` bytes are left, and
at most `m` bytes are left where the record starts -/
theorem ok1_readRecord (m : Nat) (steps : List Step) (fds : List FieldDec) (hfds : ∀ fd ∈ fds, FdOK m fd)
    (s : AbsSrc) (hw : s.WF) (hm : s.rem ≤ m) :
    Ok1 (readRecord steps fds) s (fun v => ∃ x, v = .list x) := by
  unfold readRecord
  refine ok1_readU8_bind _ s hw _ (fun ver s0 f0 hlt => ?_)
  unfold readRecordBody
  refine ok1_bind _ _ _ _ _ (ok1_recNew steps.length ver.toNat s0 f0.wf) (fun rs s1 f1 hrs => ?_)
  have hrs' : RsOK s1.cur.window m steps.length rs := by
    rw [f1.win]; exact hrs.1.mono (by omega)
  have := f1.rem_le
  refine ok1_bind _ _ _ _ _ (ok1_readFields s1.cur.window m steps fds rs hrs' hfds s1 f1.wf rfl (by omega)) (fun vs s2 f2 _ => ?_)
  exact ok1_pure _ _ f2.wf _ ⟨_, rfl⟩

theorem ok1_readEnum (m : Nat) (decT : Ty → DProg Val) (name : String) (sorted : Bool) (ctors : List Ctor)
    (hctors : ∀ c ∈ ctors, ∀ fd ∈ declDecs decT c.decl, FdOK m fd)
    (s : AbsSrc) (hw : s.WF) (hm : s.rem ≤ m) :
    Ok1 (readEnum decT name sorted ctors) s (fun _ => True) := by
  unfold readEnum
  refine ok1_readU8_bind _ s hw _ (fun ver s0 f0 hlt => ?_)
  refine ok1_bind _ _ _ _ _ (ok1_recNew 0 ver.toNat s0 f0.wf) (fun rs s1 f1 hrs => ?_)
  have hrs' : RsOK s1.cur.window m 0 rs := by rw [f1.win]; exact hrs.1.mono (by omega)
  have h1 := f1.rem_le
  have hc0 : ∀ (W : Bytes) (rs' : RecSt), RsOK W m 0 rs' → rs'.storedVersion = rs.storedVersion ∨ True →
      rs'.inputs = [] ∨ 0 < rs'.inputs.length := by
    intro W rs' h _
    rcases h.inputs with h | h
    · exact Or.inl h
    · right; omega
  refine ok1_bind _ _ _ _ _ (ok1_inChunk s1.cur.window m 0 rs hrs' 0 (hc0 _ rs hrs' (Or.inr trivial)) readVarU32 (fun _ => True)
    s1 f1.wf rfl (by omega) (fun s' hw' _ => ok1_readVarU32 s' hw')) (fun p s2 f2 hp => ?_)
  obtain ⟨idx, rs2⟩ := p
  simp only
  cases hget : (wireCtors sorted ctors)[idx]? with
  | none => exact ok1_fail _ _ _
  | some dc =>
    obtain ⟨declIdx, c⟩ := dc
    simp only
    refine ok1_ite _ _ _ _ _ (fun _ => ok1_fail _ _ _) (fun _ => ?_)
    have hcm : c ∈ ctors := mem_wireCtors (List.mem_of_getElem? hget)
    have h2 := f2.rem_le
    have hrs2 : RsOK s2.cur.window m 0 rs2 := by rw [f2.win]; exact hp.2
    refine ok1_bind _ _ _ _ _ (ok1_inChunk s2.cur.window m 0 rs2 hrs2 0 (hc0 _ rs2 hrs2 (Or.inr trivial))
      (readRecord c.decl.steps (declDecs decT c.decl)) (fun v => ∃ x, v = .list x) s2 f2.wf rfl (by omega)
      (fun s' hw' hm' => ok1_readRecord m _ _ (hctors c hcm) s' hw' (by omega))) (fun p s3 f3 hp3 => ?_)
    obtain ⟨v, rs3⟩ := p
    obtain ⟨x, rfl⟩ := hp3.1
    exact ok1_pure _ _ f3.wf _ trivial
