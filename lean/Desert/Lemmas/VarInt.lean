import Desert.Lemmas.Run
/-!
# Var-int lemmas at the Nat level (codec layer)
-/
set_option linter.unusedSimpArgs false

theorem readU8_bind {α : Type} {s : AbsSrc} {b : Byte} {t : Bytes} (f : Byte → DProg α)
    (h : s.view = b :: t) : runAbs (readU8.bind f) s = runAbs (f b) (s.adv 1) := by
  rw [runAbs_bind, run_readU8 h]; rfl

theorem byteOf_toNat_lt {n : Nat} (h : n < 256) : (byteOf n).toNat = n := by
  simp [byteOf_toNat]; omega

theorem uv_length_pos (n : Nat) : 0 < (uv n).length := by
  unfold uv; repeat (split <;> try simp)

theorem uv_length_le (n : Nat) : (uv n).length ≤ 5 := by
  unfold uv; repeat (split <;> try simp)

/-- reading back a var-int written by `uv` (any continuation `t`) -/
theorem run_readVarU32 {n : Nat} (hn : n < 2 ^ 32) {s : AbsSrc} {t : Bytes}
    (h : s.view = uv n ++ t) : runAbs readVarU32 s = .ok (n, s.adv (uv n).length) := by
  unfold uv at h ⊢
  unfold readVarU32
  simp only [bind_eq_dbind, pure_eq_ret]
  split at h
  · -- 1 byte
    rename_i h1
    rw [readU8_bind _ (by simpa using h)]
    have e : (byteOf n).toNat = n := byteOf_toNat_lt (by omega)
    simp only [e, if_pos h1, runAbs]
    have : n % 128 = n := by omega
    simp [this, h1]
  · rename_i h1
    split at h
    · -- 2 bytes
      rename_i h2
      have c0 := view_cons (by simpa using h : s.view = byteOf (n % 128 + 128) :: (byteOf (n / 2 ^ 7) :: t))
      rw [readU8_bind _ (by simpa using h)]
      have e0 : (byteOf (n % 128 + 128)).toNat = n % 128 + 128 := byteOf_toNat_lt (by omega)
      have e1 : (byteOf (n / 2 ^ 7)).toNat = n / 2 ^ 7 := byteOf_toNat_lt (by omega)
      simp only [e0, show ¬ (n % 128 + 128 < 128) by omega, if_false]
      rw [readU8_bind _ c0.2]
      simp only [e1, show n / 2 ^ 7 < 128 by omega, if_true, runAbs, adv_adv]
      simp [h1, h2]
      omega
    · rename_i h2
      split at h
      · -- 3 bytes
        rename_i h3
        have hv : s.view = byteOf (n % 128 + 128) :: byteOf (n / 2 ^ 7 % 128 + 128) :: byteOf (n / 2 ^ 14) :: t := by
          simpa using h
        have c0 := view_cons hv
        have c1 := view_cons c0.2
        have e0 : (byteOf (n % 128 + 128)).toNat = n % 128 + 128 := byteOf_toNat_lt (by omega)
        have e1 : (byteOf (n / 2 ^ 7 % 128 + 128)).toNat = n / 2 ^ 7 % 128 + 128 := byteOf_toNat_lt (by omega)
        have e2 : (byteOf (n / 2 ^ 14)).toNat = n / 2 ^ 14 := byteOf_toNat_lt (by omega)
        rw [readU8_bind _ hv]
        simp only [e0, show ¬ (n % 128 + 128 < 128) by omega, if_false]
        rw [readU8_bind _ c0.2]
        simp only [e1, show ¬ (n / 2 ^ 7 % 128 + 128 < 128) by omega, if_false]
        rw [readU8_bind _ c1.2]
        simp only [e2, show n / 2 ^ 14 < 128 by omega, if_true, runAbs, adv_adv]
        simp [h1, h2, h3]
        omega
      · rename_i h3
        split at h
        · -- 4 bytes
          rename_i h4
          have hv : s.view = byteOf (n % 128 + 128) :: byteOf (n / 2 ^ 7 % 128 + 128) ::
              byteOf (n / 2 ^ 14 % 128 + 128) :: byteOf (n / 2 ^ 21) :: t := by simpa using h
          have c0 := view_cons hv
          have c1 := view_cons c0.2
          have c2 := view_cons c1.2
          have e0 : (byteOf (n % 128 + 128)).toNat = n % 128 + 128 := byteOf_toNat_lt (by omega)
          have e1 : (byteOf (n / 2 ^ 7 % 128 + 128)).toNat = n / 2 ^ 7 % 128 + 128 := byteOf_toNat_lt (by omega)
          have e2 : (byteOf (n / 2 ^ 14 % 128 + 128)).toNat = n / 2 ^ 14 % 128 + 128 := byteOf_toNat_lt (by omega)
          have e3 : (byteOf (n / 2 ^ 21)).toNat = n / 2 ^ 21 := byteOf_toNat_lt (by omega)
          rw [readU8_bind _ hv]
          simp only [e0, show ¬ (n % 128 + 128 < 128) by omega, if_false]
          rw [readU8_bind _ c0.2]
          simp only [e1, show ¬ (n / 2 ^ 7 % 128 + 128 < 128) by omega, if_false]
          rw [readU8_bind _ c1.2]
          simp only [e2, show ¬ (n / 2 ^ 14 % 128 + 128 < 128) by omega, if_false]
          rw [readU8_bind _ c2.2]
          simp only [e3, show n / 2 ^ 21 < 128 by omega, if_true, runAbs, adv_adv]
          simp [h1, h2, h3, h4]
          omega
        · -- 5 bytes
          rename_i h4
          have hv : s.view = byteOf (n % 128 + 128) :: byteOf (n / 2 ^ 7 % 128 + 128) ::
              byteOf (n / 2 ^ 14 % 128 + 128) :: byteOf (n / 2 ^ 21 % 128 + 128) :: byteOf (n / 2 ^ 28) :: t := by
            simpa using h
          have c0 := view_cons hv
          have c1 := view_cons c0.2
          have c2 := view_cons c1.2
          have c3 := view_cons c2.2
          have e0 : (byteOf (n % 128 + 128)).toNat = n % 128 + 128 := byteOf_toNat_lt (by omega)
          have e1 : (byteOf (n / 2 ^ 7 % 128 + 128)).toNat = n / 2 ^ 7 % 128 + 128 := byteOf_toNat_lt (by omega)
          have e2 : (byteOf (n / 2 ^ 14 % 128 + 128)).toNat = n / 2 ^ 14 % 128 + 128 := byteOf_toNat_lt (by omega)
          have e3 : (byteOf (n / 2 ^ 21 % 128 + 128)).toNat = n / 2 ^ 21 % 128 + 128 := byteOf_toNat_lt (by omega)
          have e4 : (byteOf (n / 2 ^ 28)).toNat = n / 2 ^ 28 := byteOf_toNat_lt (by omega)
          rw [readU8_bind _ hv]
          simp only [e0, show ¬ (n % 128 + 128 < 128) by omega, if_false]
          rw [readU8_bind _ c0.2]
          simp only [e1, show ¬ (n / 2 ^ 7 % 128 + 128 < 128) by omega, if_false]
          rw [readU8_bind _ c1.2]
          simp only [e2, show ¬ (n / 2 ^ 14 % 128 + 128 < 128) by omega, if_false]
          rw [readU8_bind _ c2.2]
          simp only [e3, show ¬ (n / 2 ^ 21 % 128 + 128 < 128) by omega, if_false]
          rw [readU8_bind _ c3.2]
          simp only [e4, runAbs, adv_adv]
          simp [h1, h2, h3, h4]
          omega

theorem run_readVarI32 {i : Int} (hi : inI32 i) {s : AbsSrc} {t : Bytes}
    (h : s.view = zz i ++ t) : runAbs readVarI32 s = .ok (i, s.adv (zz i).length) := by
  unfold readVarI32 zz at *
  simp only [bind_eq_dbind, pure_eq_ret]
  rw [runAbs_bind, run_readVarU32 (zigzag_lt i hi) h]
  simp [runAbs, unzigzag_zigzag]
