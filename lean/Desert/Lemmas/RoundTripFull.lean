import Desert.Lemmas.RecordFull
import Desert.Lemmas.EnumLemmas
/-!
# Round trip of every type expression over well-formed declarations, headerless or evolved

The induction of `RoundTrip.lean` with a fifth statement (`SChunk`: the field loop of a chunked
record) and the record-level step `rt_record`; environments may now contain declarations with
evolution steps, as long as each passes the decidable check `declWFb`.
(The case text for the non-record constructors is the one of `rt_all`, with the induction
hypotheses re-indexed.)
-/
set_option linter.unusedSimpArgs false
set_option linter.unusedVariables false

/-- every declaration of the environment passes the decidable well-formedness check -/
structure EnvWF (env : Env) : Prop where
  rec_ : ∀ id d, env.find id = some (.record d) → declWFb d = true
  enum_ : ∀ id n srt cs, env.find id = some (.enum n srt cs) → cs.length < 2 ^ 32 ∧ ∀ c ∈ cs, declWFb c.decl = true

theorem schunk_vacuous (env : Env) (v : Val) (hv : (∀ x r, v ≠ .vcons x r) ∧ v ≠ .vnil) : SChunk env v := by
  intro steps fields st l st' fuel rs W fsAll done mo rm he
  exact absurd he (encFields_illTyped_of env steps fields v st l st' hv)

theorem rt_full (env : Env) (henv : EnvWF env) : ∀ v, RT env v ∧ SChunk env v := by
  intro v
  induction v with
  | unit => exact ⟨⟨senc_leaf env _ (enc_leaf_prim env _ (by simp)), chain_vacuous env _ (by simp)⟩, schunk_vacuous env _ (by simp)⟩
  | bool b => exact ⟨⟨senc_leaf env _ (enc_leaf_prim env _ (by simp)), chain_vacuous env _ (by simp)⟩, schunk_vacuous env _ (by simp)⟩
  | int n => exact ⟨⟨senc_leaf env _ (enc_leaf_prim env _ (by simp)), chain_vacuous env _ (by simp)⟩, schunk_vacuous env _ (by simp)⟩
  | str bs => exact ⟨⟨senc_leaf env _ (enc_leaf_prim env _ (by simp)), chain_vacuous env _ (by simp)⟩, schunk_vacuous env _ (by simp)⟩
  | bytes bs => exact ⟨⟨senc_leaf env _ (enc_leaf_prim env _ (by simp)), chain_vacuous env _ (by simp)⟩, schunk_vacuous env _ (by simp)⟩
  | dur a c => exact ⟨⟨senc_leaf env _ (enc_leaf_prim env _ (by simp)), chain_vacuous env _ (by simp)⟩, schunk_vacuous env _ (by simp)⟩
  | none =>
    refine ⟨⟨?_, chain_vacuous env _ (by simp)⟩, schunk_vacuous env _ (by simp)⟩
    intro ty st b st' fuel he hu hst hd s t hw hv hs
    cases ty with
    | option ti =>
      simp [enc] at he
      obtain ⟨rfl, rfl⟩ := he
      rw [dec_option, readU8_bind' _ (by simpa using hv)]
      simp [runAbs, normalize, hs, hst]
    | prim p => exact absurd (by simpa [enc] using he) (encPrim_not_chain p _ st b st' (by simp))
    | named id => have := enc_named_shape env id _ st b st' he; simp at this
    | _ => simp [enc, illTyped] at he
  | some x ih =>
    refine ⟨⟨?_, chain_vacuous env _ (by simp)⟩, schunk_vacuous env _ (by simp)⟩
    intro ty st b st' fuel he hu hst hd s t hw hv hs
    cases ty with
    | option ti =>
      simp only [enc] at he
      cases hx : enc env ti x st with
      | ok r =>
        obtain ⟨b0, st0⟩ := r
        simp [hx] at he
        obtain ⟨rfl, rfl⟩ := he
        rw [dec_option, readU8_bind' _ (by simpa using hv)]
        simp only [show ¬ ((1 : Byte) = 0) by decide, if_false, if_true]
        have := rt_tagged env x ih.1.1 1 ti st b0 st0 fuel hx (by simpa [Val.utf8OK] using hu) hst
          (by simpa [Val.depth] using hd) s t hw hv hs Val.some
        simpa [normalize] using this
      | err e => simp [hx] at he
      | panic w => simp [hx] at he
    | prim p => exact absurd (by simpa [enc] using he) (encPrim_not_chain p _ st b st' (by simp))
    | named id => have := enc_named_shape env id _ st b st' he; simp at this
    | _ => simp [enc, illTyped] at he
  | ok x ih =>
    refine ⟨⟨?_, chain_vacuous env _ (by simp)⟩, schunk_vacuous env _ (by simp)⟩
    intro ty st b st' fuel he hu hst hd s t hw hv hs
    cases ty with
    | result ta te =>
      simp only [enc] at he
      cases hx : enc env ta x st with
      | ok r =>
        obtain ⟨b0, st0⟩ := r
        simp [hx] at he
        obtain ⟨rfl, rfl⟩ := he
        rw [dec_result, readU8_bind' _ (by simpa using hv)]
        simp only [show ¬ ((1 : Byte) = 0) by decide, if_false, if_true]
        have := rt_tagged env x ih.1.1 1 ta st b0 st0 fuel hx (by simpa [Val.utf8OK] using hu) hst
          (by simpa [Val.depth] using hd) s t hw hv hs Val.ok
        simpa [normalize] using this
      | err e => simp [hx] at he
      | panic w => simp [hx] at he
    | prim p => exact absurd (by simpa [enc] using he) (encPrim_not_chain p _ st b st' (by simp))
    | named id => have := enc_named_shape env id _ st b st' he; simp at this
    | _ => simp [enc, illTyped] at he
  | error x ih =>
    refine ⟨⟨?_, chain_vacuous env _ (by simp)⟩, schunk_vacuous env _ (by simp)⟩
    intro ty st b st' fuel he hu hst hd s t hw hv hs
    cases ty with
    | result ta te =>
      simp only [enc] at he
      cases hx : enc env te x st with
      | ok r =>
        obtain ⟨b0, st0⟩ := r
        simp [hx] at he
        obtain ⟨rfl, rfl⟩ := he
        rw [dec_result, readU8_bind' _ (by simpa using hv)]
        simp only [if_true]
        have := rt_tagged env x ih.1.1 0 te st b0 st0 fuel hx (by simpa [Val.utf8OK] using hu) hst
          (by simpa [Val.depth] using hd) s t hw hv hs Val.error
        simpa [normalize] using this
      | err e => simp [hx] at he
      | panic w => simp [hx] at he
    | prim p => exact absurd (by simpa [enc] using he) (encPrim_not_chain p _ st b st' (by simp))
    | named id => have := enc_named_shape env id _ st b st' he; simp at this
    | _ => simp [enc, illTyped] at he
  | vnil =>
    refine ⟨⟨?_, ?_, ?_, ?_⟩, ?_⟩
    · intro ty st b st' fuel he
      cases ty with
      | prim p => exact absurd (by simpa [enc] using he) (encPrim_not_chain p _ st b st' (by simp))
      | named id => have := enc_named_shape env id _ st b st' he; simp at this
      | _ => simp [enc, illTyped] at he
    · intro ty st b st' fuel he hu hst hd s t hw hv hs
      simp [encItems] at he
      obtain ⟨rfl, rfl⟩ := he
      subst hs
      simp [Val.chainLength, decKnown, runAbs, normItems, Val.toList, Val.ofList, hst, after_zero_self]
    · intro fs i st b st' fuel rs he hu hst hd hrs s t hw hv hs
      cases fs <;> simp [encTupleFields, illTyped] at he
      obtain ⟨rfl, rfl⟩ := he
      subst hs
      simp [tupleDecs, readFields, runAbs, normTuple, Val.toList, Val.ofList, hst, after_zero_self]
    · intro fields st l st' fuel rs he hu hst hd hrs hf s t hw hv hs
      cases fields <;> simp [encFields, illTyped] at he
      obtain ⟨rfl, rfl⟩ := he
      subst hs
      simp [readFields, runAbs, normFields, Val.toList, Val.ofList, hst, after_zero_self]
    · -- chunked field loop, no fields left
      intro steps fields st l st' fuel rs W fsAll done mo rm he hu hst hd hall hinv hfok hnr hpf s hW hs
      cases fields <;> simp [encFields, illTyped] at he
      obtain ⟨rfl, rfl⟩ := he
      subst hs
      simp [readFields, runAbs, normFields, Val.toList, Val.ofList, hst]
  | vcons x r ihx ihr =>
    refine ⟨⟨?_, ?_, ?_, ?_⟩, ?_⟩
    · intro ty st b st' fuel he
      cases ty with
      | prim p => exact absurd (by simpa [enc] using he) (encPrim_not_chain p _ st b st' (by simp))
      | named id => have := enc_named_shape env id _ st b st' he; simp at this
      | _ => simp [enc, illTyped] at he
    · -- items
      intro ty st b st' fuel he hu hst hd s t hw hv hs
      simp only [encItems] at he
      cases hx : enc env ty x st with
      | ok r1 =>
        obtain ⟨b1, st1⟩ := r1
        simp only [hx, Outcome.bind_ok] at he
        cases hr : encItems env ty r st1 with
        | ok r2 =>
          obtain ⟨b2, st2⟩ := r2
          simp [hr] at he
          obtain ⟨rfl, rfl⟩ := he
          simp only [Val.utf8OK] at hu
          simp only [Val.depth] at hd
          have h1 := ihx.1.1 ty st b1 st1 fuel hx hu.1 hst (by omega) s (b2 ++ t) hw (by simpa using hv) hs
          have hw1 := WF_after hw (b := b1) (t := b2 ++ t) (by simpa using hv) st1
          have hv1 : (s.after b1.length st1).view = b2 ++ t := view_after_append (by simpa using hv) st1
          have h2 := ihr.1.2.1 ty st1 b2 st2 fuel hr hu.2 h1.2 (by omega) (s.after b1.length st1) t hw1 hv1 (by simp)
          simp only [Val.chainLength, decKnown, bind_eq_dbind, pure_eq_ret]
          rw [runAbs_bind, h1.1]
          simp only [Outcome.bindS_ok]
          rw [runAbs_bind, h2.1]
          simp [runAbs, normItems, Val.toList, Val.ofList, h2.2.1, h2.2.2]
        | err e => simp [hr] at he
        | panic w => simp [hr] at he
      | err e => simp [hx] at he
      | panic w => simp [hx] at he
    · -- tuple components
      intro fs i st b st' fuel rs he hu hst hd hrs s t hw hv hs
      cases fs with
      | fcons a rest =>
        simp only [encTupleFields] at he
        cases hx : enc env a x st with
        | ok r1 =>
          obtain ⟨b1, st1⟩ := r1
          simp only [hx, Outcome.bind_ok] at he
          cases hr : encTupleFields env rest r st1 with
          | ok r2 =>
            obtain ⟨b2, st2⟩ := r2
            simp [hr] at he
            obtain ⟨rfl, rfl⟩ := he
            simp only [Val.utf8OK] at hu
            simp only [Val.depth] at hd
            have h1 := ihx.1.1 a st b1 st1 fuel hx hu.1 hst (by omega) s (b2 ++ t) hw (by simpa using hv) hs
            have hw1 := WF_after hw (b := b1) (t := b2 ++ t) (by simpa using hv) st1
            have hv1 : (s.after b1.length st1).view = b2 ++ t := view_after_append (by simpa using hv) st1
            obtain ⟨rs', hrs', hrf⟩ := readField_v0 hrs
              { field := tupleField i a, decFull := decTy fuel (decNamed env fuel) a, decInner := .panic "not optional" }
              (by simp [tupleField])
            have h2 := ihr.1.2.2.1 rest (i + 1) st1 b2 st2 fuel rs' hr hu.2 h1.2 (by omega) hrs'
              (s.after b1.length st1) t hw1 hv1 (by simp)
            simp only [tupleDecs, readFields, bind_eq_dbind, pure_eq_ret]
            rw [hrf]
            rw [runAbs_bind, runAbs_bind]
            have h1' : runAbs (decTy fuel (decNamed env fuel) a) s = .ok (normalize env a x, s.after b1.length st1) := h1.1
            rw [h1']
            simp only [Outcome.bindS_ok, runAbs]
            rw [runAbs_bind, h2.1]
            simp [runAbs, normTuple, Val.toList, Val.ofList, h2.2.1, h2.2.2]
          | err e => simp [hr] at he
          | panic w => simp [hr] at he
        | err e => simp [hx] at he
        | panic w => simp [hx] at he
      | _ => simp [encTupleFields, illTyped] at he
    · -- record fields
      intro fields st l st' fuel rs he hu hst hd hrs hf s t hw hv hs
      cases fields with
      | nil => simp [encFields, illTyped] at he
      | cons f fs =>
        simp only [Val.utf8OK] at hu
        simp only [Val.depth] at hd
        have hf' : FieldsOK fs := fun g hg => hf g (by simp [hg])
        simp only [encFields] at he
        cases hrole : f.role with
        | transient =>
          simp only [hrole] at he
          have hdef := hf f (by simp) hrole
          obtain ⟨d, hd'⟩ := Option.isSome_iff_exists.mp hdef
          have h2 := ihr.1.2.2.2 fs st l st' fuel rs he hu.2 hst (by omega) hrs hf' s t hw hv hs
          simp only [List.map_cons, readFields, bind_eq_dbind, pure_eq_ret]
          rw [readField_v0_transient (mkFieldDec (dec env fuel) f) (by simpa [mkFieldDec] using hrole) d
            (by simpa [mkFieldDec] using hd')]
          simp only [DProg.bind]
          rw [runAbs_bind, h2.1]
          simp [runAbs, normFields, hrole, hd', Val.toList, Val.ofList, h2.2.1, h2.2.2]
        | plain =>
          simp only [hrole] at he
          cases hx : enc env f.ty x st with
          | ok r1 =>
            obtain ⟨b1, st1⟩ := r1
            simp only [hx, Outcome.bind_ok] at he
            cases hr : encFields env [] fs r st1 with
            | ok r2 =>
              obtain ⟨l2, st2⟩ := r2
              simp [hr] at he
              obtain ⟨rfl, rfl⟩ := he
              have hv0 : s.view = b1 ++ (l2.flatMap (·.bytes) ++ t) := by simpa using hv
              have h1 := ihx.1.1 f.ty st b1 st1 fuel hx hu.1 hst (by omega) s _ hw hv0 hs
              have hw1 := WF_after hw hv0 st1
              have hv1 : (s.after b1.length st1).view = l2.flatMap (·.bytes) ++ t := view_after_append hv0 st1
              obtain ⟨rs', hrs', hrf⟩ := readField_v0 hrs (mkFieldDec (dec env fuel) f) (by simp [mkFieldDec, hrole])
              have h2 := ihr.1.2.2.2 fs st1 l2 st2 fuel rs' hr hu.2 h1.2 (by omega) hrs' hf'
                (s.after b1.length st1) t hw1 hv1 (by simp)
              simp only [List.map_cons, readFields, bind_eq_dbind, pure_eq_ret]
              rw [hrf, runAbs_bind, runAbs_bind]
              have h1' : runAbs (mkFieldDec (dec env fuel) f).decFull s = .ok (normalize env f.ty x, s.after b1.length st1) := h1.1
              rw [h1']
              simp only [Outcome.bindS_ok, runAbs]
              rw [runAbs_bind, h2.1]
              simp [runAbs, normFields, hrole, Val.toList, Val.ofList, h2.2.1, h2.2.2, Nat.add_assoc]
            | err e => simp [hr] at he
            | panic w => simp [hr] at he
          | err e => simp [hx] at he
          | panic w => simp [hx] at he
        | optional =>
          simp only [hrole] at he
          cases hx : enc env f.ty x st with
          | ok r1 =>
            obtain ⟨b1, st1⟩ := r1
            simp only [hx, Outcome.bind_ok] at he
            cases hr : encFields env [] fs r st1 with
            | ok r2 =>
              obtain ⟨l2, st2⟩ := r2
              simp [hr] at he
              obtain ⟨rfl, rfl⟩ := he
              have hv0 : s.view = b1 ++ (l2.flatMap (·.bytes) ++ t) := by simpa using hv
              have h1 := ihx.1.1 f.ty st b1 st1 fuel hx hu.1 hst (by omega) s _ hw hv0 hs
              have hw1 := WF_after hw hv0 st1
              have hv1 : (s.after b1.length st1).view = l2.flatMap (·.bytes) ++ t := view_after_append hv0 st1
              obtain ⟨rs', hrs', hrf⟩ := readField_v0 hrs (mkFieldDec (dec env fuel) f) (by simp [mkFieldDec, hrole])
              have h2 := ihr.1.2.2.2 fs st1 l2 st2 fuel rs' hr hu.2 h1.2 (by omega) hrs' hf'
                (s.after b1.length st1) t hw1 hv1 (by simp)
              simp only [List.map_cons, readFields, bind_eq_dbind, pure_eq_ret]
              rw [hrf, runAbs_bind, runAbs_bind]
              have h1' : runAbs (mkFieldDec (dec env fuel) f).decFull s = .ok (normalize env f.ty x, s.after b1.length st1) := h1.1
              rw [h1']
              simp only [Outcome.bindS_ok, runAbs]
              rw [runAbs_bind, h2.1]
              simp [runAbs, normFields, hrole, Val.toList, Val.ofList, h2.2.1, h2.2.2, Nat.add_assoc]
            | err e => simp [hr] at he
            | panic w => simp [hr] at he
          | err e => simp [hx] at he
          | panic w => simp [hx] at he
    · -- chunked field loop
      intro steps fields st l st' fuel rs W fsAll done mo rm he hu hst hd hall hinv hfok hnr hpf s hW hs
      cases fields with
      | nil => simp [encFields, illTyped] at he
      | cons f fs =>
        simp only [Val.utf8OK] at hu
        simp only [Val.depth] at hd
        have hfok' : FieldsOK fs := fun g hg => hfok g (by simp [hg])
        have hnr' : ∀ g ∈ fs, g.role ≠ .transient → nameBytes g.name ∉ rm := fun g hg => hnr g (by simp [hg])
        simp only [encFields] at he
        cases hrole : f.role with
        | transient =>
          simp only [hrole] at he
          have hdef := hfok f (by simp) hrole
          obtain ⟨dv, hdv⟩ := Option.isSome_iff_exists.mp hdef
          have hpf' : plainFreeB steps mo (done.map (·.chunk)) fs = true := by
            simpa [plainFreeB, hrole] using hpf
          have h2 := ihr.2 steps fs st l st' fuel rs W fsAll done mo rm he hu.2 hst (by omega) hall hinv hfok' hnr' hpf' s hW hs
          simp only [List.map_cons, readFields, bind_eq_dbind, pure_eq_ret]
          rw [readField_transient steps rs (mkFieldDec (dec env fuel) f) (by simpa [mkFieldDec] using hrole) dv
            (by simpa [mkFieldDec] using hdv)]
          simp only [DProg.bind]
          rw [runAbs_bind, h2.1]
          simp [runAbs, normFields, hrole, hdv, Val.toList, Val.ofList, h2.2.1, h2.2.2]
        | plain =>
          simp only [hrole] at he
          cases hx : enc env f.ty x st with
          | ok r1 =>
            obtain ⟨b1, st1⟩ := r1
            simp only [hx, Outcome.bind_ok] at he
            cases hr : encFields env steps fs r st1 with
            | ok r2 =>
              obtain ⟨l2, st2⟩ := r2
              simp [hr] at he
              obtain ⟨rfl, rfl⟩ := he
              obtain ⟨ef, hef⟩ : ∃ ef : EncField, ef = ⟨f.name, genOf steps f.name, b1⟩ := ⟨_, rfl⟩
              have hpfb : plainFreeB steps mo (done.map (·.chunk)) (f :: fs) = true := hpf
              simp only [plainFreeB, hrole, Bool.and_eq_true, Bool.not_eq_true', decide_eq_false_iff_not] at hpfb
              have hfree : (mkFieldDec (dec env fuel) f).field.role = .plain →
                  (ef.chunk, (done.filter (·.chunk = ef.chunk)).length % 256) ∉ mo := by
                intro _; rw [hef]; simp only; rw [← filter_map_chunk]; exact hpfb.1
              have hdec : ∀ (s' : AbsSrc) (t' : Bytes), s'.WF → s'.view = ef.bytes ++ t' → s'.strs = st →
                  runAbs (mkFieldDec (dec env fuel) f).decFull s' = .ok (normalize env f.ty x, s'.after ef.bytes.length st1) := by
                intro s' t' hw' hv' hs'
                rw [hef] at hv' ⊢
                exact (ihx.1.1 f.ty st b1 st1 fuel hx hu.1 hst (by omega) s' t' hw' hv' hs').1
              have hst1 : StOK st1 :=
                (ihx.1.1 f.ty st b1 st1 fuel hx hu.1 hst (by omega) ⟨⟨0, b1, 0⟩, [], st⟩ [] (by simp [AbsSrc.WF])
                  (by simp [AbsSrc.view]) rfl).2
              obtain ⟨rs', hrun, hinv'⟩ := readField_chunked steps W fsAll done steps.length mo rm rs
                (mkFieldDec (dec env fuel) f) (by simp [mkFieldDec, hrole]) ef l2 (by rw [hall, hef]) (by rw [hef]; simp [mkFieldDec])
                rfl hinv (hnr f (by simp) (by simp [hrole])) hfree (normalize env f.ty x) st st1 hdec s hW hs
              have hpf2 : plainFreeB steps mo ((done ++ [ef]).map (·.chunk)) fs = true := by
                rw [hef]; simpa using hpfb.2
              have h2 := ihr.2 steps fs st1 l2 st2 fuel rs' W fsAll (done ++ [ef]) mo rm hr hu.2 hst1 (by omega)
                (by rw [hall, hef]; simp) hinv' hfok' hnr' hpf2 { s with strs := st1 } hW rfl
              simp only [List.map_cons, readFields, bind_eq_dbind, pure_eq_ret]
              rw [runAbs_bind, hrun]
              simp only [Outcome.bindS_ok]
              rw [runAbs_bind, h2.1]
              simp [runAbs, normFields, hrole, Val.toList, Val.ofList, h2.2.1, h2.2.2]
            | err e => simp [hr] at he
            | panic w => simp [hr] at he
          | err e => simp [hx] at he
          | panic w => simp [hx] at he
        | optional =>
          simp only [hrole] at he
          cases hx : enc env f.ty x st with
          | ok r1 =>
            obtain ⟨b1, st1⟩ := r1
            simp only [hx, Outcome.bind_ok] at he
            cases hr : encFields env steps fs r st1 with
            | ok r2 =>
              obtain ⟨l2, st2⟩ := r2
              simp [hr] at he
              obtain ⟨rfl, rfl⟩ := he
              obtain ⟨ef, hef⟩ : ∃ ef : EncField, ef = ⟨f.name, genOf steps f.name, b1⟩ := ⟨_, rfl⟩
              have hpfb : plainFreeB steps mo (done.map (·.chunk)) (f :: fs) = true := hpf
              simp only [plainFreeB, hrole] at hpfb
              have hfree : (mkFieldDec (dec env fuel) f).field.role = .plain →
                  (ef.chunk, (done.filter (·.chunk = ef.chunk)).length % 256) ∉ mo := by
                intro hh; simp [mkFieldDec, hrole] at hh
              have hdec : ∀ (s' : AbsSrc) (t' : Bytes), s'.WF → s'.view = ef.bytes ++ t' → s'.strs = st →
                  runAbs (mkFieldDec (dec env fuel) f).decFull s' = .ok (normalize env f.ty x, s'.after ef.bytes.length st1) := by
                intro s' t' hw' hv' hs'
                rw [hef] at hv' ⊢
                exact (ihx.1.1 f.ty st b1 st1 fuel hx hu.1 hst (by omega) s' t' hw' hv' hs').1
              have hst1 : StOK st1 :=
                (ihx.1.1 f.ty st b1 st1 fuel hx hu.1 hst (by omega) ⟨⟨0, b1, 0⟩, [], st⟩ [] (by simp [AbsSrc.WF])
                  (by simp [AbsSrc.view]) rfl).2
              obtain ⟨rs', hrun, hinv'⟩ := readField_chunked steps W fsAll done steps.length mo rm rs
                (mkFieldDec (dec env fuel) f) (by simp [mkFieldDec, hrole]) ef l2 (by rw [hall, hef]) (by rw [hef]; simp [mkFieldDec])
                rfl hinv (hnr f (by simp) (by simp [hrole])) hfree (normalize env f.ty x) st st1 hdec s hW hs
              have hpf2 : plainFreeB steps mo ((done ++ [ef]).map (·.chunk)) fs = true := by
                rw [hef]; simpa using hpfb
              have h2 := ihr.2 steps fs st1 l2 st2 fuel rs' W fsAll (done ++ [ef]) mo rm hr hu.2 hst1 (by omega)
                (by rw [hall, hef]; simp) hinv' hfok' hnr' hpf2 { s with strs := st1 } hW rfl
              simp only [List.map_cons, readFields, bind_eq_dbind, pure_eq_ret]
              rw [runAbs_bind, hrun]
              simp only [Outcome.bindS_ok]
              rw [runAbs_bind, h2.1]
              simp [runAbs, normFields, hrole, Val.toList, Val.ofList, h2.2.1, h2.2.2]
            | err e => simp [hr] at he
            | panic w => simp [hr] at he
          | err e => simp [hx] at he
          | panic w => simp [hx] at he
  | list items ih =>
    refine ⟨⟨?_, chain_vacuous env _ (by simp)⟩, schunk_vacuous env _ (by simp)⟩
    intro ty st b st' fuel he hu hst hd s t hw hv hs
    simp only [Val.utf8OK] at hu
    simp only [Val.depth] at hd
    cases ty with
    | prim p => exact absurd (by simpa [enc] using he) (encPrim_not_chain p _ st b st' (by simp))
    | seq ti =>
      simp only [enc] at he
      split at he
      · rename_i hlen
        cases hi : encItems env ti items st with
        | ok r0 =>
          obtain ⟨b0, st0⟩ := r0
          simp [hi] at he
          obtain ⟨rfl, rfl⟩ := he
          have hv' : s.view = zz (items.chainLength : Int) ++ (b0 ++ t) := by simpa using hv
          have hw1 := WF_after hw hv' s.strs
          have hv1 := view_after_append hv' s.strs
          have h2 := ih.1.2.1 ti st b0 st0 fuel hi hu hst (by omega) _ t hw1 hv1 (by simpa using hs)
          simp only [dec, decTy, decSeq, bind_eq_dbind, pure_eq_ret]
          rw [runAbs_bind, readVarI32_bind (inI32_natLen hlen) _ hv']
          have hn1 : ¬ ((items.chainLength : Int) = -1) := by omega
          have hn2 : ¬ ((items.chainLength : Int) < 0) := by omega
          simp only [hn1, hn2, if_false, Int.toNat_natCast]
          have h2' : runAbs (decKnown (decTy fuel (decNamed env fuel) ti) items.chainLength)
              (s.after (zz (items.chainLength : Int)).length s.strs)
              = .ok ((normItems env ti items).toList, (s.after (zz (items.chainLength : Int)).length s.strs).after b0.length st0) := h2.1
          rw [h2']
          simp [runAbs, normalize, h2.2.1, h2.2.2]
        | err e => simp [hi] at he
        | panic w => simp [hi] at he
      · simp at he
    | array n ti =>
      simp only [enc] at he
      split at he
      · simp [illTyped] at he
      · rename_i hn
        have hn' : items.chainLength = n := by simpa using hn
        split at he
        · rename_i hlen
          cases hi : encItems env ti items st with
          | ok r0 =>
            obtain ⟨b0, st0⟩ := r0
            simp [hi] at he
            obtain ⟨rfl, rfl⟩ := he
            have hv' : s.view = zz (n : Int) ++ (b0 ++ t) := by simpa using hv
            have hw1 := WF_after hw hv' s.strs
            have hv1 := view_after_append hv' s.strs
            have h2 := ih.1.2.1 ti st b0 st0 fuel hi hu hst (by omega) _ t hw1 hv1 (by simpa using hs)
            simp only [dec, decTy, decArray, bind_eq_dbind, pure_eq_ret]
            rw [runAbs_bind, readVarI32_bind (inI32_natLen hlen) _ hv']
            have hn1 : ¬ ((n : Int) = -1) := by omega
            have hn2 : ¬ ((n : Int) < 0) := by omega
            simp only [hn1, hn2, if_false, Int.toNat_natCast, Nat.le_refl, if_true]
            rw [runAbs_bind]
            have h2' : runAbs (decKnown (decTy fuel (decNamed env fuel) ti) n)
                (s.after (zz (n : Int)).length s.strs)
                = .ok ((normItems env ti items).toList, (s.after (zz (n : Int)).length s.strs).after b0.length st0) := by
              have := h2.1; rw [hn'] at this; exact this
            rw [h2']
            simp [runAbs, normalize, h2.2.1, h2.2.2]
          | err e => simp [hi] at he
          | panic w => simp [hi] at he
        · simp at he
    | tuple fs =>
      simp only [enc] at he
      cases hi : encTupleFields env fs items st with
      | ok r0 =>
        obtain ⟨b0, st0⟩ := r0
        simp [hi] at he
        obtain ⟨rfl, rfl⟩ := he
        have hv' : s.view = 0 :: (b0 ++ t) := by simpa using hv
        have hv1 : (s.after 1 s.strs).view = b0 ++ t := by
          have := (view_cons hv').2; simpa [adv_eq_after] using this
        have hw1 : (s.after 1 s.strs).WF := by
          have := AbsSrc.WF_adv1 hw hv'; simpa [adv_eq_after] using this
        have h2 := ih.1.2.2.1 fs 0 st b0 st0 fuel _ hi hu hst (by omega) V0St_new _ t hw1 hv1 (by simpa using hs)
        simp only [dec, decTy, readRecord, readRecordBody, bind_eq_dbind, pure_eq_ret]
        rw [readU8_bind' _ hv']
        simp only [show (0 : Byte).toNat = 0 by decide, List.length_nil, recNew_v0, DProg.bind]
        rw [runAbs_bind, h2.1]
        simp [runAbs, normalize, h2.2.1, h2.2.2, Nat.add_comm]
      | err e => simp [hi] at he
      | panic w => simp [hi] at he
    | named id =>
      unfold enc at he
      cases hfind : env.find id with
      | none => simp [hfind, illTyped] at he
      | some td =>
        cases td with
        | record d =>
          have hwf := henv.rec_ id d hfind
          simp only [hfind] at he
          cases fuel with
          | zero => omega
          | succ f =>
            have key := rt_record env d hwf items ih.1.2.2.2 ih.2 st b st' f he hu hst (by omega) s t hw hv hs
            simp only [dec, decTy, decNamed, hfind]
            have key' : runAbs (readRecord d.steps (declDecs (decTy f (decNamed env f)) d)) s
                = .ok (.list (normFields env d.fields items), s.after b.length st') := key.1
            rw [key']
            simp [normalize, hfind, key.2]
        | enum n srt cs => simp [hfind, illTyped] at he
    | _ => simp [enc, illTyped] at he
  | ctor idx fields ih =>
    refine ⟨⟨?_, chain_vacuous env _ (by simp)⟩, schunk_vacuous env _ (by simp)⟩
    intro ty st b st' fuel he hu hst hd s t hw hv hs
    simp only [Val.utf8OK] at hu
    simp only [Val.depth] at hd
    cases ty with
    | prim p => exact absurd (by simpa [enc] using he) (encPrim_not_chain p _ st b st' (by simp))
    | named id =>
      unfold enc at he
      cases hfind : env.find id with
      | none => simp [hfind, illTyped] at he
      | some td =>
        cases td with
        | record d => simp [hfind, illTyped] at he
        | enum n srt cs =>
          simp only [hfind] at he
          cases hfc : findCtorWire (wireCtors srt cs) idx with
          | none => simp [hfc, illTyped] at he
          | some wc =>
            obtain ⟨w, c⟩ := wc
            simp only [hfc] at he
            have hget := findCtorWire_get hfc
            have hmem : c ∈ cs := mem_wireCtors (List.mem_of_getElem? hget)
            have hwf := (henv.enum_ id n srt cs hfind).2 c hmem
            have hwlt : w < 2 ^ 32 := by
              have h1 : w < (wireCtors srt cs).length := by
                rcases Nat.lt_or_ge w (wireCtors srt cs).length with h | h
                · exact h
                · simp [List.getElem?_eq_none h] at hget
              rw [length_wireCtors] at h1
              have := (henv.enum_ id n srt cs hfind).1
              omega
            split at he
            · simp at he
            · rename_i htr
              -- the variant's record, as encoded
              cases hrec : ((recordPre c.decl st).bind fun (pre, st1) =>
                  (encFields env c.decl.steps c.decl.fields fields st1).bind fun (fs, st2) =>
                  (recordFinish c.decl pre fs).bind fun b => Outcome.ok (b, st2)) with
              | ok rb =>
                obtain ⟨body, stb⟩ := rb
                have he' : (Outcome.ok (body, stb) : Outcome (Bytes × EncSt)).bind (fun p => Outcome.ok (0 :: (uv w ++ p.1), p.2)) = .ok (b, st') := by
                  rw [← hrec]
                  cases h1 : recordPre c.decl st with
                  | ok p1 =>
                    obtain ⟨pre, st1⟩ := p1
                    simp only [h1, Outcome.bind_ok] at he ⊢
                    cases h2 : encFields env c.decl.steps c.decl.fields fields st1 with
                    | ok p2 =>
                      obtain ⟨fs, st2⟩ := p2
                      simp only [h2, Outcome.bind_ok] at he ⊢
                      cases h3 : recordFinish c.decl pre fs with
                      | ok bb => simp [h3] at he ⊢; exact he
                      | err e => simp [h3] at he
                      | panic w' => simp [h3] at he
                    | err e => simp [h2] at he
                    | panic w' => simp [h2] at he
                  | err e => simp [h1] at he
                  | panic w' => simp [h1] at he
                simp at he'
                obtain ⟨rfl, rfl⟩ := he'
                cases fuel with
                | zero => omega
                | succ f =>
                  have hv' : s.view = 0 :: (uv w ++ (body ++ t)) := by simpa using hv
                  have hv1 : (s.after 1 s.strs).view = uv w ++ (body ++ t) := by
                    have := (view_cons hv').2; simpa [adv_eq_after] using this
                  have hw1 : (s.after 1 s.strs).WF := by
                    have := AbsSrc.WF_adv1 hw hv'; simpa [adv_eq_after] using this
                  have hw2 := WF_after hw1 hv1 s.strs
                  have hv2 := view_after_append hv1 s.strs
                  simp only [after_after] at hw2 hv2
                  have key := rt_record env c.decl hwf fields ih.1.2.2.2 ih.2 st body stb f hrec hu hst (by omega)
                    (s.after (1 + (uv w).length) s.strs) t hw2 hv2 (by simpa using hs)
                  simp only [dec, decTy, decNamed, hfind]
                  rw [readEnum_head _ n srt cs w hwlt s (body ++ t) hv']
                  simp only [hget, htr, Bool.false_eq_true, if_false]
                  have key' : runAbs (readRecord c.decl.steps (declDecs (decTy f (decNamed env f)) c.decl))
                      (s.after (1 + (uv w).length) s.strs)
                      = .ok (.list (normFields env c.decl.fields fields),
                             (s.after (1 + (uv w).length) s.strs).after body.length stb) := key.1
                  rw [key']
                  simp [normalize, hfind, hfc, key.2, Nat.add_assoc]
                  congr 1; omega
              | err e =>
                exfalso
                cases h1 : recordPre c.decl st with
                | ok p1 =>
                  obtain ⟨pre, st1⟩ := p1
                  simp only [h1, Outcome.bind_ok] at he hrec
                  cases h2 : encFields env c.decl.steps c.decl.fields fields st1 with
                  | ok p2 =>
                    obtain ⟨fs, st2⟩ := p2
                    simp only [h2, Outcome.bind_ok] at he hrec
                    cases h3 : recordFinish c.decl pre fs with
                    | ok bb => simp [h3] at hrec
                    | err e' => simp [h3] at he
                    | panic w' => simp [h3] at he
                  | err e' => simp [h2] at he
                  | panic w' => simp [h2] at he
                | err e' => simp [h1] at he
                | panic w' => simp [h1] at he
              | panic w0 =>
                exfalso
                cases h1 : recordPre c.decl st with
                | ok p1 =>
                  obtain ⟨pre, st1⟩ := p1
                  simp only [h1, Outcome.bind_ok] at he hrec
                  cases h2 : encFields env c.decl.steps c.decl.fields fields st1 with
                  | ok p2 =>
                    obtain ⟨fs, st2⟩ := p2
                    simp only [h2, Outcome.bind_ok] at he hrec
                    cases h3 : recordFinish c.decl pre fs with
                    | ok bb => simp [h3] at hrec
                    | err e' => simp [h3] at he
                    | panic w' => simp [h3] at he
                  | err e' => simp [h2] at he
                  | panic w' => simp [h2] at he
                | err e' => simp [h1] at he
                | panic w' => simp [h1] at he
    | _ => simp [enc, illTyped] at he


/-- the four statements of the headerless development, now for every well-formed environment -/
theorem rt_wf (env : Env) (henv : EnvWF env) (v : Val) : RT env v := (rt_full env henv v).1

theorem plainFreeB_nil_mo (steps : List Step) : ∀ (fields : List Field) (dc : List Nat),
    plainFreeB steps [] dc fields = true := by
  intro fields
  induction fields with
  | nil => intro dc; simp [plainFreeB]
  | cons f fs ih =>
    intro dc
    unfold plainFreeB
    cases f.role <;> simp [ih]

/-- a headerless declaration whose transient fields have defaults is well-formed -/
theorem declWFb_of_v0 (d : Decl) (hs : d.steps = []) (hf : FieldsOK d.fields) : declWFb d = true := by
  unfold declWFb
  simp only [hs, List.all_nil, Bool.and_true, removedForm, List.filterMap_nil, List.map_nil, List.not_mem_nil,
    decide_false, Bool.not_false, Bool.or_true, madeOptPositions, plainFreeB_nil_mo, Bool.and_eq_true, List.all_eq_true]
  refine ⟨fun f hfm => ?_, fun f hfm => by simp⟩
  cases hr : f.role with
  | transient => simpa using hf f hfm hr
  | plain => simp
  | optional => simp

/-- `EnvWF` generalises the headerless case -/
theorem EnvV0.toWF {env : Env} (h : EnvV0 env) : EnvWF env :=
  ⟨fun id d hd => declWFb_of_v0 d (h.rec_ id d hd).1 (h.rec_ id d hd).2,
   fun id n srt cs hd => ⟨(h.enum_ id n srt cs hd).1, fun c hc =>
     declWFb_of_v0 c.decl ((h.enum_ id n srt cs hd).2 c hc).1 ((h.enum_ id n srt cs hd).2 c hc).2⟩⟩

theorem EnvWF_nil : EnvWF [] := EnvV0_nil.toWF

theorem find_mem {env : Env} {id : String} {td : TyDecl} (h : env.find id = some td) : ∃ k, (k, td) ∈ env := by
  induction env with
  | nil => simp [Env.find] at h
  | cons p rest ih =>
    obtain ⟨k, d⟩ := p
    simp only [Env.find] at h
    split at h
    · simp at h; exact ⟨k, by simp [h]⟩
    · obtain ⟨k', hk⟩ := ih h; exact ⟨k', by simp [hk]⟩

/-- the evaluated check gives the hypothesis of the round-trip theorems -/
theorem EnvWF_of_check {env : Env} (h : envWFb env = true) : EnvWF env := by
  simp only [envWFb, List.all_eq_true] at h
  refine ⟨fun id d hd => ?_, fun id n srt cs hd => ?_⟩
  · obtain ⟨k, hk⟩ := find_mem hd
    simpa [tyDeclWFb] using h _ hk
  · obtain ⟨k, hk⟩ := find_mem hd
    have := h _ hk
    simp only [tyDeclWFb, Bool.and_eq_true, decide_eq_true_eq, List.all_eq_true] at this
    exact this
