import Desert.Lemmas.Skeleton
/-!
# One record, headerless or chunked, read back by its own definition

`rt_record` is the record-level step of the full round-trip induction: given the field-level
statements for the record's field values (`SFields` for the headerless layout, `SChunk` for the
chunked one), the whole record — version byte, evolution header, chunks — decodes to its
normalised value, consumes exactly its encoding and leaves the string tables equal.
-/
set_option linter.unusedSimpArgs false
set_option linter.unusedVariables false

/-- field-level statement for the chunked layout (the loop over the fields of one record) -/
def SChunk (env : Env) (v : Val) : Prop :=
  ∀ (steps : List Step) (fields : List Field) (st : EncSt) (l : List EncField) (st' : EncSt) (fuel : Nat) (rs : RecSt)
    (W : Bytes) (fsAll done : List EncField) (mo : List (Nat × Nat)) (rm : List Bytes),
    encFields env steps fields v st = .ok (l, st') → v.utf8OK → StOK st → v.depth < fuel →
    fsAll = done ++ l → LoopInv W fsAll done steps.length mo rm rs → FieldsOK fields →
    (∀ f ∈ fields, f.role ≠ .transient → nameBytes f.name ∉ rm) →
    plainFreeB steps mo (done.map (·.chunk)) fields = true →
    ∀ (s : AbsSrc), s.cur.window = W → s.strs = st →
      runAbs (readFields steps rs (fields.map (mkFieldDec (dec env fuel)))) s
          = .ok ((normFields env fields v).toList, { s with strs := st' })
        ∧ StOK st' ∧ Val.ofList (normFields env fields v).toList = normFields env fields v

theorem expectedHSteps_length (fs : List EncField) (removed : List String) : ∀ (steps : List Step) (k : Nat),
    (expectedHSteps fs removed k steps).length = steps.length := by
  intro steps; induction steps with
  | nil => intro k; simp [expectedHSteps]
  | cons s rest ih => intro k; simp [expectedHSteps, ih]

theorem expectedHSteps_get (fs : List EncField) (removed : List String) : ∀ (steps : List Step) (k j : Nat) (h : HStep),
    (expectedHSteps fs removed k steps)[j]? = some h → ∃ s, steps[j]? = some s ∧ h = expectedHStep fs removed (k + j) s := by
  intro steps
  induction steps with
  | nil => intro k j h hj; simp [expectedHSteps] at hj
  | cons s rest ih =>
    intro k j h hj
    cases j with
    | zero => simp [expectedHSteps] at hj; exact ⟨s, by simp, by simp [hj]⟩
    | succ i =>
      simp only [expectedHSteps, List.getElem?_cons_succ] at hj
      obtain ⟨s', hs', he⟩ := ih (k + 1) i h hj
      exact ⟨s', by simpa using hs', by rw [he]; congr 1; omega⟩

/-- what `declWFb` gives, unpacked -/
theorem declWF_unpack (d : Decl) (h : declWFb d = true) :
    FieldsOK d.fields ∧
    (∀ s ∈ d.steps, validUtf8 (nameBytes (stepName s)) = true) ∧
    (∀ n c p, Step.madeOptional n ∈ d.steps → n ∉ removedNames d.steps →
        fieldIndexSk (skel d.steps d.fields) n = some (c, p) → posOK c p) ∧
    (∀ f ∈ d.fields, f.role ≠ .transient → nameBytes f.name ∉ (removedForm d.steps).map nameBytes) ∧
    plainFreeB d.steps (madeOptPositions d.steps (skel d.steps d.fields)) [] d.fields = true := by
  simp only [declWFb, Bool.and_eq_true, List.all_eq_true] at h
  obtain ⟨⟨⟨⟨h1, h2⟩, h3⟩, h4⟩, h5⟩ := h
  refine ⟨?_, ?_, ?_, ?_, h5⟩
  · intro f hf hr
    have := h1 f hf
    simp [hr] at this; exact this
  · intro s hs
    have := h2 s hs
    cases s <;> simpa [stepName, stepNameOf] using this
  · intro n c p hm hnr hfi
    have := h3 _ hm
    simp only [hnr, decide_false, Bool.false_or, hfi] at this
    simp only [posOKb, Bool.or_eq_true, Bool.and_eq_true, beq_iff_eq, decide_eq_true_eq] at this
    rcases this with ⟨a, b⟩ | ⟨⟨a, b⟩, c'⟩
    · exact Or.inl ⟨a, b⟩
    · exact Or.inr ⟨a, b, c'⟩
  · intro f hf hr
    have := h4 f hf
    cases hrole : f.role with
    | transient => exact absurd hrole hr
    | plain => simp [hrole] at this; simpa using this
    | optional => simp [hrole] at this; simpa using this

theorem sizeStep_ok {len : Nat} {h0 : Bytes} (h : sizeStep len = .ok h0) : len < 2 ^ 31 ∧ h0 = zz (len : Int) := by
  unfold sizeStep at h
  split at h
  · rename_i hl; simp at h; exact ⟨hl, h.symm⟩
  · simp at h

theorem filter_map_chunk (done : List EncField) (g : Nat) :
    ((done.map (·.chunk)).filter (· = g)).length = (done.filter (·.chunk = g)).length := by
  induction done with
  | nil => simp
  | cons e rest ih => simp only [List.map_cons, List.filter_cons]; split <;> simp_all

theorem readField_transient (steps : List Step) (rs : RecSt) (fd : FieldDec) (hr : fd.field.role = .transient) (d : Val)
    (hd : fd.field.default = some d) : readField steps rs fd = .ret (d, rs) := by
  unfold readField
  simp [hr, hd, pure_eq_ret]

/-- a chunked record read back by its own definition -/
theorem rt_record_chunked (env : Env) (d : Decl) (hwf : declWFb d = true) (hne : d.steps ≠ [])
    (items : Val) (hSC : SChunk env items)
    (st : EncSt) (pre : List (Option Bytes)) (st1 : EncSt) (fs : List EncField) (st2 : EncSt) (b : Bytes) (fuel : Nat)
    (hpre : preNames d.steps (removedNames d.steps) st = .ok (pre, st1)) (hlen : d.steps.length ≤ 254)
    (hf : encFields env d.steps d.fields items st1 = .ok (fs, st2)) (hasm : assembleRecord d pre fs = .ok b)
    (hu : items.utf8OK) (hst : StOK st) (hd : items.depth < fuel)
    (s : AbsSrc) (t : Bytes) (hw : s.WF) (hv : s.view = b ++ t) (hs : s.strs = st) :
    runAbs (readRecord d.steps (declDecs (dec env fuel) d)) s
      = .ok (.list (normFields env d.fields items), s.after b.length st2) ∧ StOK st2 := by
  obtain ⟨hfok, hutf, hpos, hnotrem, hplain⟩ := declWF_unpack d hwf
  -- the layout of the bytes
  unfold assembleRecord at hasm
  cases h0e : sizeStep (chunkBytes fs 0).length with
  | err e => simp [h0e] at hasm
  | panic w => simp [h0e] at hasm
  | ok h0 =>
  simp only [h0e, Outcome.bind_ok] at hasm
  cases hse : headerSteps fs 1 d.steps pre with
  | err e => simp [hse] at hasm
  | panic w => simp [hse] at hasm
  | ok hsb =>
  simp [hse] at hasm
  obtain ⟨hl0, rfl⟩ := sizeStep_ok h0e
  have hn1 : 1 ≤ d.steps.length := by
    cases hh : d.steps with
    | nil => exact absurd hh hne
    | cons a r => simp
  have hver : d.version = d.steps.length := rfl
  subst hasm
  have hsk := encFields_skel env d.steps d.fields items st1 fs st2 hf
  have hch := encFields_chunks env d.steps d.fields items st1 fs st2 hf
  -- the four segments of the input
  have hv0 : s.view = byteOf d.steps.length ::
      (zz ((chunkBytes fs 0).length : Int) ++ (hsb ++ (chunksFrom fs 0 (d.steps.length + 1) ++ t))) := by
    simpa [hver] using hv
  have hbyte : (byteOf d.steps.length).toNat = d.steps.length := byteOf_toNat_lt (by omega)
  -- version byte
  simp only [readRecord, readRecordBody, bind_eq_dbind, pure_eq_ret]
  rw [readU8_bind' _ hv0, hbyte]
  have hs1v : (s.after 1 s.strs).view =
      zz ((chunkBytes fs 0).length : Int) ++ (hsb ++ (chunksFrom fs 0 (d.steps.length + 1) ++ t)) := by
    have := (view_cons hv0).2; simpa [adv_eq_after] using this
  have hs1w : (s.after 1 s.strs).WF := by
    have := AbsSrc.WF_adv1 hw hv0; simpa [adv_eq_after] using this
  -- header
  have hnz : ¬ (d.steps.length = 0) := by omega
  simp only [recNew, hnz, if_false, bind_eq_dbind, pure_eq_ret, readHSteps]
  have hstep0 := read_hstep_size (chunkBytes fs 0).length hl0 _ _ hs1v
  have hs2v := view_after_append hs1v (s.after 1 s.strs).strs
  have hs2w := WF_after hs1w hs1v (s.after 1 s.strs).strs
  simp only [after_after, after_strs] at hstep0 hs2v hs2w
  have hHOK : HeaderOK fs (removedNames d.steps) d.steps := by
    refine ⟨hutf, ?_⟩
    intro n c p hm hnr hfi
    rw [fieldIndex_sk, hsk] at hfi
    exact hpos n c p hm hnr hfi
  have hhdr := read_header_steps fs (removedNames d.steps) d.steps 1 st pre st1 hsb hpre hse hHOK hst _ _ hs2w hs2v
    (by simpa using hs)
  have hs3v := view_after_append hs2v st1
  have hs3w := WF_after hs2w hs2v st1
  simp only [after_after] at hhdr hs3v hs3w
  -- the regions
  obtain ⟨hl, hhl⟩ : ∃ hl, hl = sizeHStep (chunkBytes fs 0).length :: expectedHSteps fs (removedNames d.steps) 1 d.steps := ⟨_, rfl⟩
  have hhll : hl.length = d.steps.length + 1 := by rw [hhl]; simp [expectedHSteps_length]
  obtain ⟨s3, hs3⟩ : ∃ s3, s3 = s.after (1 + (zz ((chunkBytes fs 0).length : Int)).length + hsb.length) st1 := ⟨_, rfl⟩
  rw [← hs3] at hhdr hs3v hs3w
  have hW3 : s3.cur.window = s.cur.window := by rw [hs3]; rfl
  have hcond : ∀ i h, hl[i]? = some h →
      h = sizeHStep (chunkBytes fs (0 + i)).length ∨ ((∀ n, h ≠ .size n) ∧ chunkBytes fs (0 + i) = []) := by
    intro i h hi
    rw [hhl] at hi
    cases i with
    | zero => simp at hi; left; simp [hi]
    | succ j =>
      simp only [List.getElem?_cons_succ] at hi
      obtain ⟨sp, hsp, he⟩ := expectedHSteps_get fs (removedNames d.steps) d.steps 1 j h hi
      have e1 : 0 + (j + 1) = 1 + j := by omega
      rw [e1]
      cases sp with
      | added nm => left; rw [he]; simp [expectedHStep]
      | removed nm =>
        right; rw [he]; refine ⟨by simp [expectedHStep], ?_⟩
        apply chunk_empty_of_not_added d.steps fs hch (1 + j) (by omega)
        intro m hm; have : 1 + j - 1 = j := by omega
        rw [this, hsp] at hm; simp at hm
      | madeTransient nm =>
        right; rw [he]; refine ⟨by simp [expectedHStep], ?_⟩
        apply chunk_empty_of_not_added d.steps fs hch (1 + j) (by omega)
        intro m hm; have : 1 + j - 1 = j := by omega
        rw [this, hsp] at hm; simp at hm
      | madeOptional nm =>
        right; rw [he]
        refine ⟨?_, ?_⟩
        · intro n; simp only [expectedHStep]; split
          · simp
          · split <;> simp
        · apply chunk_empty_of_not_added d.steps fs hch (1 + j) (by omega)
          intro m hm; have : 1 + j - 1 = j := by omega
          rw [this, hsp] at hm; simp at hm
  have hWdrop : s.cur.window.drop s3.cur.pos = chunksFrom fs 0 hl.length ++ t := by
    rw [hhll]; have := hs3v; simpa [AbsSrc.view, hW3] using this
  obtain ⟨htot, hnn, hdesc⟩ := regionsOf_spec fs hl 0 s3.cur.pos s.cur.window t hWdrop hcond
  have hskip := run_skipChunks hl s3 hs3w hnn (by rw [htot, hs3v, hhll]; simp)
  -- the record state and its invariant
  obtain ⟨rs0, hrs0⟩ : ∃ rs0 : RecSt, rs0 = ⟨d.steps.length, regionsOf s3.cur.pos hl, madeOptOf hl, removedOf hl, List.replicate (d.steps.length + 1) 0⟩ := ⟨_, rfl⟩
  have hinv : LoopInv s.cur.window fs [] d.steps.length (madeOptOf hl) (removedOf hl) rs0 := by
    rw [hrs0]
    refine ⟨rfl, rfl, rfl, by simp [regionsOf_length, hhll], by simp, ?_, ?_⟩
    · intro k r hk
      have := hdesc k r hk
      simp only [Nat.zero_add] at this
      exact ⟨this.1, this.2.1, this.2.2.1, by rw [this.2.2.2]; simp [chunkBytes]⟩
    · intro k i hk
      simp [List.getElem?_replicate] at hk
      simp [hk.2]
  have hmo : madeOptOf hl = madeOptPositions d.steps (skel d.steps d.fields) := by
    rw [hhl]
    have : madeOptOf (sizeHStep (chunkBytes fs 0).length :: expectedHSteps fs (removedNames d.steps) 1 d.steps)
        = madeOptOf (expectedHSteps fs (removedNames d.steps) 1 d.steps) := by
      unfold sizeHStep; split <;> simp [madeOptOf]
    rw [this, madeOptOf_expected, hsk]
    rfl
  have hrm : removedOf hl = (removedForm d.steps).map nameBytes := by
    rw [hhl]
    have : removedOf (sizeHStep (chunkBytes fs 0).length :: expectedHSteps fs (removedNames d.steps) 1 d.steps)
        = removedOf (expectedHSteps fs (removedNames d.steps) 1 d.steps) := by
      unfold sizeHStep; split <;> simp [removedOf]
    rw [this, removedOf_expected]
    rfl
  obtain ⟨s4, hs4⟩ : ∃ s4, s4 = s3.adv (totalSize hl) := ⟨_, rfl⟩
  have hW4 : s4.cur.window = s.cur.window := by rw [hs4, ← hW3]; rfl
  have hloop := hSC d.steps d.fields st1 fs st2 fuel rs0 s.cur.window fs [] (madeOptOf hl) (removedOf hl) hf hu hhdr.2 hd
    (by simp) hinv hfok (by rw [hrm]; exact hnotrem) (by rw [hmo]; simpa using hplain) s4 hW4
    (by rw [hs4, hs3]; simp)
  -- put the run together
  rw [runAbs_bind, runAbs_bind, runAbs_bind, hstep0]
  simp only [Outcome.bindS_ok]
  rw [runAbs_bind, hhdr.1]
  simp only [Outcome.bindS_ok, runAbs, ← hhl]
  rw [runAbs_bind, hskip]
  simp only [Outcome.bindS_ok, runAbs, ← hs4, ← hrs0]
  have hloop' : runAbs (readFields d.steps rs0 (declDecs (dec env fuel) d)) s4
      = .ok ((normFields env d.fields items).toList, { s4 with strs := st2 }) := hloop.1
  rw [runAbs_bind, hloop']
  refine ⟨?_, hloop.2.1⟩
  simp only [Outcome.bindS_ok, runAbs, hloop.2.2]
  congr 2
  rw [hs4, hs3, htot, hhll]
  simp [AbsSrc.adv, AbsSrc.after, hver]
  omega

/-- one record (either layout) read back by its own definition, from the field-level statements -/
theorem rt_record (env : Env) (d : Decl) (hwf : declWFb d = true) (items : Val)
    (hSF : SFields env items) (hSC : SChunk env items) (st : EncSt) (b : Bytes) (st' : EncSt) (fuel : Nat)
    (he : ((recordPre d st).bind fun (pre, st1) =>
            (encFields env d.steps d.fields items st1).bind fun (fs, st2) =>
            (recordFinish d pre fs).bind fun b => Outcome.ok (b, st2)) = .ok (b, st'))
    (hu : items.utf8OK) (hst : StOK st) (hd : items.depth < fuel)
    (s : AbsSrc) (t : Bytes) (hw : s.WF) (hv : s.view = b ++ t) (hs : s.strs = st) :
    runAbs (readRecord d.steps (declDecs (dec env fuel) d)) s
      = .ok (.list (normFields env d.fields items), s.after b.length st') ∧ StOK st' := by
  by_cases hsteps : d.steps = []
  · -- headerless
    have hfok := (declWF_unpack d hwf).1
    have hpre : recordPre d st = .ok ([], st) := by simp [recordPre, hsteps]
    rw [hpre] at he
    simp only [Outcome.bind_ok, hsteps] at he
    cases hf : encFields env [] d.fields items st with
    | ok r0 =>
      obtain ⟨l, st2⟩ := r0
      have hfin : recordFinish d [] l = .ok (0 :: l.flatMap (·.bytes)) := by simp [recordFinish, hsteps]
      simp [hf, hfin] at he
      obtain ⟨rfl, rfl⟩ := he
      have hv' : s.view = 0 :: (l.flatMap (·.bytes) ++ t) := by simpa using hv
      have hv1 : (s.after 1 s.strs).view = l.flatMap (·.bytes) ++ t := by
        have := (view_cons hv').2; simpa [adv_eq_after] using this
      have hw1 : (s.after 1 s.strs).WF := by
        have := AbsSrc.WF_adv1 hw hv'; simpa [adv_eq_after] using this
      have h2 := hSF d.fields st l st2 fuel _ hf hu hst hd V0St_new hfok _ t hw1 hv1 (by simpa using hs)
      simp only [readRecord, readRecordBody, bind_eq_dbind, pure_eq_ret, hsteps]
      rw [readU8_bind' _ hv']
      simp only [show (0 : Byte).toNat = 0 by decide, List.length_nil, recNew_v0, DProg.bind]
      rw [runAbs_bind]
      have h2' : runAbs (readFields [] _ (declDecs (dec env fuel) d)) (s.after 1 s.strs)
          = .ok ((normFields env d.fields items).toList, (s.after 1 s.strs).after (l.flatMap (·.bytes)).length st2) := h2.1
      rw [h2']
      simp [runAbs, h2.2.1, h2.2.2, Nat.add_comm]
    | err e => simp [hf] at he
    | panic w => simp [hf] at he
  · -- chunked
    have hne : d.steps.isEmpty = false := by
      cases hh : d.steps with
      | nil => exact absurd hh hsteps
      | cons a r => rfl
    unfold recordPre at he
    simp only [hne, Bool.false_eq_true, if_false] at he
    split at he
    · simp at he
    · rename_i hlen
      cases hp : preNames d.steps (removedNames d.steps) st with
      | ok p0 =>
        obtain ⟨pre, st1⟩ := p0
        simp only [hp, Outcome.bind_ok] at he
        cases hf : encFields env d.steps d.fields items st1 with
        | ok r0 =>
          obtain ⟨fs, st2⟩ := r0
          simp only [hf, Outcome.bind_ok] at he
          have hrf : recordFinish d pre fs = assembleRecord d pre fs := by simp [recordFinish, hne]
          rw [hrf] at he
          cases ha : assembleRecord d pre fs with
          | ok bb =>
            simp [ha] at he
            obtain ⟨rfl, rfl⟩ := he
            exact rt_record_chunked env d hwf hsteps items hSC st pre st1 fs st2 bb fuel hp (by omega) hf ha hu hst hd s t hw hv hs
          | err e => simp [ha] at he
          | panic w => simp [ha] at he
        | err e => simp [hf] at he
        | panic w => simp [hf] at he
      | err e => simp [hp] at he
      | panic w => simp [hp] at he
