import Desert.Lemmas.RoundTrip
/-!
# Nesting is paid for by bytes: `depth v ≤ |enc v|`

Every list / record / constructor level of a value contributes at least one byte (a count, a
version byte or a constructor index), so the decoder's fuel `|input| + 1` is always sufficient.
-/
set_option linter.unusedSimpArgs false
set_option linter.unusedVariables false

theorem uv_ne_nil (n : Nat) : 0 < (uv n).length := uv_length_pos n

def DepthOK (env : Env) (v : Val) : Prop :=
  (∀ ty st b st', enc env ty v st = .ok (b, st') → v.depth ≤ b.length) ∧
  (∀ ty st b st', encItems env ty v st = .ok (b, st') → v.depth ≤ b.length) ∧
  (∀ fs st b st', encTupleFields env fs v st = .ok (b, st') → v.depth ≤ b.length) ∧
  (∀ fields st l st', (∀ f ∈ fields, f.role ≠ .transient) → encFields env [] fields v st = .ok (l, st') →
      v.depth ≤ (l.flatMap (·.bytes)).length)

/-- no declaration of the environment has transient fields (their values leave no bytes, so their
depth is not bounded by the encoding) -/
structure NoTransient (env : Env) : Prop where
  rec_ : ∀ id d, env.find id = some (.record d) → ∀ f ∈ d.fields, f.role ≠ .transient
  enum_ : ∀ id n srt cs, env.find id = some (.enum n srt cs) → ∀ c ∈ cs, ∀ f ∈ c.decl.fields, f.role ≠ .transient

theorem depth_le_length (env : Env) (henv : EnvV0 env) (hnt : NoTransient env) : ∀ v, DepthOK env v := by
  intro v
  induction v with
  | unit => exact ⟨by intros; simp [Val.depth], by intros; simp [Val.depth], by intros; simp [Val.depth], by intros; simp [Val.depth]⟩
  | bool b => exact ⟨by intros; simp [Val.depth], by intros; simp [Val.depth], by intros; simp [Val.depth], by intros; simp [Val.depth]⟩
  | int n => exact ⟨by intros; simp [Val.depth], by intros; simp [Val.depth], by intros; simp [Val.depth], by intros; simp [Val.depth]⟩
  | str bs => exact ⟨by intros; simp [Val.depth], by intros; simp [Val.depth], by intros; simp [Val.depth], by intros; simp [Val.depth]⟩
  | bytes bs => exact ⟨by intros; simp [Val.depth], by intros; simp [Val.depth], by intros; simp [Val.depth], by intros; simp [Val.depth]⟩
  | dur a c => exact ⟨by intros; simp [Val.depth], by intros; simp [Val.depth], by intros; simp [Val.depth], by intros; simp [Val.depth]⟩
  | none => exact ⟨by intros; simp [Val.depth], by intros; simp [Val.depth], by intros; simp [Val.depth], by intros; simp [Val.depth]⟩
  | vnil => exact ⟨by intros; simp [Val.depth], by intros; simp [Val.depth], by intros; simp [Val.depth], by intros; simp [Val.depth]⟩
  | some x ih =>
    refine ⟨?_, ?_, ?_, ?_⟩
    · intro ty st b st' he
      cases ty with
      | option ti =>
        simp only [enc] at he
        cases hx : enc env ti x st with
        | ok r => obtain ⟨b0, st0⟩ := r; simp [hx] at he; obtain ⟨rfl, rfl⟩ := he
                  have := ih.1 ti st b0 st0 hx; simp [Val.depth]; omega
        | err e => simp [hx] at he
        | panic w => simp [hx] at he
      | prim p => exact absurd (by simpa [enc] using he) (encPrim_not_chain p _ st b st' (by simp))
      | named id => have := enc_named_shape env id _ st b st' he; simp at this
      | _ => simp [enc, illTyped] at he
    · intro ty st b st' he; exact absurd he (encItems_illTyped_of env ty _ st b st' (by simp))
    · intro fs st b st' he; exact absurd he (encTuple_illTyped_of env fs _ st b st' (by simp))
    · intro fields st l st' hnt' he; exact absurd he (encFields_illTyped_of env [] fields _ st l st' (by simp))
  | ok x ih =>
    refine ⟨?_, ?_, ?_, ?_⟩
    · intro ty st b st' he
      cases ty with
      | result ta te =>
        simp only [enc] at he
        cases hx : enc env ta x st with
        | ok r => obtain ⟨b0, st0⟩ := r; simp [hx] at he; obtain ⟨rfl, rfl⟩ := he
                  have := ih.1 ta st b0 st0 hx; simp [Val.depth]; omega
        | err e => simp [hx] at he
        | panic w => simp [hx] at he
      | prim p => exact absurd (by simpa [enc] using he) (encPrim_not_chain p _ st b st' (by simp))
      | named id => have := enc_named_shape env id _ st b st' he; simp at this
      | _ => simp [enc, illTyped] at he
    · intro ty st b st' he; exact absurd he (encItems_illTyped_of env ty _ st b st' (by simp))
    · intro fs st b st' he; exact absurd he (encTuple_illTyped_of env fs _ st b st' (by simp))
    · intro fields st l st' hnt' he; exact absurd he (encFields_illTyped_of env [] fields _ st l st' (by simp))
  | error x ih =>
    refine ⟨?_, ?_, ?_, ?_⟩
    · intro ty st b st' he
      cases ty with
      | result ta te =>
        simp only [enc] at he
        cases hx : enc env te x st with
        | ok r => obtain ⟨b0, st0⟩ := r; simp [hx] at he; obtain ⟨rfl, rfl⟩ := he
                  have := ih.1 te st b0 st0 hx; simp [Val.depth]; omega
        | err e => simp [hx] at he
        | panic w => simp [hx] at he
      | prim p => exact absurd (by simpa [enc] using he) (encPrim_not_chain p _ st b st' (by simp))
      | named id => have := enc_named_shape env id _ st b st' he; simp at this
      | _ => simp [enc, illTyped] at he
    · intro ty st b st' he; exact absurd he (encItems_illTyped_of env ty _ st b st' (by simp))
    · intro fs st b st' he; exact absurd he (encTuple_illTyped_of env fs _ st b st' (by simp))
    · intro fields st l st' hnt' he; exact absurd he (encFields_illTyped_of env [] fields _ st l st' (by simp))
  | vcons x r ihx ihr =>
    refine ⟨?_, ?_, ?_, ?_⟩
    · intro ty st b st' he
      cases ty with
      | prim p => exact absurd (by simpa [enc] using he) (encPrim_not_chain p _ st b st' (by simp))
      | named id => have := enc_named_shape env id _ st b st' he; simp at this
      | _ => simp [enc, illTyped] at he
    · intro ty st b st' he
      simp only [encItems] at he
      cases hx : enc env ty x st with
      | ok r1 =>
        obtain ⟨b1, st1⟩ := r1
        simp only [hx, Outcome.bind_ok] at he
        cases hr : encItems env ty r st1 with
        | ok r2 => obtain ⟨b2, st2⟩ := r2; simp [hr] at he; obtain ⟨rfl, rfl⟩ := he
                   have h1 := ihx.1 ty st b1 st1 hx; have h2 := ihr.2.1 ty st1 b2 st2 hr
                   simp [Val.depth]; omega
        | err e => simp [hr] at he
        | panic w => simp [hr] at he
      | err e => simp [hx] at he
      | panic w => simp [hx] at he
    · intro fs st b st' he
      cases fs with
      | fcons a rest =>
        simp only [encTupleFields] at he
        cases hx : enc env a x st with
        | ok r1 =>
          obtain ⟨b1, st1⟩ := r1
          simp only [hx, Outcome.bind_ok] at he
          cases hr : encTupleFields env rest r st1 with
          | ok r2 => obtain ⟨b2, st2⟩ := r2; simp [hr] at he; obtain ⟨rfl, rfl⟩ := he
                     have h1 := ihx.1 a st b1 st1 hx; have h2 := ihr.2.2.1 rest st1 b2 st2 hr
                     simp [Val.depth]; omega
          | err e => simp [hr] at he
          | panic w => simp [hr] at he
        | err e => simp [hx] at he
        | panic w => simp [hx] at he
      | _ => simp [encTupleFields, illTyped] at he
    · intro fields st l st' hnt' he
      cases fields with
      | nil => simp [encFields, illTyped] at he
      | cons f fs =>
        simp only [encFields] at he
        have hnt'' : ∀ g ∈ fs, g.role ≠ .transient := fun g hg => hnt' g (by simp [hg])
        cases hrole : f.role with
        | transient => exact absurd hrole (hnt' f (by simp))
        | plain =>
          simp only [hrole] at he
          cases hx : enc env f.ty x st with
          | ok r1 =>
            obtain ⟨b1, st1⟩ := r1
            simp only [hx, Outcome.bind_ok] at he
            cases hr : encFields env [] fs r st1 with
            | ok r2 => obtain ⟨l2, st2⟩ := r2; simp [hr] at he; obtain ⟨rfl, rfl⟩ := he
                       have h1 := ihx.1 f.ty st b1 st1 hx; have h2 := ihr.2.2.2 fs st1 l2 st2 hnt'' hr
                       simp only [Val.depth, List.flatMap_cons, List.length_append]; omega
            | err e => simp [hr] at he
            | panic w => simp [hr] at he
          | err e => simp [hx] at he
          | panic w => simp [hx] at he
        | optional =>
          simp only [hrole] at he
          cases hx : enc env f.ty x st with
          | ok r1 =>
            obtain ⟨b1, st1⟩ := r1
            simp only [hx, Outcome.bind_ok] at he
            cases hr : encFields env [] fs r st1 with
            | ok r2 => obtain ⟨l2, st2⟩ := r2; simp [hr] at he; obtain ⟨rfl, rfl⟩ := he
                       have h1 := ihx.1 f.ty st b1 st1 hx; have h2 := ihr.2.2.2 fs st1 l2 st2 hnt'' hr
                       simp only [Val.depth, List.flatMap_cons, List.length_append]; omega
            | err e => simp [hr] at he
            | panic w => simp [hr] at he
          | err e => simp [hx] at he
          | panic w => simp [hx] at he
  | list items ih =>
    refine ⟨?_, ?_, ?_, ?_⟩
    · intro ty st b st' he
      cases ty with
      | prim p => exact absurd (by simpa [enc] using he) (encPrim_not_chain p _ st b st' (by simp))
      | seq ti =>
        simp only [enc] at he
        split at he
        · cases hi : encItems env ti items st with
          | ok r0 => obtain ⟨b0, st0⟩ := r0; simp [hi] at he; obtain ⟨rfl, rfl⟩ := he
                     have := ih.2.1 ti st b0 st0 hi
                     have hz := uv_length_pos (zigzag (items.chainLength : Int))
                     simp only [Val.depth, List.length_append, zz]; omega
          | err e => simp [hi] at he
          | panic w => simp [hi] at he
        · simp at he
      | array n ti =>
        simp only [enc] at he
        split at he
        · simp [illTyped] at he
        · split at he
          · cases hi : encItems env ti items st with
            | ok r0 => obtain ⟨b0, st0⟩ := r0; simp [hi] at he; obtain ⟨rfl, rfl⟩ := he
                       have := ih.2.1 ti st b0 st0 hi
                       have hz := uv_length_pos (zigzag (n : Int))
                       simp only [Val.depth, List.length_append, zz]; omega
            | err e => simp [hi] at he
            | panic w => simp [hi] at he
          · simp at he
      | tuple fs =>
        simp only [enc] at he
        cases hi : encTupleFields env fs items st with
        | ok r0 => obtain ⟨b0, st0⟩ := r0; simp [hi] at he; obtain ⟨rfl, rfl⟩ := he
                   have := ih.2.2.1 fs st b0 st0 hi
                   simp only [Val.depth, List.length_cons]; omega
        | err e => simp [hi] at he
        | panic w => simp [hi] at he
      | named id =>
        unfold enc at he
        cases hfind : env.find id with
        | none => simp [hfind, illTyped] at he
        | some td =>
          cases td with
          | record d =>
            obtain ⟨hsteps, hfok⟩ := henv.rec_ id d hfind
            simp only [hfind] at he
            have hpre : recordPre d st = .ok ([], st) := by simp [recordPre, hsteps]
            rw [hpre] at he
            simp only [Outcome.bind_ok, hsteps] at he
            cases hf : encFields env [] d.fields items st with
            | ok r0 =>
              obtain ⟨l, st2⟩ := r0
              have hfin : recordFinish d [] l = .ok (0 :: l.flatMap (·.bytes)) := by simp [recordFinish, hsteps]
              simp [hf, hfin] at he
              obtain ⟨rfl, rfl⟩ := he
              have := ih.2.2.2 d.fields st l st2 (hnt.rec_ id d hfind) hf
              simp only [Val.depth, List.length_cons]; omega
            | err e => simp [hf] at he
            | panic w => simp [hf] at he
          | enum n srt cs => simp [hfind, illTyped] at he
      | _ => simp [enc, illTyped] at he
    · intro ty st b st' he; exact absurd he (encItems_illTyped_of env ty _ st b st' (by simp))
    · intro fs st b st' he; exact absurd he (encTuple_illTyped_of env fs _ st b st' (by simp))
    · intro fields st l st' hnt' he; exact absurd he (encFields_illTyped_of env [] fields _ st l st' (by simp))
  | ctor idx fields ih =>
    refine ⟨?_, ?_, ?_, ?_⟩
    · intro ty st b st' he
      cases ty with
      | prim p => exact absurd (by simpa [enc] using he) (encPrim_not_chain p _ st b st' (by simp))
      | named id =>
        unfold enc at he
        cases hfind : env.find id with
        | none => simp [hfind, illTyped] at he
        | some td =>
          cases td with
          | record d => simp [hfind, illTyped] at he
          | enum n srt cs =>
            simp only [hfind] at he
            cases hfc : findCtorWire (wireCtors srt cs) idx with
            | none => simp [hfc, illTyped] at he
            | some wc =>
              obtain ⟨w, c⟩ := wc
              simp only [hfc] at he
              have hget := findCtorWire_get hfc
              have hmem : c ∈ cs := mem_wireCtors (List.mem_of_getElem? hget)
              obtain ⟨hsteps, hfok⟩ := (henv.enum_ id n srt cs hfind).2 c hmem
              split at he
              · simp at he
              · have hpre : recordPre c.decl st = .ok ([], st) := by simp [recordPre, hsteps]
                rw [hpre] at he
                simp only [Outcome.bind_ok, hsteps] at he
                cases hf : encFields env [] c.decl.fields fields st with
                | ok r0 =>
                  obtain ⟨l, st2⟩ := r0
                  have hfin : recordFinish c.decl [] l = .ok (0 :: l.flatMap (·.bytes)) := by simp [recordFinish, hsteps]
                  simp [hf, hfin] at he
                  obtain ⟨rfl, rfl⟩ := he
                  have := ih.2.2.2 c.decl.fields st l st2 (hnt.enum_ id n srt cs hfind c hmem) hf
                  simp only [Val.depth, List.length_cons, List.length_append]; omega
                | err e => simp [hf] at he
                | panic w' => simp [hf] at he
      | _ => simp [enc, illTyped] at he
    · intro ty st b st' he; exact absurd he (encItems_illTyped_of env ty _ st b st' (by simp))
    · intro fs st b st' he; exact absurd he (encTuple_illTyped_of env fs _ st b st' (by simp))
    · intro fields st l st' hnt' he; exact absurd he (encFields_illTyped_of env [] fields _ st l st' (by simp))
