import Desert.Typing
import Desert.Lemmas.RoundTrip
/-!
# A well-typed value never makes the encoder panic

`enc_total`: by induction on the value, for the four mutually recursive encoder functions; the only
panic left is the `i32` string-id counter after 2^31 - 1 distinct deduplicated strings.
-/
set_option linter.unusedSimpArgs false
set_option linter.unusedVariables false

/-- the only panic left to a well-typed value: the `i32` string-id counter after 2^31 - 1 strings -/
def OnlyOverflow {α : Type} (o : Outcome α) : Prop := ∀ w, o = .panic w → w = "attempt to add with overflow"

theorem oo_ok {α : Type} (a : α) : OnlyOverflow (Outcome.ok a) := by intro w h; cases h
theorem oo_err {α : Type} (e : Err) : OnlyOverflow (Outcome.err e : Outcome α) := by intro w h; cases h

theorem oo_bind {α β : Type} (o : Outcome α) (k : α → Outcome β) (ho : OnlyOverflow o)
    (hk : ∀ a, o = .ok a → OnlyOverflow (k a)) : OnlyOverflow (o.bind k) := by
  cases o with
  | ok a => simpa using hk a rfl
  | err e => intro w h; simp at h
  | panic w' => intro w h; simp at h; subst h; exact ho _ rfl

theorem oo_ite {α : Type} (c : Prop) [Decidable c] (a b : Outcome α) (ha : c → OnlyOverflow a) (hb : ¬ c → OnlyOverflow b) :
    OnlyOverflow (if c then a else b) := by
  split
  · exact ha ‹_›
  · exact hb ‹_›

theorem oo_encString (bs : Bytes) : OnlyOverflow (encString bs) := by
  unfold encString; exact oo_ite _ _ _ (fun _ => oo_ok _) (fun _ => oo_err _)

theorem oo_encDString (bs : Bytes) (st : EncSt) : OnlyOverflow (encDString bs st) := by
  unfold encDString
  cases indexOf? st bs with
  | some i => exact oo_ok _
  | none =>
    simp only
    refine oo_ite _ _ _ (fun _ => oo_bind _ _ (oo_encString bs) (fun _ _ => oo_ok _)) (fun _ => ?_)
    intro w h; cases h; rfl

theorem oo_encPrim (p : Prim) (v : Val) (st : EncSt) (h : primOK p v = true) : OnlyOverflow (encPrim p v st) := by
  cases p <;> cases v <;> simp [primOK] at h <;> simp only [encPrim]
  · simp [h]; exact oo_ok _
  · exact oo_ok _
  · exact oo_ok _
  · rw [if_neg (by omega)]; exact oo_ite _ _ _ (fun _ => oo_ok _) (fun _ => oo_err _)
  · exact oo_bind _ _ (oo_encString _) (fun _ _ => oo_ok _)
  · exact oo_encDString _ _
  · rw [if_pos h]; exact oo_ok _
  · exact oo_ite _ _ _ (fun _ => oo_ok _) (fun _ => oo_err _)
  · rw [if_neg (by simp [h])]; exact oo_ite _ _ _ (fun _ => oo_ok _) (fun _ => oo_err _)
  · rw [if_pos h]; exact oo_ok _
  · rw [if_pos h]; exact oo_ok _
  · rw [if_pos h]; exact oo_ok _
  · rw [if_pos h]; exact oo_ok _
  · rw [if_pos (by omega)]; exact oo_ok _

/-- the pre-serialised names cover every removed / made-transient step -/
def PreCovers : List Step → List (Option Bytes) → Prop
  | [], _ => True
  | s :: rest, pre =>
    (match s with
     | .removed _ => ∃ b, pre.head?.join = some b
     | .madeTransient _ => ∃ b, pre.head?.join = some b
     | _ => True) ∧ PreCovers rest pre.tail

theorem preNames_covers' (removed : List String) : ∀ (steps : List Step) (st : EncSt) (pre : List (Option Bytes)) (st' : EncSt),
    preNames steps removed st = .ok (pre, st') → PreCovers steps pre := by
  intro steps
  induction steps with
  | nil => intro st pre st' _; trivial
  | cons s rest ih =>
    intro st pre st' h
    simp only [preNames] at h
    split at h
    · rename_i hnone
      cases hr : preNames rest removed st with
      | ok r =>
        obtain ⟨l, st2⟩ := r; simp [hr] at h; obtain ⟨rfl, rfl⟩ := h
        refine ⟨?_, by simpa using ih st l st2 hr⟩
        cases s <;> simp at hnone ⊢
      | err e => simp [hr] at h
      | panic w => simp [hr] at h
    · rename_i nm hsome
      cases hd : encDString (nameBytes nm) st with
      | ok r1 =>
        obtain ⟨b, st1⟩ := r1
        simp only [hd, Outcome.bind_ok] at h
        cases hr : preNames rest removed st1 with
        | ok r =>
          obtain ⟨l, st2⟩ := r; simp [hr] at h; obtain ⟨rfl, rfl⟩ := h
          refine ⟨?_, by simpa using ih st1 l st2 hr⟩
          cases s <;> simp
        | err e => simp [hr] at h
        | panic w => simp [hr] at h
      | err e => simp [hd] at h
      | panic w => simp [hd] at h

theorem oo_preNames (removed : List String) : ∀ (steps : List Step) (st : EncSt), OnlyOverflow (preNames steps removed st) := by
  intro steps
  induction steps with
  | nil => intro st; exact oo_ok _
  | cons s rest ih =>
    intro st
    simp only [preNames]
    split
    · exact oo_bind _ _ (ih st) (fun _ _ => oo_ok _)
    · exact oo_bind _ _ (oo_encDString _ _) (fun r _ => oo_bind _ _ (ih r.2) (fun _ _ => oo_ok _))

theorem oo_sizeStep (n : Nat) : OnlyOverflow (sizeStep n) := by
  unfold sizeStep; exact oo_ite _ _ _ (fun _ => oo_ok _) (fun _ => oo_err _)

theorem oo_headerSteps (fs : List EncField) : ∀ (steps : List Step) (k : Nat) (pre : List (Option Bytes)),
    PreCovers steps pre → OnlyOverflow (headerSteps fs k steps pre) := by
  intro steps
  induction steps with
  | nil => intro k pre _; exact oo_ok _
  | cons s rest ih =>
    intro k pre hc
    simp only [headerSteps]
    refine oo_bind _ _ ?_ (fun _ _ => oo_bind _ _ (ih (k + 1) pre.tail hc.2) (fun _ _ => oo_ok _))
    unfold headerStep
    cases hp : pre.head?.join with
    | some b => exact oo_ok _
    | none =>
      simp only
      cases s with
      | added n => exact oo_sizeStep _
      | madeOptional n =>
        simp only
        cases fieldIndex fs n with
        | none => exact oo_err _
        | some cp => exact oo_ok _
      | removed n => obtain ⟨b, hb⟩ := hc.1; rw [hp] at hb; cases hb
      | madeTransient n => obtain ⟨b, hb⟩ := hc.1; rw [hp] at hb; cases hb

/-- a whole record, given that its fields do not panic -/
theorem oo_record (env : Env) (d : Decl) (hlen : d.steps.length ≤ 254) (items : Val) (st : EncSt)
    (hf : ∀ st1, OnlyOverflow (encFields env d.steps d.fields items st1)) {α : Type} (wrap : Bytes → EncSt → Outcome α)
    (hwrap : ∀ b s, OnlyOverflow (wrap b s)) :
    OnlyOverflow ((recordPre d st).bind fun (pre, st1) =>
      (encFields env d.steps d.fields items st1).bind fun (fs, st2) =>
      (recordFinish d pre fs).bind fun b => wrap b st2) := by
  refine oo_bind _ _ ?_ (fun r hr => ?_)
  · unfold recordPre
    refine oo_ite _ _ _ (fun _ => oo_ok _) (fun _ => ?_)
    rw [if_neg (by omega)]
    exact oo_preNames _ _ _
  · obtain ⟨pre, st1⟩ := r
    refine oo_bind _ _ (hf st1) (fun r2 _ => ?_)
    obtain ⟨fs, st2⟩ := r2
    refine oo_bind _ _ ?_ (fun b _ => hwrap b st2)
    unfold recordFinish
    refine oo_ite _ _ _ (fun _ => oo_ok _) (fun hne => ?_)
    unfold assembleRecord
    refine oo_bind _ _ (oo_sizeStep _) (fun _ _ => oo_bind _ _ ?_ (fun _ _ => oo_ok _))
    apply oo_headerSteps
    unfold recordPre at hr
    rw [if_neg hne, if_neg (by omega)] at hr
    exact preNames_covers' _ _ _ _ _ hr

def EncT (env : Env) (v : Val) : Prop :=
  (∀ ty st, hasTy env ty v = true → OnlyOverflow (enc env ty v st)) ∧
  (∀ t st, hasItems env t v = true → OnlyOverflow (encItems env t v st)) ∧
  (∀ fs st, hasTuple env fs v = true → OnlyOverflow (encTupleFields env fs v st)) ∧
  (∀ steps fields st, hasFields env fields v = true → OnlyOverflow (encFields env steps fields v st))

theorem find_mem' {env : Env} {id : String} {td : TyDecl} (h : env.find id = some td) : ∃ k, (k, td) ∈ env := by
  induction env with
  | nil => simp [Env.find] at h
  | cons p rest ih =>
    obtain ⟨k, d⟩ := p
    simp only [Env.find] at h
    split at h
    · simp at h; exact ⟨k, by simp [h]⟩
    · obtain ⟨k', hk⟩ := ih h; exact ⟨k', by simp [hk]⟩

theorem hasTy_named_shape (env : Env) (id : String) (v : Val) (h : hasTy env (.named id) v = true) :
    (∃ x, v = .list x) ∨ (∃ i x, v = .ctor i x) := by
  unfold hasTy at h
  split at h
  · simp at h
  · cases v <;> simp at h ⊢
  · cases v <;> simp at h ⊢

theorem hasTy_leaf_prim (env : Env) (v : Val)
    (hv : v = .unit ∨ (∃ b, v = .bool b) ∨ (∃ n, v = .int n) ∨ (∃ x, v = .str x) ∨ (∃ x, v = .bytes x) ∨ (∃ a c, v = .dur a c))
    (ty : Ty) (h : hasTy env ty v = true) : ∃ p, ty = .prim p := by
  cases ty with
  | prim p => exact ⟨p, rfl⟩
  | named id =>
    rcases hasTy_named_shape env id v h with ⟨x, rfl⟩ | ⟨i, x, rfl⟩ <;> simp at hv
  | _ => rcases hv with rfl | ⟨b, rfl⟩ | ⟨n, rfl⟩ | ⟨x, rfl⟩ | ⟨x, rfl⟩ | ⟨a, c, rfl⟩ <;> simp [hasTy] at h

theorem encT_leaf (env : Env) (v : Val)
    (hleaf : ∀ ty, hasTy env ty v = true → ∃ p, ty = .prim p)
    (h1 : ∀ t, hasItems env t v = false) (h2 : ∀ fs, hasTuple env fs v = false) (h3 : ∀ fields, hasFields env fields v = false) :
    EncT env v := by
  refine ⟨?_, fun t st h => (by rw [h1] at h; cases h), fun fs st h => (by rw [h2] at h; cases h),
    fun steps fields st h => (by rw [h3] at h; cases h)⟩
  intro ty st h
  obtain ⟨p, rfl⟩ := hleaf ty h
  have hp : primOK p v = true := by simpa [hasTy] using h
  have : enc env (.prim p) v st = encPrim p v st := by simp [enc]
  rw [this]; exact oo_encPrim p v st hp

theorem enc_total (env : Env) (henv : envStepsOKb env = true) : ∀ v, EncT env v := by
  have hsteps_rec : ∀ id d, env.find id = some (.record d) → d.steps.length ≤ 254 := by
    intro id d h
    obtain ⟨k, hk⟩ := find_mem' h
    have := (List.all_eq_true.mp henv) _ hk
    simpa [tyDeclStepsOKb] using this
  have hsteps_enum : ∀ id n srt cs, env.find id = some (.enum n srt cs) → ∀ c ∈ cs, c.decl.steps.length ≤ 254 := by
    intro id n srt cs h c hc
    obtain ⟨k, hk⟩ := find_mem' h
    have := (List.all_eq_true.mp henv) _ hk
    simp only [tyDeclStepsOKb, List.all_eq_true, decide_eq_true_eq] at this
    exact this c hc
  intro v
  induction v with
  | unit => exact encT_leaf env _ (hasTy_leaf_prim env _ (by simp)) (by simp [hasItems]) (by intro fs; cases fs <;> simp [hasTuple]) (by intro f; cases f <;> simp [hasFields])
  | bool b => exact encT_leaf env _ (hasTy_leaf_prim env _ (by simp)) (by simp [hasItems]) (by intro fs; cases fs <;> simp [hasTuple]) (by intro f; cases f <;> simp [hasFields])
  | int n => exact encT_leaf env _ (hasTy_leaf_prim env _ (by simp)) (by simp [hasItems]) (by intro fs; cases fs <;> simp [hasTuple]) (by intro f; cases f <;> simp [hasFields])
  | str bs => exact encT_leaf env _ (hasTy_leaf_prim env _ (by simp)) (by simp [hasItems]) (by intro fs; cases fs <;> simp [hasTuple]) (by intro f; cases f <;> simp [hasFields])
  | bytes bs => exact encT_leaf env _ (hasTy_leaf_prim env _ (by simp)) (by simp [hasItems]) (by intro fs; cases fs <;> simp [hasTuple]) (by intro f; cases f <;> simp [hasFields])
  | dur a c => exact encT_leaf env _ (hasTy_leaf_prim env _ (by simp)) (by simp [hasItems]) (by intro fs; cases fs <;> simp [hasTuple]) (by intro f; cases f <;> simp [hasFields])
  | none =>
    refine ⟨?_, fun t st h => (by simp [hasItems] at h), fun fs st h => (by cases fs <;> simp [hasTuple] at h),
      fun steps fields st h => (by cases fields <;> simp [hasFields] at h)⟩
    intro ty st h
    cases ty with
    | option t => simp only [enc]; exact oo_ok _
    | prim p => have : primOK p .none = true := by simpa [hasTy] using h
                cases p <;> simp [primOK] at this
    | named id => rcases hasTy_named_shape env id _ h with ⟨x, hx⟩ | ⟨i, x, hx⟩ <;> cases hx
    | _ => simp [hasTy] at h
  | some x ih =>
    refine ⟨?_, fun t st h => (by simp [hasItems] at h), fun fs st h => (by cases fs <;> simp [hasTuple] at h),
      fun steps fields st h => (by cases fields <;> simp [hasFields] at h)⟩
    intro ty st h
    cases ty with
    | option t =>
      simp only [enc]
      exact oo_bind _ _ (ih.1 t st (by simpa [hasTy] using h)) (fun _ _ => oo_ok _)
    | prim p => have : primOK p (.some x) = true := by simpa [hasTy] using h
                cases p <;> simp [primOK] at this
    | named id => rcases hasTy_named_shape env id _ h with ⟨y, hy⟩ | ⟨i, y, hy⟩ <;> cases hy
    | _ => simp [hasTy] at h
  | ok x ih =>
    refine ⟨?_, fun t st h => (by simp [hasItems] at h), fun fs st h => (by cases fs <;> simp [hasTuple] at h),
      fun steps fields st h => (by cases fields <;> simp [hasFields] at h)⟩
    intro ty st h
    cases ty with
    | result a e =>
      simp only [enc]
      exact oo_bind _ _ (ih.1 a st (by simpa [hasTy] using h)) (fun _ _ => oo_ok _)
    | prim p => have : primOK p (.ok x) = true := by simpa [hasTy] using h
                cases p <;> simp [primOK] at this
    | named id => rcases hasTy_named_shape env id _ h with ⟨y, hy⟩ | ⟨i, y, hy⟩ <;> cases hy
    | _ => simp [hasTy] at h
  | error x ih =>
    refine ⟨?_, fun t st h => (by simp [hasItems] at h), fun fs st h => (by cases fs <;> simp [hasTuple] at h),
      fun steps fields st h => (by cases fields <;> simp [hasFields] at h)⟩
    intro ty st h
    cases ty with
    | result a e =>
      simp only [enc]
      exact oo_bind _ _ (ih.1 e st (by simpa [hasTy] using h)) (fun _ _ => oo_ok _)
    | prim p => have : primOK p (.error x) = true := by simpa [hasTy] using h
                cases p <;> simp [primOK] at this
    | named id => rcases hasTy_named_shape env id _ h with ⟨y, hy⟩ | ⟨i, y, hy⟩ <;> cases hy
    | _ => simp [hasTy] at h
  | vnil =>
    refine ⟨?_, fun t st h => (by simp only [encItems]; exact oo_ok _), ?_, ?_⟩
    · intro ty st h
      cases ty with
      | prim p => have : primOK p .vnil = true := by simpa [hasTy] using h
                  cases p <;> simp [primOK] at this
      | named id => rcases hasTy_named_shape env id _ h with ⟨y, hy⟩ | ⟨i, y, hy⟩ <;> cases hy
      | _ => simp [hasTy] at h
    · intro fs st h
      cases fs <;> simp [hasTuple] at h
      simp only [encTupleFields]; exact oo_ok _
    · intro steps fields st h
      cases fields <;> simp [hasFields] at h
      simp only [encFields]; exact oo_ok _
  | vcons x r ihx ihr =>
    refine ⟨?_, ?_, ?_, ?_⟩
    · intro ty st h
      cases ty with
      | prim p => have : primOK p (.vcons x r) = true := by simpa [hasTy] using h
                  cases p <;> simp [primOK] at this
      | named id => rcases hasTy_named_shape env id _ h with ⟨y, hy⟩ | ⟨i, y, hy⟩ <;> cases hy
      | _ => simp [hasTy] at h
    · intro t st h
      simp only [hasItems, Bool.and_eq_true] at h
      simp only [encItems]
      exact oo_bind _ _ (ihx.1 t st h.1) (fun p _ => oo_bind _ _ (ihr.2.1 t p.2 h.2) (fun _ _ => oo_ok _))
    · intro fs st h
      cases fs with
      | fcons a rest =>
        simp only [hasTuple, Bool.and_eq_true] at h
        simp only [encTupleFields]
        exact oo_bind _ _ (ihx.1 a st h.1) (fun p _ => oo_bind _ _ (ihr.2.2.1 rest p.2 h.2) (fun _ _ => oo_ok _))
      | _ => simp [hasTuple] at h
    · intro steps fields st h
      cases fields with
      | nil => simp [hasFields] at h
      | cons f fs =>
        simp only [hasFields, Bool.and_eq_true] at h
        simp only [encFields]
        cases hr : f.role with
        | transient => simp only; exact ihr.2.2.2 steps fs st h.2
        | plain =>
          simp only
          have hx : hasTy env f.ty x = true := by simpa [hr] using h.1
          exact oo_bind _ _ (ihx.1 f.ty st hx) (fun p _ => oo_bind _ _ (ihr.2.2.2 steps fs p.2 h.2) (fun _ _ => oo_ok _))
        | optional =>
          simp only
          have hx : hasTy env f.ty x = true := by simpa [hr] using h.1
          exact oo_bind _ _ (ihx.1 f.ty st hx) (fun p _ => oo_bind _ _ (ihr.2.2.2 steps fs p.2 h.2) (fun _ _ => oo_ok _))
  | list items ih =>
    refine ⟨?_, fun t st h => (by simp [hasItems] at h), fun fs st h => (by cases fs <;> simp [hasTuple] at h),
      fun steps fields st h => (by cases fields <;> simp [hasFields] at h)⟩
    intro ty st h
    cases ty with
    | prim p => have : primOK p (.list items) = true := by simpa [hasTy] using h
                cases p <;> simp [primOK] at this
    | seq t =>
      simp only [enc]
      refine oo_ite _ _ _ (fun _ => ?_) (fun _ => oo_err _)
      exact oo_bind _ _ (ih.2.1 t st (by simpa [hasTy] using h)) (fun _ _ => oo_ok _)
    | array n t =>
      simp only [hasTy, Bool.and_eq_true, decide_eq_true_eq] at h
      simp only [enc]
      rw [if_neg (by simp [h.1])]
      refine oo_ite _ _ _ (fun _ => ?_) (fun _ => oo_err _)
      exact oo_bind _ _ (ih.2.1 t st h.2) (fun _ _ => oo_ok _)
    | tuple fs =>
      simp only [enc]
      exact oo_bind _ _ (ih.2.2.1 fs st (by simpa [hasTy] using h)) (fun _ _ => oo_ok _)
    | named id =>
      unfold hasTy at h
      unfold enc
      cases hf : env.find id with
      | none => simp [hf] at h
      | some td =>
        cases td with
        | record d =>
          simp only [hf] at h ⊢
          exact oo_record env d (hsteps_rec id d hf) items st (fun st1 => ih.2.2.2 d.steps d.fields st1 h)
            (fun b s => Outcome.ok (b, s)) (fun _ _ => oo_ok _)
        | enum n srt cs => simp [hf] at h
    | _ => simp [hasTy] at h
  | ctor idx fields ih =>
    refine ⟨?_, fun t st h => (by simp [hasItems] at h), fun fs st h => (by cases fs <;> simp [hasTuple] at h),
      fun steps flds st h => (by cases flds <;> simp [hasFields] at h)⟩
    intro ty st h
    cases ty with
    | prim p => have : primOK p (.ctor idx fields) = true := by simpa [hasTy] using h
                cases p <;> simp [primOK] at this
    | named id =>
      unfold hasTy at h
      unfold enc
      cases hf : env.find id with
      | none => simp [hf] at h
      | some td =>
        cases td with
        | record d => simp [hf] at h
        | enum n srt cs =>
          simp only [hf] at h ⊢
          cases hfc : findCtorWire (wireCtors srt cs) idx with
          | none => simp [hfc] at h
          | some wc =>
            obtain ⟨w, c⟩ := wc
            simp only [hfc] at h ⊢
            refine oo_ite _ _ _ (fun _ => oo_err _) (fun _ => ?_)
            have hcm : c ∈ cs := mem_wireCtors (List.mem_of_getElem? (findCtorWire_get hfc))
            exact oo_record env c.decl (hsteps_enum id n srt cs hf c hcm) fields st
              (fun st1 => ih.2.2.2 c.decl.steps c.decl.fields st1 h)
              (fun b s => Outcome.ok (0 :: (uv w ++ b), s)) (fun _ _ => oo_ok _)
    | _ => simp [hasTy] at h
