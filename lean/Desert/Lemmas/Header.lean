import Desert.Lemmas.Misc
/-!
# Reading back an evolution header

`readHStep` on what `headerStep` / `sizeStep` wrote; then the whole header by induction over the
steps, with the string table threaded exactly as `preNames` threaded it on the writer side.
-/
set_option linter.unusedSimpArgs false
set_option linter.unusedVariables false

/-- the header step the reader sees for a chunk of `n` bytes -/
def sizeHStep (n : Nat) : HStep := if n = 0 then .unknown else .size n

theorem zz_zero : zz 0 = [0] := by decide
theorem zz_neg_one : zz (-1) = [1] := by decide
theorem zz_neg_two : zz (-2) = [3] := by decide

/-- a chunk size reads back as `size n`, or as `unknown` when the chunk is empty -/
theorem read_hstep_size (n : Nat) (hlt : n < 2 ^ 31) (s : AbsSrc) (t : Bytes) (hv : s.view = zz (n : Int) ++ t) :
    runAbs readHStep s = .ok (sizeHStep n, s.after (zz (n : Int)).length s.strs) := by
  simp only [readHStep, bind_eq_dbind, pure_eq_ret]
  rw [readVarI32_bind (inI32_natLen hlt) _ hv]
  by_cases h0 : n = 0
  · subst h0; simp [sizeHStep, runAbs]
  · have h1 : ¬ ((n : Int) = 0) := by omega
    have h2 : ¬ ((n : Int) = -1) := by omega
    have h3 : ¬ ((n : Int) = -2) := by omega
    simp [h1, h2, h3, sizeHStep, h0, runAbs]

/-- which (chunk, position) pairs survive the position byte -/
def posOK (c p : Nat) : Prop := (c = 0 ∧ p ≤ 128) ∨ (1 ≤ c ∧ c ≤ 127 ∧ p = 0)

theorem i8Of_positionByte {α : Type} (f : HStep → α) (c p : Nat) (h : posOK c p) :
    (if i8Of (positionByte c p) < 0 then f (HStep.madeOptional 0 (i8Of (positionByte c p)).natAbs)
     else f (HStep.madeOptional (i8Of (positionByte c p)).toNat 0)) = f (HStep.madeOptional c p) := by
  rcases h with ⟨rfl, hp⟩ | ⟨h1, h2, rfl⟩
  · simp only [positionByte, if_true]
    by_cases hp0 : p = 0
    · subst hp0
      have : i8Of (byteOf ((256 - 0 % 256) % 256)) = 0 := by decide
      simp [this]
    · have hb : (byteOf ((256 - p % 256) % 256)).toNat = 256 - p := by
        rw [byteOf_toNat]; omega
      unfold i8Of toSigned
      rw [hb]
      have : ¬ (2 * (256 - p) < 256 ^ 1) := by omega
      simp only [this, if_false]
      have hneg : ((256 - p : Nat) : Int) - ((256 ^ 1 : Nat) : Int) < 0 := by omega
      simp only [hneg, if_true]
      congr 2
      omega
  · have hc : ¬ (c = 0) := by omega
    simp only [positionByte, hc, if_false]
    have hb : (byteOf c).toNat = c := byteOf_toNat_lt (by omega)
    unfold i8Of toSigned
    rw [hb]
    have : 2 * c < 256 ^ 1 := by omega
    simp only [this, if_true]
    have hnn : ¬ ((c : Int) < 0) := by omega
    simp [hnn]

/-- a made-optional entry reads back with its position -/
theorem read_hstep_opt (c p : Nat) (h : posOK c p) (s : AbsSrc) (t : Bytes)
    (hv : s.view = zz (-1) ++ [positionByte c p] ++ t) :
    runAbs readHStep s = .ok (.madeOptional c p, s.after 2 s.strs) := by
  simp only [readHStep, bind_eq_dbind, pure_eq_ret]
  have hv' : s.view = zz (-1) ++ (positionByte c p :: t) := by simpa using hv
  rw [readVarI32_bind (by unfold inI32; omega) _ hv']
  simp only [show ¬ ((-1 : Int) = 0) by omega, if_false, if_true]
  have hv1 : (s.after (zz (-1)).length s.strs).view = positionByte c p :: t := view_after_append hv' _
  rw [readU8_bind' _ hv1]
  rw [i8Of_positionByte (fun x => DProg.ret x) c p h]
  simp [runAbs, zz_neg_one]

/-- a removed-field entry reads back with its name, and the reader's string table follows the writer's -/
theorem read_hstep_removed (name : Bytes) (st : EncSt) (b : Bytes) (st' : EncSt)
    (he : encDString name st = .ok (b, st')) (hu : validUtf8 name = true) (hst : StOK st)
    (s : AbsSrc) (t : Bytes) (hw : s.WF) (hv : s.view = zz (-2) ++ b ++ t) (hs : s.strs = st) :
    runAbs readHStep s = .ok (.removed name, s.after (zz (-2) ++ b).length st') ∧ StOK st' := by
  have hv' : s.view = zz (-2) ++ (b ++ t) := by simpa using hv
  have hw1 := WF_after hw hv' s.strs
  have hv1 : (s.after (zz (-2)).length s.strs).view = b ++ t := view_after_append hv' _
  have he' : encPrim .dstring (.str name) st = .ok (b, st') := by simpa [encPrim] using he
  have hrt := rt_prim .dstring (.str name) st b st' he' (by simpa [Val.utf8OK] using hu) hst _ t hw1 hv1 (by simpa using hs)
  refine ⟨?_, hrt.2⟩
  simp only [readHStep, bind_eq_dbind, pure_eq_ret]
  rw [readVarI32_bind (by unfold inI32; omega) _ hv']
  simp only [show ¬ ((-2 : Int) = 0) by omega, show ¬ ((-2 : Int) = -1) by omega, if_false, if_true]
  rw [runAbs_bind, hrt.1]
  simp [runAbs, Nat.add_comm]

/-! ## the whole header -/

def stepName : Step → String
  | .added n => n
  | .madeOptional n => n
  | .removed n => n
  | .madeTransient n => n

/-- the header step the reader must see for evolution step `s` at index `k` -/
def expectedHStep (fs : List EncField) (removed : List String) (k : Nat) : Step → HStep
  | .added _ => sizeHStep (chunkBytes fs k).length
  | .removed n => .removed (nameBytes n)
  | .madeTransient n => .removed (nameBytes n)
  | .madeOptional n =>
    if n ∈ removed then .removed (nameBytes n)
    else match fieldIndex fs n with
      | some (c, p) => .madeOptional c p
      | none => .unknown

def expectedHSteps (fs : List EncField) (removed : List String) : Nat → List Step → List HStep
  | _, [] => []
  | k, s :: rest => expectedHStep fs removed k s :: expectedHSteps fs removed (k + 1) rest

/-- what the declaration must satisfy for its header to be readable -/
structure HeaderOK (fs : List EncField) (removed : List String) (steps : List Step) : Prop where
  utf8 : ∀ s ∈ steps, validUtf8 (nameBytes (stepName s)) = true
  pos : ∀ n c p, Step.madeOptional n ∈ steps → n ∉ removed → fieldIndex fs n = some (c, p) → posOK c p

theorem HeaderOK.tail {fs : List EncField} {removed : List String} {s : Step} {rest : List Step}
    (h : HeaderOK fs removed (s :: rest)) : HeaderOK fs removed rest :=
  ⟨fun x hx => h.utf8 x (by simp [hx]), fun n c p hm => h.pos n c p (by simp [hm])⟩

theorem read_header_steps (fs : List EncField) (removed : List String) :
    ∀ (steps : List Step) (k : Nat) (st : EncSt) (pre : List (Option Bytes)) (st1 : EncSt) (hb : Bytes),
      preNames steps removed st = .ok (pre, st1) → headerSteps fs k steps pre = .ok hb →
      HeaderOK fs removed steps → StOK st →
      ∀ (s : AbsSrc) (t : Bytes), s.WF → s.view = hb ++ t → s.strs = st →
        runAbs (readHSteps steps.length) s = .ok (expectedHSteps fs removed k steps, s.after hb.length st1) ∧ StOK st1 := by
  intro steps
  induction steps with
  | nil =>
    intro k st pre st1 hb hp hh hok hst s t hw hv hs
    simp [preNames] at hp
    simp [headerSteps] at hh
    obtain ⟨rfl, rfl⟩ := hp
    subst hh
    subst hs
    simp [readHSteps, runAbs, expectedHSteps, hst, after_zero_self]
  | cons sp rest ih =>
    intro k st pre st1 hb hp hh hok hst s t hw hv hs
    simp only [preNames] at hp
    simp only [headerSteps] at hh
    simp only [List.length_cons, readHSteps, bind_eq_dbind, pure_eq_ret, expectedHSteps]
    split at hp
    · -- no pre-serialized name: `added`, or `madeOptional` of a field that is still written
      rename_i hnone
      cases hr : preNames rest removed st with
      | ok p =>
        obtain ⟨l, st'⟩ := p
        simp [hr] at hp
        obtain ⟨rfl, rfl⟩ := hp
        have e1 : (none :: l).head?.join = (none : Option Bytes) := rfl
        have e2 : (none :: l).tail = l := rfl
        rw [e1, e2] at hh
        cases h1 : headerStep fs k sp none with
        | ok b1 =>
          simp only [h1, Outcome.bind_ok] at hh
          cases h2 : headerSteps fs (k + 1) rest l with
          | ok b2 =>
            simp [h2] at hh
            subst hh
            have hv' : s.view = b1 ++ (b2 ++ t) := by simpa using hv
            -- the single step
            have hstep : runAbs readHStep s = .ok (expectedHStep fs removed k sp, s.after b1.length s.strs) := by
              cases sp with
              | added n =>
                simp only [headerStep, sizeStep] at h1
                split at h1
                · rename_i hlt
                  simp at h1; subst h1
                  simpa [expectedHStep] using read_hstep_size _ hlt s (b2 ++ t) hv'
                · simp at h1
              | madeOptional n =>
                have hnr : n ∉ removed := by
                  intro hmem; simp [hmem] at hnone
                simp only [headerStep] at h1
                cases hfi : fieldIndex fs n with
                | some cp =>
                  obtain ⟨c, p⟩ := cp
                  simp [hfi] at h1; subst h1
                  have := read_hstep_opt c p (hok.pos n c p (by simp) hnr hfi) s (b2 ++ t) (by simpa using hv')
                  simpa [expectedHStep, hnr, hfi, zz_neg_one] using this
                | none => simp [hfi] at h1
              | removed n => simp at hnone
              | madeTransient n => simp at hnone
            have hw1 := WF_after hw hv' s.strs
            have hv1 := view_after_append hv' s.strs
            have hrest := ih (k + 1) st l st' b2 hr h2 hok.tail hst _ t hw1 hv1 (by simpa using hs)
            rw [runAbs_bind, hstep]
            simp only [Outcome.bindS_ok]
            rw [runAbs_bind, hrest.1]
            simp [runAbs, hrest.2]
          | err e => simp [h2] at hh
          | panic w => simp [h2] at hh
        | err e => simp [h1] at hh
        | panic w => simp [h1] at hh
      | err e => simp [hr] at hp
      | panic w => simp [hr] at hp
    · -- a pre-serialized name: written in the removed form
      rename_i nm hsome
      cases hd : encDString (nameBytes nm) st with
      | ok p0 =>
        obtain ⟨b0, st0⟩ := p0
        rw [hd] at hp
        simp only [Outcome.bind_ok] at hp
        cases hr : preNames rest removed st0 with
        | ok p =>
          obtain ⟨l, st'⟩ := p
          simp [hr] at hp
          obtain ⟨rfl, rfl⟩ := hp
          have e1 : (some b0 :: l).head?.join = some b0 := rfl
          have e2 : (some b0 :: l).tail = l := rfl
          rw [e1, e2] at hh
          have h1 : headerStep fs k sp (some b0) = .ok (zz (-2) ++ b0) := by simp [headerStep]
          simp only [h1, Outcome.bind_ok] at hh
          cases h2 : headerSteps fs (k + 1) rest l with
          | ok b2 =>
            simp [h2] at hh
            subst hh
            have hv' : s.view = zz (-2) ++ b0 ++ (b2 ++ t) := by simpa using hv
            have hnm : stepName sp = nm ∧ expectedHStep fs removed k sp = .removed (nameBytes nm) := by
              cases sp with
              | added n => simp at hsome
              | madeOptional n =>
                by_cases hmem : n ∈ removed
                · simp [hmem] at hsome; subst hsome; simp [stepName, expectedHStep, hmem]
                · simp [hmem] at hsome
              | removed n => simp at hsome; subst hsome; simp [stepName, expectedHStep]
              | madeTransient n => simp at hsome; subst hsome; simp [stepName, expectedHStep]
            have hutf : validUtf8 (nameBytes nm) = true := by
              have := hok.utf8 sp (by simp); rwa [hnm.1] at this
            have hstep := read_hstep_removed (nameBytes nm) st b0 st0 hd hutf hst s (b2 ++ t) hw hv' hs
            have hvv : s.view = (zz (-2) ++ b0) ++ (b2 ++ t) := by simpa using hv'
            have hw1 := WF_after hw hvv st0
            have hv1 := view_after_append hvv st0
            have hrest := ih (k + 1) st0 l st' b2 hr h2 hok.tail hstep.2 _ t hw1 hv1 (by simp)
            rw [runAbs_bind, hstep.1]
            simp only [Outcome.bindS_ok]
            rw [runAbs_bind, hrest.1]
            simp [runAbs, hrest.2, hnm.2, Nat.add_assoc]
          | err e => simp [h2] at hh
          | panic w => simp [h2] at hh
        | err e => simp [hr] at hp
        | panic w => simp [hr] at hp
      | err e => rw [hd] at hp; simp at hp
      | panic w => rw [hd] at hp; simp at hp
