import Desert.Decode
/-!
# Helper lemmas about the abstract interpreter (`runAbs`)

Never property statements; those live in `Desert/Props/`.
-/

/-- sequencing of outcomes that carry a state -/
def Outcome.bindS {α β σ : Type} : Outcome (α × σ) → (α → σ → Outcome (β × σ)) → Outcome (β × σ)
  | .ok (a, s), f => f a s
  | .err e, _ => .err e
  | .panic w, _ => .panic w

@[simp] theorem Outcome.bindS_ok {α β σ : Type} (a : α) (s : σ) (f : α → σ → Outcome (β × σ)) :
    (Outcome.ok (a, s)).bindS f = f a s := rfl
@[simp] theorem Outcome.bindS_err {α β σ : Type} (e : Err) (f : α → σ → Outcome (β × σ)) :
    (Outcome.err e : Outcome (α × σ)).bindS f = .err e := rfl
@[simp] theorem Outcome.bindS_panic {α β σ : Type} (w : String) (f : α → σ → Outcome (β × σ)) :
    (Outcome.panic w : Outcome (α × σ)).bindS f = .panic w := rfl

theorem runAbs_bind {α β : Type} (p : DProg α) (f : α → DProg β) :
    ∀ s, runAbs (p.bind f) s = (runAbs p s).bindS (fun a s' => runAbs (f a) s') := by
  induction p with
  | ret a => intro s; simp [DProg.bind, runAbs]
  | fail e => intro s; simp [DProg.bind, runAbs]
  | panic w => intro s; simp [DProg.bind, runAbs]
  | readU8 k ih => intro s; simp only [DProg.bind, runAbs]; split <;> simp [ih]
  | readBytes n k ih => intro s; simp only [DProg.bind, runAbs]; split <;> simp [ih]
  | skip n k ih => intro s; simp only [DProg.bind, runAbs]; split <;> simp [ih]
  | pos k ih => intro s; simp only [DProg.bind, runAbs, ih]
  | push r k ih => intro s; simp only [DProg.bind, runAbs]; split <;> simp [ih]
  | pop k ih => intro s; simp only [DProg.bind, runAbs]; split <;> simp [ih]
  | strGet i k ih => intro s; simp only [DProg.bind, runAbs, ih]
  | strPut x k ih => intro s; simp only [DProg.bind, runAbs, ih]

theorem runCtx_bind {α β : Type} (p : DProg α) (f : α → DProg β) :
    ∀ c, runCtx (p.bind f) c = (runCtx p c).bindS (fun a c' => runCtx (f a) c') := by
  induction p with
  | ret a => intro s; simp [DProg.bind, runCtx]
  | fail e => intro s; simp [DProg.bind, runCtx]
  | panic w => intro s; simp [DProg.bind, runCtx]
  | readU8 k ih => intro s; simp only [DProg.bind, runCtx]; repeat (split <;> try simp [ih])
  | readBytes n k ih => intro s; simp only [DProg.bind, runCtx]; repeat (split <;> try simp [ih])
  | skip n k ih => intro s; simp only [DProg.bind, runCtx]; repeat (split <;> try simp [ih])
  | pos k ih => intro s; simp only [DProg.bind, runCtx, ih]
  | push r k ih => intro s; simp only [DProg.bind, runCtx]; split <;> simp [ih]
  | pop k ih => intro s; simp only [DProg.bind, runCtx]; repeat (split <;> try simp [ih])
  | strGet i k ih => intro s; simp only [DProg.bind, runCtx, ih]
  | strPut x k ih => intro s; simp only [DProg.bind, runCtx, ih]

@[simp] theorem bind_eq_dbind {α β : Type} (p : DProg α) (f : α → DProg β) : (p >>= f) = p.bind f := rfl
@[simp] theorem pure_eq_ret {α : Type} (a : α) : (pure a : DProg α) = .ret a := rfl

/-! ## views -/

def AbsSrc.view (s : AbsSrc) : Bytes := s.cur.window.drop s.cur.pos
def AbsSrc.adv (s : AbsSrc) (n : Nat) : AbsSrc := { s with cur := { s.cur with pos := s.cur.pos + n } }

@[simp] theorem AbsSrc.adv_zero (s : AbsSrc) : s.adv 0 = s := by simp [AbsSrc.adv]

theorem view_cons {s : AbsSrc} {b : Byte} {t : Bytes} (h : s.view = b :: t) :
    s.cur.window[s.cur.pos]? = some b ∧ (s.adv 1).view = t := by
  unfold AbsSrc.view at h
  constructor
  · have := congrArg (·[0]?) h; simpa [List.getElem?_drop] using this
  · simp only [AbsSrc.view, AbsSrc.adv]
    rw [← List.drop_drop, h]; rfl

theorem view_adv (s : AbsSrc) (n : Nat) : (s.adv n).view = s.view.drop n := by
  simp [AbsSrc.view, AbsSrc.adv, List.drop_drop, Nat.add_comm]

@[simp] theorem adv_adv (s : AbsSrc) (n m : Nat) : (s.adv n).adv m = s.adv (n + m) := by
  simp [AbsSrc.adv, Nat.add_assoc]

@[simp] theorem adv_strs (s : AbsSrc) (n : Nat) : (s.adv n).strs = s.strs := rfl
@[simp] theorem adv_stack (s : AbsSrc) (n : Nat) : (s.adv n).stack = s.stack := rfl

theorem view_len (s : AbsSrc) : s.view.length = s.cur.window.length - s.cur.pos := by
  simp [AbsSrc.view]

theorem view_append_adv {s : AbsSrc} {b t : Bytes} (h : s.view = b ++ t) : (s.adv b.length).view = t := by
  rw [view_adv, h]; simp

theorem run_readU8 {s : AbsSrc} {b : Byte} {t : Bytes} (h : s.view = b :: t) :
    runAbs readU8 s = .ok (b, s.adv 1) := by
  simp [readU8, runAbs, (view_cons h).1, AbsSrc.adv]

theorem run_readU8_eof {s : AbsSrc} (h : s.view = []) : runAbs readU8 s = .err .inputEnded := by
  have : s.cur.window[s.cur.pos]? = none := by
    unfold AbsSrc.view at h
    have := congrArg List.length h
    simp at this
    simp; omega
  simp [readU8, runAbs, this]

/-- the cursor is inside its window (an invariant of every reachable source state) -/
def AbsSrc.WF (s : AbsSrc) : Prop := s.cur.pos ≤ s.cur.window.length

theorem AbsSrc.WF_adv {s : AbsSrc} (hw : s.WF) {b t : Bytes} (h : s.view = b ++ t) : (s.adv b.length).WF := by
  have := congrArg List.length h
  simp [view_len] at this
  simp [AbsSrc.WF, AbsSrc.adv] at *; omega

theorem AbsSrc.WF_adv1 {s : AbsSrc} (hw : s.WF) {b : Byte} {t : Bytes} (h : s.view = b :: t) : (s.adv 1).WF :=
  AbsSrc.WF_adv hw (b := [b]) (by simpa using h)

theorem run_readBytes {s : AbsSrc} (hw : s.WF) {b t : Bytes} (h : s.view = b ++ t) :
    runAbs (readBytes b.length) s = .ok (b, s.adv b.length) := by
  have hl : s.cur.pos + b.length ≤ s.cur.window.length := by
    have := congrArg List.length h
    simp [view_len] at this; unfold AbsSrc.WF at hw; omega
  have hb : (s.cur.window.drop s.cur.pos).take b.length = b := by
    have : s.cur.window.drop s.cur.pos = b ++ t := h
    rw [this]; simp
  simp [readBytes, runAbs, hl, hb, AbsSrc.adv]

theorem run_skip {s : AbsSrc} (hw : s.WF) {n : Nat} (h : n ≤ s.view.length) :
    runAbs (skipN n) s = .ok ((), s.adv n) := by
  have : s.cur.pos + n ≤ s.cur.window.length := by rw [view_len] at h; unfold AbsSrc.WF at hw; omega
  simp [skipN, runAbs, this, AbsSrc.adv]
