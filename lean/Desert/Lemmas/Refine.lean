import Desert.Lemmas.Run
/-!
# The faithful context refines the abstract source

For *every* decoder program (induction on the operation tree): under the context invariant, a run
over the transcription of `DeserializationContext`'s region arithmetic is simulated by the run over
list windows. The proof obligations of this file are exactly "the region arithmetic is right".
-/
set_option linter.unusedSimpArgs false

/-- abstraction of one resolved region -/
def win (input : Bytes) (r : RR) : Win :=
  { off := r.start - r.delta, window := (input.drop r.start).take r.end_, pos := r.pos }

def absCtx (c : Ctx) : AbsSrc :=
  { cur := win c.input c.cur, stack := c.stack.map (win c.input), strs := c.strs }

def RR.ok (input : Bytes) (r : RR) : Prop :=
  r.start + r.end_ ≤ input.length ∧ r.pos ≤ r.end_ ∧ r.delta ≤ r.start

/-- the context invariant: every region (current and stacked) lies inside the input and its
cursor inside the region -/
def Ctx.Inv (c : Ctx) : Prop := c.cur.ok c.input ∧ ∀ r ∈ c.stack, r.ok c.input

theorem Ctx.new_Inv (b : Bytes) : (Ctx.new b).Inv := by
  simp [Ctx.new, Ctx.Inv, RR.ok]

theorem absCtx_new (b : Bytes) : absCtx (Ctx.new b) = AbsSrc.new b := by
  simp [absCtx, Ctx.new, AbsSrc.new, win]

/-- simulation: equal results and related final states; an abstract panic ("region escapes its
window", unbalanced pop, or a panic node of the program) relates to anything -/
def Sim {α : Type} (input : Bytes) : Outcome (α × Ctx) → Outcome (α × AbsSrc) → Prop
  | .ok (a, c'), .ok (a', s') => a = a' ∧ c'.input = input ∧ c'.Inv ∧ absCtx c' = s'
  | .err e, .err e' => e = e'
  | _, .panic _ => True
  | _, _ => False

theorem win_len (input : Bytes) (r : RR) (h : r.ok input) : (win input r).window.length = r.end_ := by
  simp [win, List.length_take, List.length_drop]; have := h.1; omega

theorem take_drop_take (l : Bytes) (a b c d : Nat) (h : c + d ≤ b) :
    (((l.drop a).take b).drop c).take d = (l.drop (a + c)).take d := by
  rw [List.drop_take, List.take_take, List.drop_drop]
  congr 1
  omega

theorem refine {α : Type} (p : DProg α) :
    ∀ (c : Ctx), c.Inv → Sim c.input (runCtx p c) (runAbs p (absCtx c)) := by
  induction p with
  | ret a => intro c h; simp [runCtx, runAbs, Sim, h]
  | fail e => intro c h; simp [runCtx, runAbs, Sim]
  | panic w => intro c h; simp [runCtx, runAbs, Sim]
  | readU8 k ih =>
    intro c h
    obtain ⟨⟨h1, h2, h3⟩, hs⟩ := h
    simp only [runCtx, runAbs]
    by_cases hp : c.cur.pos = c.cur.end_
    · simp [hp, absCtx, win, Sim]
      have : (List.take c.cur.end_ (List.drop c.cur.start c.input))[c.cur.end_]? = none := by
        simp [List.getElem?_take]
      simp [this]
    · have hlt : c.cur.pos < c.cur.end_ := by omega
      have hidx : c.cur.start + c.cur.pos < c.input.length := by omega
      simp only [hp, if_false]
      have e1 : c.input[c.cur.start + c.cur.pos]? = some c.input[c.cur.start + c.cur.pos] := by simp [hidx]
      have e2 : (absCtx c).cur.window[(absCtx c).cur.pos]? = some c.input[c.cur.start + c.cur.pos] := by
        simp [absCtx, win, hlt, List.getElem?_drop, hidx]
      rw [e1, e2]
      simp only
      have := ih (c.input[c.cur.start + c.cur.pos]) { c with cur := { c.cur with pos := c.cur.pos + 1 } }
        ⟨⟨h1, by simp; omega, h3⟩, hs⟩
      simpa [absCtx, win] using this
  | readBytes n k ih =>
    intro c h
    obtain ⟨⟨h1, h2, h3⟩, hs⟩ := h
    have hl := win_len c.input c.cur ⟨h1, h2, h3⟩
    simp only [runCtx, runAbs]
    have hnp : ¬ (c.cur.end_ < c.cur.pos) := by omega
    simp only [hnp, if_false]
    by_cases hp : n > c.cur.end_ - c.cur.pos
    · have : ¬ ((absCtx c).cur.pos + n ≤ (absCtx c).cur.window.length) := by
        simp only [absCtx]; rw [hl]; simp [win]; omega
      simp [hp, this, Sim]
    · have h3' : ¬ (c.cur.start + c.cur.pos + n > c.input.length) := by omega
      have : (absCtx c).cur.pos + n ≤ (absCtx c).cur.window.length := by
        simp only [absCtx]; rw [hl]; simp [win]; omega
      simp only [hp, h3', this, if_true, if_false]
      have e : ((absCtx c).cur.window.drop (absCtx c).cur.pos).take n
          = (c.input.drop (c.cur.start + c.cur.pos)).take n := by
        simp only [absCtx, win]
        exact take_drop_take c.input c.cur.start c.cur.end_ c.cur.pos n (by omega)
      rw [e]
      have := ih ((c.input.drop (c.cur.start + c.cur.pos)).take n)
        { c with cur := { c.cur with pos := c.cur.pos + n } } ⟨⟨h1, by simp; omega, h3⟩, hs⟩
      simpa [absCtx, win] using this
  | skip n k ih =>
    intro c h
    obtain ⟨⟨h1, h2, h3⟩, hs⟩ := h
    have hl := win_len c.input c.cur ⟨h1, h2, h3⟩
    simp only [runCtx, runAbs]
    have hnp : ¬ (c.cur.end_ < c.cur.pos) := by omega
    simp only [hnp, if_false]
    by_cases hp : n > c.cur.end_ - c.cur.pos
    · have : ¬ ((absCtx c).cur.pos + n ≤ (absCtx c).cur.window.length) := by
        simp only [absCtx]; rw [hl]; simp [win]; omega
      simp [hp, this, Sim]
    · have : (absCtx c).cur.pos + n ≤ (absCtx c).cur.window.length := by
        simp only [absCtx]; rw [hl]; simp [win]; omega
      simp only [hp, this, if_true, if_false]
      have := ih () { c with cur := { c.cur with pos := c.cur.pos + n } } ⟨⟨h1, by simp; omega, h3⟩, hs⟩
      simpa [absCtx, win] using this
  | pos k ih => intro c h; simpa [runCtx, runAbs, absCtx, win] using ih c.cur.pos c h
  | push r k ih =>
    intro c h
    obtain ⟨⟨h1, h2, h3⟩, hs⟩ := h
    have hl := win_len c.input c.cur ⟨h1, h2, h3⟩
    simp only [runCtx, runAbs]
    by_cases hg : r.start ≤ r.end_ ∧ r.end_ ≤ (absCtx c).cur.window.length ∧ r.start + r.pos ≤ r.end_
    · simp only [hg, and_self, if_true]
      have hg1 : r.end_ ≤ c.cur.end_ := by
        have := hg.2.1; simp only [absCtx] at this; rw [hl] at this; exact this
      have hnp : ¬ (r.end_ < r.start) := by omega
      simp only [hnp, if_false]
      have hinv : Ctx.Inv { c with
          cur := { start := c.cur.start + r.start, pos := r.pos, end_ := r.end_ - r.start, delta := c.cur.start },
          stack := c.cur :: c.stack } := by
        refine ⟨⟨by simp; omega, by simp; omega, by simp⟩, ?_⟩
        intro x hx
        simp at hx
        rcases hx with rfl | hx
        · exact ⟨h1, h2, h3⟩
        · exact hs x hx
      have := ih () _ hinv
      have e : (((c.input.drop c.cur.start).take c.cur.end_).drop r.start).take (r.end_ - r.start)
          = (c.input.drop (c.cur.start + r.start)).take (r.end_ - r.start) :=
        take_drop_take _ _ _ _ _ (by omega)
      simpa [absCtx, win, e] using this
    · simp [hg, Sim]
  | pop k ih =>
    intro c h
    obtain ⟨⟨h1, h2, h3⟩, hs⟩ := h
    have hl := win_len c.input c.cur ⟨h1, h2, h3⟩
    simp only [runCtx, runAbs]
    cases hst : c.stack with
    | nil => simp [absCtx, hst, Sim]
    | cons w rest =>
      have hw : w.ok c.input := hs w (by simp [hst])
      have hinv : Ctx.Inv { c with cur := w, stack := rest } := ⟨hw, fun x hx => hs x (by simp [hst, hx])⟩
      have hnd : ¬ (c.cur.start < c.cur.delta) := by omega
      simp only [hnd, if_false]
      have := ih { start := c.cur.start - c.cur.delta, pos := c.cur.pos,
                   end_ := c.cur.start - c.cur.delta + c.cur.end_ } _ hinv
      simp only [absCtx, hst, List.map_cons]
      simp only [absCtx] at this hl
      rw [hl]
      simpa [win] using this
  | strGet i k ih =>
    intro c h
    simpa [runCtx, runAbs, absCtx] using ih (strLookup c.strs i) c h
  | strPut x k ih =>
    intro c h
    have := ih () { c with strs := strInsert c.strs x } h
    simpa [runCtx, runAbs, absCtx] using this
