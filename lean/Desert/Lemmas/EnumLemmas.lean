import Desert.Lemmas.Misc
/-!
# Enum lemmas: byte layout, index lookup, errors
-/
set_option linter.unusedSimpArgs false
set_option linter.unusedVariables false

/-- how an enum value is encoded, spelled out -/
theorem enc_enum_unfold (env : Env) (id n : String) (srt : Bool) (cs : List Ctor) (idx : Nat) (fields : Val) (st : EncSt)
    (hfind : env.find id = some (.enum n srt cs)) :
    enc env (.named id) (.ctor idx fields) st =
      match findCtorWire (wireCtors srt cs) idx with
      | none => illTyped
      | some (w, c) =>
        if c.transient then .err (.serTransientCtor n c.name)
        else
          (recordPre c.decl st).bind fun (pre, st1) =>
          (encFields env c.decl.steps c.decl.fields fields st1).bind fun (fs, st2) =>
          (recordFinish c.decl pre fs).bind fun b => .ok (0 :: (uv w ++ b), st2) := by
  unfold enc
  simp only [hfind]
  cases findCtorWire (wireCtors srt cs) idx with
  | none => rfl
  | some wc => obtain ⟨w, c⟩ := wc; rfl

/-- reading the head of an enum: version byte 0, constructor index, lookup -/
theorem readEnum_head (decT : Ty → DProg Val) (n : String) (srt : Bool) (cs : List Ctor) (w : Nat) (hw : w < 2 ^ 32)
    (s : AbsSrc) (rest : Bytes) (hv : s.view = 0 :: (uv w ++ rest)) :
    runAbs (readEnum decT n srt cs) s =
      match (wireCtors srt cs)[w]? with
      | none => .err (.invalidCtorId w n)
      | some (declIdx, c) =>
        if c.transient then .err (.deserTransientCtor n c.name)
        else
          (runAbs (readRecord c.decl.steps (declDecs decT c.decl)) (s.after (1 + (uv w).length) s.strs)).bindS
            fun v s' => match v with
              | .list fields => .ok (.ctor declIdx fields, s')
              | _ => .panic "unreachable" := by
  have hv1 : (s.after 1 s.strs).view = uv w ++ rest := by
    have := (view_cons hv).2; simpa [adv_eq_after] using this
  simp only [readEnum, bind_eq_dbind, pure_eq_ret]
  rw [readU8_bind' _ hv]
  simp only [show (0 : Byte).toNat = 0 by decide, recNew_v0, DProg.bind, inChunk, List.isEmpty_nil,
    if_true, bind_eq_dbind, pure_eq_ret]
  rw [runAbs_bind, runAbs_bind, run_readVarU32 hw hv1]
  simp only [Outcome.bindS_ok, runAbs, adv_eq_after, after_after, List.isEmpty_nil, if_true, after_strs]
  cases hg : (wireCtors srt cs)[w]? with
  | none => simp [runAbs]
  | some ic =>
    obtain ⟨i, c⟩ := ic
    simp only
    split
    · simp [runAbs]
    · rw [runAbs_bind, runAbs_bind]
      cases hr : runAbs (readRecord c.decl.steps (declDecs decT c.decl)) (s.after (1 + (uv w).length) s.strs) with
      | ok r =>
        obtain ⟨v, s'⟩ := r
        simp only [Outcome.bindS_ok, runAbs]
        cases v <;> simp [runAbs]
      | err e => simp
      | panic w' => simp
