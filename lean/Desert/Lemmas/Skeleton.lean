import Desert.DeclWF
import Desert.Lemmas.FieldLoop
/-!
# From the encoded fields back to the declaration's skeleton
-/
set_option linter.unusedSimpArgs false
set_option linter.unusedVariables false

def efSk (e : EncField) : String × Nat := (e.name, e.chunk)

theorem encFields_skel (env : Env) (steps : List Step) : ∀ (fields : List Field) (v : Val) (st : EncSt)
    (l : List EncField) (st' : EncSt), encFields env steps fields v st = .ok (l, st') → l.map efSk = skel steps fields := by
  intro fields
  induction fields with
  | nil => intro v st l st' h; cases v <;> simp [encFields, illTyped] at h; obtain ⟨rfl, _⟩ := h; simp [skel]
  | cons f fs ih =>
    intro v st l st' h
    cases v with
    | vcons x rest =>
      simp only [encFields] at h
      cases hr : f.role with
      | transient =>
        simp only [hr] at h
        have := ih rest st l st' h
        simp [skel, hr] at this ⊢; exact this
      | plain =>
        simp only [hr] at h
        cases hx : enc env f.ty x st with
        | ok p =>
          obtain ⟨b, st1⟩ := p
          simp only [hx, Outcome.bind_ok] at h
          cases hq : encFields env steps fs rest st1 with
          | ok q =>
            obtain ⟨l2, st2⟩ := q
            simp [hq] at h
            obtain ⟨rfl, rfl⟩ := h
            have := ih rest st1 l2 st2 hq
            simp [skel, hr, efSk] at this ⊢; exact this
          | err e => simp [hq] at h
          | panic w => simp [hq] at h
        | err e => simp [hx] at h
        | panic w => simp [hx] at h
      | optional =>
        simp only [hr] at h
        cases hx : enc env f.ty x st with
        | ok p =>
          obtain ⟨b, st1⟩ := p
          simp only [hx, Outcome.bind_ok] at h
          cases hq : encFields env steps fs rest st1 with
          | ok q =>
            obtain ⟨l2, st2⟩ := q
            simp [hq] at h
            obtain ⟨rfl, rfl⟩ := h
            have := ih rest st1 l2 st2 hq
            simp [skel, hr, efSk] at this ⊢; exact this
          | err e => simp [hq] at h
          | panic w => simp [hq] at h
        | err e => simp [hx] at h
        | panic w => simp [hx] at h
    | _ => simp [encFields, illTyped] at h

theorem filter_chunk_map (l : List EncField) (k : Nat) :
    ((l.map efSk).filter (·.2 = k)).length = (l.filter (·.chunk = k)).length := by
  induction l with
  | nil => simp
  | cons e rest ih => simp only [List.map_cons, List.filter_cons, efSk]; split <;> simp_all

theorem fieldIndex_go_sk (name : String) : ∀ (fs seen : List EncField),
    fieldIndex.go name fs seen = fieldIndexSk.go name (fs.map efSk) (seen.map efSk) := by
  intro fs
  induction fs with
  | nil => intro seen; simp [fieldIndex.go, fieldIndexSk.go]
  | cons f rest ih =>
    intro seen
    simp only [fieldIndex.go, List.map_cons, fieldIndexSk.go]
    have := ih (seen ++ [f])
    simp only [List.map_append, List.map_cons, List.map_nil] at this
    rw [this]
    cases fieldIndexSk.go name (rest.map efSk) (seen.map efSk ++ [efSk f]) with
    | some r => rfl
    | none =>
      have e := filter_chunk_map seen f.chunk
      by_cases hn : f.name = name
      · simp [efSk, hn] at e ⊢; exact e.symm
      · simp [efSk, hn]

theorem fieldIndex_sk (fs : List EncField) (name : String) : fieldIndex fs name = fieldIndexSk (fs.map efSk) name := by
  simpa [fieldIndex, fieldIndexSk] using fieldIndex_go_sk name fs []

/-- made-optional positions announced by the expected header -/
theorem madeOptOf_expected (fs : List EncField) (removed : List String) : ∀ (steps : List Step) (k : Nat),
    madeOptOf (expectedHSteps fs removed k steps) =
      steps.filterMap fun
        | .madeOptional n => if n ∈ removed then none else fieldIndexSk (fs.map efSk) n
        | _ => none := by
  intro steps
  induction steps with
  | nil => intro k; simp [expectedHSteps, madeOptOf]
  | cons s rest ih =>
    intro k
    simp only [expectedHSteps, List.filterMap_cons]
    cases s with
    | added n => simp [expectedHStep, sizeHStep]; split <;> simp [madeOptOf, ih]
    | removed n => simp [expectedHStep, madeOptOf, ih]
    | madeTransient n => simp [expectedHStep, madeOptOf, ih]
    | madeOptional n =>
      simp only [expectedHStep]
      by_cases hm : n ∈ removed
      · simp [hm, madeOptOf, ih]
      · simp only [hm, if_false]
        have e := fieldIndex_sk fs n
        cases hfi : fieldIndex fs n with
        | some cp => obtain ⟨c, p⟩ := cp; rw [hfi] at e; simp [madeOptOf, ih, ← e]
        | none => rw [hfi] at e; simp [madeOptOf, ih, ← e]

/-- names announced as removed by the expected header -/
theorem removedOf_expected (fs : List EncField) (removed : List String) : ∀ (steps : List Step) (k : Nat),
    removedOf (expectedHSteps fs removed k steps) =
      (steps.filterMap fun
        | .removed n => some n
        | .madeTransient n => some n
        | .madeOptional n => if n ∈ removed then some n else none
        | .added _ => none).map nameBytes := by
  intro steps
  induction steps with
  | nil => intro k; simp [expectedHSteps, removedOf]
  | cons s rest ih =>
    intro k
    simp only [expectedHSteps, List.filterMap_cons]
    cases s with
    | added n => simp [expectedHStep, sizeHStep]; split <;> simp [removedOf, ih]
    | removed n => simp [expectedHStep, removedOf, ih]
    | madeTransient n => simp [expectedHStep, removedOf, ih]
    | madeOptional n =>
      simp only [expectedHStep]
      by_cases hm : n ∈ removed
      · simp [hm, removedOf, ih]
      · simp only [hm, if_false]
        cases hfi : fieldIndex fs n with
        | some cp => obtain ⟨c, p⟩ := cp; simp [removedOf, ih]
        | none => simp [removedOf, ih]
