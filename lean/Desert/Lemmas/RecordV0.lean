import Desert.Lemmas.Codec
import Desert.Normalize
/-!
# Version-0 records: the record reader on a headerless record
-/
set_option linter.unusedSimpArgs false

/-- reader state of a record whose stored version is 0 (`new_v0`) and whose reading definition
has no evolution steps -/
def V0St (rs : RecSt) : Prop :=
  rs.storedVersion = 0 ∧ rs.inputs = [] ∧ rs.madeOpt = [] ∧ rs.removed = [] ∧ ∃ k, rs.nextIdx = [k]

theorem genOf_nil (n : String) : genOf [] n = 0 := by simp [genOf, genOf.go]
theorem optSinceOf_nil (n : String) : optSinceOf [] n = 0 := by simp [optSinceOf, optSinceOf.go]

theorem readField_v0 {rs : RecSt} (h : V0St rs) (fd : FieldDec) (hr : fd.field.role ≠ .transient) :
    ∃ rs', V0St rs' ∧ readField [] rs fd = fd.decFull.bind (fun a => .ret (a, rs')) := by
  obtain ⟨sv, inp, mo, rm, ni⟩ := rs
  obtain ⟨h1, h2, h3, h4, k, h5⟩ := h
  simp only at h1 h2 h3 h4 h5
  subst h1 h2 h3 h4 h5
  refine ⟨{ storedVersion := 0, inputs := [], madeOpt := [], removed := [], nextIdx := [k + 1] },
    ⟨rfl, rfl, rfl, rfl, k + 1, rfl⟩, ?_⟩
  unfold readField
  cases hrole : fd.field.role with
  | transient => exact absurd hrole hr
  | plain =>
    simp [hrole, genOf_nil, takeIdx, inChunk, bind_eq_dbind, pure_eq_ret]
  | optional =>
    simp [hrole, genOf_nil, optSinceOf_nil, takeIdx, inChunk, bind_eq_dbind, pure_eq_ret]

theorem readField_v0_transient {rs : RecSt} (fd : FieldDec) (hr : fd.field.role = .transient) (d : Val)
    (hd : fd.field.default = some d) : readField [] rs fd = .ret (d, rs) := by
  unfold readField
  simp [hr, hd, pure_eq_ret]

theorem recNew_v0 (rv : Nat) : recNew rv 0 = .ret
    { storedVersion := 0, inputs := [], madeOpt := [], removed := [], nextIdx := List.replicate (rv + 1) 0 } := by
  simp [recNew, pure_eq_ret]

theorem V0St_new : V0St { storedVersion := 0, inputs := [], madeOpt := [], removed := [], nextIdx := List.replicate (0 + 1) 0 } :=
  ⟨rfl, rfl, rfl, rfl, 0, rfl⟩

/-- chains (item / field lists) -/
inductive Val.IsChain : Val → Prop where
  | nil : Val.IsChain .vnil
  | cons (v r : Val) : Val.IsChain r → Val.IsChain (.vcons v r)

theorem ofList_toList {c : Val} (h : c.IsChain) : Val.ofList c.toList = c := by
  induction h with
  | nil => simp [Val.toList, Val.ofList]
  | cons v r _ ih => simp [Val.toList, Val.ofList, ih]

theorem toList_length_chain (c : Val) : c.toList.length = c.chainLength := by
  induction c <;> simp_all [Val.toList, Val.chainLength]

/-! ## constructor tables -/

theorem findCtorWire_go {l : List (Nat × Ctor)} {idx k w : Nat} {c : Ctor}
    (h : findCtorWire.go idx l k = some (w, c)) : k ≤ w ∧ l[w - k]? = some (idx, c) := by
  induction l generalizing k with
  | nil => simp [findCtorWire.go] at h
  | cons x xs ih =>
    obtain ⟨i, c'⟩ := x
    simp only [findCtorWire.go] at h
    split at h
    · rename_i hi; simp at h; obtain ⟨rfl, rfl⟩ := h; simp [hi]
    · have := ih h
      refine ⟨by omega, ?_⟩
      have e : w - k = (w - (k + 1)) + 1 := by omega
      rw [e]; simpa using this.2

theorem findCtorWire_get {l : List (Nat × Ctor)} {idx w : Nat} {c : Ctor}
    (h : findCtorWire l idx = some (w, c)) : l[w]? = some (idx, c) := by
  have := findCtorWire_go (k := 0) h
  simpa using this.2

theorem mem_insertIdxCtor {x c : Nat × Ctor} {l : List (Nat × Ctor)} (h : x ∈ insertIdxCtor c l) : x = c ∨ x ∈ l := by
  induction l with
  | nil => simp [insertIdxCtor] at h; exact Or.inl h
  | cons d ds ih =>
    simp only [insertIdxCtor] at h
    split at h
    · simp at h; rcases h with h | h | h <;> simp [h]
    · simp at h; rcases h with h | h
      · simp [h]
      · rcases ih h with h | h <;> simp [h]

theorem mem_sortIdxCtors {x : Nat × Ctor} {l : List (Nat × Ctor)} (h : x ∈ sortIdxCtors l) : x ∈ l := by
  induction l with
  | nil => simp [sortIdxCtors] at h
  | cons c cs ih =>
    simp only [sortIdxCtors] at h
    rcases mem_insertIdxCtor h with h | h
    · simp [h]
    · simp [ih h]

theorem mem_wireCtors {x : Nat × Ctor} {sorted : Bool} {cs : List Ctor} (h : x ∈ wireCtors sorted cs) : x.2 ∈ cs := by
  unfold wireCtors at h
  have hz : x ∈ indexCtors cs := by
    split at h
    · exact mem_sortIdxCtors h
    · exact h
  unfold indexCtors at hz
  obtain ⟨a, b⟩ := x
  exact (List.of_mem_zip hz).2

theorem length_insertIdxCtor (c : Nat × Ctor) (l : List (Nat × Ctor)) : (insertIdxCtor c l).length = l.length + 1 := by
  induction l with
  | nil => simp [insertIdxCtor]
  | cons d ds ih => simp only [insertIdxCtor]; split <;> simp [ih]

theorem length_sortIdxCtors (l : List (Nat × Ctor)) : (sortIdxCtors l).length = l.length := by
  induction l with
  | nil => simp [sortIdxCtors]
  | cons c cs ih => simp [sortIdxCtors, length_insertIdxCtor, ih]

theorem length_wireCtors (sorted : Bool) (cs : List Ctor) : (wireCtors sorted cs).length = cs.length := by
  unfold wireCtors indexCtors
  split <;> simp [length_sortIdxCtors]
