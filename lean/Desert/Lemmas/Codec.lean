import Desert.Lemmas.VarInt
import Desert.Lemmas.NumLemmas
/-!
# Round-trip lemmas for the leaf codecs (frame style)

`s.view = b ++ t → runAbs (decPrim p) s = ok (v, s.after |b| st')`: stated at an arbitrary source
state, so it can be used inside pushed chunk windows, and for an arbitrary continuation `t`, which
is what makes encodings self-delimiting.
-/
set_option linter.unusedSimpArgs false

/-- source state after consuming `n` bytes of the current window, with string table `st` -/
def AbsSrc.after (s : AbsSrc) (n : Nat) (st : List Bytes) : AbsSrc :=
  { s with cur := { s.cur with pos := s.cur.pos + n }, strs := st }

theorem adv_eq_after (s : AbsSrc) (n : Nat) : s.adv n = s.after n s.strs := rfl

@[simp] theorem after_after (s : AbsSrc) (n m : Nat) (st st' : List Bytes) :
    (s.after n st).after m st' = s.after (n + m) st' := by
  simp [AbsSrc.after, Nat.add_assoc]

@[simp] theorem after_strs (s : AbsSrc) (n : Nat) (st : List Bytes) : (s.after n st).strs = st := rfl
@[simp] theorem after_stack (s : AbsSrc) (n : Nat) (st : List Bytes) : (s.after n st).stack = s.stack := rfl

theorem after_zero_self (s : AbsSrc) : s.after 0 s.strs = s := by simp [AbsSrc.after]

theorem view_after (s : AbsSrc) (n : Nat) (st : List Bytes) : (s.after n st).view = s.view.drop n := by
  simp [AbsSrc.view, AbsSrc.after, List.drop_drop, Nat.add_comm]

theorem view_after_append {s : AbsSrc} {b t : Bytes} (h : s.view = b ++ t) (st : List Bytes) :
    (s.after b.length st).view = t := by
  rw [view_after, h]; simp

theorem WF_after {s : AbsSrc} (hw : s.WF) {b t : Bytes} (h : s.view = b ++ t) (st : List Bytes) :
    (s.after b.length st).WF := by
  have := AbsSrc.WF_adv hw h
  simpa [AbsSrc.WF, AbsSrc.after, AbsSrc.adv] using this

/-! ## string table -/

theorem indexOf?_go_some {tbl : List Bytes} {s : Bytes} {k i : Nat} (h : indexOf?.go s tbl k = some i) :
    k ≤ i ∧ tbl[i - k]? = some s := by
  induction tbl generalizing k with
  | nil => simp [indexOf?.go] at h
  | cons x xs ih =>
    simp only [indexOf?.go] at h
    split at h
    · rename_i hx; simp at h; subst h; simp [hx]
    · have := ih h
      refine ⟨by omega, ?_⟩
      have e : i - k = (i - (k + 1)) + 1 := by omega
      rw [e]; simpa using this.2

theorem indexOf?_some {tbl : List Bytes} {s : Bytes} {i : Nat} (h : indexOf? tbl s = some i) :
    tbl[i]? = some s := by
  have := indexOf?_go_some (k := 0) h
  simpa using this.2

theorem indexOf?_go_none {tbl : List Bytes} {s : Bytes} {k : Nat} (h : indexOf?.go s tbl k = none) : s ∉ tbl := by
  induction tbl generalizing k with
  | nil => simp
  | cons x xs ih =>
    simp only [indexOf?.go] at h
    split at h
    · simp at h
    · rename_i hx
      have := ih h
      simp [this]; intro e; exact hx e.symm

theorem indexOf?_none {tbl : List Bytes} {s : Bytes} (h : indexOf? tbl s = none) : s ∉ tbl :=
  indexOf?_go_none h

theorem indexOf?_lt {tbl : List Bytes} {s : Bytes} {i : Nat} (h : indexOf? tbl s = some i) : i < tbl.length := by
  have := indexOf?_some h
  rcases Nat.lt_or_ge i tbl.length with h' | h'
  · exact h'
  · simp [List.getElem?_eq_none h'] at this

/-- the writer's table stays below the id range of the format (DESIGN §9.6) -/
def StOK (st : List Bytes) : Prop := st.length ≤ 2 ^ 31 - 1

/-! ## reading fixed-width data -/

theorem readBytes_bind {α : Type} {s : AbsSrc} (hw : s.WF) {b t : Bytes} (f : Bytes → DProg α)
    (h : s.view = b ++ t) : runAbs ((readBytes b.length).bind f) s = runAbs (f b) (s.after b.length s.strs) := by
  rw [runAbs_bind, run_readBytes hw h]; rfl

theorem readU8_bind' {α : Type} {s : AbsSrc} {b : Byte} {t : Bytes} (f : Byte → DProg α)
    (h : s.view = b :: t) : runAbs (readU8.bind f) s = runAbs (f b) (s.after 1 s.strs) := by
  rw [readU8_bind f h]; rfl

theorem readVarU32_bind {α : Type} {n : Nat} (hn : n < 2 ^ 32) {s : AbsSrc} {t : Bytes} (f : Nat → DProg α)
    (h : s.view = uv n ++ t) : runAbs (readVarU32.bind f) s = runAbs (f n) (s.after (uv n).length s.strs) := by
  rw [runAbs_bind, run_readVarU32 hn h]; rfl

theorem readVarI32_bind {α : Type} {i : Int} (hi : inI32 i) {s : AbsSrc} {t : Bytes} (f : Int → DProg α)
    (h : s.view = zz i ++ t) : runAbs (readVarI32.bind f) s = runAbs (f i) (s.after (zz i).length s.strs) := by
  rw [runAbs_bind, run_readVarI32 hi h]; rfl

/-- UTF-8 validity of every string inside a value (`String` is valid by construction in Rust;
the model carries it as a predicate on the value) -/
def Val.utf8OK : Val → Prop
  | .str bs => validUtf8 bs = true
  | .some v => v.utf8OK
  | .ok v => v.utf8OK
  | .error v => v.utf8OK
  | .vcons v r => v.utf8OK ∧ r.utf8OK
  | .list v => v.utf8OK
  | .ctor _ v => v.utf8OK
  | _ => True

theorem inI32_natLen {n : Nat} (h : n < 2 ^ 31) : inI32 (n : Int) := by
  unfold inI32; omega

theorem i32AsUsize_nat (n : Nat) : i32AsUsize (n : Int) = n := by
  unfold i32AsUsize; simp; omega

/-- round trip of every leaf codec -/
theorem rt_prim (p : Prim) (v : Val) (st : EncSt) (b : Bytes) (st' : EncSt)
    (he : encPrim p v st = .ok (b, st')) (hu : v.utf8OK) (hst : StOK st)
    (s : AbsSrc) (t : Bytes) (hw : s.WF) (hv : s.view = b ++ t) (hs : s.strs = st) :
    runAbs (decPrim p) s = .ok (v, s.after b.length st') ∧ StOK st' := by
  cases p with
  | int w sg =>
    cases v with
    | int n =>
      simp only [encPrim] at he
      split at he
      · rename_i hr
        simp at he
        obtain ⟨rfl, rfl⟩ := he
        refine ⟨?_, hst⟩
        have hlen : (beBytes w (toUnsigned w n)).length = w := beBytes_length _ _
        simp only [decPrim, bind_eq_dbind, pure_eq_ret]
        have := readBytes_bind hw (fun bs => DProg.ret (Val.int (if sg = true then toSigned w (ofBE bs) else ((ofBE bs : Nat) : Int)))) hv
        rw [hlen] at this
        rw [this]
        simp only [runAbs, hs, hlen]
        have hlt := toUnsigned_lt w n
        rw [ofBE_beBytes_lt hlt]
        cases sg with
        | true =>
          simp only [intInRange, if_true, decide_eq_true_eq] at hr
          by_cases hw0 : w = 0
          · subst hw0; simp at hr; have : n = 0 := by omega
            subst this; simp [toSigned, toUnsigned]
          · simp [toSigned_toUnsigned hr (by omega)]
        | false =>
          simp only [intInRange, Bool.false_eq_true, if_false, decide_eq_true_eq] at hr
          simp [toUnsigned_nat hr]
      · simp [illTyped] at he
    | _ => simp [encPrim, illTyped] at he
  | bool =>
    cases v <;> simp [encPrim, illTyped] at he
    rename_i bb
    obtain ⟨rfl, rfl⟩ := he
    refine ⟨?_, hst⟩
    simp only [decPrim, bind_eq_dbind, pure_eq_ret]
    rw [readU8_bind' _ (by simpa using hv)]
    cases bb <;> simp [runAbs, hs]
  | unit =>
    cases v <;> simp [encPrim, illTyped] at he
    obtain ⟨rfl, rfl⟩ := he
    exact ⟨by simp [decPrim, runAbs, ← hs, after_zero_self], hst⟩
  | char =>
    cases v <;> simp [encPrim, illTyped] at he
    rename_i n
    split at he
    · simp at he
    · rename_i hrange
      split at he
      · rename_i hlt
        simp at he
        obtain ⟨rfl, rfl⟩ := he
        refine ⟨?_, hst⟩
        have hlen : (beBytes 2 n.toNat).length = 2 := beBytes_length _ _
        simp only [decPrim, bind_eq_dbind, pure_eq_ret]
        have := readBytes_bind hw (fun bs => if 0xD800 ≤ ofBE bs ∧ ofBE bs < 0xE000 then DProg.fail Err.failedToDecodeCharacter
            else DProg.ret (Val.int ((ofBE bs : Nat) : Int))) hv
        rw [hlen] at this
        rw [this]
        have hn : n.toNat < 256 ^ 2 := by omega
        rw [ofBE_beBytes_lt hn]
        have hns : ¬ (0xD800 ≤ n.toNat ∧ n.toNat < 0xE000) := by omega
        simp only [hns, if_false, runAbs, hs, hlen]
        have : ((n.toNat : Nat) : Int) = n := by omega
        simp [this]
      · simp at he
  | string =>
    cases v <;> simp [encPrim, illTyped] at he
    rename_i bs
    unfold encString at he
    split at he
    · rename_i hlen
      simp at he
      obtain ⟨rfl, rfl⟩ := he
      refine ⟨?_, hst⟩
      simp only [decPrim, bind_eq_dbind, pure_eq_ret]
      have hv' : s.view = zz (bs.length : Int) ++ (bs ++ t) := by simpa using hv
      rw [readVarI32_bind (inI32_natLen hlen) _ hv']
      rw [i32AsUsize_nat]
      have hw1 := WF_after hw hv' s.strs
      have hv1 : (s.after (zz (bs.length : Int)).length s.strs).view = bs ++ t := view_after_append hv' _
      rw [readBytes_bind hw1 _ hv1]
      simp only [Val.utf8OK] at hu
      simp [decUtf8, hu, runAbs, hs]
    · simp at he
  | dstring =>
    cases v <;> simp [encPrim, illTyped] at he
    rename_i bs
    unfold encDString at he
    simp only [Val.utf8OK] at hu
    cases hidx : indexOf? st bs with
    | some i =>
      simp [hidx] at he
      obtain ⟨rfl, rfl⟩ := he
      refine ⟨?_, hst⟩
      have hlt := indexOf?_lt hidx
      have hget := indexOf?_some hidx
      unfold StOK at hst
      have hi32 : inI32 (-((i : Int) + 1)) := by unfold inI32; omega
      simp only [decPrim, bind_eq_dbind, pure_eq_ret]
      rw [readVarI32_bind hi32 _ hv]
      have hneg : (-((i : Int) + 1)) < 0 := by omega
      have hne : ¬ (-((i : Int) + 1) = -(2 ^ 31 : Int)) := by omega
      simp only [hneg, if_true, hne, if_false]
      have hna : (-((i : Int) + 1)).natAbs = i + 1 := by omega
      rw [hna]
      simp only [strGet, DProg.bind, runAbs, strLookup, after_strs, hs]
      simp [hget, runAbs]
    | none =>
      simp only [hidx] at he
      split at he
      case isFalse => simp at he
      rename_i hfull
      unfold encString at he
      split at he
      · rename_i hlen
        simp at he
        obtain ⟨rfl, rfl⟩ := he
        have hnot := indexOf?_none hidx
        refine ⟨?_, ?_⟩
        · simp only [decPrim, bind_eq_dbind, pure_eq_ret]
          have hv' : s.view = zz (bs.length : Int) ++ (bs ++ t) := by simpa using hv
          rw [readVarI32_bind (inI32_natLen hlen) _ hv']
          have hnn : ¬ ((bs.length : Int) < 0) := by omega
          simp only [hnn, if_false]
          rw [i32AsUsize_nat]
          have hw1 := WF_after hw hv' s.strs
          have hv1 : (s.after (zz (bs.length : Int)).length s.strs).view = bs ++ t := view_after_append hv' _
          rw [readBytes_bind hw1 _ hv1]
          simp only [hu, if_true, strPut, runAbs, DProg.bind]
          simp [AbsSrc.after, strInsert, hs, hnot, Nat.add_assoc]
        · unfold StOK; simp; omega
      · simp at he
  | duration =>
    cases v with
    | dur sec nan =>
      simp only [encPrim] at he
      split at he
      · rename_i hr
        simp at he
        obtain ⟨rfl, rfl⟩ := he
        refine ⟨?_, hst⟩
        have hl8 : (beBytes 8 sec).length = 8 := beBytes_length _ _
        have hl4 : (beBytes 4 nan).length = 4 := beBytes_length _ _
        simp only [decPrim, bind_eq_dbind, pure_eq_ret]
        have hv' : s.view = beBytes 8 sec ++ (beBytes 4 nan ++ t) := by simpa using hv
        have h1 := readBytes_bind hw (fun sb => (readBytes 4).bind fun nb =>
            if ofBE sb + ofBE nb / 10 ^ 9 < 2 ^ 64 then DProg.ret (Val.dur (ofBE sb + ofBE nb / 10 ^ 9) (ofBE nb % 10 ^ 9))
            else DProg.fail Err.deserializationFailure) hv'
        rw [hl8] at h1
        rw [h1]
        have hw1 := WF_after hw hv' s.strs
        have hv1 : (s.after (beBytes 8 sec).length s.strs).view = beBytes 4 nan ++ t := view_after_append hv' _
        rw [hl8] at hw1 hv1
        have h2 := readBytes_bind hw1 (fun nb =>
            if ofBE (beBytes 8 sec) + ofBE nb / 10 ^ 9 < 2 ^ 64 then
              DProg.ret (Val.dur (ofBE (beBytes 8 sec) + ofBE nb / 10 ^ 9) (ofBE nb % 10 ^ 9))
            else DProg.fail Err.deserializationFailure) hv1
        rw [hl4] at h2
        rw [h2]
        have e8 : ofBE (beBytes 8 sec) = sec := ofBE_beBytes_lt (by have := hr.1; omega)
        have e4 : ofBE (beBytes 4 nan) = nan := ofBE_beBytes_lt (by have := hr.2; omega)
        rw [e8, e4]
        have hc : nan / 10 ^ 9 = 0 := by have := hr.2; omega
        have hm : nan % 10 ^ 9 = nan := by have := hr.2; omega
        have hlt : sec + 0 < 2 ^ 64 := by have := hr.1; omega
        have hlt' : sec < 18446744073709551616 := by omega
        simp [hc, hm, hlt', runAbs, hs, hl8, hl4]
      · simp [illTyped] at he
    | _ => simp [encPrim, illTyped] at he
  | bytes =>
    cases v with
    | bytes bs =>
      simp only [encPrim] at he
      split at he
      · rename_i hlen
        simp at he
        obtain ⟨rfl, rfl⟩ := he
        refine ⟨?_, hst⟩
        simp only [decPrim, bind_eq_dbind, pure_eq_ret]
        have hv' : s.view = uv bs.length ++ (bs ++ t) := by simpa using hv
        rw [readVarU32_bind hlen _ hv']
        have hw1 := WF_after hw hv' s.strs
        have hv1 : (s.after (uv bs.length).length s.strs).view = bs ++ t := view_after_append hv' _
        rw [readBytes_bind hw1 _ hv1]
        simp [runAbs, hs]
      · simp at he
    | _ => simp [encPrim, illTyped] at he
  | barr n =>
    cases v with
    | bytes bs =>
      simp only [encPrim] at he
      split at he
      · simp [illTyped] at he
      · rename_i hn
        have hn' : bs.length = n := by simpa using hn
        split at he
        · rename_i hlen
          simp at he
          obtain ⟨rfl, rfl⟩ := he
          refine ⟨?_, hst⟩
          simp only [decPrim, bind_eq_dbind, pure_eq_ret]
          have hv' : s.view = uv bs.length ++ (bs ++ t) := by simpa [hn'] using hv
          rw [readVarU32_bind (by omega) _ hv']
          have hw1 := WF_after hw hv' s.strs
          have hv1 : (s.after (uv bs.length).length s.strs).view = bs ++ t := view_after_append hv' _
          rw [readBytes_bind hw1 _ hv1]
          simp [runAbs, hs, hn']
        · simp at he
    | _ => simp [encPrim, illTyped] at he
  | raw n =>
    cases v with
    | bytes bs =>
      simp only [encPrim] at he
      split at he
      · rename_i hn
        simp at he
        obtain ⟨rfl, rfl⟩ := he
        refine ⟨?_, hst⟩
        simp only [decPrim, bind_eq_dbind, pure_eq_ret]
        have := readBytes_bind hw (fun bs => DProg.ret (Val.bytes bs)) hv
        rw [hn] at this
        rw [this]
        simp [runAbs, hs, hn]
      · simp [illTyped] at he
    | _ => simp [encPrim, illTyped] at he
  | weekday =>
    cases v with
    | int n =>
      simp only [encPrim] at he
      split at he
      · rename_i hr
        simp at he
        obtain ⟨rfl, rfl⟩ := he
        refine ⟨?_, hst⟩
        simp only [decPrim, bind_eq_dbind, pure_eq_ret]
        rw [readU8_bind' _ (by simpa using hv)]
        have hb : (byteOf n.toNat).toNat = n.toNat := byteOf_toNat_lt (by omega)
        have hi : i8Of (byteOf n.toNat) = n := by
          unfold i8Of toSigned; rw [hb]; simp; omega
        simp [hi, hr, runAbs, hs]
      · simp [illTyped] at he
    | _ => simp [encPrim, illTyped] at he
  | month =>
    cases v with
    | int n =>
      simp only [encPrim] at he
      split at he
      · rename_i hr
        simp at he
        obtain ⟨rfl, rfl⟩ := he
        refine ⟨?_, hst⟩
        simp only [decPrim, bind_eq_dbind, pure_eq_ret]
        rw [readU8_bind' _ (by simpa using hv)]
        have hb : (byteOf n.toNat).toNat = n.toNat := byteOf_toNat_lt (by omega)
        have hi : i8Of (byteOf n.toNat) = n := by
          unfold i8Of toSigned; rw [hb]; simp; omega
        simp [hi, hr, runAbs, hs]
      · simp [illTyped] at he
    | _ => simp [encPrim, illTyped] at he
  | fixedOffset =>
    cases v with
    | int n =>
      simp only [encPrim] at he
      split at he
      · rename_i hr
        simp at he
        obtain ⟨rfl, rfl⟩ := he
        refine ⟨?_, hst⟩
        simp only [decPrim, bind_eq_dbind, pure_eq_ret]
        have hv' : s.view = 0 :: (zz n ++ t) := by simpa using hv
        rw [readU8_bind' _ hv']
        simp only [ne_eq, not_true_eq_false, if_false]
        have hv1 : (s.after 1 s.strs).view = zz n ++ t := by
          have := (view_cons hv').2; simpa [adv_eq_after] using this
        rw [readVarI32_bind (by unfold inI32; omega) _ hv1]
        simp [hr, runAbs, hs, Nat.add_comm]
      · simp [illTyped] at he
    | _ => simp [encPrim, illTyped] at he
  | varu32 =>
    cases v with
    | int n =>
      simp only [encPrim] at he
      split at he
      · rename_i hr
        simp at he
        obtain ⟨rfl, rfl⟩ := he
        refine ⟨?_, hst⟩
        simp only [decPrim, bind_eq_dbind, pure_eq_ret]
        have hlt : n.toNat < 2 ^ 32 := by omega
        rw [readVarU32_bind hlt _ hv]
        have : ((n.toNat : Nat) : Int) = n := by omega
        simp [runAbs, hs, this]
      · simp [illTyped] at he
    | _ => simp [encPrim, illTyped] at he
