import Desert.Lemmas.Run
/-!
# Extension monotonicity of decoder programs

A successful run never looked past what it consumed: appending data to the *outermost* window
leaves the result unchanged (for every program, by induction on the operation tree). The prefix
property (C08) is the contrapositive.
-/
set_option linter.unusedSimpArgs false

def extStack : List Win → Bytes → List Win
  | [], _ => []
  | [w], t => [{ w with window := w.window ++ t }]
  | w :: w' :: ws, t => w :: extStack (w' :: ws) t

/-- the same source with `t` appended to the outermost window -/
def AbsSrc.ext (s : AbsSrc) (t : Bytes) : AbsSrc :=
  match s.stack with
  | [] => { s with cur := { s.cur with window := s.cur.window ++ t } }
  | w :: ws => { s with stack := extStack (w :: ws) t }

theorem ext_nil {s : AbsSrc} (h : s.stack = []) (t : Bytes) :
    s.ext t = { s with cur := { s.cur with window := s.cur.window ++ t } } := by
  unfold AbsSrc.ext; rw [h]

theorem ext_cons {s : AbsSrc} {w : Win} {ws : List Win} (h : s.stack = w :: ws) (t : Bytes) :
    s.ext t = { s with stack := extStack (w :: ws) t } := by
  unfold AbsSrc.ext; rw [h]

theorem ext_strs (s : AbsSrc) (t : Bytes) : (s.ext t).strs = s.strs := by
  unfold AbsSrc.ext; split <;> rfl

theorem ext_pos (s : AbsSrc) (t : Bytes) : (s.ext t).cur.pos = s.cur.pos := by
  unfold AbsSrc.ext; split <;> rfl

theorem getElem?_append_of_some {l t : Bytes} {i : Nat} {b : Byte} (h : l[i]? = some b) : (l ++ t)[i]? = some b := by
  have hi : i < l.length := by
    rcases Nat.lt_or_ge i l.length with h' | h'
    · exact h'
    · simp [List.getElem?_eq_none h'] at h
  rw [List.getElem?_append_left hi]; exact h

theorem drop_take_append {l t : Bytes} {p n : Nat} (h : p + n ≤ l.length) :
    ((l ++ t).drop p).take n = (l.drop p).take n := by
  rw [List.drop_append_of_le_length (by omega)]
  rw [List.take_append_of_le_length (by simp; omega)]

theorem run_extends {α : Type} (p : DProg α) :
    ∀ (s : AbsSrc) (a : α) (s' : AbsSrc) (t : Bytes),
      runAbs p s = .ok (a, s') → runAbs p (s.ext t) = .ok (a, s'.ext t) := by
  induction p with
  | ret a => intro s a' s' t h; simp [runAbs] at h ⊢; obtain ⟨rfl, rfl⟩ := h; simp
  | fail e => intro s a s' t h; simp [runAbs] at h
  | panic w => intro s a s' t h; simp [runAbs] at h
  | readU8 k ih =>
    intro s a s' t h
    simp only [runAbs] at h ⊢
    cases hb : s.cur.window[s.cur.pos]? with
    | none => simp [hb] at h
    | some b =>
      simp only [hb] at h
      have := ih b _ a s' t h
      cases hst : s.stack with
      | nil =>
        rw [ext_nil hst]
        simp only [getElem?_append_of_some hb]
        rw [ext_nil (by simpa using hst)] at this
        simpa using this
      | cons w ws =>
        rw [ext_cons hst]
        simp only [hb]
        rw [ext_cons (by simpa using hst)] at this
        simpa using this
  | readBytes n k ih =>
    intro s a s' t h
    simp only [runAbs] at h ⊢
    by_cases hl : s.cur.pos + n ≤ s.cur.window.length
    · simp only [hl, if_true] at h
      have := ih _ _ a s' t h
      cases hst : s.stack with
      | nil =>
        rw [ext_nil hst]
        have hl' : s.cur.pos + n ≤ (s.cur.window ++ t).length := by simp; omega
        simp only [hl', if_true, drop_take_append hl]
        rw [ext_nil (by simpa using hst)] at this
        simpa using this
      | cons w ws =>
        rw [ext_cons hst]
        simp only [hl, if_true]
        rw [ext_cons (by simpa using hst)] at this
        simpa using this
    · simp [hl] at h
  | skip n k ih =>
    intro s a s' t h
    simp only [runAbs] at h ⊢
    by_cases hl : s.cur.pos + n ≤ s.cur.window.length
    · simp only [hl, if_true] at h
      have := ih _ _ a s' t h
      cases hst : s.stack with
      | nil =>
        rw [ext_nil hst]
        have hl' : s.cur.pos + n ≤ (s.cur.window ++ t).length := by simp; omega
        simp only [hl', if_true]
        rw [ext_nil (by simpa using hst)] at this
        simpa using this
      | cons w ws =>
        rw [ext_cons hst]
        simp only [hl, if_true]
        rw [ext_cons (by simpa using hst)] at this
        simpa using this
    · simp [hl] at h
  | pos k ih =>
    intro s a s' t h
    simp only [runAbs] at h ⊢
    rw [ext_pos]
    exact ih _ _ a s' t h
  | push r k ih =>
    intro s a s' t h
    simp only [runAbs] at h ⊢
    by_cases hg : r.start ≤ r.end_ ∧ r.end_ ≤ s.cur.window.length ∧ r.start + r.pos ≤ r.end_
    · simp only [hg, and_self, if_true] at h
      have := ih () _ a s' t h
      rw [ext_cons (w := s.cur) (ws := s.stack) rfl] at this
      cases hst : s.stack with
      | nil =>
        rw [ext_nil hst]
        have hg' : r.start ≤ r.end_ ∧ r.end_ ≤ (s.cur.window ++ t).length ∧ r.start + r.pos ≤ r.end_ :=
          ⟨hg.1, by simp; omega, hg.2.2⟩
        simp only [hg', and_self, if_true]
        have e : ((s.cur.window ++ t).drop r.start).take (r.end_ - r.start)
            = (s.cur.window.drop r.start).take (r.end_ - r.start) := drop_take_append (by omega)
        rw [e]
        simpa [hst, extStack] using this
      | cons w ws =>
        rw [ext_cons hst]
        simp only [hg, and_self, if_true]
        simpa [hst, extStack] using this
    · simp [hg] at h
  | pop k ih =>
    intro s a s' t h
    simp only [runAbs] at h ⊢
    cases hst : s.stack with
    | nil => simp [hst] at h
    | cons w ws =>
      simp only [hst] at h
      have := ih _ _ a s' t h
      rw [ext_cons hst]
      cases ws with
      | nil =>
        simp only [extStack]
        rw [ext_nil rfl] at this
        simpa using this
      | cons w' ws' =>
        simp only [extStack]
        rw [ext_cons (w := w') (ws := ws') rfl] at this
        simpa using this
  | strGet i k ih =>
    intro s a s' t h
    simp only [runAbs] at h ⊢
    rw [ext_strs]
    exact ih _ _ a s' t h
  | strPut x k ih =>
    intro s a s' t h
    simp only [runAbs] at h ⊢
    have := ih () _ a s' t h
    cases hst : s.stack with
    | nil =>
      rw [ext_nil hst]
      rw [ext_nil (by simpa using hst)] at this
      simpa using this
    | cons w ws =>
      rw [ext_cons hst]
      rw [ext_cons (by simpa using hst)] at this
      simpa using this

/-- top-level form: a decode that succeeds on `b` succeeds identically on `b ++ t`, leaving `t`
(in addition to whatever it left of `b`) unread -/
theorem run_extends_top {α : Type} (p : DProg α) (b t : Bytes) (a : α) (s' : AbsSrc)
    (h : runAbs p (AbsSrc.new b) = .ok (a, s')) :
    runAbs p (AbsSrc.new (b ++ t)) = .ok (a, s'.ext t) := by
  have := run_extends p (AbsSrc.new b) a s' t h
  simpa [AbsSrc.ext, AbsSrc.new] using this
