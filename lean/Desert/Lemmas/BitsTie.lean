import Desert.Bits
import Desert.Num
import Std.Tactic.BVDecide
/-!
# The two var-int layers agree

`Bits.writeVarU32` (the shifts and masks of the Rust source, on `BitVec 32`) produces, byte for
byte, what the arithmetic ladder `uv` of the codec model produces; likewise the two zig-zags.
-/
open Bits

theorem cond_shift (x : BitVec 32) :
    ((x >>> 7 = 0) ↔ x.toNat < 2 ^ 7) ∧ ((x >>> 14 = 0) ↔ x.toNat < 2 ^ 14) ∧
    ((x >>> 21 = 0) ↔ x.toNat < 2 ^ 21) ∧ ((x >>> 28 = 0) ↔ x.toNat < 2 ^ 28) := by
  have h1 : (x >>> 7 = 0) ↔ x < 128#32 := by bv_decide
  have h2 : (x >>> 14 = 0) ↔ x < 16384#32 := by bv_decide
  have h3 : (x >>> 21 = 0) ↔ x < 2097152#32 := by bv_decide
  have h4 : (x >>> 28 = 0) ↔ x < 268435456#32 := by bv_decide
  rw [h1, h2, h3, h4]
  simp [BitVec.lt_def]

theorem byte_low (x : BitVec 32) : (lo8 x).toNat = x.toNat % 256 := by simp [lo8]

theorem byte_c0 (x : BitVec 32) : (lo8 ((x &&& 0x7F) ||| 0x80)).toNat = x.toNat % 128 + 128 := by
  have : lo8 ((x &&& 0x7F) ||| 0x80) = lo8 (x % 128#32 + 128#32) := by bv_decide
  rw [this]; simp [lo8, BitVec.toNat_setWidth, BitVec.toNat_add, BitVec.toNat_umod]; omega

theorem byte_c (x : BitVec 32) (k : Nat) (hk : k = 7 ∨ k = 14 ∨ k = 21) :
    (lo8 ((x >>> k) ||| 0x80)).toNat = x.toNat / 2 ^ k % 128 + 128 := by
  rcases hk with rfl | rfl | rfl
  · have : lo8 ((x >>> 7) ||| 0x80) = lo8 ((x / 128#32) % 128#32 + 128#32) := by bv_decide
    rw [this]; simp [lo8, BitVec.toNat_setWidth, BitVec.toNat_add, BitVec.toNat_umod, BitVec.toNat_udiv]; omega
  · have : lo8 ((x >>> 14) ||| 0x80) = lo8 ((x / 16384#32) % 128#32 + 128#32) := by bv_decide
    rw [this]; simp [lo8, BitVec.toNat_setWidth, BitVec.toNat_add, BitVec.toNat_umod, BitVec.toNat_udiv]; omega
  · have : lo8 ((x >>> 21) ||| 0x80) = lo8 ((x / 2097152#32) % 128#32 + 128#32) := by bv_decide
    rw [this]; simp [lo8, BitVec.toNat_setWidth, BitVec.toNat_add, BitVec.toNat_umod, BitVec.toNat_udiv]; omega

theorem byte_last (x : BitVec 32) (k : Nat) : (lo8 (x >>> k)).toNat = x.toNat / 2 ^ k % 256 := by
  simp [lo8, BitVec.toNat_ushiftRight, Nat.shiftRight_eq_div_pow]

/-- the shift-and-mask writer and the arithmetic ladder write the same bytes -/
theorem writeVarU32_eq_uv (x : BitVec 32) :
    (writeVarU32 x).map (·.toNat) = (uv x.toNat).map (·.toNat) := by
  obtain ⟨c7, c14, c21, c28⟩ := cond_shift x
  have hx := x.isLt
  unfold writeVarU32 uv
  by_cases h7 : x.toNat < 2 ^ 7
  · simp only [c7.2 h7, if_true, h7, List.map, byte_low, byteOf_toNat]
  · have n7 : ¬ (x >>> 7 = 0) := fun h => h7 (c7.1 h)
    simp only [n7, if_false, h7]
    by_cases h14 : x.toNat < 2 ^ 14
    · simp only [c14.2 h14, if_true, h14, List.map, byte_c0, byte_last, byteOf_toNat]
      simp only [List.cons.injEq, and_true]; omega
    · have n14 : ¬ (x >>> 14 = 0) := fun h => h14 (c14.1 h)
      simp only [n14, if_false, h14]
      by_cases h21 : x.toNat < 2 ^ 21
      · simp only [c21.2 h21, if_true, h21, List.map, byte_c0, byte_c x 7 (Or.inl rfl), byte_last, byteOf_toNat]
        simp only [List.cons.injEq, and_true]; omega
      · have n21 : ¬ (x >>> 21 = 0) := fun h => h21 (c21.1 h)
        simp only [n21, if_false, h21]
        by_cases h28 : x.toNat < 2 ^ 28
        · simp only [c28.2 h28, if_true, h28, List.map, byte_c0, byte_c x 7 (Or.inl rfl), byte_c x 14 (Or.inr (Or.inl rfl)),
            byte_last, byteOf_toNat]
          simp only [List.cons.injEq, and_true]; omega
        · have n28 : ¬ (x >>> 28 = 0) := fun h => h28 (c28.1 h)
          simp only [n28, if_false, h28, List.map, byte_c0, byte_c x 7 (Or.inl rfl), byte_c x 14 (Or.inr (Or.inl rfl)),
            byte_c x 21 (Or.inr (Or.inr rfl)), byte_last, byteOf_toNat]
          simp only [List.cons.injEq, and_true]; omega

/-- the two zig-zags agree: bit operations on the 32-bit pattern = the arithmetic definition on the signed value -/
theorem zigzag_eq (x : BitVec 32) : (Bits.zigzag x).toNat = _root_.zigzag x.toInt := by
  have h1 : x.msb = false → Bits.zigzag x = x <<< 1 := by unfold Bits.zigzag; bv_decide
  have h2 : x.msb = true → Bits.zigzag x = ~~~(x <<< 1) := by unfold Bits.zigzag; bv_decide
  have hx := x.isLt
  have hm := BitVec.msb_eq_decide x
  have hi := BitVec.toInt_eq_toNat_cond x
  unfold _root_.zigzag
  cases hmsb : x.msb with
  | false =>
    rw [h1 hmsb]
    have hlt : x.toNat < 2 ^ 31 := by simp [hmsb] at hm; omega
    have hti : x.toInt = (x.toNat : Int) := by rw [hi]; rw [if_pos (by omega)]
    simp only [BitVec.toNat_shiftLeft, Nat.shiftLeft_eq]
    rw [hti, if_pos (by omega)]; omega
  | true =>
    rw [h2 hmsb]
    have hge : 2 ^ 31 ≤ x.toNat := by simp [hmsb] at hm; omega
    have hti : x.toInt = (x.toNat : Int) - (2 ^ 32 : Nat) := by rw [hi]; rw [if_neg (by omega)]
    simp only [BitVec.toNat_not, BitVec.toNat_shiftLeft, Nat.shiftLeft_eq]
    rw [hti, if_neg (by omega)]; omega

/-- hence `write_var_i32` in the two layers writes the same bytes -/
theorem writeVarI32_eq_zz (x : BitVec 32) : (writeVarI32 x).map (·.toNat) = (zz x.toInt).map (·.toNat) := by
  unfold writeVarI32 zz
  rw [writeVarU32_eq_uv, zigzag_eq]
