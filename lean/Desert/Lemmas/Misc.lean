import Desert.Lemmas.Depth
import Desert.Lemmas.Extend
import Desert.Lemmas.Refine
/-!
# Smaller lemmas used by the property files
-/
set_option linter.unusedSimpArgs false
set_option linter.unusedVariables false

/-- every window cursor (current and stacked) is inside its window -/
def AbsSrc.AllWF (s : AbsSrc) : Prop := s.cur.pos ≤ s.cur.window.length ∧ ∀ w ∈ s.stack, w.pos ≤ w.window.length

theorem AllWF_new (b : Bytes) : (AbsSrc.new b).AllWF := by simp [AbsSrc.AllWF, AbsSrc.new]

/-- `AllWF` is an invariant of every run (for every program) -/
theorem run_AllWF {α : Type} (p : DProg α) : ∀ (s : AbsSrc) (a : α) (s' : AbsSrc),
    s.AllWF → runAbs p s = .ok (a, s') → s'.AllWF := by
  induction p with
  | ret a => intro s a' s' hw h; simp [runAbs] at h; obtain ⟨_, rfl⟩ := h; exact hw
  | fail e => intro s a s' hw h; simp [runAbs] at h
  | panic w => intro s a s' hw h; simp [runAbs] at h
  | readU8 k ih =>
    intro s a s' hw h
    simp only [runAbs] at h
    cases hb : s.cur.window[s.cur.pos]? with
    | none => simp [hb] at h
    | some b =>
      simp only [hb] at h
      have hlt : s.cur.pos < s.cur.window.length := by
        rcases Nat.lt_or_ge s.cur.pos s.cur.window.length with h' | h'
        · exact h'
        · simp [List.getElem?_eq_none h'] at hb
      refine ih b _ a s' ?_ h
      exact ⟨by simp; omega, hw.2⟩
  | readBytes n k ih =>
    intro s a s' hw h
    simp only [runAbs] at h
    split at h
    · rename_i hl; refine ih _ _ a s' ?_ h; exact ⟨by simpa using hl, hw.2⟩
    · simp at h
  | skip n k ih =>
    intro s a s' hw h
    simp only [runAbs] at h
    split at h
    · rename_i hl; refine ih _ _ a s' ?_ h; exact ⟨by simpa using hl, hw.2⟩
    · simp at h
  | pos k ih => intro s a s' hw h; simp only [runAbs] at h; exact ih _ _ a s' hw h
  | push r k ih =>
    intro s a s' hw h
    simp only [runAbs] at h
    split at h
    · rename_i hg
      refine ih () _ a s' ⟨?_, ?_⟩ h
      · simp [List.length_take, List.length_drop]; omega
      · intro w hwm; simp at hwm; rcases hwm with rfl | hwm
        · exact hw.1
        · exact hw.2 w hwm
    · simp at h
  | pop k ih =>
    intro s a s' hw h
    simp only [runAbs] at h
    cases hst : s.stack with
    | nil => simp [hst] at h
    | cons w ws =>
      simp only [hst] at h
      exact ih _ _ a s' ⟨hw.2 w (by simp [hst]), fun x hx => hw.2 x (by simp [hst, hx])⟩ h
  | strGet i k ih => intro s a s' hw h; simp only [runAbs] at h; exact ih _ _ a s' hw h
  | strPut x k ih => intro s a s' hw h; simp only [runAbs] at h; refine ih _ _ a s' ?_ h; exact hw

/-! ## `normalize` is the identity when there are no declarations -/

theorem normalize_nil : ∀ v : Val,
    (∀ ty, normalize [] ty v = v) ∧ (∀ t, normItems [] t v = v) ∧ (∀ fs, normTuple [] fs v = v) := by
  intro v
  induction v with
  | some x ih =>
    refine ⟨?_, by intro t; simp [normItems], by intro fs; cases fs <;> simp [normTuple]⟩
    intro ty; cases ty <;> simp [normalize, ih.1, Env.find]
  | ok x ih =>
    refine ⟨?_, by intro t; simp [normItems], by intro fs; cases fs <;> simp [normTuple]⟩
    intro ty; cases ty <;> simp [normalize, ih.1, Env.find]
  | error x ih =>
    refine ⟨?_, by intro t; simp [normItems], by intro fs; cases fs <;> simp [normTuple]⟩
    intro ty; cases ty <;> simp [normalize, ih.1, Env.find]
  | vcons x r ihx ihr =>
    refine ⟨?_, by intro t; simp [normItems, ihx.1, ihr.2.1], ?_⟩
    · intro ty; cases ty <;> simp [normalize, Env.find]
    · intro fs; cases fs <;> simp [normTuple, ihx.1, ihr.2.2]
  | list items ih =>
    refine ⟨?_, by intro t; simp [normItems], by intro fs; cases fs <;> simp [normTuple]⟩
    intro ty; cases ty <;> simp [normalize, ih.2.1, ih.2.2, Env.find]
  | ctor i fs ih =>
    refine ⟨?_, by intro t; simp [normItems], by intro fs; cases fs <;> simp [normTuple]⟩
    intro ty; cases ty <;> simp [normalize, Env.find]
  | _ =>
    refine ⟨?_, by intro t; simp [normItems], by intro fs; cases fs <;> simp [normTuple]⟩
    intro ty; cases ty <;> simp [normalize, Env.find]

theorem EnvV0_nil : EnvV0 [] := ⟨by intro id d h; simp [Env.find] at h, by intro id n s cs h; simp [Env.find] at h⟩
theorem NoTransient_nil : NoTransient [] := ⟨by intro id d h; simp [Env.find] at h, by intro id n s cs h; simp [Env.find] at h⟩

theorem WF_new (b : Bytes) : (AbsSrc.new b).WF := by simp [AbsSrc.WF, AbsSrc.new]
theorem view_new (b : Bytes) : (AbsSrc.new b).view = b := by simp [AbsSrc.view, AbsSrc.new]
