import Desert.Align
import Desert.Lemmas.RoundTrip
/-!
# A value of a string-free type leaves the writer's string table alone
-/
set_option linter.unusedSimpArgs false
set_option linter.unusedVariables false

theorem encPrim_st (p : Prim) (v : Val) (st : EncSt) (b : Bytes) (st' : EncSt) (hp : p ≠ .dstring)
    (h : encPrim p v st = .ok (b, st')) : st' = st := by
  cases p <;> cases v <;> simp [encPrim, illTyped] at h hp <;> try (split at h <;> simp_all)
  · exact h.2.symm
  · split at h <;> simp_all
  · cases he : encString ‹Bytes› with
    | ok x => simp [he] at h; exact h.2.symm
    | err e => simp [he] at h
    | panic w => simp [he] at h
  · split at h <;> simp_all

def DFree (env : Env) (v : Val) : Prop :=
  (∀ ty st b st', dedupFree ty = true → enc env ty v st = .ok (b, st') → st' = st) ∧
  (∀ ty st b st', dedupFree ty = true → encItems env ty v st = .ok (b, st') → st' = st) ∧
  (∀ fs st b st', dedupFree fs = true → encTupleFields env fs v st = .ok (b, st') → st' = st)

theorem dfree_leaf (env : Env) (v : Val)
    (hleaf : ∀ ty st b st', enc env ty v st = .ok (b, st') → ∃ p, ty = .prim p)
    (hv : (∀ x r, v ≠ .vcons x r) ∧ v ≠ .vnil) : DFree env v := by
  refine ⟨?_, ?_, ?_⟩
  · intro ty st b st' hdf he
    obtain ⟨p, rfl⟩ := hleaf ty st b st' he
    have he' : encPrim p v st = .ok (b, st') := by simpa [enc] using he
    exact encPrim_st p v st b st' (by simpa [dedupFree] using hdf) he'
  · intro ty st b st' _ he; exact absurd he (encItems_illTyped_of env ty v st b st' hv)
  · intro fs st b st' _ he; exact absurd he (encTuple_illTyped_of env fs v st b st' hv)

theorem enc_dedupFree (env : Env) : ∀ v, DFree env v := by
  intro v
  induction v with
  | unit => exact dfree_leaf env _ (enc_leaf_prim env _ (by simp)) (by simp)
  | bool b => exact dfree_leaf env _ (enc_leaf_prim env _ (by simp)) (by simp)
  | int n => exact dfree_leaf env _ (enc_leaf_prim env _ (by simp)) (by simp)
  | str bs => exact dfree_leaf env _ (enc_leaf_prim env _ (by simp)) (by simp)
  | bytes bs => exact dfree_leaf env _ (enc_leaf_prim env _ (by simp)) (by simp)
  | dur a c => exact dfree_leaf env _ (enc_leaf_prim env _ (by simp)) (by simp)
  | none =>
    refine ⟨?_, fun ty st b st' _ he => absurd he (encItems_illTyped_of env ty _ st b st' (by simp)),
      fun fs st b st' _ he => absurd he (encTuple_illTyped_of env fs _ st b st' (by simp))⟩
    intro ty st b st' hdf he
    cases ty with
    | option t => simp [enc] at he; exact he.2.symm
    | prim p => exact absurd (by simpa [enc] using he) (encPrim_not_chain p _ st b st' (by simp))
    | named id => simp [dedupFree] at hdf
    | _ => simp [enc, illTyped] at he
  | some x ih =>
    refine ⟨?_, fun ty st b st' _ he => absurd he (encItems_illTyped_of env ty _ st b st' (by simp)),
      fun fs st b st' _ he => absurd he (encTuple_illTyped_of env fs _ st b st' (by simp))⟩
    intro ty st b st' hdf he
    cases ty with
    | option t =>
      simp only [enc] at he
      cases hx : enc env t x st with
      | ok r => obtain ⟨b1, st1⟩ := r; simp [hx] at he; rw [← he.2]; exact ih.1 t st b1 st1 (by simpa [dedupFree] using hdf) hx
      | err e => simp [hx] at he
      | panic w => simp [hx] at he
    | prim p => exact absurd (by simpa [enc] using he) (encPrim_not_chain p _ st b st' (by simp))
    | named id => simp [dedupFree] at hdf
    | _ => simp [enc, illTyped] at he
  | ok x ih =>
    refine ⟨?_, fun ty st b st' _ he => absurd he (encItems_illTyped_of env ty _ st b st' (by simp)),
      fun fs st b st' _ he => absurd he (encTuple_illTyped_of env fs _ st b st' (by simp))⟩
    intro ty st b st' hdf he
    cases ty with
    | result a e =>
      simp only [enc] at he
      simp only [dedupFree, Bool.and_eq_true] at hdf
      cases hx : enc env a x st with
      | ok r => obtain ⟨b1, st1⟩ := r; simp [hx] at he; rw [← he.2]; exact ih.1 a st b1 st1 hdf.1 hx
      | err e => simp [hx] at he
      | panic w => simp [hx] at he
    | prim p => exact absurd (by simpa [enc] using he) (encPrim_not_chain p _ st b st' (by simp))
    | named id => simp [dedupFree] at hdf
    | _ => simp [enc, illTyped] at he
  | error x ih =>
    refine ⟨?_, fun ty st b st' _ he => absurd he (encItems_illTyped_of env ty _ st b st' (by simp)),
      fun fs st b st' _ he => absurd he (encTuple_illTyped_of env fs _ st b st' (by simp))⟩
    intro ty st b st' hdf he
    cases ty with
    | result a e =>
      simp only [enc] at he
      simp only [dedupFree, Bool.and_eq_true] at hdf
      cases hx : enc env e x st with
      | ok r => obtain ⟨b1, st1⟩ := r; simp [hx] at he; rw [← he.2]; exact ih.1 e st b1 st1 hdf.2 hx
      | err e => simp [hx] at he
      | panic w => simp [hx] at he
    | prim p => exact absurd (by simpa [enc] using he) (encPrim_not_chain p _ st b st' (by simp))
    | named id => simp [dedupFree] at hdf
    | _ => simp [enc, illTyped] at he
  | vnil =>
    refine ⟨?_, ?_, ?_⟩
    · intro ty st b st' hdf he
      cases ty with
      | prim p => exact absurd (by simpa [enc] using he) (encPrim_not_chain p _ st b st' (by simp))
      | named id => simp [dedupFree] at hdf
      | _ => simp [enc, illTyped] at he
    · intro ty st b st' _ he; simp [encItems] at he; exact he.2.symm
    · intro fs st b st' _ he
      cases fs <;> simp [encTupleFields, illTyped] at he
      exact he.2.symm
  | vcons x r ihx ihr =>
    refine ⟨?_, ?_, ?_⟩
    · intro ty st b st' hdf he
      cases ty with
      | prim p => exact absurd (by simpa [enc] using he) (encPrim_not_chain p _ st b st' (by simp))
      | named id => simp [dedupFree] at hdf
      | _ => simp [enc, illTyped] at he
    · intro ty st b st' hdf he
      simp only [encItems] at he
      cases hx : enc env ty x st with
      | ok p =>
        obtain ⟨b1, st1⟩ := p
        simp only [hx, Outcome.bind_ok] at he
        cases hr : encItems env ty r st1 with
        | ok q =>
          obtain ⟨b2, st2⟩ := q
          simp [hr] at he
          rw [← he.2, ihr.2.1 ty st1 b2 st2 hdf hr]; exact ihx.1 ty st b1 st1 hdf hx
        | err e => simp [hr] at he
        | panic w => simp [hr] at he
      | err e => simp [hx] at he
      | panic w => simp [hx] at he
    · intro fs st b st' hdf he
      cases fs with
      | fcons a rest =>
        simp only [encTupleFields] at he
        simp only [dedupFree, Bool.and_eq_true] at hdf
        cases hx : enc env a x st with
        | ok p =>
          obtain ⟨b1, st1⟩ := p
          simp only [hx, Outcome.bind_ok] at he
          cases hr : encTupleFields env rest r st1 with
          | ok q =>
            obtain ⟨b2, st2⟩ := q
            simp [hr] at he
            rw [← he.2, ihr.2.2 rest st1 b2 st2 hdf.2 hr]; exact ihx.1 a st b1 st1 hdf.1 hx
          | err e => simp [hr] at he
          | panic w => simp [hr] at he
        | err e => simp [hx] at he
        | panic w => simp [hx] at he
      | _ => simp [encTupleFields, illTyped] at he
  | list items ih =>
    refine ⟨?_, fun ty st b st' _ he => absurd he (encItems_illTyped_of env ty _ st b st' (by simp)),
      fun fs st b st' _ he => absurd he (encTuple_illTyped_of env fs _ st b st' (by simp))⟩
    intro ty st b st' hdf he
    cases ty with
    | prim p => exact absurd (by simpa [enc] using he) (encPrim_not_chain p _ st b st' (by simp))
    | named id => simp [dedupFree] at hdf
    | seq t =>
      simp only [enc] at he
      split at he
      · cases hr : encItems env t items st with
        | ok q => obtain ⟨b2, st2⟩ := q; simp [hr] at he; rw [← he.2]; exact ih.2.1 t st b2 st2 (by simpa [dedupFree] using hdf) hr
        | err e => simp [hr] at he
        | panic w => simp [hr] at he
      · simp at he
    | array n t =>
      simp only [enc] at he
      split at he
      · simp [illTyped] at he
      · split at he
        · cases hr : encItems env t items st with
          | ok q => obtain ⟨b2, st2⟩ := q; simp [hr] at he; rw [← he.2]; exact ih.2.1 t st b2 st2 (by simpa [dedupFree] using hdf) hr
          | err e => simp [hr] at he
          | panic w => simp [hr] at he
        · simp at he
    | tuple fs =>
      simp only [enc] at he
      cases hr : encTupleFields env fs items st with
      | ok q => obtain ⟨b2, st2⟩ := q; simp [hr] at he; rw [← he.2]; exact ih.2.2 fs st b2 st2 (by simpa [dedupFree] using hdf) hr
      | err e => simp [hr] at he
      | panic w => simp [hr] at he
    | _ => simp [enc, illTyped] at he
  | ctor idx fields ih =>
    refine ⟨?_, fun ty st b st' _ he => absurd he (encItems_illTyped_of env ty _ st b st' (by simp)),
      fun fs st b st' _ he => absurd he (encTuple_illTyped_of env fs _ st b st' (by simp))⟩
    intro ty st b st' hdf he
    cases ty with
    | prim p => exact absurd (by simpa [enc] using he) (encPrim_not_chain p _ st b st' (by simp))
    | named id => simp [dedupFree] at hdf
    | _ => simp [enc, illTyped] at he
