import Desert.Normalize
/-!
# The encoder does not look at transient fields

`enc env ty (normalize env ty v) st = enc env ty v st` for every environment (also with evolution
steps), by induction on the value; hence two values that differ only in transient fields have the
same encoding and leave the same writer state.
-/
set_option linter.unusedSimpArgs false
set_option linter.unusedVariables false

theorem chainLength_normItems (env : Env) (t : Ty) : ∀ v : Val, (normItems env t v).chainLength = v.chainLength := by
  intro v
  induction v with
  | vcons x r _ ihr => simp [normItems, Val.chainLength, ihr]
  | _ => simp [normItems]

def EncNorm (env : Env) (v : Val) : Prop :=
  (∀ ty st, enc env ty (normalize env ty v) st = enc env ty v st) ∧
  (∀ t st, encItems env t (normItems env t v) st = encItems env t v st) ∧
  (∀ fs st, encTupleFields env fs (normTuple env fs v) st = encTupleFields env fs v st) ∧
  (∀ steps fields st, encFields env steps fields (normFields env fields v) st = encFields env steps fields v st)

theorem normTuple_not_cons (env : Env) (fs : Ty) (v : Val) (h : ∀ x r, v ≠ .vcons x r) : normTuple env fs v = v := by
  cases v <;> cases fs <;> simp_all [normTuple]

theorem normFields_not_cons (env : Env) (fields : List Field) (v : Val) (h : ∀ x r, v ≠ .vcons x r) :
    normFields env fields v = v := by
  cases v <;> cases fields <;> simp_all [normFields]

theorem normItems_not_cons (env : Env) (t : Ty) (v : Val) (h : ∀ x r, v ≠ .vcons x r) : normItems env t v = v := by
  cases v <;> simp_all [normItems]

/-- values on which `normalize` is the identity for every type: everything except
`some / ok / error / list / ctor` -/
theorem normalize_id_of (env : Env) (ty : Ty) (v : Val)
    (h : (∀ x, v ≠ .some x) ∧ (∀ x, v ≠ .ok x) ∧ (∀ x, v ≠ .error x) ∧ (∀ x, v ≠ .list x) ∧ (∀ i x, v ≠ .ctor i x)) :
    normalize env ty v = v := by
  cases ty with
  | named id =>
    unfold normalize
    cases hf : env.find id with
    | none => simp
    | some td => cases td <;> cases v <;> simp_all
  | _ => cases v <;> simp_all [normalize]

theorem encNorm_simple (env : Env) (v : Val)
    (h : (∀ x, v ≠ .some x) ∧ (∀ x, v ≠ .ok x) ∧ (∀ x, v ≠ .error x) ∧ (∀ x, v ≠ .list x) ∧ (∀ i x, v ≠ .ctor i x))
    (hc : ∀ x r, v ≠ .vcons x r) : EncNorm env v :=
  ⟨fun ty st => by rw [normalize_id_of env ty v h],
   fun t st => by rw [normItems_not_cons env t v hc],
   fun fs st => by rw [normTuple_not_cons env fs v hc],
   fun steps fields st => by rw [normFields_not_cons env fields v hc]⟩

theorem enc_normalize (env : Env) : ∀ v, EncNorm env v := by
  intro v
  induction v with
  | unit => exact encNorm_simple env _ (by simp) (by simp)
  | bool b => exact encNorm_simple env _ (by simp) (by simp)
  | int n => exact encNorm_simple env _ (by simp) (by simp)
  | str bs => exact encNorm_simple env _ (by simp) (by simp)
  | bytes bs => exact encNorm_simple env _ (by simp) (by simp)
  | dur a c => exact encNorm_simple env _ (by simp) (by simp)
  | none => exact encNorm_simple env _ (by simp) (by simp)
  | vnil => exact encNorm_simple env _ (by simp) (by simp)
  | some x ih =>
    refine ⟨?_, fun t st => by rw [normItems_not_cons env t _ (by simp)],
      fun fs st => by rw [normTuple_not_cons env fs _ (by simp)],
      fun steps fields st => by rw [normFields_not_cons env fields _ (by simp)]⟩
    intro ty st
    cases ty with
    | option t => simp [normalize, enc, ih.1]
    | named id =>
      unfold normalize
      cases hf : env.find id with
      | none => simp
      | some td => cases td <;> simp
    | _ => simp [normalize]
  | ok x ih =>
    refine ⟨?_, fun t st => by rw [normItems_not_cons env t _ (by simp)],
      fun fs st => by rw [normTuple_not_cons env fs _ (by simp)],
      fun steps fields st => by rw [normFields_not_cons env fields _ (by simp)]⟩
    intro ty st
    cases ty with
    | result a e => simp [normalize, enc, ih.1]
    | named id =>
      unfold normalize
      cases hf : env.find id with
      | none => simp
      | some td => cases td <;> simp
    | _ => simp [normalize]
  | error x ih =>
    refine ⟨?_, fun t st => by rw [normItems_not_cons env t _ (by simp)],
      fun fs st => by rw [normTuple_not_cons env fs _ (by simp)],
      fun steps fields st => by rw [normFields_not_cons env fields _ (by simp)]⟩
    intro ty st
    cases ty with
    | result a e => simp [normalize, enc, ih.1]
    | named id =>
      unfold normalize
      cases hf : env.find id with
      | none => simp
      | some td => cases td <;> simp
    | _ => simp [normalize]
  | vcons x r ihx ihr =>
    refine ⟨?_, ?_, ?_, ?_⟩
    · intro ty st
      rw [normalize_id_of env ty _ (by simp)]
    · intro t st
      simp only [normItems, encItems, ihx.1]
      cases enc env t x st with
      | ok p => obtain ⟨b, st1⟩ := p; simp [ihr.2.1]
      | err e => simp
      | panic w => simp
    · intro fs st
      cases fs with
      | fcons a rest =>
        simp only [normTuple, encTupleFields, ihx.1]
        cases enc env a x st with
        | ok p => obtain ⟨b, st1⟩ := p; simp [ihr.2.2.1]
        | err e => simp
        | panic w => simp
      | _ => simp [normTuple]
    · intro steps fields st
      cases fields with
      | nil => simp [normFields]
      | cons f fs =>
        cases hrole : f.role with
        | transient => simp [normFields, encFields, hrole, ihr.2.2.2]
        | plain =>
          simp only [normFields, encFields, hrole, ihx.1]
          cases enc env f.ty x st with
          | ok p => obtain ⟨b, st1⟩ := p; simp [ihr.2.2.2]
          | err e => simp
          | panic w => simp
        | optional =>
          simp only [normFields, encFields, hrole, ihx.1]
          cases enc env f.ty x st with
          | ok p => obtain ⟨b, st1⟩ := p; simp [ihr.2.2.2]
          | err e => simp
          | panic w => simp
  | list items ih =>
    refine ⟨?_, fun t st => by rw [normItems_not_cons env t _ (by simp)],
      fun fs st => by rw [normTuple_not_cons env fs _ (by simp)],
      fun steps fields st => by rw [normFields_not_cons env fields _ (by simp)]⟩
    intro ty st
    cases ty with
    | seq t => simp [normalize, enc, chainLength_normItems, ih.2.1]
    | array n t => simp [normalize, enc, chainLength_normItems, ih.2.1]
    | tuple fs => simp [normalize, enc, ih.2.2.1]
    | named id =>
      unfold normalize enc
      cases hf : env.find id with
      | none => simp
      | some td =>
        cases td with
        | record d => simp [ih.2.2.2]
        | enum n s cs => simp
    | _ => simp [normalize]
  | ctor idx fields ih =>
    refine ⟨?_, fun t st => by rw [normItems_not_cons env t _ (by simp)],
      fun fs st => by rw [normTuple_not_cons env fs _ (by simp)],
      fun steps fields st => by rw [normFields_not_cons env fields _ (by simp)]⟩
    intro ty st
    cases ty with
    | named id =>
      unfold normalize enc
      cases hf : env.find id with
      | none => simp
      | some td =>
        cases td with
        | record d => simp
        | enum n s cs =>
          simp only
          cases hfc : findCtorWire (wireCtors s cs) idx with
          | none => simp [hfc]
          | some wc => obtain ⟨w, c⟩ := wc; simp [hfc, ih.2.2.2]
    | _ => simp [normalize]
