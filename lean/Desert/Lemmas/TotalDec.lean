import Desert.DecWF
import Desert.Lemmas.Total
import Desert.Lemmas.RoundTripFull
/-!
# `dec env fuel ty` never panics, on any input, when fewer than `fuel` bytes are left
-/
set_option linter.unusedSimpArgs false
set_option linter.unusedVariables false

theorem fdOK_mkFieldDec (env : Env) (m : Nat) (decT : Ty → DProg Val)
    (hdecT : ∀ ty, tyOKb env ty = true → ∀ s : AbsSrc, s.WF → s.rem < m → Ok1 (decT ty) s (fun _ => True))
    (f : Field) (hf : fieldDecOKb env f = true) : FdOK m (mkFieldDec decT f) := by
  simp only [fieldDecOKb, Bool.and_eq_true, Bool.or_eq_true, bne_iff_ne, ne_eq] at hf
  obtain ⟨⟨hty, hdef⟩, hopt⟩ := hf
  refine ⟨?_, ?_, ?_⟩
  · intro hr
    rcases hdef with h | h
    · exact absurd hr h
    · exact h
  · intro s hw hm; exact hdecT f.ty hty s hw hm
  · intro hr s hw hm
    rcases hopt with h | h
    · exact absurd hr h
    · simp only [mkFieldDec]
      cases hft : f.ty with
      | option t =>
        simp only
        have : tyOKb env t = true := by rw [hft] at hty; simpa [tyOKb] using hty
        exact hdecT t this s hw hm
      | _ => rw [hft] at h; simp at h

theorem decTy_total (env : Env) (F : Nat) (named : String → DProg Val)
    (hnamed : ∀ id, (env.find id).isSome = true → ∀ s : AbsSrc, s.WF → s.rem < F → Ok1 (named id) s (fun _ => True)) :
    ∀ ty : Ty,
      (tyOKb env ty = true → ∀ s : AbsSrc, s.WF → s.rem < F → Ok1 (decTy F named ty) s (fun _ => True)) ∧
      (chainOKb env ty = true → ∀ i, ∀ fd ∈ tupleDecs F named ty i, FdOK F fd) := by
  intro ty
  induction ty with
  | prim p =>
    refine ⟨fun _ s hw _ => ?_, fun _ i fd h => by simp [tupleDecs] at h⟩
    simp only [decTy]
    exact ok1_weaken (ok1_decPrim p s hw) (fun _ _ => trivial)
  | option t ih =>
    refine ⟨fun hok s hw hm => ?_, fun _ i fd h => by simp [tupleDecs] at h⟩
    have hok' : tyOKb env t = true := by simpa [tyOKb] using hok
    simp only [decTy]
    refine ok1_readU8_bind _ s hw _ (fun tag s0 f0 hlt => ?_)
    refine ok1_ite _ _ _ _ _ (fun _ => ok1_pure _ _ f0.wf _ trivial) (fun _ => ?_)
    refine ok1_ite _ _ _ _ _ (fun _ => ?_) (fun _ => ok1_fail _ _ _)
    exact ok1_bind _ _ _ _ _ (ih.1 hok' s0 f0.wf (by omega)) (fun v s1 f1 _ => ok1_pure _ _ f1.wf _ trivial)
  | result a e iha ihe =>
    refine ⟨fun hok s hw hm => ?_, fun _ i fd h => by simp [tupleDecs] at h⟩
    simp only [tyOKb, Bool.and_eq_true] at hok
    simp only [decTy]
    refine ok1_readU8_bind _ s hw _ (fun tag s0 f0 hlt => ?_)
    refine ok1_ite _ _ _ _ _ (fun _ => ?_) (fun _ => ?_)
    · exact ok1_bind _ _ _ _ _ (ihe.1 hok.2 s0 f0.wf (by omega)) (fun v s1 f1 _ => ok1_pure _ _ f1.wf _ trivial)
    refine ok1_ite _ _ _ _ _ (fun _ => ?_) (fun _ => ok1_fail _ _ _)
    exact ok1_bind _ _ _ _ _ (iha.1 hok.1 s0 f0.wf (by omega)) (fun v s1 f1 _ => ok1_pure _ _ f1.wf _ trivial)
  | seq t ih =>
    refine ⟨fun hok s hw hm => ?_, fun _ i fd h => by simp [tupleDecs] at h⟩
    have hok' : tyOKb env t = true := by simpa [tyOKb] using hok
    simp only [decTy]
    refine ok1_bind _ _ _ _ _ (ok1_decSeq _ F (ih.1 hok') F s hw hm hm) (fun vs s1 f1 _ => ok1_pure _ _ f1.wf _ trivial)
  | array n t ih =>
    refine ⟨fun hok s hw hm => ?_, fun _ i fd h => by simp [tupleDecs] at h⟩
    have hok' : tyOKb env t = true := by simpa [tyOKb] using hok
    simp only [decTy]
    refine ok1_bind _ _ _ _ _ (ok1_decArray _ F (ih.1 hok') F n s hw hm hm) (fun vs s1 f1 _ => ok1_pure _ _ f1.wf _ trivial)
  | tuple fs ih =>
    refine ⟨fun hok s hw hm => ?_, fun _ i fd h => by simp [tupleDecs] at h⟩
    have hok' : chainOKb env fs = true := by simpa [tyOKb] using hok
    simp only [decTy]
    exact ok1_weaken (ok1_readRecord F [] _ (ih.2 hok' 0) s hw (by omega)) (fun _ _ => trivial)
  | fnil =>
    exact ⟨fun hok => by simp [tyOKb] at hok, fun _ i fd h => by simp [tupleDecs] at h⟩
  | fcons a r iha ihr =>
    refine ⟨fun hok => by simp [tyOKb] at hok, fun hok i fd h => ?_⟩
    simp only [chainOKb, Bool.and_eq_true] at hok
    simp only [tupleDecs, List.mem_cons] at h
    rcases h with rfl | h
    · exact ⟨by simp [tupleField], fun s hw hm => iha.1 hok.1 s hw hm, by simp [tupleField]⟩
    · exact ihr.2 hok.2 (i + 1) fd h
  | named id =>
    refine ⟨fun hok s hw hm => ?_, fun _ i fd h => by simp [tupleDecs] at h⟩
    simp only [decTy]
    exact hnamed id (by simpa [tyOKb] using hok) s hw hm

/-- **decoding is total**: for a decodable environment and type, from any source state with fewer
than `fuel` bytes left, `dec env fuel ty` returns a value or an error — it reaches no panic node,
pushes no region that escapes its window, pops no empty stack, and never runs out of fuel -/
theorem dec_total (env : Env) (henv : envDecOKb env = true) : ∀ (fuel : Nat) (ty : Ty), tyOKb env ty = true →
    ∀ s : AbsSrc, s.WF → s.rem < fuel → Ok1 (dec env fuel ty) s (fun _ => True) := by
  intro fuel
  induction fuel with
  | zero => intro ty _ s _ h; omega
  | succ f ih =>
    intro ty hty s hw hm
    unfold dec
    refine (decTy_total env (f + 1) (decNamed env (f + 1)) ?_ ty).1 hty s hw hm
    intro id hid s' hw' hm'
    obtain ⟨td, htd⟩ := Option.isSome_iff_exists.mp hid
    have hdecT : ∀ ty, tyOKb env ty = true → ∀ s : AbsSrc, s.WF → s.rem < f →
        Ok1 (decTy f (decNamed env f) ty) s (fun _ => True) := fun ty h s hw hm => ih ty h s hw hm
    obtain ⟨k, hk⟩ := find_mem htd
    have hall := henv
    simp only [envDecOKb, List.all_eq_true] at hall
    have htdok := hall _ hk
    simp only [decNamed, htd]
    cases td with
    | record d =>
      simp only [tyDeclDecOKb, declDecOKb, List.all_eq_true] at htdok
      refine ok1_weaken (ok1_readRecord f d.steps _ ?_ s' hw' (by omega)) (fun _ _ => trivial)
      intro fd hfd
      simp only [declDecs, List.mem_map] at hfd
      obtain ⟨fld, hfld, rfl⟩ := hfd
      exact fdOK_mkFieldDec env f _ hdecT fld (htdok fld hfld)
    | enum n srt cs =>
      simp only [tyDeclDecOKb, List.all_eq_true] at htdok
      refine ok1_readEnum f _ n srt cs ?_ s' hw' (by omega)
      intro c hc fd hfd
      have := htdok c hc
      simp only [declDecOKb, List.all_eq_true] at this
      simp only [declDecs, List.mem_map] at hfd
      obtain ⟨fld, hfld, rfl⟩ := hfd
      exact fdOK_mkFieldDec env f _ hdecT fld (this fld hfld)

/-- the driver's top-level decoder (fuel `|input| + 1`) on arbitrary bytes -/
theorem decodeAbs_total (env : Env) (henv : envDecOKb env = true) (ty : Ty) (hty : tyOKb env ty = true) (b : Bytes) :
    ∀ w, decodeAbs env ty b ≠ .panic w := by
  intro w h
  have := dec_total env henv (b.length + 1) ty hty (AbsSrc.new b) (WF_new b) (by simp [AbsSrc.rem, AbsSrc.new])
  unfold Ok1 at this
  unfold decodeAbs at h
  rw [h] at this
  exact this
