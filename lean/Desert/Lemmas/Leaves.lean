import Desert.Encode
/-!
# Wire descriptions of the chrono / big-number leaf codecs

The model has no calendar, zone table or decimal parser; each of these library types is written as a
fixed sequence of primitives the model does have. `*D` is that sequence as a model tuple type; the
leaf's bytes are the tuple's bytes without the tuple's version byte (`C01.leaf_description_roundtrip`). The `leaves`
family compares the real codecs with these descriptions on every run.
-/

def u8T : Ty := .prim (.int 1 false)
def vu32T : Ty := .prim .varu32

/-- `NaiveDate`: `write_var_u32(year as u32)`, `write_u8(month)`, `write_u8(day)` -/
def naiveDateD : Ty := .tuple (.fcons vu32T (.fcons u8T (.fcons u8T .fnil)))
/-- `NaiveTime`: hour, minute, second as `u8`, `write_var_u32(nanosecond)` -/
def naiveTimeD : Ty := .tuple (.fcons u8T (.fcons u8T (.fcons u8T (.fcons vu32T .fnil))))
/-- `NaiveDateTime`, `DateTime<Local>`: date then time -/
def naiveDateTimeD : Ty :=
  .tuple (.fcons vu32T (.fcons u8T (.fcons u8T (.fcons u8T (.fcons u8T (.fcons u8T (.fcons vu32T .fnil)))))))
/-- `DateTime<Utc>`: `write_i64(timestamp)`, `write_u32(subsec nanos)` -/
def dateTimeUtcD : Ty := .tuple (.fcons (.prim (.int 8 true)) (.fcons (.prim (.int 4 false)) .fnil))
/-- `DateTime<FixedOffset>`: local date-time, then the offset -/
def dateTimeFixedD : Ty :=
  .tuple (.fcons vu32T (.fcons u8T (.fcons u8T (.fcons u8T (.fcons u8T (.fcons u8T (.fcons vu32T
    (.fcons (.prim .fixedOffset) .fnil))))))))
/-- `Tz`: the byte 1, then the zone name as a `String` -/
def tzD : Ty := .tuple (.fcons u8T (.fcons (.prim .string) .fnil))
/-- `DateTime<Tz>`: UTC date-time, then the zone -/
def dateTimeTzD : Ty :=
  .tuple (.fcons vu32T (.fcons u8T (.fcons u8T (.fcons u8T (.fcons u8T (.fcons u8T (.fcons vu32T
    (.fcons u8T (.fcons (.prim .string) .fnil)))))))))

def leafDescriptions : List Ty :=
  [naiveDateD, naiveTimeD, naiveDateTimeD, dateTimeUtcD, dateTimeFixedD, tzD, dateTimeTzD,
   .prim .bytes /- BigInt: its signed big-endian bytes as a `Vec<u8>` -/,
   .prim .string /- BigDecimal: its `Display` text -/]

theorem varu32_layout (y : Nat) (hy : y < 2 ^ 32) (st : EncSt) : encPrim .varu32 (.int y) st = .ok (uv y, st) := by
  have h : (0 : Int) ≤ (y : Int) ∧ (y : Int) < 2 ^ 32 := ⟨by omega, by exact_mod_cast hy⟩
  simp only [encPrim]
  rw [if_pos h]; simp

theorem u8_layout (m : Nat) (hm : m < 256) (st : EncSt) : encPrim (.int 1 false) (.int m) st = .ok ([byteOf m], st) := by
  have hr : intInRange 1 false (m : Int) = true := by simp [intInRange]; omega
  have hu : toUnsigned 1 (m : Int) = m := by
    unfold toUnsigned
    have : ((m : Int) % ((256 ^ 1 : Nat) : Int)) = (m : Int) := by
      apply Int.emod_eq_of_lt <;> simp <;> omega
    rw [this]; simp
  simp only [encPrim]
  rw [if_pos hr, hu]; simp [beBytes]

/-- one more primitive component in front of a tuple's field list -/
theorem tupleFields_cons_prim {env : Env} {p : Prim} {x : Val} {r : Ty} {rest : Val} {st st1 st2 : EncSt} {b bs : Bytes}
    (h1 : encPrim p x st = .ok (b, st1)) (h2 : encTupleFields env r rest st1 = .ok (bs, st2)) :
    encTupleFields env (.fcons (.prim p) r) (.vcons x rest) st = .ok (b ++ bs, st2) := by
  rw [encTupleFields]; simp [enc, h1, h2, Outcome.bind]

/-- `NaiveDate` on the wire: `uv(year) ++ [month] ++ [day]` after the description's version byte -/
theorem naiveDate_layout (y m d : Nat) (hy : y < 2 ^ 32) (hm : m < 256) (hd : d < 256) :
    enc [] naiveDateD (.list (.vcons (.int y) (.vcons (.int m) (.vcons (.int d) .vnil)))) [] =
      .ok (0 :: (uv y ++ ([byteOf m] ++ ([byteOf d] ++ []))), []) := by
  have e0 : encTupleFields [] .fnil .vnil [] = .ok ([], []) := by rw [encTupleFields]
  have e1 := tupleFields_cons_prim (env := []) (u8_layout d hd []) e0
  have e2 := tupleFields_cons_prim (env := []) (u8_layout m hm []) e1
  have e3 := tupleFields_cons_prim (env := []) (varu32_layout y hy []) e2
  simp only [naiveDateD, vu32T, u8T, enc]
  rw [e3]; rfl

/-- `NaiveTime` on the wire: `[hour, minute, second] ++ uv(nanosecond)` -/
theorem naiveTime_layout (h m s n : Nat) (hh : h < 256) (hm : m < 256) (hs : s < 256) (hn : n < 2 ^ 32) :
    enc [] naiveTimeD (.list (.vcons (.int h) (.vcons (.int m) (.vcons (.int s) (.vcons (.int n) .vnil))))) [] =
      .ok (0 :: ([byteOf h] ++ ([byteOf m] ++ ([byteOf s] ++ (uv n ++ [])))), []) := by
  have e0 : encTupleFields [] .fnil .vnil [] = .ok ([], []) := by rw [encTupleFields]
  have e1 := tupleFields_cons_prim (env := []) (varu32_layout n hn []) e0
  have e2 := tupleFields_cons_prim (env := []) (u8_layout s hs []) e1
  have e3 := tupleFields_cons_prim (env := []) (u8_layout m hm []) e2
  have e4 := tupleFields_cons_prim (env := []) (u8_layout h hh []) e3
  simp only [naiveTimeD, vu32T, u8T, enc]
  rw [e4]; rfl
