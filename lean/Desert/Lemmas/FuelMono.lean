import Desert.Decode
import Desert.Lemmas.Run
/-!
# More fuel never changes a successful decoding

`Le p q`: every successful run of `p` is the same successful run of `q`. Fuel exhaustion is a panic
node, so the decoder with less fuel is `Le` the decoder with more.
-/
set_option linter.unusedSimpArgs false
set_option linter.unusedVariables false

def Le {α : Type} (p q : DProg α) : Prop := ∀ s a s', runAbs p s = .ok (a, s') → runAbs q s = .ok (a, s')

theorem Le.refl {α : Type} (p : DProg α) : Le p p := fun _ _ _ h => h

theorem Le.panic {α : Type} (w : String) (q : DProg α) : Le (.panic w) q := by
  intro s a s' h; simp [runAbs] at h

theorem Le.bind {α β : Type} {p q : DProg α} {k k' : α → DProg β} (h1 : Le p q) (h2 : ∀ a, Le (k a) (k' a)) :
    Le (p >>= k) (q >>= k') := by
  intro s b s' h
  rw [bind_eq_dbind, runAbs_bind] at h ⊢
  cases hr : runAbs p s with
  | ok r =>
    obtain ⟨a, s1⟩ := r
    rw [hr] at h
    rw [h1 s a s1 hr]
    simp only [Outcome.bindS_ok] at h ⊢
    exact h2 a s1 b s' h
  | err e => rw [hr] at h; simp [Outcome.bindS] at h
  | panic w => rw [hr] at h; simp [Outcome.bindS] at h

theorem Le.ite {α : Type} (c : Prop) [Decidable c] {a a' b b' : DProg α} (h1 : Le a a') (h2 : Le b b') :
    Le (if c then a else b) (if c then a' else b') := by
  split
  · exact h1
  · exact h2

theorem le_decKnown {d d' : DProg Val} (h : Le d d') : ∀ n, Le (decKnown d n) (decKnown d' n) := by
  intro n
  induction n with
  | zero => exact Le.refl _
  | succ n ih => simp only [decKnown]; exact Le.bind h (fun v => Le.bind ih (fun _ => Le.refl _))

theorem le_decUnknown {d d' : DProg Val} (h : Le d d') : ∀ f f', f ≤ f' → Le (decUnknown d f) (decUnknown d' f') := by
  intro f
  induction f with
  | zero => intro f' _; exact Le.panic _ _
  | succ f ih =>
    intro f' hf
    cases f' with
    | zero => omega
    | succ f' =>
      simp only [decUnknown]
      refine Le.bind (Le.refl _) (fun tag => ?_)
      refine Le.ite _ (Le.refl _) (Le.ite _ ?_ (Le.refl _))
      exact Le.bind h (fun v => Le.bind (ih f' (by omega)) (fun _ => Le.refl _))

theorem le_decSeq {d d' : DProg Val} (h : Le d d') (f f' : Nat) (hf : f ≤ f') : Le (decSeq f d) (decSeq f' d') := by
  unfold decSeq
  refine Le.bind (Le.refl _) (fun n => ?_)
  exact Le.ite _ (le_decUnknown h f f' hf) (Le.ite _ (Le.refl _) (le_decKnown h _))

theorem le_decUnknownArr {d d' : DProg Val} (h : Le d d') (L : Nat) : ∀ f f' hv, f ≤ f' →
    Le (decUnknownArr d L f hv) (decUnknownArr d' L f' hv) := by
  intro f
  induction f with
  | zero => intro f' hv _; exact Le.panic _ _
  | succ f ih =>
    intro f' hv hf
    cases f' with
    | zero => omega
    | succ f' =>
      simp only [decUnknownArr]
      refine Le.bind (Le.refl _) (fun tag => ?_)
      refine Le.ite _ (Le.refl _) (Le.ite _ ?_ (Le.refl _))
      refine Le.bind h (fun v => ?_)
      exact Le.ite _ (Le.refl _) (Le.bind (ih f' _ (by omega)) (fun _ => Le.refl _))

theorem le_decArray {d d' : DProg Val} (h : Le d d') (f f' L : Nat) (hf : f ≤ f') : Le (decArray f d L) (decArray f' d' L) := by
  unfold decArray
  refine Le.bind (Le.refl _) (fun n => ?_)
  refine Le.ite _ (le_decUnknownArr h L f f' 0 hf) (Le.ite _ (Le.refl _) (Le.ite _ ?_ ?_))
  · exact Le.bind (le_decKnown h _) (fun _ => Le.refl _)
  · exact Le.bind (le_decKnown h _) (fun _ => Le.refl _)

/-- field decoders related pointwise -/
structure FdLe (a b : FieldDec) : Prop where
  field : a.field = b.field
  full : Le a.decFull b.decFull
  inner : Le a.decInner b.decInner

theorem le_inChunk {α : Type} (rs : RecSt) (c : Nat) {body body' : DProg α} (h : Le body body') :
    Le (inChunk rs c body) (inChunk rs c body') := by
  unfold inChunk
  split
  · exact Le.bind h (fun _ => Le.refl _)
  · split
    · exact Le.refl _
    · exact Le.bind (Le.refl _) (fun _ => Le.bind h (fun _ => Le.refl _))

theorem le_readField (steps : List Step) (rs : RecSt) {fd fd' : FieldDec} (h : FdLe fd fd') :
    Le (readField steps rs fd) (readField steps rs fd') := by
  unfold readField
  simp only [h.field]
  cases fd'.field.role with
  | transient => exact Le.refl _
  | plain =>
    simp only
    refine Le.ite _ (Le.refl _) ?_
    cases takeIdx rs (genOf steps fd'.field.name) with
    | panic w => exact Le.refl _
    | err e => exact Le.refl _
    | ok r =>
      obtain ⟨pos, st⟩ := r
      simp only
      refine Le.ite _ (Le.refl _) (le_inChunk _ _ ?_)
      exact Le.ite _ (Le.bind (Le.refl _) (fun b => Le.ite _ h.full (Le.refl _))) h.full
  | optional =>
    simp only
    refine Le.ite _ (Le.refl _) ?_
    cases takeIdx rs (genOf steps fd'.field.name) with
    | panic w => exact Le.refl _
    | err e => exact Le.refl _
    | ok r =>
      obtain ⟨pos, st⟩ := r
      simp only
      refine Le.ite _ (Le.refl _) (le_inChunk _ _ ?_)
      exact Le.ite _ (Le.bind h.inner (fun _ => Le.refl _)) h.full

inductive FdsLe : List FieldDec → List FieldDec → Prop where
  | nil : FdsLe [] []
  | cons {a b : FieldDec} {as bs : List FieldDec} : FdLe a b → FdsLe as bs → FdsLe (a :: as) (b :: bs)

theorem le_readFields (steps : List Step) : ∀ (fds fds' : List FieldDec), FdsLe fds fds' →
    ∀ rs, Le (readFields steps rs fds) (readFields steps rs fds') := by
  intro fds fds' h
  induction h with
  | nil => intro rs; exact Le.refl _
  | cons hd _ ih =>
    intro rs
    simp only [readFields]
    exact Le.bind (le_readField steps rs hd) (fun p => Le.bind (ih p.2) (fun _ => Le.refl _))

theorem le_readRecord (steps : List Step) {fds fds' : List FieldDec} (h : FdsLe fds fds') :
    Le (readRecord steps fds) (readRecord steps fds') := by
  unfold readRecord readRecordBody
  exact Le.bind (Le.refl _) (fun ver => Le.bind (Le.refl _) (fun rs => Le.bind (le_readFields steps _ _ h rs) (fun _ => Le.refl _)))

theorem fdsLe_map {decT decT' : Ty → DProg Val} (h : ∀ ty, Le (decT ty) (decT' ty)) :
    ∀ fields : List Field, FdsLe (fields.map (mkFieldDec decT)) (fields.map (mkFieldDec decT')) := by
  intro fields
  induction fields with
  | nil => exact .nil
  | cons f fs ih =>
    refine .cons ⟨rfl, h f.ty, ?_⟩ ih
    simp only [mkFieldDec]
    cases f.ty <;> first | exact Le.refl _ | exact h _

theorem le_readEnum {decT decT' : Ty → DProg Val} (h : ∀ ty, Le (decT ty) (decT' ty)) (name : String) (sorted : Bool)
    (ctors : List Ctor) : Le (readEnum decT name sorted ctors) (readEnum decT' name sorted ctors) := by
  unfold readEnum
  refine Le.bind (Le.refl _) (fun ver => Le.bind (Le.refl _) (fun rs => Le.bind (Le.refl _) (fun p => ?_)))
  obtain ⟨idx, st⟩ := p
  simp only
  cases (wireCtors sorted ctors)[idx]? with
  | none => exact Le.refl _
  | some dc =>
    obtain ⟨declIdx, c⟩ := dc
    simp only
    refine Le.ite _ (Le.refl _) ?_
    refine Le.bind (le_inChunk _ _ (le_readRecord _ (fdsLe_map h c.decl.fields))) (fun _ => Le.refl _)

theorem le_decTy (f f' : Nat) (hf : f ≤ f') (named named' : String → DProg Val) (hn : ∀ id, Le (named id) (named' id)) :
    ∀ ty : Ty, Le (decTy f named ty) (decTy f' named' ty) ∧ ∀ i, FdsLe (tupleDecs f named ty i) (tupleDecs f' named' ty i) := by
  intro ty
  induction ty with
  | prim p => exact ⟨by simp only [decTy]; exact Le.refl _, fun i => by simp only [tupleDecs]; exact .nil⟩
  | option t ih =>
    refine ⟨?_, fun i => by simp only [tupleDecs]; exact .nil⟩
    simp only [decTy]
    exact Le.bind (Le.refl _) (fun tag => Le.ite _ (Le.refl _) (Le.ite _ (Le.bind ih.1 (fun _ => Le.refl _)) (Le.refl _)))
  | result a e iha ihe =>
    refine ⟨?_, fun i => by simp only [tupleDecs]; exact .nil⟩
    simp only [decTy]
    exact Le.bind (Le.refl _) (fun tag => Le.ite _ (Le.bind ihe.1 (fun _ => Le.refl _))
      (Le.ite _ (Le.bind iha.1 (fun _ => Le.refl _)) (Le.refl _)))
  | seq t ih =>
    refine ⟨?_, fun i => by simp only [tupleDecs]; exact .nil⟩
    simp only [decTy]
    exact Le.bind (le_decSeq ih.1 f f' hf) (fun _ => Le.refl _)
  | array n t ih =>
    refine ⟨?_, fun i => by simp only [tupleDecs]; exact .nil⟩
    simp only [decTy]
    exact Le.bind (le_decArray ih.1 f f' n hf) (fun _ => Le.refl _)
  | tuple fs ih =>
    refine ⟨?_, fun i => by simp only [tupleDecs]; exact .nil⟩
    simp only [decTy]
    exact le_readRecord [] (ih.2 0)
  | fnil => exact ⟨by simp only [decTy]; exact Le.refl _, fun i => by simp only [tupleDecs]; exact .nil⟩
  | fcons a r iha ihr =>
    refine ⟨by simp only [decTy]; exact Le.refl _, fun i => ?_⟩
    simp only [tupleDecs]
    exact .cons ⟨rfl, iha.1, Le.refl _⟩ (ihr.2 (i + 1))
  | named id => exact ⟨by simp only [decTy]; exact hn id, fun i => by simp only [tupleDecs]; exact .nil⟩

theorem le_decNamed (env : Env) : ∀ f f', f ≤ f' → ∀ id, Le (decNamed env f id) (decNamed env f' id) := by
  intro f
  induction f with
  | zero => intro f' _ id; simp only [decNamed]; exact Le.panic _ _
  | succ f ih =>
    intro f' hf id
    cases f' with
    | zero => omega
    | succ f' =>
      simp only [decNamed]
      have hdt : ∀ ty, Le (decTy f (decNamed env f) ty) (decTy f' (decNamed env f') ty) :=
        fun ty => (le_decTy f f' (by omega) _ _ (ih f' (by omega)) ty).1
      cases env.find id with
      | none => exact Le.refl _
      | some td =>
        cases td with
        | record d => exact le_readRecord d.steps (fdsLe_map hdt d.fields)
        | enum n srt cs => exact le_readEnum hdt n srt cs

/-- **fuel monotonicity**: a successful decoding is unchanged by a larger budget -/
theorem dec_fuel_mono (env : Env) (f f' : Nat) (hf : f ≤ f') (ty : Ty) : Le (dec env f ty) (dec env f' ty) :=
  (le_decTy f f' hf _ _ (le_decNamed env f f' hf) ty).1
