import Desert.Lemmas.RecordV0
/-!
# Round trip of every type expression over headerless (version-0) records

By induction on the value, simultaneously for the four mutually recursive encoder functions.
Frame style: stated at an arbitrary source state `s` whose view starts with the encoding, for an
arbitrary continuation `t` and an arbitrary string table shared by writer and reader.
-/
set_option linter.unusedSimpArgs false
set_option linter.unusedVariables false

def FieldsOK (fs : List Field) : Prop := ∀ f ∈ fs, f.role = .transient → f.default.isSome

/-- every declaration of the environment is headerless (no evolution steps) and its transient
fields have defaults -/
structure EnvV0 (env : Env) : Prop where
  rec_ : ∀ id d, env.find id = some (.record d) → d.steps = [] ∧ FieldsOK d.fields
  enum_ : ∀ id n srt cs, env.find id = some (.enum n srt cs) →
    cs.length < 2 ^ 32 ∧ ∀ c ∈ cs, c.decl.steps = [] ∧ FieldsOK c.decl.fields

section
variable (env : Env)

def SEnc (v : Val) : Prop :=
  ∀ (ty : Ty) (st : EncSt) (b : Bytes) (st' : EncSt) (fuel : Nat),
    enc env ty v st = .ok (b, st') → v.utf8OK → StOK st → v.depth < fuel →
    ∀ (s : AbsSrc) (t : Bytes), s.WF → s.view = b ++ t → s.strs = st →
      runAbs (dec env fuel ty) s = .ok (normalize env ty v, s.after b.length st') ∧ StOK st'

def SItems (v : Val) : Prop :=
  ∀ (ty : Ty) (st : EncSt) (b : Bytes) (st' : EncSt) (fuel : Nat),
    encItems env ty v st = .ok (b, st') → v.utf8OK → StOK st → v.depth < fuel →
    ∀ (s : AbsSrc) (t : Bytes), s.WF → s.view = b ++ t → s.strs = st →
      runAbs (decKnown (dec env fuel ty) v.chainLength) s = .ok ((normItems env ty v).toList, s.after b.length st')
        ∧ StOK st' ∧ Val.ofList (normItems env ty v).toList = normItems env ty v

def STuple (v : Val) : Prop :=
  ∀ (fs : Ty) (i : Nat) (st : EncSt) (b : Bytes) (st' : EncSt) (fuel : Nat) (rs : RecSt),
    encTupleFields env fs v st = .ok (b, st') → v.utf8OK → StOK st → v.depth < fuel → V0St rs →
    ∀ (s : AbsSrc) (t : Bytes), s.WF → s.view = b ++ t → s.strs = st →
      runAbs (readFields [] rs (tupleDecs fuel (decNamed env fuel) fs i)) s
          = .ok ((normTuple env fs v).toList, s.after b.length st')
        ∧ StOK st' ∧ Val.ofList (normTuple env fs v).toList = normTuple env fs v

def SFields (v : Val) : Prop :=
  ∀ (fields : List Field) (st : EncSt) (l : List EncField) (st' : EncSt) (fuel : Nat) (rs : RecSt),
    encFields env [] fields v st = .ok (l, st') → v.utf8OK → StOK st → v.depth < fuel → V0St rs → FieldsOK fields →
    ∀ (s : AbsSrc) (t : Bytes), s.WF → s.view = l.flatMap (·.bytes) ++ t → s.strs = st →
      runAbs (readFields [] rs (fields.map (mkFieldDec (dec env fuel)))) s
          = .ok ((normFields env fields v).toList, s.after (l.flatMap (·.bytes)).length st')
        ∧ StOK st' ∧ Val.ofList (normFields env fields v).toList = normFields env fields v

def RT (v : Val) : Prop := SEnc env v ∧ SItems env v ∧ STuple env v ∧ SFields env v

end

/-! ### vacuous cases: values that are not chains -/

theorem encItems_illTyped_of (env : Env) (t : Ty) (v : Val) (st : EncSt) (b : Bytes) (st' : EncSt)
    (hv : (∀ x r, v ≠ .vcons x r) ∧ v ≠ .vnil) : encItems env t v st ≠ .ok (b, st') := by
  cases v <;> simp [encItems, illTyped] <;> simp_all

theorem encTuple_illTyped_of (env : Env) (fs : Ty) (v : Val) (st : EncSt) (b : Bytes) (st' : EncSt)
    (hv : (∀ x r, v ≠ .vcons x r) ∧ v ≠ .vnil) : encTupleFields env fs v st ≠ .ok (b, st') := by
  cases v <;> cases fs <;> simp [encTupleFields, illTyped] <;> simp_all

theorem encFields_illTyped_of (env : Env) (steps : List Step) (fields : List Field) (v : Val) (st : EncSt)
    (l : List EncField) (st' : EncSt)
    (hv : (∀ x r, v ≠ .vcons x r) ∧ v ≠ .vnil) : encFields env steps fields v st ≠ .ok (l, st') := by
  cases v <;> cases fields <;> simp [encFields, illTyped] <;> simp_all

theorem encPrim_not_chain (p : Prim) (v : Val) (st : EncSt) (b : Bytes) (st' : EncSt)
    (hv : (∃ x r, v = .vcons x r) ∨ v = .vnil ∨ (∃ x, v = .list x) ∨ (∃ i x, v = .ctor i x) ∨ (∃ x, v = .some x)
      ∨ v = .none ∨ (∃ x, v = .ok x) ∨ (∃ x, v = .error x)) :
    encPrim p v st ≠ .ok (b, st') := by
  rcases hv with ⟨x, r, rfl⟩ | rfl | ⟨x, rfl⟩ | ⟨i, x, rfl⟩ | ⟨x, rfl⟩ | rfl | ⟨x, rfl⟩ | ⟨x, rfl⟩ <;>
    cases p <;> simp [encPrim, illTyped]

/-- the three chain statements hold vacuously for a value that is not a chain -/
theorem chain_vacuous (env : Env) (v : Val) (hv : (∀ x r, v ≠ .vcons x r) ∧ v ≠ .vnil) :
    SItems env v ∧ STuple env v ∧ SFields env v := by
  refine ⟨?_, ?_, ?_⟩
  · intro ty st b st' fuel he; exact absurd he (encItems_illTyped_of env ty v st b st' hv)
  · intro fs i st b st' fuel rs he; exact absurd he (encTuple_illTyped_of env fs v st b st' hv)
  · intro fields st l st' fuel rs he; exact absurd he (encFields_illTyped_of env [] fields v st l st' hv)

/-- leaf values: only `prim` types encode them -/
theorem senc_leaf (env : Env) (v : Val)
    (hleaf : ∀ ty st b st', enc env ty v st = .ok (b, st') → ∃ p, ty = .prim p)
    : SEnc env v := by
  intro ty st b st' fuel he hu hst hd s t hw hv hs
  obtain ⟨p, rfl⟩ := hleaf ty st b st' he
  have he' : encPrim p v st = .ok (b, st') := by simpa [enc] using he
  have := rt_prim p v st b st' he' hu hst s t hw hv hs
  have hn : normalize env (.prim p) v = v := by
    cases v <;> simp [normalize]
  simpa [dec, decTy, hn] using this

/-- `named` types only encode lists (records) and constructors (enums) -/
theorem enc_named_shape (env : Env) (id : String) (v : Val) (st : EncSt) (b : Bytes) (st' : EncSt)
    (he : enc env (.named id) v st = .ok (b, st')) : (∃ x, v = .list x) ∨ (∃ i x, v = .ctor i x) := by
  unfold enc at he
  split at he
  · simp [illTyped] at he
  · cases v <;> simp [illTyped] at he ⊢
  · cases v <;> simp [illTyped] at he ⊢

theorem enc_leaf_prim (env : Env) (v : Val)
    (hv : v = .unit ∨ (∃ b, v = .bool b) ∨ (∃ n, v = .int n) ∨ (∃ x, v = .str x) ∨ (∃ x, v = .bytes x) ∨ (∃ a c, v = .dur a c))
    (ty : Ty) (st : EncSt) (b : Bytes) (st' : EncSt) (he : enc env ty v st = .ok (b, st')) : ∃ p, ty = .prim p := by
  cases ty with
  | prim p => exact ⟨p, rfl⟩
  | named id =>
    have := enc_named_shape env id v st b st' he
    rcases hv with rfl | ⟨_, rfl⟩ | ⟨_, rfl⟩ | ⟨_, rfl⟩ | ⟨_, rfl⟩ | ⟨_, _, rfl⟩ <;> simp at this
  | _ =>
    rcases hv with rfl | ⟨_, rfl⟩ | ⟨_, rfl⟩ | ⟨_, rfl⟩ | ⟨_, rfl⟩ | ⟨_, _, rfl⟩ <;> simp [enc, illTyped] at he

theorem not_chain_some (x : Val) : (∀ a r, Val.some x ≠ .vcons a r) ∧ Val.some x ≠ .vnil := by simp
theorem dec_option (env : Env) (fuel : Nat) (t : Ty) : dec env fuel (.option t) =
    readU8.bind fun tag => if tag = 0 then .ret .none else if tag = 1 then (dec env fuel t).bind fun v => .ret (.some v)
      else .fail .deserializationFailure := by
  simp [dec, decTy, bind_eq_dbind, pure_eq_ret]

theorem dec_result (env : Env) (fuel : Nat) (a e : Ty) : dec env fuel (.result a e) =
    readU8.bind fun tag => if tag = 0 then (dec env fuel e).bind fun v => .ret (.error v)
      else if tag = 1 then (dec env fuel a).bind fun v => .ret (.ok v) else .fail .deserializationFailure := by
  simp [dec, decTy, bind_eq_dbind, pure_eq_ret]

/-- one wrapped value behind a tag byte -/
theorem rt_tagged (env : Env) (x : Val) (ih : SEnc env x) (tag : Byte) (inner : Ty)
    (st : EncSt) (b0 : Bytes) (st' : EncSt) (fuel : Nat) (he : enc env inner x st = .ok (b0, st'))
    (hu : x.utf8OK) (hst : StOK st) (hd : x.depth < fuel)
    (s : AbsSrc) (t : Bytes) (hw : s.WF) (hv : s.view = (tag :: b0) ++ t) (hs : s.strs = st)
    (wrap : Val → Val) :
    runAbs ((dec env fuel inner).bind fun v => .ret (wrap v)) (s.after 1 s.strs)
      = .ok (wrap (normalize env inner x), s.after (tag :: b0).length st') ∧ StOK st' := by
  have hv' : s.view = tag :: (b0 ++ t) := by simpa using hv
  have hv1 : (s.after 1 s.strs).view = b0 ++ t := by
    have := (view_cons hv').2; simpa [adv_eq_after] using this
  have hw1 : (s.after 1 s.strs).WF := by
    have := AbsSrc.WF_adv1 hw hv'; simpa [adv_eq_after] using this
  have := ih inner st b0 st' fuel he hu hst hd (s.after 1 s.strs) t hw1 hv1 (by simpa using hs)
  rw [runAbs_bind, this.1]
  simp [runAbs, Nat.add_comm, this.2]

theorem rt_all (env : Env) (henv : EnvV0 env) : ∀ v, RT env v := by
  intro v
  induction v with
  | unit => exact ⟨senc_leaf env _ (enc_leaf_prim env _ (by simp)), chain_vacuous env _ (by simp)⟩
  | bool b => exact ⟨senc_leaf env _ (enc_leaf_prim env _ (by simp)), chain_vacuous env _ (by simp)⟩
  | int n => exact ⟨senc_leaf env _ (enc_leaf_prim env _ (by simp)), chain_vacuous env _ (by simp)⟩
  | str bs => exact ⟨senc_leaf env _ (enc_leaf_prim env _ (by simp)), chain_vacuous env _ (by simp)⟩
  | bytes bs => exact ⟨senc_leaf env _ (enc_leaf_prim env _ (by simp)), chain_vacuous env _ (by simp)⟩
  | dur a c => exact ⟨senc_leaf env _ (enc_leaf_prim env _ (by simp)), chain_vacuous env _ (by simp)⟩
  | none =>
    refine ⟨?_, chain_vacuous env _ (by simp)⟩
    intro ty st b st' fuel he hu hst hd s t hw hv hs
    cases ty with
    | option ti =>
      simp [enc] at he
      obtain ⟨rfl, rfl⟩ := he
      rw [dec_option, readU8_bind' _ (by simpa using hv)]
      simp [runAbs, normalize, hs, hst]
    | prim p => exact absurd (by simpa [enc] using he) (encPrim_not_chain p _ st b st' (by simp))
    | named id => have := enc_named_shape env id _ st b st' he; simp at this
    | _ => simp [enc, illTyped] at he
  | some x ih =>
    refine ⟨?_, chain_vacuous env _ (by simp)⟩
    intro ty st b st' fuel he hu hst hd s t hw hv hs
    cases ty with
    | option ti =>
      simp only [enc] at he
      cases hx : enc env ti x st with
      | ok r =>
        obtain ⟨b0, st0⟩ := r
        simp [hx] at he
        obtain ⟨rfl, rfl⟩ := he
        rw [dec_option, readU8_bind' _ (by simpa using hv)]
        simp only [show ¬ ((1 : Byte) = 0) by decide, if_false, if_true]
        have := rt_tagged env x ih.1 1 ti st b0 st0 fuel hx (by simpa [Val.utf8OK] using hu) hst
          (by simpa [Val.depth] using hd) s t hw hv hs Val.some
        simpa [normalize] using this
      | err e => simp [hx] at he
      | panic w => simp [hx] at he
    | prim p => exact absurd (by simpa [enc] using he) (encPrim_not_chain p _ st b st' (by simp))
    | named id => have := enc_named_shape env id _ st b st' he; simp at this
    | _ => simp [enc, illTyped] at he
  | ok x ih =>
    refine ⟨?_, chain_vacuous env _ (by simp)⟩
    intro ty st b st' fuel he hu hst hd s t hw hv hs
    cases ty with
    | result ta te =>
      simp only [enc] at he
      cases hx : enc env ta x st with
      | ok r =>
        obtain ⟨b0, st0⟩ := r
        simp [hx] at he
        obtain ⟨rfl, rfl⟩ := he
        rw [dec_result, readU8_bind' _ (by simpa using hv)]
        simp only [show ¬ ((1 : Byte) = 0) by decide, if_false, if_true]
        have := rt_tagged env x ih.1 1 ta st b0 st0 fuel hx (by simpa [Val.utf8OK] using hu) hst
          (by simpa [Val.depth] using hd) s t hw hv hs Val.ok
        simpa [normalize] using this
      | err e => simp [hx] at he
      | panic w => simp [hx] at he
    | prim p => exact absurd (by simpa [enc] using he) (encPrim_not_chain p _ st b st' (by simp))
    | named id => have := enc_named_shape env id _ st b st' he; simp at this
    | _ => simp [enc, illTyped] at he
  | error x ih =>
    refine ⟨?_, chain_vacuous env _ (by simp)⟩
    intro ty st b st' fuel he hu hst hd s t hw hv hs
    cases ty with
    | result ta te =>
      simp only [enc] at he
      cases hx : enc env te x st with
      | ok r =>
        obtain ⟨b0, st0⟩ := r
        simp [hx] at he
        obtain ⟨rfl, rfl⟩ := he
        rw [dec_result, readU8_bind' _ (by simpa using hv)]
        simp only [if_true]
        have := rt_tagged env x ih.1 0 te st b0 st0 fuel hx (by simpa [Val.utf8OK] using hu) hst
          (by simpa [Val.depth] using hd) s t hw hv hs Val.error
        simpa [normalize] using this
      | err e => simp [hx] at he
      | panic w => simp [hx] at he
    | prim p => exact absurd (by simpa [enc] using he) (encPrim_not_chain p _ st b st' (by simp))
    | named id => have := enc_named_shape env id _ st b st' he; simp at this
    | _ => simp [enc, illTyped] at he
  | vnil =>
    refine ⟨?_, ?_, ?_, ?_⟩
    · intro ty st b st' fuel he
      cases ty with
      | prim p => exact absurd (by simpa [enc] using he) (encPrim_not_chain p _ st b st' (by simp))
      | named id => have := enc_named_shape env id _ st b st' he; simp at this
      | _ => simp [enc, illTyped] at he
    · intro ty st b st' fuel he hu hst hd s t hw hv hs
      simp [encItems] at he
      obtain ⟨rfl, rfl⟩ := he
      subst hs
      simp [Val.chainLength, decKnown, runAbs, normItems, Val.toList, Val.ofList, hst, after_zero_self]
    · intro fs i st b st' fuel rs he hu hst hd hrs s t hw hv hs
      cases fs <;> simp [encTupleFields, illTyped] at he
      obtain ⟨rfl, rfl⟩ := he
      subst hs
      simp [tupleDecs, readFields, runAbs, normTuple, Val.toList, Val.ofList, hst, after_zero_self]
    · intro fields st l st' fuel rs he hu hst hd hrs hf s t hw hv hs
      cases fields <;> simp [encFields, illTyped] at he
      obtain ⟨rfl, rfl⟩ := he
      subst hs
      simp [readFields, runAbs, normFields, Val.toList, Val.ofList, hst, after_zero_self]
  | vcons x r ihx ihr =>
    refine ⟨?_, ?_, ?_, ?_⟩
    · intro ty st b st' fuel he
      cases ty with
      | prim p => exact absurd (by simpa [enc] using he) (encPrim_not_chain p _ st b st' (by simp))
      | named id => have := enc_named_shape env id _ st b st' he; simp at this
      | _ => simp [enc, illTyped] at he
    · -- items
      intro ty st b st' fuel he hu hst hd s t hw hv hs
      simp only [encItems] at he
      cases hx : enc env ty x st with
      | ok r1 =>
        obtain ⟨b1, st1⟩ := r1
        simp only [hx, Outcome.bind_ok] at he
        cases hr : encItems env ty r st1 with
        | ok r2 =>
          obtain ⟨b2, st2⟩ := r2
          simp [hr] at he
          obtain ⟨rfl, rfl⟩ := he
          simp only [Val.utf8OK] at hu
          simp only [Val.depth] at hd
          have h1 := ihx.1 ty st b1 st1 fuel hx hu.1 hst (by omega) s (b2 ++ t) hw (by simpa using hv) hs
          have hw1 := WF_after hw (b := b1) (t := b2 ++ t) (by simpa using hv) st1
          have hv1 : (s.after b1.length st1).view = b2 ++ t := view_after_append (by simpa using hv) st1
          have h2 := ihr.2.1 ty st1 b2 st2 fuel hr hu.2 h1.2 (by omega) (s.after b1.length st1) t hw1 hv1 (by simp)
          simp only [Val.chainLength, decKnown, bind_eq_dbind, pure_eq_ret]
          rw [runAbs_bind, h1.1]
          simp only [Outcome.bindS_ok]
          rw [runAbs_bind, h2.1]
          simp [runAbs, normItems, Val.toList, Val.ofList, h2.2.1, h2.2.2]
        | err e => simp [hr] at he
        | panic w => simp [hr] at he
      | err e => simp [hx] at he
      | panic w => simp [hx] at he
    · -- tuple components
      intro fs i st b st' fuel rs he hu hst hd hrs s t hw hv hs
      cases fs with
      | fcons a rest =>
        simp only [encTupleFields] at he
        cases hx : enc env a x st with
        | ok r1 =>
          obtain ⟨b1, st1⟩ := r1
          simp only [hx, Outcome.bind_ok] at he
          cases hr : encTupleFields env rest r st1 with
          | ok r2 =>
            obtain ⟨b2, st2⟩ := r2
            simp [hr] at he
            obtain ⟨rfl, rfl⟩ := he
            simp only [Val.utf8OK] at hu
            simp only [Val.depth] at hd
            have h1 := ihx.1 a st b1 st1 fuel hx hu.1 hst (by omega) s (b2 ++ t) hw (by simpa using hv) hs
            have hw1 := WF_after hw (b := b1) (t := b2 ++ t) (by simpa using hv) st1
            have hv1 : (s.after b1.length st1).view = b2 ++ t := view_after_append (by simpa using hv) st1
            obtain ⟨rs', hrs', hrf⟩ := readField_v0 hrs
              { field := tupleField i a, decFull := decTy fuel (decNamed env fuel) a, decInner := .panic "not optional" }
              (by simp [tupleField])
            have h2 := ihr.2.2.1 rest (i + 1) st1 b2 st2 fuel rs' hr hu.2 h1.2 (by omega) hrs'
              (s.after b1.length st1) t hw1 hv1 (by simp)
            simp only [tupleDecs, readFields, bind_eq_dbind, pure_eq_ret]
            rw [hrf]
            rw [runAbs_bind, runAbs_bind]
            have h1' : runAbs (decTy fuel (decNamed env fuel) a) s = .ok (normalize env a x, s.after b1.length st1) := h1.1
            rw [h1']
            simp only [Outcome.bindS_ok, runAbs]
            rw [runAbs_bind, h2.1]
            simp [runAbs, normTuple, Val.toList, Val.ofList, h2.2.1, h2.2.2]
          | err e => simp [hr] at he
          | panic w => simp [hr] at he
        | err e => simp [hx] at he
        | panic w => simp [hx] at he
      | _ => simp [encTupleFields, illTyped] at he
    · -- record fields
      intro fields st l st' fuel rs he hu hst hd hrs hf s t hw hv hs
      cases fields with
      | nil => simp [encFields, illTyped] at he
      | cons f fs =>
        simp only [Val.utf8OK] at hu
        simp only [Val.depth] at hd
        have hf' : FieldsOK fs := fun g hg => hf g (by simp [hg])
        simp only [encFields] at he
        cases hrole : f.role with
        | transient =>
          simp only [hrole] at he
          have hdef := hf f (by simp) hrole
          obtain ⟨d, hd'⟩ := Option.isSome_iff_exists.mp hdef
          have h2 := ihr.2.2.2 fs st l st' fuel rs he hu.2 hst (by omega) hrs hf' s t hw hv hs
          simp only [List.map_cons, readFields, bind_eq_dbind, pure_eq_ret]
          rw [readField_v0_transient (mkFieldDec (dec env fuel) f) (by simpa [mkFieldDec] using hrole) d
            (by simpa [mkFieldDec] using hd')]
          simp only [DProg.bind]
          rw [runAbs_bind, h2.1]
          simp [runAbs, normFields, hrole, hd', Val.toList, Val.ofList, h2.2.1, h2.2.2]
        | plain =>
          simp only [hrole] at he
          cases hx : enc env f.ty x st with
          | ok r1 =>
            obtain ⟨b1, st1⟩ := r1
            simp only [hx, Outcome.bind_ok] at he
            cases hr : encFields env [] fs r st1 with
            | ok r2 =>
              obtain ⟨l2, st2⟩ := r2
              simp [hr] at he
              obtain ⟨rfl, rfl⟩ := he
              have hv0 : s.view = b1 ++ (l2.flatMap (·.bytes) ++ t) := by simpa using hv
              have h1 := ihx.1 f.ty st b1 st1 fuel hx hu.1 hst (by omega) s _ hw hv0 hs
              have hw1 := WF_after hw hv0 st1
              have hv1 : (s.after b1.length st1).view = l2.flatMap (·.bytes) ++ t := view_after_append hv0 st1
              obtain ⟨rs', hrs', hrf⟩ := readField_v0 hrs (mkFieldDec (dec env fuel) f) (by simp [mkFieldDec, hrole])
              have h2 := ihr.2.2.2 fs st1 l2 st2 fuel rs' hr hu.2 h1.2 (by omega) hrs' hf'
                (s.after b1.length st1) t hw1 hv1 (by simp)
              simp only [List.map_cons, readFields, bind_eq_dbind, pure_eq_ret]
              rw [hrf, runAbs_bind, runAbs_bind]
              have h1' : runAbs (mkFieldDec (dec env fuel) f).decFull s = .ok (normalize env f.ty x, s.after b1.length st1) := h1.1
              rw [h1']
              simp only [Outcome.bindS_ok, runAbs]
              rw [runAbs_bind, h2.1]
              simp [runAbs, normFields, hrole, Val.toList, Val.ofList, h2.2.1, h2.2.2, Nat.add_assoc]
            | err e => simp [hr] at he
            | panic w => simp [hr] at he
          | err e => simp [hx] at he
          | panic w => simp [hx] at he
        | optional =>
          simp only [hrole] at he
          cases hx : enc env f.ty x st with
          | ok r1 =>
            obtain ⟨b1, st1⟩ := r1
            simp only [hx, Outcome.bind_ok] at he
            cases hr : encFields env [] fs r st1 with
            | ok r2 =>
              obtain ⟨l2, st2⟩ := r2
              simp [hr] at he
              obtain ⟨rfl, rfl⟩ := he
              have hv0 : s.view = b1 ++ (l2.flatMap (·.bytes) ++ t) := by simpa using hv
              have h1 := ihx.1 f.ty st b1 st1 fuel hx hu.1 hst (by omega) s _ hw hv0 hs
              have hw1 := WF_after hw hv0 st1
              have hv1 : (s.after b1.length st1).view = l2.flatMap (·.bytes) ++ t := view_after_append hv0 st1
              obtain ⟨rs', hrs', hrf⟩ := readField_v0 hrs (mkFieldDec (dec env fuel) f) (by simp [mkFieldDec, hrole])
              have h2 := ihr.2.2.2 fs st1 l2 st2 fuel rs' hr hu.2 h1.2 (by omega) hrs' hf'
                (s.after b1.length st1) t hw1 hv1 (by simp)
              simp only [List.map_cons, readFields, bind_eq_dbind, pure_eq_ret]
              rw [hrf, runAbs_bind, runAbs_bind]
              have h1' : runAbs (mkFieldDec (dec env fuel) f).decFull s = .ok (normalize env f.ty x, s.after b1.length st1) := h1.1
              rw [h1']
              simp only [Outcome.bindS_ok, runAbs]
              rw [runAbs_bind, h2.1]
              simp [runAbs, normFields, hrole, Val.toList, Val.ofList, h2.2.1, h2.2.2, Nat.add_assoc]
            | err e => simp [hr] at he
            | panic w => simp [hr] at he
          | err e => simp [hx] at he
          | panic w => simp [hx] at he
  | list items ih =>
    refine ⟨?_, chain_vacuous env _ (by simp)⟩
    intro ty st b st' fuel he hu hst hd s t hw hv hs
    simp only [Val.utf8OK] at hu
    simp only [Val.depth] at hd
    cases ty with
    | prim p => exact absurd (by simpa [enc] using he) (encPrim_not_chain p _ st b st' (by simp))
    | seq ti =>
      simp only [enc] at he
      split at he
      · rename_i hlen
        cases hi : encItems env ti items st with
        | ok r0 =>
          obtain ⟨b0, st0⟩ := r0
          simp [hi] at he
          obtain ⟨rfl, rfl⟩ := he
          have hv' : s.view = zz (items.chainLength : Int) ++ (b0 ++ t) := by simpa using hv
          have hw1 := WF_after hw hv' s.strs
          have hv1 := view_after_append hv' s.strs
          have h2 := ih.2.1 ti st b0 st0 fuel hi hu hst (by omega) _ t hw1 hv1 (by simpa using hs)
          simp only [dec, decTy, decSeq, bind_eq_dbind, pure_eq_ret]
          rw [runAbs_bind, readVarI32_bind (inI32_natLen hlen) _ hv']
          have hn1 : ¬ ((items.chainLength : Int) = -1) := by omega
          have hn2 : ¬ ((items.chainLength : Int) < 0) := by omega
          simp only [hn1, hn2, if_false, Int.toNat_natCast]
          have h2' : runAbs (decKnown (decTy fuel (decNamed env fuel) ti) items.chainLength)
              (s.after (zz (items.chainLength : Int)).length s.strs)
              = .ok ((normItems env ti items).toList, (s.after (zz (items.chainLength : Int)).length s.strs).after b0.length st0) := h2.1
          rw [h2']
          simp [runAbs, normalize, h2.2.1, h2.2.2]
        | err e => simp [hi] at he
        | panic w => simp [hi] at he
      · simp at he
    | array n ti =>
      simp only [enc] at he
      split at he
      · simp [illTyped] at he
      · rename_i hn
        have hn' : items.chainLength = n := by simpa using hn
        split at he
        · rename_i hlen
          cases hi : encItems env ti items st with
          | ok r0 =>
            obtain ⟨b0, st0⟩ := r0
            simp [hi] at he
            obtain ⟨rfl, rfl⟩ := he
            have hv' : s.view = zz (n : Int) ++ (b0 ++ t) := by simpa using hv
            have hw1 := WF_after hw hv' s.strs
            have hv1 := view_after_append hv' s.strs
            have h2 := ih.2.1 ti st b0 st0 fuel hi hu hst (by omega) _ t hw1 hv1 (by simpa using hs)
            simp only [dec, decTy, decArray, bind_eq_dbind, pure_eq_ret]
            rw [runAbs_bind, readVarI32_bind (inI32_natLen hlen) _ hv']
            have hn1 : ¬ ((n : Int) = -1) := by omega
            have hn2 : ¬ ((n : Int) < 0) := by omega
            simp only [hn1, hn2, if_false, Int.toNat_natCast, Nat.le_refl, if_true]
            rw [runAbs_bind]
            have h2' : runAbs (decKnown (decTy fuel (decNamed env fuel) ti) n)
                (s.after (zz (n : Int)).length s.strs)
                = .ok ((normItems env ti items).toList, (s.after (zz (n : Int)).length s.strs).after b0.length st0) := by
              have := h2.1; rw [hn'] at this; exact this
            rw [h2']
            simp [runAbs, normalize, h2.2.1, h2.2.2]
          | err e => simp [hi] at he
          | panic w => simp [hi] at he
        · simp at he
    | tuple fs =>
      simp only [enc] at he
      cases hi : encTupleFields env fs items st with
      | ok r0 =>
        obtain ⟨b0, st0⟩ := r0
        simp [hi] at he
        obtain ⟨rfl, rfl⟩ := he
        have hv' : s.view = 0 :: (b0 ++ t) := by simpa using hv
        have hv1 : (s.after 1 s.strs).view = b0 ++ t := by
          have := (view_cons hv').2; simpa [adv_eq_after] using this
        have hw1 : (s.after 1 s.strs).WF := by
          have := AbsSrc.WF_adv1 hw hv'; simpa [adv_eq_after] using this
        have h2 := ih.2.2.1 fs 0 st b0 st0 fuel _ hi hu hst (by omega) V0St_new _ t hw1 hv1 (by simpa using hs)
        simp only [dec, decTy, readRecord, readRecordBody, bind_eq_dbind, pure_eq_ret]
        rw [readU8_bind' _ hv']
        simp only [show (0 : Byte).toNat = 0 by decide, List.length_nil, recNew_v0, DProg.bind]
        rw [runAbs_bind, h2.1]
        simp [runAbs, normalize, h2.2.1, h2.2.2, Nat.add_comm]
      | err e => simp [hi] at he
      | panic w => simp [hi] at he
    | named id =>
      unfold enc at he
      cases hfind : env.find id with
      | none => simp [hfind, illTyped] at he
      | some td =>
        cases td with
        | record d =>
          obtain ⟨hsteps, hfok⟩ := henv.rec_ id d hfind
          simp only [hfind] at he
          have hpre : recordPre d st = .ok ([], st) := by simp [recordPre, hsteps]
          rw [hpre] at he
          simp only [Outcome.bind_ok, hsteps] at he
          cases hf : encFields env [] d.fields items st with
          | ok r0 =>
            obtain ⟨l, st2⟩ := r0
            have hfin : recordFinish d [] l = .ok (0 :: l.flatMap (·.bytes)) := by simp [recordFinish, hsteps]
            simp [hf, hfin] at he
            obtain ⟨rfl, rfl⟩ := he
            cases fuel with
            | zero => omega
            | succ f =>
              have hv' : s.view = 0 :: (l.flatMap (·.bytes) ++ t) := by simpa using hv
              have hv1 : (s.after 1 s.strs).view = l.flatMap (·.bytes) ++ t := by
                have := (view_cons hv').2; simpa [adv_eq_after] using this
              have hw1 : (s.after 1 s.strs).WF := by
                have := AbsSrc.WF_adv1 hw hv'; simpa [adv_eq_after] using this
              have h2 := ih.2.2.2 d.fields st l st2 f _ hf hu hst (by omega) V0St_new hfok _ t hw1 hv1 (by simpa using hs)
              simp only [dec, decTy, decNamed, hfind, readRecord, readRecordBody, bind_eq_dbind, pure_eq_ret, hsteps]
              rw [readU8_bind' _ hv']
              simp only [show (0 : Byte).toNat = 0 by decide, List.length_nil, recNew_v0, DProg.bind]
              rw [runAbs_bind]
              have h2' : runAbs (readFields [] _ (declDecs (decTy f (decNamed env f)) d)) (s.after 1 s.strs)
                  = .ok ((normFields env d.fields items).toList, (s.after 1 s.strs).after (l.flatMap (·.bytes)).length st2) := h2.1
              rw [h2']
              simp [runAbs, normalize, hfind, h2.2.1, h2.2.2, Nat.add_comm]
          | err e => simp [hf] at he
          | panic w => simp [hf] at he
        | enum n srt cs => simp [hfind, illTyped] at he
    | _ => simp [enc, illTyped] at he
  | ctor idx fields ih =>
    refine ⟨?_, chain_vacuous env _ (by simp)⟩
    intro ty st b st' fuel he hu hst hd s t hw hv hs
    simp only [Val.utf8OK] at hu
    simp only [Val.depth] at hd
    cases ty with
    | prim p => exact absurd (by simpa [enc] using he) (encPrim_not_chain p _ st b st' (by simp))
    | named id =>
      unfold enc at he
      cases hfind : env.find id with
      | none => simp [hfind, illTyped] at he
      | some td =>
        cases td with
        | record d => simp [hfind, illTyped] at he
        | enum n srt cs =>
          simp only [hfind] at he
          cases hfc : findCtorWire (wireCtors srt cs) idx with
          | none => simp [hfc, illTyped] at he
          | some wc =>
            obtain ⟨w, c⟩ := wc
            simp only [hfc] at he
            have hget := findCtorWire_get hfc
            have hmem : c ∈ cs := by
              have := List.mem_of_getElem? hget
              exact mem_wireCtors this
            obtain ⟨hsteps, hfok⟩ := (henv.enum_ id n srt cs hfind).2 c hmem
            have hwlt : w < 2 ^ 32 := by
              have h1 : w < (wireCtors srt cs).length := by
                rcases Nat.lt_or_ge w (wireCtors srt cs).length with h | h
                · exact h
                · simp [List.getElem?_eq_none h] at hget
              rw [length_wireCtors] at h1
              have := (henv.enum_ id n srt cs hfind).1
              omega
            split at he
            · simp at he
            · rename_i htr
              have hpre : recordPre c.decl st = .ok ([], st) := by simp [recordPre, hsteps]
              rw [hpre] at he
              simp only [Outcome.bind_ok, hsteps] at he
              cases hf : encFields env [] c.decl.fields fields st with
              | ok r0 =>
                obtain ⟨l, st2⟩ := r0
                have hfin : recordFinish c.decl [] l = .ok (0 :: l.flatMap (·.bytes)) := by simp [recordFinish, hsteps]
                simp [hf, hfin] at he
                obtain ⟨rfl, rfl⟩ := he
                cases fuel with
                | zero => omega
                | succ f =>
                  have hv' : s.view = 0 :: (uv w ++ (0 :: (l.flatMap (·.bytes) ++ t))) := by simpa using hv
                  have hv1 : (s.after 1 s.strs).view = uv w ++ (0 :: (l.flatMap (·.bytes) ++ t)) := by
                    have := (view_cons hv').2; simpa [adv_eq_after] using this
                  have hw1 : (s.after 1 s.strs).WF := by
                    have := AbsSrc.WF_adv1 hw hv'; simpa [adv_eq_after] using this
                  have hw2 := WF_after hw1 hv1 s.strs
                  have hv2 := view_after_append hv1 s.strs
                  simp only [after_after] at hw2 hv2
                  have hv3 : (s.after (1 + (uv w).length + 1) s.strs).view = l.flatMap (·.bytes) ++ t := by
                    have := (view_cons hv2).2; simpa [adv_eq_after, Nat.add_assoc] using this
                  have hw3 : (s.after (1 + (uv w).length + 1) s.strs).WF := by
                    have := AbsSrc.WF_adv1 hw2 hv2; simpa [adv_eq_after, Nat.add_assoc] using this
                  have h2 := ih.2.2.2 c.decl.fields st l st2 f _ hf hu hst (by omega) V0St_new hfok _ t hw3 hv3
                    (by simpa using hs)
                  simp only [dec, decTy, decNamed, hfind, readEnum, bind_eq_dbind, pure_eq_ret]
                  rw [readU8_bind' _ hv']
                  simp only [show (0 : Byte).toNat = 0 by decide, recNew_v0, DProg.bind, inChunk, List.isEmpty_nil,
                    if_true, bind_eq_dbind, pure_eq_ret]
                  rw [runAbs_bind, runAbs_bind, run_readVarU32 hwlt hv1]
                  simp only [Outcome.bindS_ok, runAbs, hget, htr, Bool.false_eq_true, if_false, adv_eq_after, after_after,
                    List.isEmpty_nil, if_true, after_strs]
                  rw [runAbs_bind, runAbs_bind]
                  have hrec : runAbs (readRecord c.decl.steps (declDecs (decTy f (decNamed env f)) c.decl))
                      (s.after (1 + (uv w).length) s.strs)
                      = .ok (.list (normFields env c.decl.fields fields),
                             (s.after (1 + (uv w).length + 1) s.strs).after (l.flatMap (·.bytes)).length st2) := by
                    simp only [readRecord, readRecordBody, bind_eq_dbind, pure_eq_ret, hsteps]
                    rw [readU8_bind' _ hv2]
                    simp only [show (0 : Byte).toNat = 0 by decide, List.length_nil, recNew_v0, DProg.bind, after_after, after_strs]
                    rw [runAbs_bind]
                    have h2' : runAbs (readFields [] _ (declDecs (decTy f (decNamed env f)) c.decl))
                        (s.after (1 + (uv w).length + 1) s.strs)
                        = .ok ((normFields env c.decl.fields fields).toList,
                               (s.after (1 + (uv w).length + 1) s.strs).after (l.flatMap (·.bytes)).length st2) := h2.1
                    rw [h2']
                    simp [runAbs, h2.2.2]
                  rw [hrec]
                  simp [runAbs, normalize, hfind, hfc, h2.2.1, Nat.add_assoc, Nat.add_comm]
              | err e => simp [hf] at he
              | panic w' => simp [hf] at he
    | _ => simp [enc, illTyped] at he
