import Desert.Bits
import Desert.Decode
import Desert.Lemmas.Run
import Desert.Lemmas.Codec
import Desert.Lemmas.BitsBV
import Std.Tactic.BVDecide
open Bits
set_option linter.unusedSimpArgs false

theorem masked_lt (b : BitVec 8) : (up32 (b &&& 0x7F)).toNat = b.toNat % 128 := by
  have : up32 (b &&& 0x7F) = up32 (b % 128#8) := by bv_decide
  rw [this]; simp [up32, BitVec.toNat_setWidth, BitVec.toNat_umod]; omega

theorem or_shift7 (r y : BitVec 32) (hr : r.toNat < 2 ^ 7) (hy : y.toNat < 128) :
    (r ||| (y <<< 7)).toNat = r.toNat + y.toNat * 2 ^ 7 := by
  have h : r < 128#32 → r ||| (y <<< 7) = r + (y <<< 7) := by bv_decide
  rw [h (by rw [BitVec.lt_def]; simpa using hr)]
  simp only [BitVec.toNat_add, BitVec.toNat_shiftLeft, Nat.shiftLeft_eq]; omega

theorem or_shift14 (r y : BitVec 32) (hr : r.toNat < 2 ^ 14) (hy : y.toNat < 128) :
    (r ||| (y <<< 14)).toNat = r.toNat + y.toNat * 2 ^ 14 := by
  have h : r < 16384#32 → r ||| (y <<< 14) = r + (y <<< 14) := by bv_decide
  rw [h (by rw [BitVec.lt_def]; simpa using hr)]
  simp only [BitVec.toNat_add, BitVec.toNat_shiftLeft, Nat.shiftLeft_eq]; omega

theorem or_shift21 (r y : BitVec 32) (hr : r.toNat < 2 ^ 21) (hy : y.toNat < 128) :
    (r ||| (y <<< 21)).toNat = r.toNat + y.toNat * 2 ^ 21 := by
  have h : r < 2097152#32 → r ||| (y <<< 21) = r + (y <<< 21) := by bv_decide
  rw [h (by rw [BitVec.lt_def]; simpa using hr)]
  simp only [BitVec.toNat_add, BitVec.toNat_shiftLeft, Nat.shiftLeft_eq]; omega

theorem or_shift28 (r y : BitVec 32) (hr : r.toNat < 2 ^ 28) (hy : y.toNat < 128) :
    (r ||| (y <<< 28)).toNat = r.toNat + (y.toNat % 16) * 2 ^ 28 := by
  have h : r < 268435456#32 → r ||| (y <<< 28) = r + (y <<< 28) := by bv_decide
  rw [h (by rw [BitVec.lt_def]; simpa using hr)]
  simp only [BitVec.toNat_add, BitVec.toNat_shiftLeft, Nat.shiftLeft_eq]; omega

/-- the bytes of a `BitVec 8` list as the model's `Byte`s -/
def toBytes (bs : List (BitVec 8)) : Bytes := bs.map fun b => byteOf b.toNat

theorem toBytes_toNat (b : BitVec 8) : (byteOf b.toNat).toNat = b.toNat := by
  have := b.isLt; simp [byteOf_toNat]; omega

/-- Nat-level reader over a byte list (what `runAbs readVarU32` computes on a flat window) -/
def readVarU32L : Bytes → Option (Nat × Bytes)
  | [] => none
  | b0 :: r0 =>
    let v0 := b0.toNat % 128
    if b0.toNat < 128 then some (v0, r0) else
    match r0 with
    | [] => none
    | b1 :: r1 =>
      let v1 := v0 + (b1.toNat % 128) * 2 ^ 7
      if b1.toNat < 128 then some (v1, r1) else
      match r1 with
      | [] => none
      | b2 :: r2 =>
        let v2 := v1 + (b2.toNat % 128) * 2 ^ 14
        if b2.toNat < 128 then some (v2, r2) else
        match r2 with
        | [] => none
        | b3 :: r3 =>
          let v3 := v2 + (b3.toNat % 128) * 2 ^ 21
          if b3.toNat < 128 then some (v3, r3) else
          match r3 with
          | [] => none
          | b4 :: r4 => some (v3 + (b4.toNat % 16) * 2 ^ 28, r4)

theorem cont_bit' (b : BitVec 8) : (b &&& 0x80 = 0) ↔ b.toNat < 128 := by
  have h : (b &&& 0x80 = 0) ↔ b < 128#8 := by bv_decide
  rw [h, BitVec.lt_def]; simp

/-- the bit-level reader and the arithmetic reader agree on **every** byte string -/
theorem readers_agree (bs : List (BitVec 8)) :
    (Bits.readVarU32 bs).map (fun p => (p.1.toNat, toBytes p.2)) = readVarU32L (toBytes bs) := by
  have m := masked_lt
  have ml : ∀ b : BitVec 8, (up32 (b &&& 0x7F)).toNat < 128 := fun b => by rw [m]; omega
  have tb := toBytes_toNat
  match bs with
  | [] => rfl
  | b0 :: r0 =>
    by_cases h0 : b0 &&& 0x80 = 0
    · rw [Bits.read1 _ _ h0]
      simp only [toBytes, List.map, readVarU32L, tb, (cont_bit' b0).1 h0, if_true, Option.map, m]
    · have n0 : ¬ b0.toNat < 128 := fun h => h0 ((cont_bit' b0).2 h)
      match r0 with
      | [] => simp only [Bits.readVarU32, h0, if_false, toBytes, List.map, readVarU32L, tb, n0, Option.map]
      | b1 :: r1 =>
        by_cases h1 : b1 &&& 0x80 = 0
        · rw [Bits.read2 _ _ _ h0 h1]
          simp only [toBytes, List.map, readVarU32L, tb, n0, (cont_bit' b1).1 h1, if_true, if_false, Option.map]
          rw [or_shift7 _ _ (by rw [m]; omega) (ml b1), m, m]
        · have n1 : ¬ b1.toNat < 128 := fun h => h1 ((cont_bit' b1).2 h)
          match r1 with
          | [] => simp only [Bits.readVarU32, h0, h1, if_false, toBytes, List.map, readVarU32L, tb, n0, n1, Option.map]
          | b2 :: r2 =>
            have e2 : (up32 (b0 &&& 0x7F) ||| (up32 (b1 &&& 0x7F) <<< 7)).toNat = b0.toNat % 128 + b1.toNat % 128 * 2 ^ 7 := by
              rw [or_shift7 _ _ (by rw [m]; omega) (ml b1), m, m]
            by_cases h2 : b2 &&& 0x80 = 0
            · rw [Bits.read3 _ _ _ _ h0 h1 h2]
              simp only [toBytes, List.map, readVarU32L, tb, n0, n1, (cont_bit' b2).1 h2, if_true, if_false, Option.map]
              rw [or_shift14 _ _ (by rw [e2]; omega) (ml b2), e2, m]
            · have n2 : ¬ b2.toNat < 128 := fun h => h2 ((cont_bit' b2).2 h)
              match r2 with
              | [] => simp only [Bits.readVarU32, h0, h1, h2, if_false, toBytes, List.map, readVarU32L, tb, n0, n1, n2, Option.map]
              | b3 :: r3 =>
                have e3 : (up32 (b0 &&& 0x7F) ||| (up32 (b1 &&& 0x7F) <<< 7) ||| (up32 (b2 &&& 0x7F) <<< 14)).toNat
                    = b0.toNat % 128 + b1.toNat % 128 * 2 ^ 7 + b2.toNat % 128 * 2 ^ 14 := by
                  rw [or_shift14 _ _ (by rw [e2]; omega) (ml b2), e2, m]
                by_cases h3 : b3 &&& 0x80 = 0
                · rw [Bits.read4 _ _ _ _ _ h0 h1 h2 h3]
                  simp only [toBytes, List.map, readVarU32L, tb, n0, n1, n2, (cont_bit' b3).1 h3, if_true, if_false, Option.map]
                  rw [or_shift21 _ _ (by rw [e3]; omega) (ml b3), e3, m]
                · have n3 : ¬ b3.toNat < 128 := fun h => h3 ((cont_bit' b3).2 h)
                  match r3 with
                  | [] => simp only [Bits.readVarU32, h0, h1, h2, h3, if_false, toBytes, List.map, readVarU32L, tb, n0, n1, n2, n3, Option.map]
                  | b4 :: r4 =>
                    have e4 : (up32 (b0 &&& 0x7F) ||| (up32 (b1 &&& 0x7F) <<< 7) ||| (up32 (b2 &&& 0x7F) <<< 14)
                        ||| (up32 (b3 &&& 0x7F) <<< 21)).toNat
                        = b0.toNat % 128 + b1.toNat % 128 * 2 ^ 7 + b2.toNat % 128 * 2 ^ 14 + b3.toNat % 128 * 2 ^ 21 := by
                      rw [or_shift21 _ _ (by rw [e3]; omega) (ml b3), e3, m]
                    rw [Bits.read5 _ _ _ _ _ _ h0 h1 h2 h3]
                    simp only [toBytes, List.map, readVarU32L, tb, n0, n1, n2, n3, if_false, Option.map]
                    rw [or_shift28 _ _ (by rw [e4]; omega) (ml b4), e4, m]
                    have : b4.toNat % 128 % 16 = b4.toNat % 16 := by omega
                    rw [this]

theorem readU8_bind_nil {α : Type} {s : AbsSrc} (f : Byte → DProg α) (h : s.view = []) (hw : s.WF) :
    runAbs (readU8.bind f) s = .err .inputEnded := by
  have hlen : s.cur.window.length ≤ s.cur.pos := by
    have := congrArg List.length h; simp [AbsSrc.view] at this; omega
  simp only [readU8, DProg.bind, runAbs]
  rw [List.getElem?_eq_none hlen]

/-- the operation-tree reader computes `readVarU32L` on what is left of the current window -/
theorem run_readVarU32_list (s : AbsSrc) (hw : s.WF) :
    runAbs _root_.readVarU32 s = match readVarU32L s.view with
      | none => .err .inputEnded
      | some (n, rest) => .ok (n, s.after (s.view.length - rest.length) s.strs) := by
  unfold _root_.readVarU32
  simp only [bind_eq_dbind, pure_eq_ret]
  match hv0 : s.view with
  | [] => rw [readU8_bind_nil _ hv0 hw]; rfl
  | b0 :: r0 =>
    rw [readU8_bind' _ hv0]
    have hv1 : (s.after 1 s.strs).view = r0 := by have := (view_cons hv0).2; simpa [adv_eq_after] using this
    have hw1 : (s.after 1 s.strs).WF := by have := AbsSrc.WF_adv1 hw hv0; simpa [adv_eq_after] using this
    simp only [readVarU32L]
    by_cases c0 : b0.toNat < 128
    · simp only [c0, if_true, runAbs]; simp; try (congr 1; omega)
    · simp only [c0, if_false]
      match r0, hv1 with
      | [], hv1 => rw [readU8_bind_nil _ hv1 hw1]
      | b1 :: r1, hv1 =>
        rw [readU8_bind' _ hv1]
        have hv2 : ((s.after 1 s.strs).after 1 (s.after 1 s.strs).strs).view = r1 := by
          have := (view_cons hv1).2; simpa [adv_eq_after] using this
        have hw2 : ((s.after 1 s.strs).after 1 (s.after 1 s.strs).strs).WF := by
          have := AbsSrc.WF_adv1 hw1 hv1; simpa [adv_eq_after] using this
        by_cases c1 : b1.toNat < 128
        · simp only [c1, if_true, runAbs]; simp; try (congr 1; omega)
        · simp only [c1, if_false]
          match r1, hv2 with
          | [], hv2 => rw [readU8_bind_nil _ hv2 hw2]
          | b2 :: r2, hv2 =>
            rw [readU8_bind' _ hv2]
            obtain ⟨s2, hs2⟩ : ∃ s2, s2 = ((s.after 1 s.strs).after 1 (s.after 1 s.strs).strs) := ⟨_, rfl⟩
            rw [← hs2] at hv2 hw2 ⊢
            have hv3 : (s2.after 1 s2.strs).view = r2 := by have := (view_cons hv2).2; simpa [adv_eq_after] using this
            have hw3 : (s2.after 1 s2.strs).WF := by have := AbsSrc.WF_adv1 hw2 hv2; simpa [adv_eq_after] using this
            by_cases c2 : b2.toNat < 128
            · simp only [c2, if_true, runAbs, hs2]; simp [Nat.add_assoc]; try (congr 1; omega)
            · simp only [c2, if_false]
              match r2, hv3 with
              | [], hv3 => rw [readU8_bind_nil _ hv3 hw3]
              | b3 :: r3, hv3 =>
                rw [readU8_bind' _ hv3]
                obtain ⟨s3, hs3⟩ : ∃ s3, s3 = s2.after 1 s2.strs := ⟨_, rfl⟩
                rw [← hs3] at hv3 hw3 ⊢
                have hv4 : (s3.after 1 s3.strs).view = r3 := by have := (view_cons hv3).2; simpa [adv_eq_after] using this
                have hw4 : (s3.after 1 s3.strs).WF := by have := AbsSrc.WF_adv1 hw3 hv3; simpa [adv_eq_after] using this
                by_cases c3 : b3.toNat < 128
                · simp only [c3, if_true, runAbs, hs3, hs2]; simp [Nat.add_assoc]; try (congr 1; omega)
                · simp only [c3, if_false]
                  match r3, hv4 with
                  | [], hv4 => rw [readU8_bind_nil _ hv4 hw4]
                  | b4 :: r4, hv4 =>
                    rw [readU8_bind' _ hv4]
                    simp only [runAbs, hs3, hs2]; simp [Nat.add_assoc]; try (congr 1; omega)
