import Desert.Lemmas.RoundTripFull
import Desert.Lemmas.DedupFree
/-!
# Reading data of one definition with another: the field loop

`XInv` relates the reader's record state to the writer's encoded fields: `done` are the writer's
fields passed so far (read, or passed over), `dead` the chunks holding a passed-over field (from
which nothing is read again). Two layouts: chunk regions (stored version ≥ 1), or the bare
stream of a headerless record (stored version 0).
-/
set_option linter.unusedSimpArgs false
set_option linter.unusedVariables false

/-- the layout-specific part of the invariant -/
inductive XMode (W : Bytes) (fsAll done : List EncField) (dead : List Nat) (w : Nat) (rs : RecSt) (s : AbsSrc)
    (base : AbsSrc) (t : Bytes) : Prop where
  | chunked (hw : 1 ≤ w) (cur : s.cur = base.cur) (stack : s.stack = base.stack) (win : base.cur.window = W)
      (len_in : rs.inputs.length = w + 1)
      (regions : ∀ k r, rs.inputs[k]? = some r →
        r.start ≤ r.end_ ∧ r.end_ ≤ W.length ∧ (W.drop r.start).take (r.end_ - r.start) = chunkBytes fsAll k ∧
        (k ∉ dead → r.pos = (chunkBytes done k).length))
  | v0 (hw : w = 0) (inp : rs.inputs = []) (allz : ∀ e ∈ fsAll, e.chunk = 0)
      (view : 0 ∉ dead → s.WF ∧ s.view = (fsAll.drop done.length).flatMap (·.bytes) ++ t)

structure XInv (W : Bytes) (fsAll done : List EncField) (dead : List Nat) (w r : Nat) (mo : List (Nat × Nat))
    (rm : List Bytes) (rs : RecSt) (s : AbsSrc) (base : AbsSrc) (t : Bytes) : Prop where
  ver : rs.storedVersion = w
  mo_eq : rs.madeOpt = mo
  rm_eq : rs.removed = rm
  len_ix : rs.nextIdx.length = r + 1
  idx : ∀ k i, k ≤ w → k ∉ dead → rs.nextIdx[k]? = some i → i = (done.filter (·.chunk = k)).length
  mode : XMode W fsAll done dead w rs s base t

theorem chunkBytes_append_none (a b : List EncField) (k : Nat) (h : ∀ e ∈ b, e.chunk ≠ k) :
    chunkBytes (a ++ b) k = chunkBytes a k := by
  rw [chunkBytes_append, chunkBytes_nil_of_no_field b k h]; simp

theorem filter_chunk_append_none (a b : List EncField) (k : Nat) (h : ∀ e ∈ b, e.chunk ≠ k) :
    ((a ++ b).filter (·.chunk = k)).length = (a.filter (·.chunk = k)).length := by
  rw [List.filter_append]
  have : b.filter (·.chunk = k) = [] := by
    rw [List.filter_eq_nil_iff]; intro e he; simpa using h e he
  simp [this]

/-- passing over writer fields: their chunks die -/
theorem xinv_pass {W fsAll done dead w r mo rm rs s base t} (skipped : List EncField) (dead' : List Nat)
    (h : XInv W fsAll done dead w r mo rm rs s base t)
    (hd : ∀ k, k ∈ dead' ↔ k ∈ dead ∨ k ∈ skipped.map (·.chunk))
    (hsub : ∀ e ∈ skipped, e ∈ fsAll) :
    XInv W fsAll (done ++ skipped) dead' w r mo rm rs s base t := by
  obtain ⟨hver, hmo, hrm, hlix, hidx, hmode⟩ := h
  have hne : ∀ k, k ∉ dead' → ∀ e ∈ skipped, e.chunk ≠ k := by
    intro k hk e he hek
    exact hk ((hd k).2 (Or.inr (by simp; exact ⟨e, he, hek⟩)))
  have hnd : ∀ k, k ∉ dead' → k ∉ dead := fun k hk hk' => hk ((hd k).2 (Or.inl hk'))
  refine ⟨hver, hmo, hrm, hlix, ?_, ?_⟩
  · intro k i hkw hk hi
    rw [filter_chunk_append_none done skipped k (hne k hk)]
    exact hidx k i hkw (hnd k hk) hi
  · cases hmode with
    | chunked hw cur stack win len_in regions =>
      refine .chunked hw cur stack win len_in ?_
      intro k rg hk
      obtain ⟨a1, a2, a3, a4⟩ := regions k rg hk
      refine ⟨a1, a2, a3, ?_⟩
      intro hkd
      rw [chunkBytes_append_none done skipped k (hne k hkd)]
      exact a4 (hnd k hkd)
    | v0 hw inp allz view =>
      refine .v0 hw inp allz ?_
      intro h0
      cases skipped with
      | nil => simpa using view (hnd 0 h0)
      | cons e rest =>
        exfalso
        exact hne 0 h0 e (by simp) (allz e (hsub e (by simp)))

/-- `record_field_index` on a chunk the data does not have -/
theorem xinv_bump {W fsAll done dead w r mo rm rs s base t} (c i : Nat) (hc : w < c)
    (h : XInv W fsAll done dead w r mo rm rs s base t) :
    XInv W fsAll done dead w r mo rm { rs with nextIdx := rs.nextIdx.set c i } s base t := by
  obtain ⟨hver, hmo, hrm, hlix, hidx, hmode⟩ := h
  refine ⟨hver, hmo, hrm, by simp [hlix], ?_, ?_⟩
  · intro k j hkw hk hj
    have : c ≠ k := by omega
    simp only [List.getElem?_set_ne this] at hj
    exact hidx k j hkw hk hj
  · cases hmode with
    | chunked hw cur stack win len_in regions => exact .chunked hw cur stack win len_in regions
    | v0 hw inp allz view => exact .v0 hw inp allz view

/-- one writer field read inside its chunk (or straight from a headerless stream) by any body that
decodes exactly that field's bytes; and the same for a body that fails -/
theorem inChunk_x {α : Type} {W fsAll done dead w r mo rm rs s base t}
    (hinv : XInv W fsAll done dead w r mo rm rs s base t)
    (ef : EncField) (l' : List EncField) (hall : fsAll = done ++ ef :: l') (hcw : ef.chunk ≤ w) (hlive : ef.chunk ∉ dead)
    (i : Nat) (hi : rs.nextIdx[ef.chunk]? = some i) (body : DProg α) (st st1 : EncSt) (hs : s.strs = st) :
    (∀ xv, (∀ (s' : AbsSrc) (t' : Bytes), s'.WF → s'.view = ef.bytes ++ t' → s'.strs = st →
          runAbs body s' = .ok (xv, s'.after ef.bytes.length st1)) →
       ∃ rs' s', runAbs (inChunk { rs with nextIdx := rs.nextIdx.set ef.chunk (i + 1) } ef.chunk body) s = .ok ((xv, rs'), s') ∧
         s'.strs = st1 ∧ XInv W fsAll (done ++ [ef]) dead w r mo rm rs' s' base t) ∧
    (∀ e, (∀ (s' : AbsSrc) (t' : Bytes), s'.WF → s'.view = ef.bytes ++ t' → s'.strs = st → runAbs body s' = .err e) →
       runAbs (inChunk { rs with nextIdx := rs.nextIdx.set ef.chunk (i + 1) } ef.chunk body) s = .err e) := by
  obtain ⟨hver, hmo, hrm, hlix, hidx, hmode⟩ := hinv
  have hicount := hidx ef.chunk i hcw hlive hi
  obtain ⟨rs1, hrs1⟩ : ∃ rs1 : RecSt, rs1 = { rs with nextIdx := rs.nextIdx.set ef.chunk (i + 1) } := ⟨_, rfl⟩
  rw [← hrs1]
  -- the index clause after the step, common to both layouts
  have hidx' : ∀ k j, k ≤ w → k ∉ dead → (rs.nextIdx.set ef.chunk (i + 1))[k]? = some j →
      j = ((done ++ [ef]).filter (·.chunk = k)).length := by
    intro k j hkw hk hj
    rw [filter_chunk_append_single]
    by_cases hkc : ef.chunk = k
    · subst hkc
      have hlt : ef.chunk < rs.nextIdx.length := by
        rcases Nat.lt_or_ge ef.chunk rs.nextIdx.length with h | h
        · exact h
        · simp [List.getElem?_eq_none h] at hi
      simp [List.getElem?_set, hlt] at hj
      simp [← hj, hicount]
    · rw [List.getElem?_set_ne hkc] at hj
      simp [hkc, hidx k j hkw hk hj]
  cases hmode with
  | v0 hw0 inp allz view =>
    have h0 : ef.chunk = 0 := allz ef (by rw [hall]; simp)
    have hv := view (by rw [← h0]; exact hlive)
    have hdrop : fsAll.drop done.length = ef :: l' := by rw [hall]; simp
    rw [hdrop] at hv
    have hview : s.view = ef.bytes ++ (l'.flatMap (·.bytes) ++ t) := by simpa using hv.2
    have hemp : rs1.inputs.isEmpty = true := by rw [hrs1]; simp [inp]
    constructor
    · intro xv hbody
      have hb := hbody s _ hv.1 hview hs
      refine ⟨rs1, s.after ef.bytes.length st1, ?_, rfl, ?_⟩
      · simp only [inChunk, hemp, if_true, bind_eq_dbind, pure_eq_ret]
        rw [runAbs_bind, hb]; simp [runAbs]
      · refine ⟨by rw [hrs1]; exact hver, by rw [hrs1]; exact hmo, by rw [hrs1]; exact hrm,
          by rw [hrs1]; simp [hlix], by rw [hrs1]; exact hidx', ?_⟩
        refine .v0 hw0 (by rw [hrs1]; exact inp) allz ?_
        intro _
        refine ⟨WF_after hv.1 hview st1, ?_⟩
        have := view_after_append hview st1
        rw [this, hall]; simp
    · intro e hbody
      have hb := hbody s _ hv.1 hview hs
      simp only [inChunk, hemp, if_true, bind_eq_dbind, pure_eq_ret]
      rw [runAbs_bind, hb]; rfl
  | chunked hw1 cur stack win len_in regions =>
    have hW : s.cur.window = W := by rw [cur]; exact win
    have hrx : ∃ rg, rs.inputs[ef.chunk]? = some rg := by
      have : ef.chunk < rs.inputs.length := by omega
      exact ⟨rs.inputs[ef.chunk], by simp [this]⟩
    obtain ⟨rg, hr⟩ := hrx
    obtain ⟨hr1, hr2, hr3, hr4'⟩ := regions ef.chunk rg hr
    have hr4 := hr4' hlive
    have hne : rs1.inputs.isEmpty = false := by
      rw [hrs1]
      cases hh : rs.inputs with
      | nil => rw [hh] at len_in; simp at len_in
      | cons a b => rfl
    have hsplit : chunkBytes fsAll ef.chunk = chunkBytes done ef.chunk ++ (ef.bytes ++ chunkBytes l' ef.chunk) := by
      rw [hall, chunkBytes_append, chunkBytes_cons_eq]
    have hlenr : rg.end_ - rg.start = (chunkBytes fsAll ef.chunk).length := by
      have := congrArg List.length hr3
      simp [List.length_take, List.length_drop] at this
      omega
    obtain ⟨sp, hsp⟩ : ∃ sp : AbsSrc, sp = { s with
        cur := { off := rg.start, window := (s.cur.window.drop rg.start).take (rg.end_ - rg.start), pos := rg.pos },
        stack := s.cur :: s.stack } := ⟨_, rfl⟩
    have hspw : sp.cur.window = chunkBytes fsAll ef.chunk := by rw [hsp]; simp [hW, hr3]
    have hsppos : sp.cur.pos = (chunkBytes done ef.chunk).length := by rw [hsp]; simp [hr4]
    have hspv : sp.view = ef.bytes ++ chunkBytes l' ef.chunk := by
      unfold AbsSrc.view; rw [hspw, hsppos, hsplit]; simp
    have hspwf : sp.WF := by
      unfold AbsSrc.WF; rw [hspw, hsppos, hsplit]; simp
    have hguard : rg.start ≤ rg.end_ ∧ rg.end_ ≤ s.cur.window.length ∧ rg.start + rg.pos ≤ rg.end_ := by
      refine ⟨hr1, by rw [hW]; exact hr2, ?_⟩
      rw [hr4]
      have : (chunkBytes done ef.chunk).length ≤ (chunkBytes fsAll ef.chunk).length := by rw [hsplit]; simp
      omega
    have hr1' : rs1.inputs[ef.chunk]? = some rg := by rw [hrs1]; exact hr
    constructor
    · intro xv hbody
      have hb := hbody sp (chunkBytes l' ef.chunk) hspwf hspv (by rw [hsp]; exact hs)
      obtain ⟨r', hr'⟩ : ∃ r' : Region, r' = ⟨rg.start, rg.pos + ef.bytes.length, rg.start + (chunkBytes fsAll ef.chunk).length⟩ := ⟨_, rfl⟩
      obtain ⟨rs', hrs'⟩ : ∃ rs' : RecSt, rs' = { rs1 with inputs := rs1.inputs.set ef.chunk r' } := ⟨_, rfl⟩
      refine ⟨rs', { s with strs := st1 }, ?_, rfl, ?_⟩
      · simp only [inChunk, hne, Bool.false_eq_true, if_false, hr1', bind_eq_dbind, pure_eq_ret]
        simp only [pushR, popR, DProg.bind, runAbs, hguard, and_self, if_true]
        rw [runAbs_bind]
        rw [← hsp, hb]
        simp only [Outcome.bindS_ok, runAbs]
        rw [hsp]
        simp only [AbsSrc.after]
        rw [hrs', hr']
        have hmin : min (chunkBytes fsAll ef.chunk).length (W.length - rg.start) = (chunkBytes fsAll ef.chunk).length := by omega
        simp [hlenr, hW, hr3, hmin]
      · have hin' : rs'.inputs = rs.inputs.set ef.chunk r' := by rw [hrs', hrs1]
        refine ⟨by rw [hrs', hrs1]; exact hver, by rw [hrs', hrs1]; exact hmo, by rw [hrs', hrs1]; exact hrm,
          by rw [hrs', hrs1]; simp [hlix], by rw [hrs', hrs1]; exact hidx', ?_⟩
        refine .chunked hw1 cur stack win (by rw [hin']; simp [len_in]) ?_
        intro k rr hk
        rw [hin'] at hk
        by_cases hkc : ef.chunk = k
        · subst hkc
          have hlt : ef.chunk < rs.inputs.length := by omega
          simp [List.getElem?_set, hlt] at hk
          subst hk
          rw [hr']
          refine ⟨by simp, ?_, ?_, ?_⟩
          · simp only; omega
          · simp only [Nat.add_sub_cancel_left]; rw [← hlenr]; exact hr3
          · intro _; simp only; rw [hr4, chunkBytes_append]; simp [chunkBytes, List.filter_cons]
        · rw [List.getElem?_set_ne hkc] at hk
          obtain ⟨a1, a2, a3, a4⟩ := regions k rr hk
          refine ⟨a1, a2, a3, ?_⟩
          intro hkd
          rw [a4 hkd, chunkBytes_append]
          simp [chunkBytes, List.filter_cons, hkc]
    · intro e hbody
      have hb := hbody sp (chunkBytes l' ef.chunk) hspwf hspv (by rw [hsp]; exact hs)
      simp only [inChunk, hne, Bool.false_eq_true, if_false, hr1', bind_eq_dbind, pure_eq_ret]
      simp only [pushR, popR, DProg.bind, runAbs, hguard, and_self, if_true]
      rw [runAbs_bind]
      rw [← hsp, hb]; rfl

theorem encFields_cons_shape {env : Env} {steps : List Step} {g : Field} {ws : List Field} {vals : Val} {st : EncSt}
    {l : List EncField} {st' : EncSt} (h : encFields env steps (g :: ws) vals st = .ok (l, st')) :
    ∃ x r, vals = .vcons x r := by
  cases vals <;> simp [encFields, illTyped] at h
  exact ⟨_, _, rfl⟩

/-- what `seekB` finds, in terms of the writer's encoded fields and values -/
theorem seek_spec (env : Env) (wsteps : List Step) (name : String) :
    ∀ (ws : List Field) (vals : Val) (dc dead : List Nat) (g : Field) (ws' : List Field) (dc' dead' : List Nat)
      (st : EncSt) (l : List EncField) (st' : EncSt),
    seekB wsteps name ws dc dead = some (g, ws', dc', dead') →
    encFields env wsteps ws vals st = .ok (l, st') →
    (ws.map (·.name)).Nodup →
    ∃ (skipped : List EncField) (x rest : Val) (b1 : Bytes) (st1 : EncSt) (l2 : List EncField),
      l = skipped ++ ⟨g.name, genOf wsteps g.name, b1⟩ :: l2 ∧
      enc env g.ty x st = .ok (b1, st1) ∧ encFields env wsteps ws' rest st1 = .ok (l2, st') ∧
      g.role ≠ .transient ∧ g.name = name ∧ name ∈ ws.map (·.name) ∧
      dc' = dc ++ skipped.map (·.chunk) ∧ (∀ k, k ∈ dead' ↔ k ∈ dead ∨ k ∈ skipped.map (·.chunk)) ∧
      fieldValue ws (normFields env ws vals) name = some (normalize env g.ty x) ∧
      (∀ n ∈ ws'.map (·.name), fieldValue ws (normFields env ws vals) n = fieldValue ws' (normFields env ws' rest) n) ∧
      (ws'.map (·.name)).Nodup ∧ (∀ n ∈ ws'.map (·.name), n ∈ ws.map (·.name)) ∧
      (vals.utf8OK → x.utf8OK ∧ rest.utf8OK) ∧ x.depth ≤ vals.depth ∧ rest.depth ≤ vals.depth := by
  intro ws
  induction ws with
  | nil => intro vals dc dead g ws' dc' dead' st l st' hseek; simp [seekB] at hseek
  | cons g0 ws ih =>
    intro vals dc dead g ws' dc' dead' st l st' hseek henc hnd
    obtain ⟨x0, r0, rfl⟩ := encFields_cons_shape henc
    have hnd' : (ws.map (·.name)).Nodup := by simp at hnd; exact hnd.2
    have hnot : g0.name ∉ ws.map (·.name) := by simp at hnd; simpa using hnd.1
    simp only [seekB] at hseek
    by_cases htr : g0.role = .transient
    · -- the writer's own transient field: nothing on the wire
      simp only [htr, if_true] at hseek
      have henc' : encFields env wsteps ws r0 st = .ok (l, st') := by simpa [encFields, htr] using henc
      obtain ⟨sk, x, rest, b1, st1, l2, h1, h2, h3, h4, h5, h6, h7, h8, h9, h10, h11, h12, h13, h14, h15⟩ :=
        ih r0 dc dead g ws' dc' dead' st l st' hseek henc' hnd'
      have hne : g0.name ≠ name := fun h => hnot (h ▸ h6)
      refine ⟨sk, x, rest, b1, st1, l2, h1, h2, h3, h4, h5, by simp [h6], h7, h8, ?_, ?_, h11, ?_, ?_, ?_, ?_⟩
      · simp [normFields, htr, fieldValue, hne, h9]
      · intro n hn
        have hne' : g0.name ≠ n := fun h => hnot (h ▸ h12 n hn)
        simp [normFields, htr, fieldValue, hne', h10 n hn]
      · intro n hn; simp [h12 n hn]
      · intro hu; simp only [Val.utf8OK] at hu; exact h13 hu.2
      · simp only [Val.depth]; omega
      · simp only [Val.depth]; omega
    · simp only [htr, if_false] at hseek
      have hrole : ∀ (α : Type) (a b : α), (match g0.role with | .transient => a | _ => b) = b := by
        intro α a b; cases hr : g0.role <;> simp_all
      have henc0 : ((enc env g0.ty x0 st).bind fun (b, st1) =>
          (encFields env wsteps ws r0 st1).bind fun (l, st2) =>
            Outcome.ok ({ name := g0.name, chunk := genOf wsteps g0.name, bytes := b } :: l, st2)) = .ok (l, st') := by
        have := henc
        simp only [encFields] at this
        cases hr : g0.role <;> simp_all
      cases hx : enc env g0.ty x0 st with
      | err e => simp [hx] at henc0
      | panic w => simp [hx] at henc0
      | ok p0 =>
      obtain ⟨b0, st0⟩ := p0
      simp only [hx, Outcome.bind_ok] at henc0
      cases hr : encFields env wsteps ws r0 st0 with
      | err e => simp [hr] at henc0
      | panic w => simp [hr] at henc0
      | ok q0 =>
      obtain ⟨l0, st2⟩ := q0
      simp [hr] at henc0
      obtain ⟨rfl, rfl⟩ := henc0
      have hnf : normFields env (g0 :: ws) (.vcons x0 r0) = .vcons (normalize env g0.ty x0) (normFields env ws r0) := by
        simp only [normFields]; try (cases hr' : g0.role <;> simp_all)
      by_cases hnm : g0.name = name
      · -- found
        simp only [hnm, if_true] at hseek
        simp only [Option.some.injEq, Prod.mk.injEq] at hseek
        obtain ⟨rfl, rfl, rfl, rfl⟩ := hseek
        refine ⟨[], x0, r0, b0, st0, l0, by simp, hx, hr, htr, hnm, by simp [hnm], by simp, by simp, ?_, ?_, hnd', ?_, ?_, ?_, ?_⟩
        · rw [hnf]; simp [fieldValue, hnm]
        · intro n hn
          have hne' : g0.name ≠ n := fun h => hnot (h ▸ hn)
          rw [hnf]; simp [fieldValue, hne']
        · intro n hn; simp at hn ⊢; right; exact hn
        · intro hu; simpa [Val.utf8OK] using hu
        · simp only [Val.depth]; omega
        · simp only [Val.depth]; omega
      · -- passed over: string-free, so the table does not move
        simp only [hnm, if_false] at hseek
        by_cases hdf : dedupFree g0.ty = true
        · simp only [hdf, if_true] at hseek
          have hst0 : st0 = st := (enc_dedupFree env x0).1 g0.ty st b0 st0 hdf hx
          subst hst0
          obtain ⟨sk, x, rest, b1, st1, l2, h1, h2, h3, h4, h5, h6, h7, h8, h9, h10, h11, h12, h13, h14, h15⟩ :=
            ih r0 _ _ g ws' dc' dead' st0 l0 st2 hseek hr hnd'
          refine ⟨⟨g0.name, genOf wsteps g0.name, b0⟩ :: sk, x, rest, b1, st1, l2, by simp [h1], h2, h3, h4, h5, by simp [h6],
            by simp [h7], ?_, ?_, ?_, h11, ?_, ?_, ?_, ?_⟩
          · intro k; rw [h8 k]; simp; constructor
            · rintro ((h | h) | h)
              · right; left; exact h
              · left; exact h
              · right; right; exact h
            · rintro (h | h | h)
              · left; right; exact h
              · left; left; exact h
              · right; exact h
          · rw [hnf]; simp [fieldValue, hnm, h9]
          · intro n hn
            have hne' : g0.name ≠ n := fun h => hnot (h ▸ h12 n hn)
            rw [hnf]; simp [fieldValue, hne', h10 n hn]
          · intro n hn; simp [h12 n hn]
          · intro hu; simp only [Val.utf8OK] at hu; exact h13 hu.2
          · simp only [Val.depth]; omega
          · simp only [Val.depth]; omega
        · simp [hdf] at hseek

/-- fields the reader never gets to: transient or string-free, so the writer's table ends where the reader's does -/
theorem encFields_tail_st (env : Env) (wsteps : List Step) : ∀ (ws : List Field) (vals : Val) (st : EncSt)
    (l : List EncField) (st' : EncSt),
    (ws.all fun g => g.role == .transient || dedupFree g.ty) = true →
    encFields env wsteps ws vals st = .ok (l, st') → st' = st := by
  intro ws
  induction ws with
  | nil =>
    intro vals st l st' _ h
    cases vals <;> simp [encFields, illTyped] at h
    exact h.2.symm
  | cons g ws ih =>
    intro vals st l st' hall h
    obtain ⟨x, r, rfl⟩ := encFields_cons_shape h
    simp only [List.all_cons, Bool.and_eq_true, Bool.or_eq_true, beq_iff_eq] at hall
    by_cases htr : g.role = .transient
    · exact ih r st l st' hall.2 (by simpa [encFields, htr] using h)
    · have hdf : dedupFree g.ty = true := by rcases hall.1 with h1 | h1; exact absurd h1 htr; exact h1
      have h0 : ((enc env g.ty x st).bind fun (b, st1) =>
          (encFields env wsteps ws r st1).bind fun (l, st2) =>
            Outcome.ok ({ name := g.name, chunk := genOf wsteps g.name, bytes := b } :: l, st2)) = .ok (l, st') := by
        have := h
        simp only [encFields] at this
        cases hr : g.role <;> simp_all
      cases hx : enc env g.ty x st with
      | err e => simp [hx] at h0
      | panic w => simp [hx] at h0
      | ok p0 =>
      obtain ⟨b0, st0⟩ := p0
      simp only [hx, Outcome.bind_ok] at h0
      cases hr : encFields env wsteps ws r st0 with
      | err e => simp [hr] at h0
      | panic w => simp [hr] at h0
      | ok q0 =>
      obtain ⟨l0, st2⟩ := q0
      simp [hr] at h0
      rw [← h0.2, ih r st0 l0 st2 hall.2 hr]
      exact (enc_dedupFree env x).1 g.ty st b0 st0 hdf hx

/-- the run of the reader's field loop against the documented outcome -/
def XOut (run : Outcome (List Val × AbsSrc)) (exp : Except Err (List Val)) (Q : AbsSrc → Prop) : Prop :=
  match exp with
  | .ok xs => ∃ s', run = .ok (xs, s') ∧ Q s'
  | .error e => run = .err e

theorem xout_cons_ok (dw dr : Decl) (nv : Val) (steps : List Step) (rs rs' : RecSt) (fd : FieldDec) (fds : List FieldDec)
    (f : Field) (fs : List Field) (s s1 : AbsSrc) (x : Val) (Q : AbsSrc → Prop)
    (hrun : runAbs (readField steps rs fd) s = .ok ((x, rs'), s1)) (hexp : expectedField dw dr nv f = .ok x)
    (hrest : XOut (runAbs (readFields steps rs' fds) s1) (expectedFields dw dr nv fs) Q) :
    XOut (runAbs (readFields steps rs (fd :: fds)) s) (expectedFields dw dr nv (f :: fs)) Q := by
  simp only [readFields, bind_eq_dbind, pure_eq_ret, expectedFields, hexp]
  rw [runAbs_bind, hrun]
  simp only [Outcome.bindS_ok]
  unfold XOut at hrest ⊢
  cases he : expectedFields dw dr nv fs with
  | ok xs =>
    rw [he] at hrest
    obtain ⟨s', h1, h2⟩ := hrest
    refine ⟨s', ?_, h2⟩
    rw [runAbs_bind, h1]; simp [runAbs]
  | error e =>
    rw [he] at hrest
    simp only
    rw [runAbs_bind, hrest]; rfl

theorem xout_cons_err (dw dr : Decl) (nv : Val) (steps : List Step) (rs : RecSt) (fd : FieldDec) (fds : List FieldDec)
    (f : Field) (fs : List Field) (s : AbsSrc) (e : Err) (Q : AbsSrc → Prop)
    (hrun : runAbs (readField steps rs fd) s = .err e) (hexp : expectedField dw dr nv f = .error e) :
    XOut (runAbs (readFields steps rs (fd :: fds)) s) (expectedFields dw dr nv (f :: fs)) Q := by
  simp only [readFields, bind_eq_dbind, pure_eq_ret, expectedFields, hexp, XOut]
  rw [runAbs_bind, hrun]; rfl

theorem alignB_cons_transient (dw dr : Decl) (mo rmB ws dc dead) (f : Field) (fs : List Field) (h : f.role = .transient) :
    alignB dw dr mo rmB ws dc dead (f :: fs) = (f.default.isSome && alignB dw dr mo rmB ws dc dead fs) := by
  simp [alignB, h]

theorem alignB_cons_other (dw dr : Decl) (mo rmB ws dc dead) (f : Field) (fs : List Field) (h : f.role ≠ .transient) :
    alignB dw dr mo rmB ws dc dead (f :: fs) =
      ((decide (nameBytes f.name ∈ rmB) == removedInData dw.steps f.name) &&
      (if removedInData dw.steps f.name then alignB dw dr mo rmB ws dc dead fs
       else if dw.steps.length < genOf dr.steps f.name then alignB dw dr mo rmB ws dc dead fs
       else
        match seekB dw.steps f.name ws dc dead with
        | none => false
        | some (g, ws', dc', dead') =>
          (genOf dw.steps g.name == genOf dr.steps f.name) && !(decide (genOf dr.steps f.name ∈ dead')) &&
          typeOKB dw dr mo f g (genOf dr.steps f.name) (dc'.filter (· = genOf dr.steps f.name)).length &&
          alignB dw dr mo rmB ws' (dc' ++ [genOf dr.steps f.name]) dead' fs)) := by
  rw [alignB]
  cases hr : f.role
  · rfl
  · rfl
  · exact absurd hr h

theorem readField_unfold_nt (steps : List Step) (rs : RecSt) (fd : FieldDec) :
    readField steps rs fd =
    match fd.field.role with
    | .transient =>
      match fd.field.default with
      | some v => pure (v, rs)
      | none => .panic "transient field without default"
    | .plain =>
      if nameBytes fd.field.name ∈ rs.removed then .fail (.fieldRemoved fd.field.name) else
      match takeIdx rs (genOf steps fd.field.name) with
      | .panic w => .panic w
      | .err e => .fail e
      | .ok (pos, st) =>
        if st.storedVersion < genOf steps fd.field.name then
          match fd.field.default with
          | some v => pure (v, st)
          | none => .fail (.fieldMissing fd.field.name)
        else
          inChunk st (genOf steps fd.field.name)
            (if (genOf steps fd.field.name, pos) ∈ st.madeOpt then
              readU8 >>= fun b => if b != 0 then fd.decFull else .fail (.nonOptionalNone fd.field.name)
             else fd.decFull)
    | .optional =>
      if nameBytes fd.field.name ∈ rs.removed then pure (.none, rs) else
      match takeIdx rs (genOf steps fd.field.name) with
      | .panic w => .panic w
      | .err e => .fail e
      | .ok (_, st) =>
        if st.storedVersion < genOf steps fd.field.name then
          match fd.field.default with
          | some v => pure (v, st)
          | none => .fail .deserializationFailure
        else
          inChunk st (genOf steps fd.field.name)
            (if st.storedVersion < optSinceOf steps fd.field.name then fd.decInner >>= fun v => pure (.some v)
             else fd.decFull) := by
  rfl

theorem cross_loop (env : Env) (hrt : ∀ v, RT env v) (dw dr : Decl) (mo : List (Nat × Nat)) (rmB : List Bytes)
    (W : Bytes) (fsAll : List EncField) (fuel : Nat) (base : AbsSrc) (t : Bytes) (nv : Val)
    (hch : ∀ e ∈ fsAll, e.chunk ≤ dw.steps.length) :
    ∀ (frs ws : List Field) (vals : Val) (done : List EncField) (dead : List Nat) (l : List EncField) (st st' : EncSt)
      (rs : RecSt) (s : AbsSrc),
    encFields env dw.steps ws vals st = .ok (l, st') → vals.utf8OK → StOK st → vals.depth < fuel →
    fsAll = done ++ l → XInv W fsAll done dead dw.steps.length dr.steps.length mo rmB rs s base t → s.strs = st →
    alignB dw dr mo rmB ws (done.map (·.chunk)) dead frs = true →
    (ws.map (·.name)).Nodup →
    (∀ n ∈ ws.map (·.name), fieldValue dw.fields nv n = fieldValue ws (normFields env ws vals) n) →
    XOut (runAbs (readFields dr.steps rs (frs.map (mkFieldDec (dec env fuel)))) s) (expectedFields dw dr nv frs)
      (fun s' => s'.strs = st' ∧ ∃ rs' dead', XInv W fsAll fsAll dead' dw.steps.length dr.steps.length mo rmB rs' s' base t) := by
  intro frs
  induction frs with
  | nil =>
    intro ws vals done dead l st st' rs s henc hu hst hd hall hinv hs hal hnd hfv
    simp only [alignB] at hal
    have hst' := encFields_tail_st env dw.steps ws vals st l st' hal henc
    simp only [List.map_nil, readFields, pure_eq_ret, runAbs, expectedFields, XOut]
    refine ⟨s, rfl, by rw [hs, hst'], rs, l.map (·.chunk) ++ dead, ?_⟩
    rw [hall]
    exact xinv_pass l _ (hall ▸ hinv) (by intro k; simp [or_comm]) (by intro e he; simp [he])
  | cons f fs ih =>
    intro ws vals done dead l st st' rs s henc hu hst hd hall hinv hs hal hnd hfv
    by_cases htr : f.role = .transient
    · -- the reader's transient field: its default
      rw [alignB_cons_transient dw dr mo rmB ws _ dead f fs htr] at hal
      simp only [Bool.and_eq_true] at hal
      obtain ⟨dv, hdv⟩ := Option.isSome_iff_exists.mp hal.1
      have hexp : expectedField dw dr nv f = .ok dv := by simp [expectedField, htr, hdv]
      have hrun : runAbs (readField dr.steps rs (mkFieldDec (dec env fuel) f)) s = .ok ((dv, rs), s) := by
        rw [readField_transient dr.steps rs _ (by simpa [mkFieldDec] using htr) dv (by simpa [mkFieldDec] using hdv)]; rfl
      exact xout_cons_ok dw dr nv dr.steps rs rs _ _ f fs s s dv _ hrun hexp
        (ih ws vals done dead l st st' rs s henc hu hst hd hall hinv hs hal.2 hnd hfv)
    · rw [alignB_cons_other dw dr mo rmB ws _ dead f fs htr] at hal
      simp only [Bool.and_eq_true, beq_iff_eq] at hal
      obtain ⟨hrmeq, hal2⟩ := hal
      by_cases hrem : removedInData dw.steps f.name = true
      · -- the data says: removed
        have hin : nameBytes f.name ∈ rs.removed := by rw [hinv.rm_eq]; simpa [hrem] using hrmeq
        simp only [hrem, if_true] at hal2
        cases hrole : f.role with
        | transient => exact absurd hrole htr
        | plain =>
          refine xout_cons_err dw dr nv dr.steps rs _ _ f fs s (.fieldRemoved f.name) _ ?_ ?_
          · rw [readField_unfold_nt]; simp [mkFieldDec, hrole, hin, runAbs]
          · simp [expectedField, hrole, hrem]
        | optional =>
          refine xout_cons_ok dw dr nv dr.steps rs rs _ _ f fs s s .none _ ?_ ?_
            (ih ws vals done dead l st st' rs s henc hu hst hd hall hinv hs hal2 hnd hfv)
          · rw [readField_unfold_nt]; simp [mkFieldDec, hrole, hin, runAbs, pure_eq_ret]
          · simp [expectedField, hrole, hrem]
      · have hrem' : removedInData dw.steps f.name = false := by simpa using hrem
        have hnin : nameBytes f.name ∉ rs.removed := by rw [hinv.rm_eq]; simpa [hrem'] using hrmeq
        simp only [hrem', Bool.false_eq_true, if_false] at hal2
        have hcr : genOf dr.steps f.name ≤ dr.steps.length := genOf_le _ _
        obtain ⟨i, hi⟩ : ∃ i, rs.nextIdx[genOf dr.steps f.name]? = some i := by
          have : genOf dr.steps f.name < rs.nextIdx.length := by rw [hinv.len_ix]; omega
          exact ⟨rs.nextIdx[genOf dr.steps f.name], by simp [this]⟩
        obtain ⟨rs1, hrs1⟩ : ∃ rs1 : RecSt, rs1 = { rs with nextIdx := rs.nextIdx.set (genOf dr.steps f.name) (i + 1) } := ⟨_, rfl⟩
        have htake : takeIdx rs (genOf dr.steps f.name) = .ok (i % 256, rs1) := by simp [takeIdx, hi, hrs1]
        have hv1 : rs1.storedVersion = dw.steps.length := by rw [hrs1]; exact hinv.ver
        by_cases hnew : dw.steps.length < genOf dr.steps f.name
        · -- the data is older than the field: default, or the error
          simp only [hnew, if_true] at hal2
          have hinv' : XInv W fsAll done dead dw.steps.length dr.steps.length mo rmB rs1 s base t := by
            rw [hrs1]; exact xinv_bump _ _ hnew hinv
          cases hrole : f.role with
          | transient => exact absurd hrole htr
          | plain =>
            cases hdef : f.default with
            | none =>
              refine xout_cons_err dw dr nv dr.steps rs _ _ f fs s (.fieldMissing f.name) _ ?_ ?_
              · rw [readField_unfold_nt]; simp [mkFieldDec, hrole, hnin, htake, hv1, hnew, hdef, runAbs]
              · simp [expectedField, hrole, hrem', hnew, hdef]
            | some dv =>
              refine xout_cons_ok dw dr nv dr.steps rs rs1 _ _ f fs s s dv _ ?_ ?_
                (ih ws vals done dead l st st' rs1 s henc hu hst hd hall hinv' hs hal2 hnd hfv)
              · rw [readField_unfold_nt]; simp [mkFieldDec, hrole, hnin, htake, hv1, hnew, hdef, runAbs, pure_eq_ret]
              · simp [expectedField, hrole, hrem', hnew, hdef]
          | optional =>
            cases hdef : f.default with
            | none =>
              refine xout_cons_err dw dr nv dr.steps rs _ _ f fs s .deserializationFailure _ ?_ ?_
              · rw [readField_unfold_nt]; simp [mkFieldDec, hrole, hnin, htake, hv1, hnew, hdef, runAbs]
              · simp [expectedField, hrole, hrem', hnew, hdef]
            | some dv =>
              refine xout_cons_ok dw dr nv dr.steps rs rs1 _ _ f fs s s dv _ ?_ ?_
                (ih ws vals done dead l st st' rs1 s henc hu hst hd hall hinv' hs hal2 hnd hfv)
              · rw [readField_unfold_nt]; simp [mkFieldDec, hrole, hnin, htake, hv1, hnew, hdef, runAbs, pure_eq_ret]
              · simp [expectedField, hrole, hrem', hnew, hdef]
        · -- the field is in the data
          simp only [hnew, if_false] at hal2
          cases hseek : seekB dw.steps f.name ws (done.map (·.chunk)) dead with
          | none => simp [hseek] at hal2
          | some res =>
          obtain ⟨g, ws', dc', dead'⟩ := res
          simp only [hseek, Bool.and_eq_true, beq_iff_eq, Bool.not_eq_true', decide_eq_false_iff_not] at hal2
          obtain ⟨⟨⟨hgen, hlive⟩, htyp⟩, hal3⟩ := hal2
          obtain ⟨sk, x, rest, b1, st1, l2, h1, h2, h3, h4, h5, h6, h7, h8, h9, h10, h11, h12, h13, h14, h15⟩ :=
            seek_spec env dw.steps f.name ws vals _ _ g ws' dc' dead' st l st' hseek henc hnd
          obtain ⟨ef, hef⟩ : ∃ ef : EncField, ef = ⟨g.name, genOf dw.steps g.name, b1⟩ := ⟨_, rfl⟩
          rw [← hef] at h1
          have hefc : ef.chunk = genOf dr.steps f.name := by rw [hef]; exact hgen
          have hefb : ef.bytes = b1 := by rw [hef]
          have hall' : fsAll = (done ++ sk) ++ ef :: l2 := by rw [hall, h1]; simp
          have hinvp : XInv W fsAll (done ++ sk) dead' dw.steps.length dr.steps.length mo rmB rs s base t :=
            xinv_pass sk dead' hinv h8 (by intro e he; rw [hall, h1]; simp [he])
          have hcw : ef.chunk ≤ dw.steps.length := hch ef (by rw [hall']; simp)
          have hlive' : ef.chunk ∉ dead' := by rw [hefc]; exact hlive
          have hi' : rs.nextIdx[ef.chunk]? = some i := by rw [hefc]; exact hi
          have hicount : i = ((done ++ sk).filter (·.chunk = ef.chunk)).length := hinvp.idx ef.chunk i hcw hlive' hi'
          have hcnt : (dc'.filter (· = genOf dr.steps f.name)).length = i := by
            rw [h7, ← List.map_append, filter_map_chunk, hicount, hefc]
          rw [hcnt] at htyp
          have hux := h13 hu
          have hSE := (hrt x).1 g.ty st b1 st1 fuel h2 hux.1 hst (by omega)
          have hst1 : StOK st1 := (hSE ⟨⟨0, b1, 0⟩, [], st⟩ [] (by simp [AbsSrc.WF]) (by simp [AbsSrc.view]) rfl).2
          have hfval : fieldValue dw.fields nv f.name = some (normalize env g.ty x) := (hfv f.name h6).trans h9
          have hnotnew : ¬ (rs1.storedVersion < genOf dr.steps f.name) := by rw [hv1]; exact hnew
          have hmo1 : rs1.madeOpt = mo := by rw [hrs1]; exact hinv.mo_eq
          -- the continuation after a successful read of this field
          have hcont : ∀ (rs' : RecSt) (s' : AbsSrc), s'.strs = st1 →
              XInv W fsAll ((done ++ sk) ++ [ef]) dead' dw.steps.length dr.steps.length mo rmB rs' s' base t →
              XOut (runAbs (readFields dr.steps rs' (fs.map (mkFieldDec (dec env fuel)))) s') (expectedFields dw dr nv fs)
                (fun s' => s'.strs = st' ∧ ∃ rs' dead', XInv W fsAll fsAll dead' dw.steps.length dr.steps.length mo rmB rs' s' base t) := by
            intro rs' s' hs' hinv''
            refine ih ws' rest ((done ++ sk) ++ [ef]) dead' l2 st1 st' rs' s' h3 hux.2 hst1 (by omega)
              (by rw [hall']; simp) hinv'' hs' ?_ h11 (fun n hn => (hfv n (h12 n hn)).trans (h10 n hn))
            have : ((done ++ sk) ++ [ef]).map (·.chunk) = dc' ++ [genOf dr.steps f.name] := by
              rw [h7]; simp [hefc]
            rw [this]; exact hal3
          obtain ⟨hokx, herrx⟩ : _ ∧ _ := @inChunk_x Val W fsAll (done ++ sk) dead' dw.steps.length dr.steps.length mo rmB rs s base t
            hinvp ef l2 hall' hcw hlive' i hi'
            (match f.role with
              | .plain => if (genOf dr.steps f.name, i % 256) ∈ mo then
                  readU8 >>= fun b => if b != 0 then dec env fuel f.ty else .fail (.nonOptionalNone f.name)
                else dec env fuel f.ty
              | _ => if dw.steps.length < optSinceOf dr.steps f.name then (mkFieldDec (dec env fuel) f).decInner >>= fun v => pure (.some v)
                else dec env fuel f.ty) st st1 hs
          rw [hefc, ← hrs1] at hokx herrx
          cases hrole : f.role with
          | transient => exact absurd hrole htr
          | plain =>
            simp only [hrole] at hokx herrx
            have hreadF : readField dr.steps rs (mkFieldDec (dec env fuel) f) =
                inChunk rs1 (genOf dr.steps f.name) (if (genOf dr.steps f.name, i % 256) ∈ mo then
                  readU8 >>= fun b => if b != 0 then dec env fuel f.ty else .fail (.nonOptionalNone f.name)
                else dec env fuel f.ty) := by
              rw [readField_unfold_nt]; simp [mkFieldDec, hrole, hnin, htake, hnotnew, hmo1]
            simp only [typeOKB, hrole, Bool.and_eq_true, beq_iff_eq] at htyp
            by_cases hin : (genOf dr.steps f.name, i % 256) ∈ mo
            · -- announced as made optional: flag byte, then the value
              simp only [hin, decide_true, if_true] at htyp hokx herrx hreadF
              have hgty : g.ty = .option f.ty := by simpa using htyp.2
              have hmoid : madeOptionalInData dw.steps f.name = true := htyp.1.symm
              rw [hgty] at h2 hfval
              cases x with
              | none =>
                simp [enc] at h2
                obtain ⟨rfl, rfl⟩ := h2
                refine xout_cons_err dw dr nv dr.steps rs _ _ f fs s (.nonOptionalNone f.name) _ ?_ ?_
                · rw [hreadF]
                  apply herrx
                  intro s' t' hw' hv' hs'
                  rw [hefb] at hv'
                  rw [bind_eq_dbind, readU8_bind' _ (by simpa using hv')]
                  simp [runAbs]
                · simp [expectedField, hrole, hrem', hnew, hfval, hmoid, normalize]
              | some y =>
                simp only [enc] at h2
                cases hy : enc env f.ty y st with
                | err e => simp [hy] at h2
                | panic w => simp [hy] at h2
                | ok py =>
                obtain ⟨by1, sty⟩ := py
                simp [hy] at h2
                obtain ⟨rfl, rfl⟩ := h2
                have hSEy := (hrt y).1 f.ty st by1 sty fuel hy (by simpa [Val.utf8OK] using hux.1) hst
                  (by simp only [Val.depth] at h14; omega)
                obtain ⟨rs', s', hrun, hs', hinv''⟩ := hokx (normalize env f.ty y) (by
                  intro s' t' hw' hv' hs'
                  rw [hefb] at hv' ⊢
                  have hv'' : s'.view = 1 :: (by1 ++ t') := by simpa using hv'
                  rw [bind_eq_dbind, readU8_bind' _ hv'']
                  have hv1' : (s'.after 1 s'.strs).view = by1 ++ t' := by
                    have := (view_cons hv'').2; simpa [adv_eq_after] using this
                  have hw1' : (s'.after 1 s'.strs).WF := by
                    have := AbsSrc.WF_adv1 hw' hv''; simpa [adv_eq_after] using this
                  have := (hSEy (s'.after 1 s'.strs) t' hw1' hv1' (by simpa using hs')).1
                  simp only [show ((1 : Byte) != 0) = true by decide, if_true]
                  rw [this]; simp [Nat.add_comm])
                refine xout_cons_ok dw dr nv dr.steps rs rs' _ _ f fs s s' (normalize env f.ty y) _ ?_ ?_ (hcont rs' s' hs' hinv'')
                · rw [hreadF]; exact hrun
                · simp [expectedField, hrole, hrem', hnew, hfval, hmoid, normalize]
              | _ => simp [enc, illTyped] at h2
            · simp only [hin, decide_false, if_false, Bool.false_eq_true] at htyp hokx herrx hreadF
              have hgty : g.ty = f.ty := by simpa using htyp.2
              have hmoid : madeOptionalInData dw.steps f.name = false := htyp.1.symm
              rw [hgty] at hSE hfval
              obtain ⟨rs', s', hrun, hs', hinv''⟩ := hokx (normalize env f.ty x) (by
                intro s' t' hw' hv' hs'
                rw [hefb] at hv' ⊢
                exact (hSE s' t' hw' hv' hs').1)
              refine xout_cons_ok dw dr nv dr.steps rs rs' _ _ f fs s s' (normalize env f.ty x) _ ?_ ?_ (hcont rs' s' hs' hinv'')
              · rw [hreadF]; exact hrun
              · simp [expectedField, hrole, hrem', hnew, hfval, hmoid]
          | optional =>
            simp only [hrole] at hokx herrx
            have hreadF : readField dr.steps rs (mkFieldDec (dec env fuel) f) =
                inChunk rs1 (genOf dr.steps f.name) (if dw.steps.length < optSinceOf dr.steps f.name then
                  (mkFieldDec (dec env fuel) f).decInner >>= fun v => pure (.some v) else dec env fuel f.ty) := by
              rw [readField_unfold_nt]; simp [mkFieldDec, hrole, hnin, htake, hnotnew, hv1, hnew]
            simp only [typeOKB, hrole] at htyp
            by_cases hos : dw.steps.length < optSinceOf dr.steps f.name
            · -- written before the field was made optional: wrap
              simp only [hos, if_true] at htyp hokx herrx hreadF
              have hfty : f.ty = .option g.ty := by simpa using htyp
              have hinner : (mkFieldDec (dec env fuel) f).decInner = dec env fuel g.ty := by simp [mkFieldDec, hfty]
              obtain ⟨rs', s', hrun, hs', hinv''⟩ := hokx (.some (normalize env g.ty x)) (by
                intro s' t' hw' hv' hs'
                rw [hefb] at hv' ⊢
                rw [hinner, bind_eq_dbind, runAbs_bind, (hSE s' t' hw' hv' hs').1]
                simp [runAbs, pure_eq_ret])
              refine xout_cons_ok dw dr nv dr.steps rs rs' _ _ f fs s s' (.some (normalize env g.ty x)) _ ?_ ?_ (hcont rs' s' hs' hinv'')
              · rw [hreadF]; exact hrun
              · simp [expectedField, hrole, hrem', hnew, hfval, hos]
            · simp only [hos, if_false] at htyp hokx herrx hreadF
              have hgty : g.ty = f.ty := by simpa using htyp
              rw [hgty] at hSE hfval
              obtain ⟨rs', s', hrun, hs', hinv''⟩ := hokx (normalize env f.ty x) (by
                intro s' t' hw' hv' hs'
                rw [hefb] at hv' ⊢
                exact (hSE s' t' hw' hv' hs').1)
              refine xout_cons_ok dw dr nv dr.steps rs rs' _ _ f fs s s' (normalize env f.ty x) _ ?_ ?_ (hcont rs' s' hs' hinv'')
              · rw [hreadF]; exact hrun
              · simp [expectedField, hrole, hrem', hnew, hfval, hos]

/-- outcome of reading a whole record against the documented outcome -/
def XRec (run : Outcome (Val × AbsSrc)) (exp : Except Err (List Val)) (Q : AbsSrc → Prop) : Prop :=
  match exp with
  | .ok xs => ∃ s', run = .ok (.list (Val.ofList xs), s') ∧ Q s'
  | .error e => run = .err e

theorem xrec_of_xout {runL : Outcome (List Val × AbsSrc)} {exp : Except Err (List Val)} {Q Q' : AbsSrc → Prop}
    (h : XOut runL exp Q) (hq : ∀ s, Q s → Q' s) :
    XRec (runL.bindS fun vs s' => .ok (.list (Val.ofList vs), s')) exp Q' := by
  unfold XOut at h; unfold XRec
  cases exp with
  | ok xs => obtain ⟨s', h1, h2⟩ := h; exact ⟨s', by rw [h1]; rfl, hq _ h2⟩
  | error e => simp only at h ⊢; rw [h]; rfl

/-- a chunked record (stored version ≥ 1) read by another definition -/
theorem cross_record_chunked (env : Env) (hrt : ∀ v, RT env v) (dw dr : Decl) (hwf : declWFb dw = true) (hne : dw.steps ≠ [])
    (hal : pairAlignedB dw dr = true) (items : Val)
    (st : EncSt) (pre : List (Option Bytes)) (st1 : EncSt) (fs : List EncField) (st2 : EncSt) (b : Bytes) (fuel : Nat)
    (hpre : preNames dw.steps (removedNames dw.steps) st = .ok (pre, st1)) (hlen : dw.steps.length ≤ 254)
    (hf : encFields env dw.steps dw.fields items st1 = .ok (fs, st2)) (hasm : assembleRecord dw pre fs = .ok b)
    (hu : items.utf8OK) (hst : StOK st) (hd : items.depth < fuel)
    (s : AbsSrc) (t : Bytes) (hw : s.WF) (hv : s.view = b ++ t) (hs : s.strs = st) :
    XRec (runAbs (readRecord dr.steps (declDecs (dec env fuel) dr)) s)
      (expectedFields dw dr (normFields env dw.fields items) dr.fields)
      (fun s' => s' = s.after b.length st2) := by
  obtain ⟨hfok, hutf, hpos, hnotrem, hplain⟩ := declWF_unpack dw hwf
  unfold assembleRecord at hasm
  cases h0e : sizeStep (chunkBytes fs 0).length with
  | err e => simp [h0e] at hasm
  | panic w => simp [h0e] at hasm
  | ok h0 =>
  simp only [h0e, Outcome.bind_ok] at hasm
  cases hse : headerSteps fs 1 dw.steps pre with
  | err e => simp [hse] at hasm
  | panic w => simp [hse] at hasm
  | ok hsb =>
  simp [hse] at hasm
  obtain ⟨hl0, rfl⟩ := sizeStep_ok h0e
  have hn1 : 1 ≤ dw.steps.length := by
    cases hh : dw.steps with
    | nil => exact absurd hh hne
    | cons a r => simp
  have hver : dw.version = dw.steps.length := rfl
  subst hasm
  have hsk := encFields_skel env dw.steps dw.fields items st1 fs st2 hf
  have hch := encFields_chunks env dw.steps dw.fields items st1 fs st2 hf
  have hv0 : s.view = byteOf dw.steps.length ::
      (zz ((chunkBytes fs 0).length : Int) ++ (hsb ++ (chunksFrom fs 0 (dw.steps.length + 1) ++ t))) := by
    simpa [hver] using hv
  have hbyte : (byteOf dw.steps.length).toNat = dw.steps.length := byteOf_toNat_lt (by omega)
  simp only [readRecord, readRecordBody, bind_eq_dbind, pure_eq_ret]
  rw [readU8_bind' _ hv0, hbyte]
  have hs1v : (s.after 1 s.strs).view =
      zz ((chunkBytes fs 0).length : Int) ++ (hsb ++ (chunksFrom fs 0 (dw.steps.length + 1) ++ t)) := by
    have := (view_cons hv0).2; simpa [adv_eq_after] using this
  have hs1w : (s.after 1 s.strs).WF := by
    have := AbsSrc.WF_adv1 hw hv0; simpa [adv_eq_after] using this
  have hnz : ¬ (dw.steps.length = 0) := by omega
  simp only [recNew, hnz, if_false, bind_eq_dbind, pure_eq_ret, readHSteps]
  have hstep0 := read_hstep_size (chunkBytes fs 0).length hl0 _ _ hs1v
  have hs2v := view_after_append hs1v (s.after 1 s.strs).strs
  have hs2w := WF_after hs1w hs1v (s.after 1 s.strs).strs
  simp only [after_after, after_strs] at hstep0 hs2v hs2w
  have hHOK : HeaderOK fs (removedNames dw.steps) dw.steps := by
    refine ⟨hutf, ?_⟩
    intro n c p hm hnr hfi
    rw [fieldIndex_sk, hsk] at hfi
    exact hpos n c p hm hnr hfi
  have hhdr := read_header_steps fs (removedNames dw.steps) dw.steps 1 st pre st1 hsb hpre hse hHOK hst _ _ hs2w hs2v
    (by simpa using hs)
  have hs3v := view_after_append hs2v st1
  have hs3w := WF_after hs2w hs2v st1
  simp only [after_after] at hhdr hs3v hs3w
  obtain ⟨hl, hhl⟩ : ∃ hl, hl = sizeHStep (chunkBytes fs 0).length :: expectedHSteps fs (removedNames dw.steps) 1 dw.steps := ⟨_, rfl⟩
  have hhll : hl.length = dw.steps.length + 1 := by rw [hhl]; simp [expectedHSteps_length]
  obtain ⟨s3, hs3⟩ : ∃ s3, s3 = s.after (1 + (zz ((chunkBytes fs 0).length : Int)).length + hsb.length) st1 := ⟨_, rfl⟩
  rw [← hs3] at hhdr hs3v hs3w
  have hW3 : s3.cur.window = s.cur.window := by rw [hs3]; rfl
  have hcond : ∀ i h, hl[i]? = some h →
      h = sizeHStep (chunkBytes fs (0 + i)).length ∨ ((∀ n, h ≠ .size n) ∧ chunkBytes fs (0 + i) = []) := by
    intro i h hi
    rw [hhl] at hi
    cases i with
    | zero => simp at hi; left; simp [hi]
    | succ j =>
      simp only [List.getElem?_cons_succ] at hi
      obtain ⟨sp, hsp, he⟩ := expectedHSteps_get fs (removedNames dw.steps) dw.steps 1 j h hi
      have e1 : 0 + (j + 1) = 1 + j := by omega
      rw [e1]
      cases sp with
      | added nm => left; rw [he]; simp [expectedHStep]
      | removed nm =>
        right; rw [he]; refine ⟨by simp [expectedHStep], ?_⟩
        apply chunk_empty_of_not_added dw.steps fs hch (1 + j) (by omega)
        intro m hm; have : 1 + j - 1 = j := by omega
        rw [this, hsp] at hm; simp at hm
      | madeTransient nm =>
        right; rw [he]; refine ⟨by simp [expectedHStep], ?_⟩
        apply chunk_empty_of_not_added dw.steps fs hch (1 + j) (by omega)
        intro m hm; have : 1 + j - 1 = j := by omega
        rw [this, hsp] at hm; simp at hm
      | madeOptional nm =>
        right; rw [he]
        refine ⟨?_, ?_⟩
        · intro n; simp only [expectedHStep]; split
          · simp
          · split <;> simp
        · apply chunk_empty_of_not_added dw.steps fs hch (1 + j) (by omega)
          intro m hm; have : 1 + j - 1 = j := by omega
          rw [this, hsp] at hm; simp at hm
  have hWdrop : s.cur.window.drop s3.cur.pos = chunksFrom fs 0 hl.length ++ t := by
    rw [hhll]; have := hs3v; simpa [AbsSrc.view, hW3] using this
  obtain ⟨htot, hnn, hdesc⟩ := regionsOf_spec fs hl 0 s3.cur.pos s.cur.window t hWdrop hcond
  have hskip := run_skipChunks hl s3 hs3w hnn (by rw [htot, hs3v, hhll]; simp)
  obtain ⟨rs0, hrs0⟩ : ∃ rs0 : RecSt, rs0 = ⟨dw.steps.length, regionsOf s3.cur.pos hl, madeOptOf hl, removedOf hl, List.replicate (dr.steps.length + 1) 0⟩ := ⟨_, rfl⟩
  obtain ⟨s4, hs4⟩ : ∃ s4, s4 = s3.adv (totalSize hl) := ⟨_, rfl⟩
  have hW4 : s4.cur.window = s.cur.window := by rw [hs4, ← hW3]; rfl
  have hmo : madeOptOf hl = madeOptPositions dw.steps (skel dw.steps dw.fields) := by
    rw [hhl]
    have : madeOptOf (sizeHStep (chunkBytes fs 0).length :: expectedHSteps fs (removedNames dw.steps) 1 dw.steps)
        = madeOptOf (expectedHSteps fs (removedNames dw.steps) 1 dw.steps) := by
      unfold sizeHStep; split <;> simp [madeOptOf]
    rw [this, madeOptOf_expected, hsk]
    rfl
  have hrm : removedOf hl = (removedForm dw.steps).map nameBytes := by
    rw [hhl]
    have : removedOf (sizeHStep (chunkBytes fs 0).length :: expectedHSteps fs (removedNames dw.steps) 1 dw.steps)
        = removedOf (expectedHSteps fs (removedNames dw.steps) 1 dw.steps) := by
      unfold sizeHStep; split <;> simp [removedOf]
    rw [this, removedOf_expected]
    rfl
  have hinv : XInv s.cur.window fs [] [] dw.steps.length dr.steps.length (madeOptOf hl) (removedOf hl) rs0 s4 s4 t := by
    rw [hrs0]
    refine ⟨rfl, rfl, rfl, by simp, ?_, ?_⟩
    · intro k i _ _ hk
      simp [List.getElem?_replicate] at hk
      simp [hk.2]
    · refine .chunked hn1 rfl rfl hW4 (by simp [regionsOf_length, hhll]) ?_
      intro k r hk
      have := hdesc k r hk
      simp only [Nat.zero_add] at this
      exact ⟨this.1, this.2.1, this.2.2.1, fun _ => by rw [this.2.2.2]; simp [chunkBytes]⟩
  simp only [pairAlignedB, Bool.and_eq_true, decide_eq_true_eq] at hal
  have hloop := cross_loop env hrt dw dr (madeOptOf hl) (removedOf hl) s.cur.window fs fuel s4 t
    (normFields env dw.fields items) (by intro e he; rw [hch e he]; exact genOf_le _ _)
    dr.fields dw.fields items [] [] fs st1 st2 rs0 s4 hf hu hhdr.2 hd (by simp) hinv (by rw [hs4, hs3]; simp)
    (by rw [hmo, hrm]; simpa using hal.2) hal.1 (fun n _ => rfl)
  -- put the run together
  rw [runAbs_bind, runAbs_bind, runAbs_bind, hstep0]
  simp only [Outcome.bindS_ok]
  rw [runAbs_bind, hhdr.1]
  simp only [Outcome.bindS_ok, runAbs, ← hhl]
  rw [runAbs_bind, hskip]
  simp only [Outcome.bindS_ok, runAbs, ← hs4, ← hrs0]
  rw [runAbs_bind]
  refine xrec_of_xout hloop ?_
  rintro s' ⟨hstr, rs', dead', hx⟩
  cases hx.mode with
  | v0 hw0 _ _ _ => omega
  | chunked _ cur stack _ _ _ =>
    have : s' = { s4 with strs := st2 } := by
      cases s'; simp_all
    rw [this, hs4, hs3, htot, hhll]
    simp [AbsSrc.adv, AbsSrc.after, hver]
    omega

/-- a headerless record (stored version 0) read by another definition; the position after the
record is claimed only as "the fields not read, then what followed" -/
theorem cross_record_v0 (env : Env) (hrt : ∀ v, RT env v) (dw dr : Decl) (hsteps : dw.steps = [])
    (hal : pairAlignedB dw dr = true) (items : Val)
    (st : EncSt) (l : List EncField) (st2 : EncSt) (fuel : Nat)
    (hf : encFields env [] dw.fields items st = .ok (l, st2))
    (hu : items.utf8OK) (hst : StOK st) (hd : items.depth < fuel)
    (s : AbsSrc) (t : Bytes) (hw : s.WF) (hv : s.view = (0 :: l.flatMap (·.bytes)) ++ t) (hs : s.strs = st) :
    XRec (runAbs (readRecord dr.steps (declDecs (dec env fuel) dr)) s)
      (expectedFields dw dr (normFields env dw.fields items) dr.fields)
      (fun s' => s'.strs = st2) := by
  have hv' : s.view = 0 :: (l.flatMap (·.bytes) ++ t) := by simpa using hv
  have hv1 : (s.after 1 s.strs).view = l.flatMap (·.bytes) ++ t := by
    have := (view_cons hv').2; simpa [adv_eq_after] using this
  have hw1 : (s.after 1 s.strs).WF := by
    have := AbsSrc.WF_adv1 hw hv'; simpa [adv_eq_after] using this
  have hch := encFields_chunks env [] dw.fields items st l st2 hf
  obtain ⟨rs0, hrs0⟩ : ∃ rs0 : RecSt, rs0 = ⟨0, [], [], [], List.replicate (dr.steps.length + 1) 0⟩ := ⟨_, rfl⟩
  have hz : ∀ e ∈ l, e.chunk = 0 := by intro e he; rw [hch e he]; simp [genOf, genOf.go]
  have hinv : XInv s.cur.window l [] [] dw.steps.length dr.steps.length [] [] rs0 (s.after 1 s.strs) s t := by
    rw [hrs0, hsteps]
    refine ⟨rfl, rfl, rfl, by simp, ?_, ?_⟩
    · intro k i _ _ hk
      simp [List.getElem?_replicate] at hk
      simp [hk.2]
    · exact .v0 rfl rfl hz (fun _ => ⟨hw1, by simpa using hv1⟩)
  simp only [pairAlignedB, Bool.and_eq_true, decide_eq_true_eq] at hal
  have hmo : madeOptPositions dw.steps (skel dw.steps dw.fields) = [] := by simp [hsteps, madeOptPositions]
  have hrm : (removedForm dw.steps).map nameBytes = [] := by simp [hsteps, removedForm]
  rw [hmo, hrm] at hal
  have hf' : encFields env dw.steps dw.fields items st = .ok (l, st2) := by rw [hsteps]; exact hf
  have hloop := cross_loop env hrt dw dr [] [] s.cur.window l fuel s t
    (normFields env dw.fields items) (by intro e he; rw [hz e he]; omega)
    dr.fields dw.fields items [] [] l st st2 rs0 (s.after 1 s.strs) hf' hu hst hd (by simp) hinv (by simpa using hs)
    (by simpa using hal.2) hal.1 (fun n _ => rfl)
  simp only [readRecord, readRecordBody, bind_eq_dbind, pure_eq_ret]
  rw [readU8_bind' _ hv']
  simp only [show (0 : Byte).toNat = 0 by decide, recNew_v0, DProg.bind, ← hrs0]
  rw [runAbs_bind]
  exact xrec_of_xout hloop (fun s' h => h.1)

/-- the writer's record encoding, as `enc` produces it for a `named` record type -/
def encRecord (env : Env) (d : Decl) (items : Val) (st : EncSt) : Outcome (Bytes × EncSt) :=
  (recordPre d st).bind fun (pre, st1) =>
  (encFields env d.steps d.fields items st1).bind fun (fs, st2) =>
  (recordFinish d pre fs).bind fun b => Outcome.ok (b, st2)

/-- **reading data of one definition with another gives the documented outcome** (record level):
whatever the writer's definition `dw` encoded is read by the aligned definition `dr` as
`expectedFields` says — the value, or the first failing field's error — and, when the data carries
a header (stored version ≥ 1), exactly the record is consumed -/
theorem cross_record (env : Env) (hrt : ∀ v, RT env v) (dw dr : Decl) (hwf : declWFb dw = true)
    (hal : pairAlignedB dw dr = true) (items : Val) (st : EncSt) (b : Bytes) (st' : EncSt) (fuel : Nat)
    (he : encRecord env dw items st = .ok (b, st'))
    (hu : items.utf8OK) (hst : StOK st) (hd : items.depth < fuel)
    (s : AbsSrc) (t : Bytes) (hw : s.WF) (hv : s.view = b ++ t) (hs : s.strs = st) :
    XRec (runAbs (readRecord dr.steps (declDecs (dec env fuel) dr)) s)
      (expectedFields dw dr (normFields env dw.fields items) dr.fields)
      (fun s' => s'.strs = st' ∧ (dw.steps ≠ [] → s' = s.after b.length st')) := by
  unfold encRecord at he
  have hweak : ∀ {run exp} {Q Q' : AbsSrc → Prop}, XRec run exp Q → (∀ s, Q s → Q' s) → XRec run exp Q' := by
    intro run exp Q Q' h hq
    unfold XRec at h ⊢
    cases exp with
    | ok xs => obtain ⟨s', h1, h2⟩ := h; exact ⟨s', h1, hq _ h2⟩
    | error e => exact h
  by_cases hsteps : dw.steps = []
  · have hpre : recordPre dw st = .ok ([], st) := by simp [recordPre, hsteps]
    rw [hpre] at he
    simp only [Outcome.bind_ok, hsteps] at he
    cases hf : encFields env [] dw.fields items st with
    | ok r0 =>
      obtain ⟨l, st2⟩ := r0
      have hfin : recordFinish dw [] l = .ok (0 :: l.flatMap (·.bytes)) := by simp [recordFinish, hsteps]
      simp [hf, hfin] at he
      obtain ⟨rfl, rfl⟩ := he
      exact hweak (cross_record_v0 env hrt dw dr hsteps hal items st l st2 fuel hf hu hst hd s t hw (by simpa using hv) hs)
        (fun s' h => ⟨h, fun hc => absurd hsteps hc⟩)
    | err e => simp [hf] at he
    | panic w => simp [hf] at he
  · have hne : dw.steps.isEmpty = false := by
      cases hh : dw.steps with
      | nil => exact absurd hh hsteps
      | cons a r => rfl
    unfold recordPre at he
    simp only [hne, Bool.false_eq_true, if_false] at he
    split at he
    · simp at he
    · rename_i hlen
      cases hp : preNames dw.steps (removedNames dw.steps) st with
      | ok p0 =>
        obtain ⟨pre, st1⟩ := p0
        simp only [hp, Outcome.bind_ok] at he
        cases hf : encFields env dw.steps dw.fields items st1 with
        | ok r0 =>
          obtain ⟨fs, st2⟩ := r0
          simp only [hf, Outcome.bind_ok] at he
          have hrf : recordFinish dw pre fs = assembleRecord dw pre fs := by simp [recordFinish, hne]
          rw [hrf] at he
          cases ha : assembleRecord dw pre fs with
          | ok bb =>
            simp [ha] at he
            obtain ⟨rfl, rfl⟩ := he
            exact hweak (cross_record_chunked env hrt dw dr hwf hsteps hal items st pre st1 fs st2 bb fuel hp (by omega) hf ha hu hst hd
              s t hw hv hs) (fun s' h => ⟨by rw [h]; rfl, fun _ => h⟩)
          | err e => simp [ha] at he
          | panic w => simp [ha] at he
        | err e => simp [hf] at he
        | panic w => simp [hf] at he
      | err e => simp [hp] at he
      | panic w => simp [hp] at he
