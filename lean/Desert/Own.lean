import Desert.Prog
/-!
# Ownership discipline of the per-stream object table (C19)

An abstract machine for client programs that use the reference table: objects live in nested
scopes; `storeRef o` puts a raw entry into the table (the library erases the borrow into a raw
pointer); `getRef id` turns the entry back into a reference; leaving a scope kills its objects.
The table itself (the context's `State`) lives in scope `tableScope`.

`bounded = true` models a signature that requires the stored object to outlive the table
(`store_ref<'s>(&'s mut self, value: &'s impl Any)`-style); `bounded = false` models the declared
signature `store_ref(&mut self, value: &impl Any)`, which ties nothing. A program is *accepted* by
the signature discipline iff every `storeRef` meets the bound when one is required.
-/

inductive Act where
  | enter                 -- open a nested scope
  | alloc                 -- create an object in the current scope (ids in creation order)
  | storeRef (o : Nat)    -- register object `o`
  | getRef (id : Nat)     -- look up entry `id` (1-based) and use the reference
  | leave                 -- close the current scope: its objects die
deriving Repr, DecidableEq

structure OwnSt where
  depth : Nat                    -- current scope depth
  objs : List (Nat × Bool)       -- per object: scope depth of creation, alive?
  table : List Nat               -- object ids
  tableScope : Nat
deriving Repr

inductive Verdict where
  | safe
  | rejected        -- the signature discipline (borrow checker) refuses the program
  | deadRead        -- a reference to an object whose lifetime has ended is produced
  | badProgram      -- malformed (unknown object / unbalanced scopes): not a witness
deriving Repr, DecidableEq

def runOwn (bounded : Bool) : OwnSt → List Act → Verdict
  | _, [] => .safe
  | s, .enter :: rest => runOwn bounded { s with depth := s.depth + 1 } rest
  | s, .alloc :: rest => runOwn bounded { s with objs := s.objs ++ [(s.depth, true)] } rest
  | s, .storeRef o :: rest =>
    match s.objs[o]? with
    | none => .badProgram
    | some (d, alive) =>
      if !alive then .badProgram
      else if bounded && decide (s.tableScope < d) then .rejected   -- object would not outlive the table
      else runOwn bounded { s with table := s.table ++ [o] } rest
  | s, .getRef id :: rest =>
    if id = 0 then .badProgram else
    match s.table[id - 1]? with
    | none => runOwn bounded s rest          -- `InvalidRefId`: an error, not a memory-safety event
    | some o =>
      match s.objs[o]? with
      | some (_, true) => runOwn bounded s rest
      | some (_, false) => .deadRead
      | none => .badProgram
  | s, .leave :: rest =>
    if s.depth = 0 then .badProgram
    else if s.depth ≤ s.tableScope then .badProgram   -- the table's own scope is not closed inside the program
    else runOwn bounded
      { s with depth := s.depth - 1, objs := s.objs.map fun (d, a) => (d, a && decide (d < s.depth)) } rest

def OwnSt.start : OwnSt := { depth := 0, objs := [], table := [], tableScope := 0 }

/-- invariant for the bounded discipline: every object in the table was created at or above the
table's scope and is alive, and the current depth is at least the table's scope -/
def OwnSt.Good (s : OwnSt) : Prop :=
  s.tableScope ≤ s.depth ∧ (∀ o ∈ s.table, ∃ d, s.objs[o]? = some (d, true) ∧ d ≤ s.tableScope) ∧
  (∀ (o d : Nat) (a : Bool), s.objs[o]? = some (d, a) → d ≤ s.depth ∨ a = false)
