import Desert.Encode
/-!
# Typing of values: which `Val`s inhabit which `Ty`

`hasTy env ty v` says that `v` is (the model of) a value of the Rust type `ty`: the judgement the
Rust type checker provides for free. The encoder's `illTyped` panic nodes are exactly the places
where it fails (`Props/C17.lean`).
-/

def primOK : Prim → Val → Bool
  | .int w s, .int n => intInRange w s n
  | .bool, .bool _ => true
  | .unit, .unit => true
  | .char, .int n => !(decide (n < 0 ∨ n ≥ 0x110000 ∨ (0xD800 ≤ n ∧ n < 0xE000)))
  | .string, .str _ => true
  | .dstring, .str _ => true
  | .duration, .dur s n => decide (s < 2 ^ 64 ∧ n < 10 ^ 9)
  | .bytes, .bytes _ => true
  | .barr n, .bytes bs => decide (bs.length = n)
  | .raw n, .bytes bs => decide (bs.length = n)
  | .weekday, .int n => decide (1 ≤ n ∧ n ≤ 7)
  | .month, .int n => decide (1 ≤ n ∧ n ≤ 12)
  | .fixedOffset, .int n => decide (-86400 < n ∧ n < 86400)
  | .varu32, .int n => decide (0 ≤ n ∧ n < 2 ^ 32)
  | _, _ => false

mutual

def hasTy (env : Env) (ty : Ty) (v : Val) : Bool :=
  match ty, v with
  | .prim p, v => primOK p v
  | .option _, .none => true
  | .option t, .some x => hasTy env t x
  | .result t _, .ok x => hasTy env t x
  | .result _ e, .error x => hasTy env e x
  | .seq t, .list items => hasItems env t items
  | .array n t, .list items => decide (items.chainLength = n) && hasItems env t items
  | .tuple fs, .list items => hasTuple env fs items
  | .named id, v =>
    match env.find id with
    | none => false
    | some (.record d) =>
      match v with
      | .list fields => hasFields env d.fields fields
      | _ => false
    | some (.enum _ sorted ctors) =>
      match v with
      | .ctor idx fields =>
        match findCtorWire (wireCtors sorted ctors) idx with
        | none => false
        | some (_, c) => hasFields env c.decl.fields fields
      | _ => false
  | _, _ => false

def hasItems (env : Env) (t : Ty) (v : Val) : Bool :=
  match v with
  | .vnil => true
  | .vcons x rest => hasTy env t x && hasItems env t rest
  | _ => false

def hasTuple (env : Env) (fs : Ty) (v : Val) : Bool :=
  match fs, v with
  | .fnil, .vnil => true
  | .fcons a r, .vcons x rest => hasTy env a x && hasTuple env r rest
  | _, _ => false

/-- one value per declared field; transient fields hold any value (they are not encoded) -/
def hasFields (env : Env) (fields : List Field) (v : Val) : Bool :=
  match fields, v with
  | [], .vnil => true
  | f :: fs, .vcons x rest =>
    (match f.role with
     | .transient => true
     | _ => hasTy env f.ty x) && hasFields env fs rest
  | _, _ => false

end

/-- the documented limit: at most 255 versions (254 steps after the initial one) per declaration -/
def tyDeclStepsOKb : TyDecl → Bool
  | .record d => decide (d.steps.length ≤ 254)
  | .enum _ _ cs => cs.all fun c => decide (c.decl.steps.length ≤ 254)

def envStepsOKb (env : Env) : Bool := env.all fun p => tyDeclStepsOKb p.2

