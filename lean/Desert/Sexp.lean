import Desert.Decode
/-!
# Text protocol: S-expressions for types, values and declarations

Only the driver (`Main.lean`) and the correspondence harness use this file; no theorem depends
on it. It is part of the trusted base of the correspondence check (a parser/printer bug could
hide a disagreement).
-/

inductive Sexp where
  | atom (s : String)
  | list (l : List Sexp)
deriving Repr, Inhabited

namespace Sexp

def flushTok (cur : List Char) (acc : List String) : List String :=
  if cur.isEmpty then acc else String.ofList cur.reverse :: acc

def tokenize (s : String) : List String :=
  let rec go (cs : List Char) (cur : List Char) (acc : List String) : List String :=
    match cs with
    | [] => (flushTok cur acc).reverse
    | c :: rest =>
      if c = '(' then go rest [] ("(" :: flushTok cur acc)
      else if c = ')' then go rest [] (")" :: flushTok cur acc)
      else if c = ' ' || c = '\t' || c = '\n' || c = '\r' then go rest [] (flushTok cur acc)
      else go rest (c :: cur) acc
  go s.toList [] []

/-- parse a sequence of S-expressions; `none` on unbalanced input -/
partial def parseSeq (toks : List String) : Option (List Sexp × List String) :=
  match toks with
  | [] => some ([], [])
  | ")" :: _ => some ([], toks)
  | "(" :: rest =>
    match parseSeq rest with
    | some (inner, ")" :: rest') =>
      match parseSeq rest' with
      | some (more, rem) => some (Sexp.list inner :: more, rem)
      | none => none
    | _ => none
  | t :: rest =>
    match parseSeq rest with
    | some (more, rem) => some (Sexp.atom t :: more, rem)
    | none => none

def parseLine (s : String) : Option (List Sexp) :=
  match parseSeq (tokenize s) with
  | some (l, []) => some l
  | _ => none

end Sexp

/-! ## hex -/

def hexDigit (n : Nat) : Char :=
  if n < 10 then Char.ofNat (48 + n) else Char.ofNat (87 + n)

def hexOfBytes (bs : Bytes) : String :=
  if bs.isEmpty then "-" else
  String.ofList (bs.flatMap fun b => [hexDigit (b.toNat / 16), hexDigit (b.toNat % 16)])

def hexVal (c : Char) : Option Nat :=
  if '0' ≤ c ∧ c ≤ '9' then some (c.toNat - 48)
  else if 'a' ≤ c ∧ c ≤ 'f' then some (c.toNat - 87)
  else if 'A' ≤ c ∧ c ≤ 'F' then some (c.toNat - 55)
  else none

def bytesOfHex (s : String) : Option Bytes :=
  if s = "-" then some [] else
  let rec go : List Char → Option Bytes
    | [] => some []
    | [_] => none
    | a :: b :: rest =>
      match hexVal a, hexVal b, go rest with
      | some x, some y, some r => some (byteOf (x * 16 + y) :: r)
      | _, _, _ => none
  go s.toList

/-! ## types -/

def primOfAtom : String → Option Prim
  | "u8" => some (.int 1 false) | "i8" => some (.int 1 true)
  | "u16" => some (.int 2 false) | "i16" => some (.int 2 true)
  | "u32" => some (.int 4 false) | "i32" => some (.int 4 true)
  | "u64" => some (.int 8 false) | "i64" => some (.int 8 true)
  | "u128" => some (.int 16 false) | "i128" => some (.int 16 true)
  | "f32" => some (.int 4 false) | "f64" => some (.int 8 false)
  | "bool" => some .bool | "unit" => some .unit | "char" => some .char
  | "string" => some .string | "dstring" => some .dstring | "duration" => some .duration
  | "bytes" => some .bytes | "uuid" => some (.raw 16)
  | "weekday" => some .weekday | "month" => some .month | "fixedoffset" => some .fixedOffset
  | "varu32" => some .varu32
  | _ => none

partial def tyOfSexp : Sexp → Option Ty
  | .atom a => (primOfAtom a).map Ty.prim
  | .list [.atom "barr", .atom n] => n.toNat?.map fun k => .prim (.barr k)
  | .list [.atom "raw", .atom n] => n.toNat?.map fun k => .prim (.raw k)
  | .list [.atom "opt", t] => (tyOfSexp t).map Ty.option
  | .list [.atom "res", a, e] => do let a ← tyOfSexp a; let e ← tyOfSexp e; pure (.result a e)
  | .list [.atom "seq", t] => (tyOfSexp t).map Ty.seq
  | .list [.atom "arr", .atom n, t] => do let k ← n.toNat?; let t ← tyOfSexp t; pure (.array k t)
  | .list (.atom "tup" :: ts) => do let ts ← ts.mapM tyOfSexp; pure (.tuple (Ty.ofList ts))
  | .list [.atom "named", .atom id] => some (.named id)
  | _ => none

/-! ## values -/

partial def valOfSexp : Sexp → Option Val
  | .atom "U" => some .unit
  | .atom "T" => some (.bool true)
  | .atom "F" => some (.bool false)
  | .atom "N" => some .none
  | .list [.atom "i", .atom n] => n.toInt?.map Val.int
  | .list [.atom "s", .atom h] => (bytesOfHex h).map Val.str
  | .list [.atom "b", .atom h] => (bytesOfHex h).map Val.bytes
  | .list [.atom "d", .atom s, .atom n] => do let s ← s.toNat?; let n ← n.toNat?; pure (.dur s n)
  | .list [.atom "S", v] => (valOfSexp v).map Val.some
  | .list [.atom "O", v] => (valOfSexp v).map Val.ok
  | .list [.atom "E", v] => (valOfSexp v).map Val.error
  | .list (.atom "l" :: vs) => do let vs ← vs.mapM valOfSexp; pure (.list (Val.ofList vs))
  | .list (.atom "c" :: .atom idx :: vs) => do
      let i ← idx.toNat?; let vs ← vs.mapM valOfSexp; pure (.ctor i (Val.ofList vs))
  | _ => none

mutual
partial def showVal : Val → String
  | .unit => "U"
  | .bool true => "T"
  | .bool false => "F"
  | .int n => s!"(i {n})"
  | .str bs => s!"(s {hexOfBytes bs})"
  | .bytes bs => s!"(b {hexOfBytes bs})"
  | .dur s n => s!"(d {s} {n})"
  | .none => "N"
  | .some v => s!"(S {showVal v})"
  | .ok v => s!"(O {showVal v})"
  | .error v => s!"(E {showVal v})"
  | .vnil => "(l)"
  | .vcons v r => s!"(chain {showVal v}{showChain r})"
  | .list items => s!"(l{showChain items})"
  | .ctor i fs => s!"(c {i}{showChain fs})"
partial def showChain : Val → String
  | .vcons v r => " " ++ showVal v ++ showChain r
  | _ => ""
end

/-! ## declarations -/

def roleOfAtom : String → Option Role
  | "plain" => some .plain | "optional" => some .optional | "transient" => some .transient
  | _ => none

def fieldOfSexp : Sexp → Option Field
  | .list [.atom name, .atom role, ty] => do
      let r ← roleOfAtom role; let t ← tyOfSexp ty
      pure { name := name, ty := t, role := r, default := none }
  | .list [.atom name, .atom role, ty, dflt] => do
      let r ← roleOfAtom role; let t ← tyOfSexp ty; let d ← valOfSexp dflt
      pure { name := name, ty := t, role := r, default := some d }
  | _ => none

def stepOfSexp : Sexp → Option Step
  | .list [.atom "add", .atom n] => some (.added n)
  | .list [.atom "opt", .atom n] => some (.madeOptional n)
  | .list [.atom "rem", .atom n] => some (.removed n)
  | .list [.atom "tra", .atom n] => some (.madeTransient n)
  | _ => none

def declOfParts (name : String) (fields steps : Sexp) : Option Decl :=
  match fields, steps with
  | .list (.atom "fields" :: fs), .list (.atom "steps" :: ss) => do
      let fs ← fs.mapM fieldOfSexp; let ss ← ss.mapM stepOfSexp
      pure { name := name, fields := fs, steps := ss }
  | _, _ => none

def ctorOfSexp : Sexp → Option Ctor
  | .list [.atom "ctor", .atom name, .atom tr, fields, steps] => do
      let d ← declOfParts name fields steps
      let t ← (if tr = "transient" then some true else if tr = "normal" then some false else none)
      pure { name := name, transient := t, decl := d }
  | _ => none

def tyDeclOfSexp : Sexp → Option (String × TyDecl)
  | .list [.atom "rec", .atom name, fields, steps] => do
      let d ← declOfParts name fields steps; pure (name, .record d)
  | .list (.atom "enum" :: .atom name :: .atom srt :: ctors) => do
      let s ← (if srt = "sorted" then some true else if srt = "unsorted" then some false else none)
      let cs ← ctors.mapM ctorOfSexp
      pure (name, .enum name s cs)
  | _ => none

/-! ## errors -/

def showErr : Err → String
  | .unsupportedCharacter => "UnsupportedCharacter"
  | .failedToDecodeCharacter => "FailedToDecodeCharacter"
  | .lengthTooLarge => "LengthTooLarge"
  | .inputEnded => "InputEndedUnexpectedly"
  | .failedToDecodeString => "FailedToDecodeString"
  | .invalidStringId id => s!"InvalidStringId({id})"
  | .deserializationFailure => "DeserializationFailure"
  | .unknownFieldRef n => s!"UnknownFieldReferenceInEvolutionStep({n})"
  | .fieldRemoved n => s!"FieldRemovedInSerializedVersion({n})"
  | .fieldMissing n => s!"FieldWithoutDefaultValueIsMissing({n})"
  | .nonOptionalNone n => s!"NonOptionalFieldSerializedAsNone({n})"
  | .invalidRefId id => s!"InvalidRefId({id})"
  | .invalidCtorId id ty => s!"InvalidConstructorId({id},{ty})"
  | .deserTransientCtor ty c => s!"DeserializingTransientConstructor({ty},{c})"
  | .serTransientCtor ty c => s!"SerializingTransientConstructor({ty},{c})"
  | .decompressionFailure => "DecompressionFailure"
