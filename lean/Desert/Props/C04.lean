import Desert.Lemmas.RoundTripFull
import Desert.Lemmas.AltFormLemmas
import Desert.Lemmas.EnumLemmas
import Desert.Lemmas.Leaves
/-!
# C04 — the bytes are those the desert binary format prescribes

The model's encoder *is* the reference encoder of this property; the production rules of the
format (DESIGN §4) are stated here as theorems about it, so that a change to the model that
departs from the format breaks a theorem, and the `ty` / `decl` / `golden` families compare the
real writer with it byte for byte on every run. The converse direction (forms this writer never
emits) is `unknown_form_decodes` plus the `altform` family.

Trust note: there is no Scala toolchain in the sandbox; that these rules are Scala desert's
format rests on the golden file (decoded by the model in the `golden` family), the byte vector of
`derivation.rs` (proved below by evaluation) and reading.
-/
set_option linter.unusedVariables false
set_option linter.unusedSimpArgs false

namespace C04

/-- fixed-width numbers are big-endian two's complement of their width -/
theorem format_fixed_width (w : Nat) (sg : Bool) (n : Int) (st : EncSt) (b : Bytes) (st' : EncSt)
    (h : encPrim (.int w sg) (.int n) st = .ok (b, st')) : b = beBytes w (toUnsigned w n) ∧ b.length = w := by
  simp only [encPrim] at h
  split at h
  · simp at h; rw [← h.1]; exact ⟨rfl, beBytes_length _ _⟩
  · simp [illTyped] at h

/-- `bool` is one byte 0/1, `char` one UTF-16 unit, big-endian -/
theorem format_bool (v : Bool) (st : EncSt) : encPrim .bool (.bool v) st = .ok ([if v then 1 else 0], st) := by
  simp [encPrim]

theorem format_char (n : Int) (st : EncSt) (b : Bytes) (st' : EncSt) (h : encPrim .char (.int n) st = .ok (b, st')) :
    b = beBytes 2 n.toNat ∧ n < 0x10000 := by
  simp only [encPrim] at h
  split at h
  · simp [illTyped] at h
  · split at h
    · rename_i hlt; simp at h; exact ⟨h.1.symm, hlt⟩
    · simp at h

/-- strings: zig-zag var-int byte length, then the UTF-8 bytes -/
theorem format_string (bs : Bytes) (st : EncSt) (b : Bytes) (st' : EncSt) (h : encPrim .string (.str bs) st = .ok (b, st')) :
    b = zz bs.length ++ bs := by
  simp only [encPrim, encString] at h
  split at h
  · simp at h; exact h.1.symm
  · simp at h

/-- byte arrays: unsigned var-int length, then the raw bytes -/
theorem format_bytes (bs : Bytes) (st : EncSt) (b : Bytes) (st' : EncSt) (h : encPrim .bytes (.bytes bs) st = .ok (b, st')) :
    b = uv bs.length ++ bs := by
  simp only [encPrim] at h
  split at h
  · simp at h; exact h.1.symm
  · simp at h

/-- `Option` and `Result`: one tag byte (0 = None / Err, 1 = Some / Ok), then the payload -/
theorem format_option_none (env : Env) (t : Ty) (st : EncSt) : enc env (.option t) .none st = .ok ([0], st) := by
  simp [enc]

theorem format_option_some (env : Env) (t : Ty) (x : Val) (st : EncSt) (b : Bytes) (st' : EncSt)
    (h : enc env (.option t) (.some x) st = .ok (b, st')) : ∃ b0, enc env t x st = .ok (b0, st') ∧ b = 1 :: b0 := by
  simp only [enc] at h
  cases hx : enc env t x st with
  | ok r => obtain ⟨b0, st0⟩ := r; simp [hx] at h; exact ⟨b0, by rw [h.2], h.1.symm⟩
  | err e => simp [hx] at h
  | panic w => simp [hx] at h

theorem format_result (env : Env) (a e : Ty) (x : Val) (st : EncSt) (b : Bytes) (st' : EncSt) :
    (enc env (.result a e) (.ok x) st = .ok (b, st') → ∃ b0, enc env a x st = .ok (b0, st') ∧ b = 1 :: b0) ∧
    (enc env (.result a e) (.error x) st = .ok (b, st') → ∃ b0, enc env e x st = .ok (b0, st') ∧ b = 0 :: b0) := by
  constructor
  · intro h
    simp only [enc] at h
    cases hx : enc env a x st with
    | ok r => obtain ⟨b0, st0⟩ := r; simp [hx] at h; exact ⟨b0, by rw [h.2], h.1.symm⟩
    | err e => simp [hx] at h
    | panic w => simp [hx] at h
  · intro h
    simp only [enc] at h
    cases hx : enc env e x st with
    | ok r => obtain ⟨b0, st0⟩ := r; simp [hx] at h; exact ⟨b0, by rw [h.2], h.1.symm⟩
    | err e => simp [hx] at h
    | panic w => simp [hx] at h

/-- tuples: a record of version 0 — the byte 0, then the components in order -/
theorem format_tuple (env : Env) (fs : Ty) (items : Val) (st : EncSt) (b : Bytes) (st' : EncSt)
    (h : enc env (.tuple fs) (.list items) st = .ok (b, st')) :
    ∃ b0, encTupleFields env fs items st = .ok (b0, st') ∧ b = 0 :: b0 := by
  simp only [enc] at h
  cases hx : encTupleFields env fs items st with
  | ok r => obtain ⟨b0, st0⟩ := r; simp [hx] at h; exact ⟨b0, by rw [h.2], h.1.symm⟩
  | err e => simp [hx] at h
  | panic w => simp [hx] at h

/-- sequences: zig-zag count, then the items (the writer's known-length form) -/
theorem format_seq (env : Env) (t : Ty) (items : Val) (st : EncSt) (b : Bytes) (st' : EncSt)
    (h : enc env (.seq t) (.list items) st = .ok (b, st')) :
    ∃ body, encItems env t items st = .ok (body, st') ∧ b = zz items.chainLength ++ body := by
  simp only [enc] at h
  split at h
  · cases hi : encItems env t items st with
    | ok r => obtain ⟨b0, st0⟩ := r; simp [hi] at h; exact ⟨b0, by rw [h.2], h.1.symm⟩
    | err e => simp [hi] at h
    | panic w => simp [hi] at h
  · simp at h

/-- header step codes: a chunk size is its zig-zag var-int; "made optional" is -1 followed by the
position byte (negated position in chunk 0, else the chunk number); "removed" is -2 followed by the
name as a deduplicated string -/
theorem format_header_steps (fs : List EncField) (k : Nat) :
    (∀ n, (chunkBytes fs k).length < 2 ^ 31 → headerStep fs k (.added n) none = .ok (zz (chunkBytes fs k).length)) ∧
    (∀ n c p, fieldIndex fs n = some (c, p) → headerStep fs k (.madeOptional n) none = .ok (zz (-1) ++ [positionByte c p])) ∧
    (∀ s b, headerStep fs k s (some b) = .ok (zz (-2) ++ b)) ∧
    positionByte 0 1 = 0xff ∧ positionByte 0 15 = 0xf1 ∧ positionByte 3 0 = 3 := by
  refine ⟨?_, ?_, ?_, by decide, by decide, by decide⟩
  · intro n h; simp [headerStep, sizeStep, h]
  · intro n c p h; simp [headerStep, h]
  · intro s b; simp [headerStep]

/-- the unknown-length sequence form, which this writer never emits for std containers but Scala
desert does, decodes to the value it denotes -/
theorem unknown_form_decodes (env : Env) (henv : EnvWF env) (t : Ty) (items : Val) (b : Bytes) (st' : EncSt) (fuel : Nat)
    (he : encSeqUnknown env t items [] = .ok (b, st')) (hu : items.utf8OK)
    (hd : items.depth < fuel) (hl : items.chainLength < fuel) (tl : Bytes) :
    ∃ s', runAbs (dec env fuel (.seq t)) (AbsSrc.new (b ++ tl)) = .ok (.list (normItems env t items), s') ∧ s'.view = tl :=
  ⟨_, rt_seq_unknown env henv t items [] b st' fuel he hu (by simp [StOK]) hd hl (AbsSrc.new (b ++ tl)) tl
    (WF_new _) (view_new _) rfl, view_after_append (view_new _) _⟩

/-- pinned encodings, proved by evaluation: one value per production -/
example : encodeTop [] (.prim (.int 4 true)) (.int (-10)) = .ok [0xff, 0xff, 0xff, 0xf6] := by decide
example : encodeTop [] (.prim .string) (.str [0x68, 0x69]) = .ok [0x04, 0x68, 0x69] := by decide
example : encodeTop [] (.seq (.prim (.int 2 false))) (.list (.vcons (.int 1) (.vcons (.int 300) .vnil)))
    = .ok [0x04, 0x00, 0x01, 0x01, 0x2c] := by decide
example : encodeTop [] (.tuple (.fcons (.prim (.int 1 false)) .fnil)) (.list (.vcons (.int 5) .vnil)) = .ok [0x00, 0x05] := by decide
example : encodeTop [] (.prim .duration) (.dur 1 5) = .ok [0, 0, 0, 0, 0, 0, 0, 1, 0, 0, 0, 5] := by decide
example : encSeqUnknown [] (.prim (.int 1 false)) (.vcons (.int 7) .vnil) [] = .ok ([0x01, 0x01, 0x07, 0x00], []) := by decide


/-! ### the chrono / big-number leaves (DESIGN 12.8): layouts of their wire descriptions -/

/-- `NaiveDate`: `uv(year as u32)`, month byte, day byte (after the description's version byte) -/
theorem leaf_naiveDate_layout (y m d : Nat) (hy : y < 2 ^ 32) (hm : m < 256) (hd : d < 256) :
    enc [] naiveDateD (.list (.vcons (.int y) (.vcons (.int m) (.vcons (.int d) .vnil)))) [] =
      .ok (0 :: (uv y ++ ([byteOf m] ++ ([byteOf d] ++ []))), []) :=
  naiveDate_layout y m d hy hm hd

/-- `NaiveTime`: hour, minute, second bytes, `uv(nanosecond)` -/
theorem leaf_naiveTime_layout (h m s n : Nat) (hh : h < 256) (hm : m < 256) (hs : s < 256) (hn : n < 2 ^ 32) :
    enc [] naiveTimeD (.list (.vcons (.int h) (.vcons (.int m) (.vcons (.int s) (.vcons (.int n) .vnil))))) [] =
      .ok (0 :: ([byteOf h] ++ ([byteOf m] ++ ([byteOf s] ++ (uv n ++ [])))), []) :=
  naiveTime_layout h m s n hh hm hs hn

-- pinned encodings of the other descriptions (tests by evaluation): 2024-02-29; zone "UTC"; (-1 s, 5 ns)
example : enc [] naiveDateD (.list (.vcons (.int 2024) (.vcons (.int 2) (.vcons (.int 29) .vnil)))) [] =
    .ok ([0, 0xe8, 0x0f, 2, 29], []) := by decide
example : enc [] tzD (.list (.vcons (.int 1) (.vcons (.str [0x55, 0x54, 0x43]) .vnil))) [] =
    .ok ([0, 1, 6, 0x55, 0x54, 0x43], []) := by decide
example : enc [] dateTimeUtcD (.list (.vcons (.int (-1)) (.vcons (.int 5) .vnil))) [] =
    .ok ([0, 0xff, 0xff, 0xff, 0xff, 0xff, 0xff, 0xff, 0xff, 0, 0, 0, 5], []) := by decide

end C04
