import Desert.Lemmas.AltFormLemmas
import Desert.Props.C03
import Desert.Lemmas.FuelMono
import Desert.Lemmas.TotalDec
import Desert.Lemmas.RoundTripFull
import Desert.Lemmas.Misc
/-!
# C08 — truncated data is always detected

Two generic facts about *all* decoder programs — a successful run never looked past what it
consumed (`run_extends`), and cursors stay inside their windows (`run_AllWF`) — plus the
consumption theorem give: no strict prefix of an encoding decodes successfully.
-/
set_option linter.unusedVariables false

namespace C08

/-- extension monotonicity, for every program: a successful run on `b` is the same run on `b ++ t` -/
theorem run_extends_any {α : Type} (p : DProg α) (b t : Bytes) (a : α) (s' : AbsSrc)
    (h : runAbs p (AbsSrc.new b) = .ok (a, s')) : runAbs p (AbsSrc.new (b ++ t)) = .ok (a, s'.ext t) :=
  run_extends_top p b t a s' h

/-- every strict prefix of a valid encoding is rejected: it never decodes to a value
(any well-formed declarations; any budget above the value's depth — `prefix_is_error` below removes the budget) -/
theorem prefix_rejected (env : Env) (henv : EnvWF env) (ty : Ty) (v : Val) (b : Bytes) (st' : EncSt) (fuel : Nat)
    (he : enc env ty v [] = .ok (b, st')) (hu : v.utf8OK) (hd : v.depth < fuel) (k : Nat) (hk : k < b.length) :
    ∀ a s', runAbs (dec env fuel ty) (AbsSrc.new (b.take k)) ≠ .ok (a, s') := by
  intro a s' hok
  have hext := run_extends_top (dec env fuel ty) (b.take k) (b.drop k) a s' hok
  rw [List.take_append_drop] at hext
  have hrt := ((rt_wf env henv v).1 ty [] b st' fuel he hu (by simp [StOK]) hd (AbsSrc.new b) []
    (WF_new _) (by simp [view_new]) rfl).1
  rw [hrt] at hext
  have hwf := run_AllWF (dec env fuel ty) _ a s' (AllWF_new _) hok
  simp only [Outcome.ok.injEq, Prod.mk.injEq] at hext
  obtain ⟨_, hs⟩ := hext
  -- the extended final state is the one that consumed all of `b`
  unfold AbsSrc.ext at hs
  cases hst : s'.stack with
  | nil =>
    simp only [hst] at hs
    have hpos : s'.cur.pos = b.length := by
      have := congrArg (fun x => x.cur.pos) hs; simpa [AbsSrc.after, AbsSrc.new] using this.symm
    have hwin : s'.cur.window ++ b.drop k = b := by
      have := congrArg (fun x => x.cur.window) hs; simpa [AbsSrc.after, AbsSrc.new] using this.symm
    have hlen : s'.cur.window.length + (b.length - k) = b.length := by
      have := congrArg List.length hwin; simpa using this
    have := hwf.1
    omega
  | cons w ws =>
    simp only [hst] at hs
    have := congrArg (fun x => x.stack) hs
    simp [AbsSrc.after, AbsSrc.new] at this
    cases ws <;> simp [extStack] at this

/-- in particular the empty input is rejected whenever the encoding is non-empty -/
theorem empty_rejected (env : Env) (henv : EnvWF env) (ty : Ty) (v : Val) (b : Bytes) (st' : EncSt) (fuel : Nat)
    (he : enc env ty v [] = .ok (b, st')) (hu : v.utf8OK) (hd : v.depth < fuel) (hb : 0 < b.length) :
    ∀ a s', runAbs (dec env fuel ty) (AbsSrc.new []) ≠ .ok (a, s') := by
  have := prefix_rejected env henv ty v b st' fuel he hu hd 0 hb
  simpa using this

/-- **a strict prefix of a valid encoding is an error** — not a value, not a panic — with the
driver's own budget (`|input| + 1`) on the truncated input, through the reference decoder -/
theorem prefix_is_error (env : Env) (henv : EnvWF env) (hdec : envDecOKb env = true) (ty : Ty) (hty : tyOKb env ty = true)
    (v : Val) (b : Bytes) (st' : EncSt) (he : enc env ty v [] = .ok (b, st')) (hu : v.utf8OK)
    (k : Nat) (hk : k < b.length) : ∃ e, decodeAbs env ty (b.take k) = .err e := by
  cases hr : decodeAbs env ty (b.take k) with
  | err e => exact ⟨e, rfl⟩
  | panic w => exact absurd hr (decodeAbs_total env hdec ty hty (b.take k) w)
  | ok r =>
    exfalso
    obtain ⟨a, s'⟩ := r
    unfold decodeAbs at hr
    -- the same successful run with a budget above the value's depth
    obtain ⟨F, hF⟩ : ∃ F, F = max ((b.take k).length + 1) (v.depth + 1) := ⟨_, rfl⟩
    have hmono := dec_fuel_mono env ((b.take k).length + 1) F (by omega) ty _ _ _ hr
    exact prefix_rejected env henv ty v b st' F he hu (by omega) k hk a s' hmono

/-- the same through the faithful transcription of `DeserializationContext` -/
theorem prefix_is_error_faithful (env : Env) (henv : EnvWF env) (hdec : envDecOKb env = true) (ty : Ty)
    (hty : tyOKb env ty = true) (v : Val) (b : Bytes) (st' : EncSt) (he : enc env ty v [] = .ok (b, st')) (hu : v.utf8OK)
    (k : Nat) (hk : k < b.length) : ∃ e, decodeTop env ty (b.take k) = .err e := by
  obtain ⟨e, hab⟩ := prefix_is_error env henv hdec ty hty v b st' he hu k hk
  unfold decodeTop
  unfold decodeAbs at hab
  have hsim := refine (dec env ((b.take k).length + 1) ty) (Ctx.new (b.take k)) (Ctx.new_Inv _)
  rw [absCtx_new, hab] at hsim
  cases hr : runCtx (dec env ((b.take k).length + 1) ty) (Ctx.new (b.take k)) with
  | ok r => obtain ⟨a, c'⟩ := r; rw [hr] at hsim; simp [Sim] at hsim
  | err e' => exact ⟨e', rfl⟩
  | panic w => rw [hr] at hsim; simp [Sim] at hsim



/-- cross-version: a strict prefix of what one version wrote never decodes to a value under another
(aligned) version of the definition, whenever the data carries a header (stored version ≥ 1) -/
theorem cross_prefix_rejected (env : Env) (henv : EnvWF env) (idw idr : String) (dw dr : Decl)
    (hfw : env.find idw = some (.record dw)) (hfr : env.find idr = some (.record dr))
    (hal : pairAlignedB dw dr = true) (hne : dw.steps ≠ [])
    (v : Val) (b : Bytes) (st' : EncSt) (fuel : Nat)
    (he : enc env (.named idw) v [] = .ok (b, st')) (hu : v.utf8OK) (hd : v.depth < fuel) (k : Nat) (hk : k < b.length) :
    ∀ a s', runAbs (dec env fuel (.named idr)) (AbsSrc.new (b.take k)) ≠ .ok (a, s') := by
  intro a s' hok
  have hext := run_extends_top (dec env fuel (.named idr)) (b.take k) (b.drop k) a s' hok
  rw [List.take_append_drop] at hext
  have hwf := run_AllWF (dec env fuel (.named idr)) _ a s' (AllWF_new _) hok
  have hx := C03.evolution_outcome_frame env henv idw idr dw dr hfw hfr hal v [] b st' fuel he hu (by simp [StOK]) hd
    (AbsSrc.new b) [] (WF_new _) (by simp [view_new]) rfl
  unfold C03.Agrees at hx
  cases hexp : expectedRead dw dr (normalize env (.named idw) v) with
  | error e => rw [hexp] at hx; rw [hx] at hext; cases hext
  | ok x =>
    rw [hexp] at hx
    obtain ⟨s2, hrun, hq⟩ := hx
    rw [hrun] at hext
    simp only [Outcome.ok.injEq, Prod.mk.injEq] at hext
    obtain ⟨_, hs⟩ := hext
    rw [hq.2 hne] at hs
    unfold AbsSrc.ext at hs
    cases hst : s'.stack with
    | nil =>
      simp only [hst] at hs
      have hpos : s'.cur.pos = b.length := by
        have := congrArg (fun x => x.cur.pos) hs; simpa [AbsSrc.after, AbsSrc.new] using this.symm
      have hwin : s'.cur.window ++ b.drop k = b := by
        have := congrArg (fun x => x.cur.window) hs; simpa [AbsSrc.after, AbsSrc.new] using this.symm
      have hlen : s'.cur.window.length + (b.length - k) = b.length := by
        have := congrArg List.length hwin; simpa using this
      have := hwf.1
      omega
    | cons w ws =>
      simp only [hst] at hs
      have := congrArg (fun x => x.stack) hs
      simp [AbsSrc.after, AbsSrc.new] at this
      cases ws <;> simp [extStack] at this

/-- … and with the driver's own budget it is exactly an error -/
theorem cross_prefix_is_error (env : Env) (henv : EnvWF env) (hdec : envDecOKb env = true) (idw idr : String) (dw dr : Decl)
    (hfw : env.find idw = some (.record dw)) (hfr : env.find idr = some (.record dr))
    (hal : pairAlignedB dw dr = true) (hne : dw.steps ≠ [])
    (v : Val) (b : Bytes) (st' : EncSt) (he : enc env (.named idw) v [] = .ok (b, st')) (hu : v.utf8OK)
    (k : Nat) (hk : k < b.length) : ∃ e, decodeAbs env (.named idr) (b.take k) = .err e := by
  have hty : tyOKb env (.named idr) = true := by simp [tyOKb, hfr]
  cases hr : decodeAbs env (.named idr) (b.take k) with
  | err e => exact ⟨e, rfl⟩
  | panic w => exact absurd hr (decodeAbs_total env hdec _ hty (b.take k) w)
  | ok r =>
    exfalso
    obtain ⟨a, s'⟩ := r
    unfold decodeAbs at hr
    obtain ⟨F, hF⟩ : ∃ F, F = max ((b.take k).length + 1) (v.depth + 1) := ⟨_, rfl⟩
    have hmono := dec_fuel_mono env ((b.take k).length + 1) F (by omega) (.named idr) _ _ _ hr
    exact cross_prefix_rejected env henv idw idr dw dr hfw hfr hal hne v b st' F he hu (by omega) k hk a s' hmono



/-- the unknown-length form (marker, flagged items, terminator): no strict prefix decodes to a value
either — in particular not a cut at an element boundary, where only the terminator is missing -/
theorem unknown_form_prefix_rejected (env : Env) (henv : EnvWF env) (t : Ty) (items : Val) (b : Bytes) (st' : EncSt)
    (fuel : Nat) (he : encSeqUnknown env t items [] = .ok (b, st')) (hu : items.utf8OK)
    (hd : items.depth < fuel) (hl : items.chainLength < fuel) (k : Nat) (hk : k < b.length) :
    ∀ a s', runAbs (dec env fuel (.seq t)) (AbsSrc.new (b.take k)) ≠ .ok (a, s') := by
  intro a s' hok
  have hext := run_extends_top (dec env fuel (.seq t)) (b.take k) (b.drop k) a s' hok
  rw [List.take_append_drop] at hext
  have hrt := rt_seq_unknown env henv t items [] b st' fuel he hu (by simp [StOK]) hd hl (AbsSrc.new b) []
    (WF_new _) (by simp [view_new]) rfl
  rw [hrt] at hext
  have hwf := run_AllWF (dec env fuel (.seq t)) _ a s' (AllWF_new _) hok
  simp only [Outcome.ok.injEq, Prod.mk.injEq] at hext
  obtain ⟨_, hs⟩ := hext
  unfold AbsSrc.ext at hs
  cases hst : s'.stack with
  | nil =>
    simp only [hst] at hs
    have hpos : s'.cur.pos = b.length := by
      have := congrArg (fun x => x.cur.pos) hs; simpa [AbsSrc.after, AbsSrc.new] using this.symm
    have hwin : s'.cur.window ++ b.drop k = b := by
      have := congrArg (fun x => x.cur.window) hs; simpa [AbsSrc.after, AbsSrc.new] using this.symm
    have hlen : s'.cur.window.length + (b.length - k) = b.length := by
      have := congrArg List.length hwin; simpa using this
    have := hwf.1
    omega
  | cons w ws =>
    simp only [hst] at hs
    have := congrArg (fun x => x.stack) hs
    simp [AbsSrc.after, AbsSrc.new] at this
    cases ws <;> simp [extStack] at this


end C08
