import Desert.Lemmas.RoundTripFull
import Desert.Lemmas.Misc
/-!
# C08 — truncated data is always detected

Two generic facts about *all* decoder programs — a successful run never looked past what it
consumed (`run_extends`), and cursors stay inside their windows (`run_AllWF`) — plus the
consumption theorem give: no strict prefix of an encoding decodes successfully.
-/
set_option linter.unusedVariables false

namespace C08

/-- extension monotonicity, for every program: a successful run on `b` is the same run on `b ++ t` -/
theorem run_extends_any {α : Type} (p : DProg α) (b t : Bytes) (a : α) (s' : AbsSrc)
    (h : runAbs p (AbsSrc.new b) = .ok (a, s')) : runAbs p (AbsSrc.new (b ++ t)) = .ok (a, s'.ext t) :=
  run_extends_top p b t a s' h

/-- every strict prefix of a valid encoding is rejected: it never decodes to a value
(any well-formed declarations; same decoder budget on both sides) -/
theorem prefix_rejected (env : Env) (henv : EnvWF env) (ty : Ty) (v : Val) (b : Bytes) (st' : EncSt) (fuel : Nat)
    (he : enc env ty v [] = .ok (b, st')) (hu : v.utf8OK) (hd : v.depth < fuel) (k : Nat) (hk : k < b.length) :
    ∀ a s', runAbs (dec env fuel ty) (AbsSrc.new (b.take k)) ≠ .ok (a, s') := by
  intro a s' hok
  have hext := run_extends_top (dec env fuel ty) (b.take k) (b.drop k) a s' hok
  rw [List.take_append_drop] at hext
  have hrt := ((rt_wf env henv v).1 ty [] b st' fuel he hu (by simp [StOK]) hd (AbsSrc.new b) []
    (WF_new _) (by simp [view_new]) rfl).1
  rw [hrt] at hext
  have hwf := run_AllWF (dec env fuel ty) _ a s' (AllWF_new _) hok
  simp only [Outcome.ok.injEq, Prod.mk.injEq] at hext
  obtain ⟨_, hs⟩ := hext
  -- the extended final state is the one that consumed all of `b`
  unfold AbsSrc.ext at hs
  cases hst : s'.stack with
  | nil =>
    simp only [hst] at hs
    have hpos : s'.cur.pos = b.length := by
      have := congrArg (fun x => x.cur.pos) hs; simpa [AbsSrc.after, AbsSrc.new] using this.symm
    have hwin : s'.cur.window ++ b.drop k = b := by
      have := congrArg (fun x => x.cur.window) hs; simpa [AbsSrc.after, AbsSrc.new] using this.symm
    have hlen : s'.cur.window.length + (b.length - k) = b.length := by
      have := congrArg List.length hwin; simpa using this
    have := hwf.1
    omega
  | cons w ws =>
    simp only [hst] at hs
    have := congrArg (fun x => x.stack) hs
    simp [AbsSrc.after, AbsSrc.new] at this
    cases ws <;> simp [extStack] at this

/-- in particular the empty input is rejected whenever the encoding is non-empty -/
theorem empty_rejected (env : Env) (henv : EnvWF env) (ty : Ty) (v : Val) (b : Bytes) (st' : EncSt) (fuel : Nat)
    (he : enc env ty v [] = .ok (b, st')) (hu : v.utf8OK) (hd : v.depth < fuel) (hb : 0 < b.length) :
    ∀ a s', runAbs (dec env fuel ty) (AbsSrc.new []) ≠ .ok (a, s') := by
  have := prefix_rejected env henv ty v b st' fuel he hu hd 0 hb
  simpa using this

end C08
