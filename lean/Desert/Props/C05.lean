import Desert.Lemmas.RoundTripFull
import Desert.Lemmas.Leaves
import Desert.Lemmas.Misc
import Desert.Lemmas.TotalDec
/-!
# C05 — decoding untrusted bytes is total

Proved here, for *every* byte string:
* `decode_never_panics`: for every environment passing the decidable check `envDecOKb` (named types
  declared, transient fields have defaults, fields read with `read_optional_field` have `Option`
  types — what the derive macro guarantees of any type that compiles) and every type expression
  over it, the decoder — run through the faithful transcription of `DeserializationContext` *and*
  through the abstract source — returns a value or an error. No `panic` node is reached, no region
  pushed that escapes its window, no empty stack popped, no index out of range, no `usize`
  underflow, and the fuel `|input| + 1` of the recursion is never exhausted: every nested record
  reads its version byte first and chunk regions lie inside what is left after it, every
  unknown-length loop reads a flag byte per turn (`Lemmas/Total.lean`, `Lemmas/TotalDec.lean`).
  The model's functions are total Lean functions, so "never loops without consuming input" is part
  of the same statement.
* the region arithmetic of the context can never be the source of a panic by itself
  (`context_never_panics_alone`, every program), primitive reads are total for every requested
  length, cursors never leave their windows.

Outside the model (correspondence and measurement only, DESIGN §5.C05): stack depth, allocator
behaviour and time of the real code; chrono / bignum leaves; the three `BinaryInput`
implementations other than the context (family `srcops`). On every run every implementation
panic must be predicted by the model — by this theorem there is none to predict, so any
implementation panic on the families `raw`, `decl`, `hist` is a violation.
-/
set_option linter.unusedVariables false

namespace C05

/-- a panic of the faithful context is always a panic of the abstract run: the context's own
arithmetic (indexing, subtraction, stack pop) never panics by itself -/
theorem context_never_panics_alone {α : Type} (p : DProg α) (c : Ctx) (hc : c.Inv) (w : String)
    (h : runCtx p c = .panic w) : ∃ w', runAbs p (absCtx c) = .panic w' := by
  have hsim := refine p c hc
  rw [h] at hsim
  cases hr : runAbs p (absCtx c) with
  | ok r => obtain ⟨a', s'⟩ := r; rw [hr] at hsim; simp [Sim] at hsim
  | err e => rw [hr] at hsim; simp [Sim] at hsim
  | panic w' => exact ⟨w', rfl⟩

/-- the three primitive reads of the context are total for every requested length (also lengths
near `usize::MAX`): a value or `InputEndedUnexpectedly`, never a panic -/
theorem source_ops_total (c : Ctx) (hc : c.Inv) (n : Nat) :
    (∀ w, runCtx readU8 c ≠ .panic w) ∧ (∀ w, runCtx (readBytes n) c ≠ .panic w) ∧ (∀ w, runCtx (skipN n) c ≠ .panic w) := by
  refine ⟨?_, ?_, ?_⟩
  · intro w h
    obtain ⟨w', hw⟩ := context_never_panics_alone readU8 c hc w h
    simp only [readU8, runAbs] at hw
    split at hw <;> simp [runAbs] at hw
  · intro w h
    obtain ⟨w', hw⟩ := context_never_panics_alone (readBytes n) c hc w h
    simp only [readBytes, runAbs] at hw
    split at hw <;> simp [runAbs] at hw
  · intro w h
    obtain ⟨w', hw⟩ := context_never_panics_alone (skipN n) c hc w h
    simp only [skipN, runAbs] at hw
    split at hw <;> simp [runAbs] at hw

/-- the context invariant (every region inside the input, every cursor inside its region) is
preserved by every successful run -/
theorem invariant_preserved {α : Type} (p : DProg α) (c : Ctx) (hc : c.Inv) (a : α) (c' : Ctx)
    (h : runCtx p c = .ok (a, c')) : c'.Inv ∨ ∃ w, runAbs p (absCtx c) = .panic w := by
  have hsim := refine p c hc
  rw [h] at hsim
  cases hr : runAbs p (absCtx c) with
  | ok r => obtain ⟨a', s'⟩ := r; rw [hr] at hsim; simp only [Sim] at hsim; exact Or.inl hsim.2.2.1
  | err e => rw [hr] at hsim; simp [Sim] at hsim
  | panic w => exact Or.inr ⟨w, rfl⟩

/-- no read ever leaves the supplied buffer: cursors stay inside their windows in every reachable
state of the reference run -/
theorem cursors_in_bounds {α : Type} (p : DProg α) (b : Bytes) (a : α) (s' : AbsSrc)
    (h : runAbs p (AbsSrc.new b) = .ok (a, s')) : s'.AllWF :=
  run_AllWF p _ a s' (AllWF_new b) h

/-- well-typed values decode without panic: the round-trip theorem excludes every panic node on
the image of the encoder (any well-formed declarations, evolved or not) -/
theorem valid_encodings_never_panic (env : Env) (henv : EnvWF env) (ty : Ty) (v : Val) (b : Bytes) (st' : EncSt)
    (fuel : Nat) (he : enc env ty v [] = .ok (b, st')) (hu : v.utf8OK) (hd : v.depth < fuel) (t : Bytes) :
    ∀ w, runCtx (dec env fuel ty) (Ctx.new (b ++ t)) ≠ .panic w := by
  intro w h
  obtain ⟨w', hw⟩ := context_never_panics_alone _ _ (Ctx.new_Inv _) w h
  rw [absCtx_new] at hw
  have := ((rt_wf env henv v).1 ty [] b st' fuel he hu (by simp [StOK]) hd (AbsSrc.new (b ++ t)) t
    (WF_new _) (view_new _) rfl).1
  rw [this] at hw
  simp at hw

/-- **decoding never panics**: any bytes, any decodable type, both interpreters -/
theorem decode_never_panics (env : Env) (henv : envDecOKb env = true) (ty : Ty) (hty : tyOKb env ty = true) (b : Bytes) :
    (∀ w, decodeTop env ty b ≠ .panic w) ∧ (∀ w, decodeAbs env ty b ≠ .panic w) := by
  refine ⟨?_, decodeAbs_total env henv ty hty b⟩
  intro w h
  unfold decodeTop at h
  obtain ⟨w', hw⟩ := context_never_panics_alone _ _ (Ctx.new_Inv b) w h
  rw [absCtx_new] at hw
  exact decodeAbs_total env henv ty hty b w' hw

/-- the same from any well-formed position inside a stream, with any budget above the bytes left -/
theorem decode_never_panics_frame (env : Env) (henv : envDecOKb env = true) (ty : Ty) (hty : tyOKb env ty = true)
    (fuel : Nat) (s : AbsSrc) (hw : s.WF) (hm : s.rem < fuel) : ∀ w, runAbs (dec env fuel ty) s ≠ .panic w := by
  intro w h
  have := dec_total env henv fuel ty hty s hw hm
  unfold Ok1 at this
  rw [h] at this
  exact this

/-- the chrono / big-number leaves (DESIGN 12.8): the reader of every wire description returns a value or an error
on every byte string — the panic-freedom of these codecs' *layout* part; what the library constructors do with the
components is measured by family `leaves`, not modelled -/
theorem leaf_descriptions_never_panic (d : Ty) (hd : d ∈ leafDescriptions) (b : Bytes) :
    (∀ w, decodeTop [] d b ≠ .panic w) ∧ (∀ w, decodeAbs [] d b ≠ .panic w) := by
  have henv : envDecOKb [] = true := by decide
  have hty : tyOKb [] d = true := by
    simp only [leafDescriptions, List.mem_cons, List.mem_nil_iff, or_false] at hd
    rcases hd with rfl | rfl | rfl | rfl | rfl | rfl | rfl | rfl | rfl <;> decide
  exact decode_never_panics [] henv d hty b
/-- non-vacuity: the repository's evolved `Point` is a decodable environment -/
example : envDecOKb [("Point", .record ⟨"Point", [⟨"x", .prim (.int 4 true), .plain, some (.int 0)⟩,
    ⟨"y", .prim (.int 4 true), .plain, none⟩, ⟨"_cached_str", .option (.prim .string), .transient, some .none⟩],
    [.added "x", .removed "z"]⟩)] = true := by decide

end C05
