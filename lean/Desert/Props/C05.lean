import Desert.Lemmas.RoundTripFull
import Desert.Lemmas.Misc
/-!
# C05 — decoding untrusted bytes is total (partial)

Proved here: the region arithmetic of the context (the transcription of `read_u8`, `read_bytes`,
`skip`, `push_region`, `pop_region`) can never be the source of a panic — no out-of-range index,
no `usize` underflow, no `unwrap` on an empty region stack — for *every* decoder program and every
input, unless the program itself is ill-formed in the abstract sense; the primitive reads are
total for every requested length; cursors never leave their windows.

Not proved (the claim is partial, DESIGN §5.C05): that the *decoder programs* of `Decode.lean`
never reach an abstract panic (exhausted fuel, an unbalanced pop, a region that escapes its
window, the `panic` nodes for ill-formed declarations); stack exhaustion, allocator behaviour and
time are outside the model. These are covered by the correspondence families `raw`, `decl`, `hist`
(every implementation panic must be predicted by the model; none is, on the current tree).
-/
set_option linter.unusedVariables false

namespace C05

/-- a panic of the faithful context is always a panic of the abstract run: the context's own
arithmetic (indexing, subtraction, stack pop) never panics by itself -/
theorem context_never_panics_alone {α : Type} (p : DProg α) (c : Ctx) (hc : c.Inv) (w : String)
    (h : runCtx p c = .panic w) : ∃ w', runAbs p (absCtx c) = .panic w' := by
  have hsim := refine p c hc
  rw [h] at hsim
  cases hr : runAbs p (absCtx c) with
  | ok r => obtain ⟨a', s'⟩ := r; rw [hr] at hsim; simp [Sim] at hsim
  | err e => rw [hr] at hsim; simp [Sim] at hsim
  | panic w' => exact ⟨w', rfl⟩

/-- the three primitive reads of the context are total for every requested length (also lengths
near `usize::MAX`): a value or `InputEndedUnexpectedly`, never a panic -/
theorem source_ops_total (c : Ctx) (hc : c.Inv) (n : Nat) :
    (∀ w, runCtx readU8 c ≠ .panic w) ∧ (∀ w, runCtx (readBytes n) c ≠ .panic w) ∧ (∀ w, runCtx (skipN n) c ≠ .panic w) := by
  refine ⟨?_, ?_, ?_⟩
  · intro w h
    obtain ⟨w', hw⟩ := context_never_panics_alone readU8 c hc w h
    simp only [readU8, runAbs] at hw
    split at hw <;> simp [runAbs] at hw
  · intro w h
    obtain ⟨w', hw⟩ := context_never_panics_alone (readBytes n) c hc w h
    simp only [readBytes, runAbs] at hw
    split at hw <;> simp [runAbs] at hw
  · intro w h
    obtain ⟨w', hw⟩ := context_never_panics_alone (skipN n) c hc w h
    simp only [skipN, runAbs] at hw
    split at hw <;> simp [runAbs] at hw

/-- the context invariant (every region inside the input, every cursor inside its region) is
preserved by every successful run -/
theorem invariant_preserved {α : Type} (p : DProg α) (c : Ctx) (hc : c.Inv) (a : α) (c' : Ctx)
    (h : runCtx p c = .ok (a, c')) : c'.Inv ∨ ∃ w, runAbs p (absCtx c) = .panic w := by
  have hsim := refine p c hc
  rw [h] at hsim
  cases hr : runAbs p (absCtx c) with
  | ok r => obtain ⟨a', s'⟩ := r; rw [hr] at hsim; simp only [Sim] at hsim; exact Or.inl hsim.2.2.1
  | err e => rw [hr] at hsim; simp [Sim] at hsim
  | panic w => exact Or.inr ⟨w, rfl⟩

/-- no read ever leaves the supplied buffer: cursors stay inside their windows in every reachable
state of the reference run -/
theorem cursors_in_bounds {α : Type} (p : DProg α) (b : Bytes) (a : α) (s' : AbsSrc)
    (h : runAbs p (AbsSrc.new b) = .ok (a, s')) : s'.AllWF :=
  run_AllWF p _ a s' (AllWF_new b) h

/-- well-typed values decode without panic: the round-trip theorem excludes every panic node on
the image of the encoder (any well-formed declarations, evolved or not) -/
theorem valid_encodings_never_panic (env : Env) (henv : EnvWF env) (ty : Ty) (v : Val) (b : Bytes) (st' : EncSt)
    (fuel : Nat) (he : enc env ty v [] = .ok (b, st')) (hu : v.utf8OK) (hd : v.depth < fuel) (t : Bytes) :
    ∀ w, runCtx (dec env fuel ty) (Ctx.new (b ++ t)) ≠ .panic w := by
  intro w h
  obtain ⟨w', hw⟩ := context_never_panics_alone _ _ (Ctx.new_Inv _) w h
  rw [absCtx_new] at hw
  have := ((rt_wf env henv v).1 ty [] b st' fuel he hu (by simp [StOK]) hd (AbsSrc.new (b ++ t)) t
    (WF_new _) (view_new _) rfl).1
  rw [this] at hw
  simp at hw

end C05
