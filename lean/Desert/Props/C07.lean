import Desert.Lemmas.RoundTripFull
import Desert.Lemmas.Misc
/-!
# C07 — encodings are self-delimiting

The `∀ t` of the round-trip theorems *is* this property: whatever follows an encoding is left
exactly as it was. Stated here for any environment of well-formed declarations (`EnvWF`: built-in
types, tuples, derived structs and enums, with or without evolution steps and their chunked layout).
-/
set_option linter.unusedVariables false

namespace C07

/-- decoding from a buffer that starts with an encoding consumes exactly that encoding -/
theorem consumes_exactly (env : Env) (henv : EnvWF env) (ty : Ty) (v : Val) (st : EncSt) (b : Bytes) (st' : EncSt)
    (fuel : Nat) (he : enc env ty v st = .ok (b, st')) (hu : v.utf8OK) (hst : StOK st) (hd : v.depth < fuel)
    (s : AbsSrc) (t : Bytes) (hw : s.WF) (hv : s.view = b ++ t) (hs : s.strs = st) :
    ∃ s', runAbs (dec env fuel ty) s = .ok (normalize env ty v, s') ∧ s'.view = t ∧
      s'.cur.window = s.cur.window ∧ s'.stack = s.stack := by
  have := ((rt_wf env henv v).1 ty st b st' fuel he hu hst hd s t hw hv hs).1
  exact ⟨_, this, view_after_append hv _, rfl, rfl⟩

/-- values written one after another are read back one after another -/
theorem sequential (env : Env) (henv : EnvWF env) (ty₁ ty₂ : Ty) (v₁ v₂ : Val) (b₁ b₂ : Bytes) (st₁ st₂ : EncSt)
    (fuel : Nat) (he₁ : enc env ty₁ v₁ [] = .ok (b₁, st₁)) (he₂ : enc env ty₂ v₂ st₁ = .ok (b₂, st₂))
    (hu₁ : v₁.utf8OK) (hu₂ : v₂.utf8OK) (hd₁ : v₁.depth < fuel) (hd₂ : v₂.depth < fuel) (t : Bytes) :
    ∃ s₁ s₂, runAbs (dec env fuel ty₁) (AbsSrc.new (b₁ ++ b₂ ++ t)) = .ok (normalize env ty₁ v₁, s₁) ∧
      runAbs (dec env fuel ty₂) s₁ = .ok (normalize env ty₂ v₂, s₂) ∧ s₂.view = t := by
  have hv : (AbsSrc.new (b₁ ++ b₂ ++ t)).view = b₁ ++ (b₂ ++ t) := by simp [view_new]
  have h1 := (rt_wf env henv v₁).1 ty₁ [] b₁ st₁ fuel he₁ hu₁ (by simp [StOK]) hd₁ _ (b₂ ++ t) (WF_new _) hv rfl
  have hw1 := WF_after (WF_new _) hv st₁
  have hv1 := view_after_append hv st₁
  have h2 := (rt_wf env henv v₂).1 ty₂ st₁ b₂ st₂ fuel he₂ hu₂ h1.2 hd₂ _ t hw1 hv1 (by simp)
  exact ⟨_, _, h1.1, h2.1, view_after_append hv1 _⟩

/-- the faithful context agrees: after `T::deserialize` the context's cursor stands right behind the encoding -/
theorem consumes_exactly_faithful (env : Env) (henv : EnvWF env) (ty : Ty) (v : Val) (b : Bytes) (st' : EncSt)
    (fuel : Nat) (he : enc env ty v [] = .ok (b, st')) (hu : v.utf8OK) (hd : v.depth < fuel) (t : Bytes) :
    ∃ c', runCtx (dec env fuel ty) (Ctx.new (b ++ t)) = .ok (normalize env ty v, c') ∧ c'.cur.pos = b.length ∧
      c'.stack = [] := by
  have h := ((rt_wf env henv v).1 ty [] b st' fuel he hu (by simp [StOK]) hd (AbsSrc.new (b ++ t)) t
    (WF_new _) (view_new _) rfl).1
  have hsim := refine (dec env fuel ty) (Ctx.new (b ++ t)) (Ctx.new_Inv _)
  rw [absCtx_new, h] at hsim
  cases hr : runCtx (dec env fuel ty) (Ctx.new (b ++ t)) with
  | ok r =>
    obtain ⟨a, c'⟩ := r
    rw [hr] at hsim
    simp only [Sim] at hsim
    obtain ⟨rfl, _, _, habs⟩ := hsim
    refine ⟨c', rfl, ?_, ?_⟩
    · have : (absCtx c').cur.pos = ((AbsSrc.new (b ++ t)).after b.length st').cur.pos := by rw [habs]
      simpa [absCtx, win, AbsSrc.after, AbsSrc.new] using this
    · have : (absCtx c').stack = ((AbsSrc.new (b ++ t)).after b.length st').stack := by rw [habs]
      simpa [absCtx, AbsSrc.after, AbsSrc.new] using this
  | err e => rw [hr] at hsim; simp [Sim] at hsim
  | panic w => rw [hr] at hsim; simp [Sim] at hsim

end C07
