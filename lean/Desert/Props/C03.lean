import Desert.Lemmas.EnumLemmas
import Desert.Evolution
import Desert.Lemmas.Misc
import Desert.Lemmas.Cross
/-!
# C03 — schema evolution: every writer/reader version pair gives the documented outcome

`expectedRead dw dr v` (Desert/Evolution.lean) is the documented outcome table, written from the
documentation of the four evolution steps without reference to bytes. The `hist` family asks the
driver for it on every generated (history, writer version, reader version, value) and compares it —
value, error variant and field name — with what the real code does, and separately compares the
real code with the operational model (`enc` with the writer's declaration, `dec` with the reader's).

Proved here:
* properties of the table itself (the seven clause theorems);
* **the general equation** `evolution_outcome(_frame)`: for every pair of record definitions that
  passes the decidable, value-independent check `pairAlignedB` (Desert/Align.lean: what "legal" means
  for the chunked layout — every field the reader takes from the data sits, in order, in the chunk
  the reader expects; a field the reader passes over is passed over for good, i.e. it was the last
  one read of its chunk; names and announced positions agree) and **every value**, at top level or
  embedded between sibling data, with any string table: reading what `dw` wrote with `dr` gives
  exactly `expectedRead` — the value, or the first failing field's error — the reader's string table
  ends equal to the writer's, and when the data carries a header exactly the record is consumed.
  The check is evaluated by `decide` on all 25 pairs of the repository's own history below, and by
  the driver on every generated (history, w, r) (`evidence: pairs-aligned`);
* one exclusion of `pairAlignedB` is *necessary*, not a limit of the proof: a passed-over field
  holding the first occurrence of a deduplicated string shifts every later string id. The witness
  `skipped_dedup_breaks_outcome` proves the operational outcome differs from the documented one, and
  the real code agrees with the operational model (known finding D17, `known_findings.txt`).

Evolution steps on an enum variant across versions: `evolution_outcome_enum` (constructor by wire index,
fields by the variant's own history). Not covered by a theorem: evolution steps on a type *nested
inside* the record being read with a different definition (nested types are read with the
definitions that wrote them).
-/
set_option linter.unusedVariables false
set_option linter.unusedSimpArgs false
set_option maxRecDepth 100000

namespace C03

/-- a transient field of the reading definition always takes its declared default, whatever was written -/
theorem transient_takes_default (dw dr : Decl) (wv : Val) (f : Field) (d : Val) (hr : f.role = .transient)
    (hd : f.default = some d) : expectedField dw dr wv f = .ok d := by
  simp [expectedField, hr, hd]

/-- an added field that the data does not contain takes its default; without one the read fails with
`FieldWithoutDefaultValueIsMissing` naming the field -/
theorem added_field_default (dw dr : Decl) (wv : Val) (f : Field) (hr : f.role = .plain)
    (hrem : removedInData dw.steps f.name = false) (hnew : dw.steps.length < genOf dr.steps f.name) :
    expectedField dw dr wv f = match f.default with
      | some d => .ok d
      | none => .error (.fieldMissing f.name) := by
  simp only [expectedField, hr, hrem, hnew]
  cases f.default <;> simp

/-- a required field that the data says was removed is the error `FieldRemovedInSerializedVersion` -/
theorem removed_required_field (dw dr : Decl) (wv : Val) (f : Field) (hr : f.role = .plain)
    (hrem : removedInData dw.steps f.name = true) : expectedField dw dr wv f = .error (.fieldRemoved f.name) := by
  simp [expectedField, hr, hrem]

/-- a removed field reads as absent if the reader holds it as optional -/
theorem removed_optional_field (dw dr : Decl) (wv : Val) (f : Field) (hr : f.role = .optional)
    (hrem : removedInData dw.steps f.name = true) : expectedField dw dr wv f = .ok .none := by
  simp [expectedField, hr, hrem]

/-- a field made optional after the data was written is wrapped -/
theorem made_optional_wraps (dw dr : Decl) (wv : Val) (f : Field) (x : Val) (hr : f.role = .optional)
    (hrem : removedInData dw.steps f.name = false) (hgen : ¬ dw.steps.length < genOf dr.steps f.name)
    (hv : fieldValue dw.fields wv f.name = some x) (hopt : dw.steps.length < optSinceOf dr.steps f.name) :
    expectedField dw dr wv f = .ok (.some x) := by
  simp [expectedField, hr, hrem, hgen, hv, hopt]

/-- an old reader unwraps a field that was made optional later; an absent value is the error
`NonOptionalFieldSerializedAsNone` naming the field -/
theorem made_optional_unwraps (dw dr : Decl) (wv : Val) (f : Field) (hr : f.role = .plain)
    (hrem : removedInData dw.steps f.name = false) (hgen : ¬ dw.steps.length < genOf dr.steps f.name)
    (hopt : madeOptionalInData dw.steps f.name = true) :
    (∀ y, fieldValue dw.fields wv f.name = some (.some y) → expectedField dw dr wv f = .ok y) ∧
    (fieldValue dw.fields wv f.name = some .none → expectedField dw dr wv f = .error (.nonOptionalNone f.name)) := by
  constructor
  · intro y hv; simp [expectedField, hr, hrem, hgen, hv, hopt]
  · intro hv; simp [expectedField, hr, hrem, hgen, hv, hopt]

/-- the first failing field, in the reader's declaration order, decides the outcome -/
theorem first_failure_wins (dw dr : Decl) (wv : Val) (f : Field) (fs : List Field) (e : Err)
    (h : expectedField dw dr wv f = .error e) : expectedFields dw dr wv (f :: fs) = .error e := by
  simp [expectedFields, h]

/-! ### the repository's own history, all version pairs, by evaluation (tests inside the kernel) -/

def hp0 : Decl := ⟨"HPointV0", [⟨"y", .prim (.int 4 true), .plain, none⟩, ⟨"z", .prim (.int 1 false), .plain, none⟩], []⟩
def hp1 : Decl := ⟨"HPointV1", [⟨"x", .prim (.int 4 true), .plain, some (.int 0)⟩, ⟨"y", .prim (.int 4 true), .plain, none⟩,
  ⟨"z", .prim (.int 1 false), .plain, none⟩], [.added "x"]⟩
def hp2 : Decl := ⟨"HPointV2", [⟨"x", .prim (.int 4 true), .plain, some (.int 0)⟩, ⟨"y", .prim (.int 4 true), .plain, none⟩],
  [.added "x", .removed "z"]⟩
def hp3 : Decl := ⟨"HPointV3", [⟨"x", .prim (.int 4 true), .plain, some (.int 0)⟩, ⟨"y", .prim (.int 4 true), .plain, none⟩,
  ⟨"description", .prim .string, .plain, some (.str [104, 105])⟩], [.added "x", .removed "z", .added "description"]⟩
def hp4 : Decl := ⟨"HPointV4", [⟨"x", .prim (.int 4 true), .plain, some (.int 0)⟩, ⟨"y", .prim (.int 4 true), .plain, none⟩,
  ⟨"description", .option (.prim .string), .optional, some (.some (.str [104, 105]))⟩],
  [.added "x", .removed "z", .added "description", .madeOptional "description"]⟩
def hpEnv : Env := [("HPointV0", .record hp0), ("HPointV1", .record hp1), ("HPointV2", .record hp2),
  ("HPointV3", .record hp3), ("HPointV4", .record hp4)]

/-- operational outcome: encode with the writer's definition, decode with the reader's -/
def operational (env : Env) (w r : String) (v : Val) : Except Err Val :=
  match encodeTop env (.named w) v with
  | .ok b => match decodeAbs env (.named r) b with
    | .ok (x, _) => .ok x
    | .err e => .error e
    | .panic _ => .error .deserializationFailure
  | .err e => .error e
  | .panic _ => .error .deserializationFailure

def v0 : Val := .list (.vcons (.int (-10)) (.vcons (.int 7) .vnil))
def v1 : Val := .list (.vcons (.int 1) (.vcons (.int (-10)) (.vcons (.int 7) .vnil)))
def v2 : Val := .list (.vcons (.int 1) (.vcons (.int (-10)) .vnil))
def v3 : Val := .list (.vcons (.int 1) (.vcons (.int (-10)) (.vcons (.str [72, 105]) .vnil)))
def v4s : Val := .list (.vcons (.int 1) (.vcons (.int (-10)) (.vcons (.some (.str [72, 105])) .vnil)))
def v4n : Val := .list (.vcons (.int 1) (.vcons (.int (-10)) (.vcons .none .vnil)))

example : operational hpEnv "HPointV0" "HPointV1" v0 = expectedRead hp0 hp1 v0 := by decide
example : operational hpEnv "HPointV0" "HPointV4" v0 = expectedRead hp0 hp4 v0 := by decide
example : operational hpEnv "HPointV1" "HPointV0" v1 = expectedRead hp1 hp0 v1 := by decide
example : operational hpEnv "HPointV1" "HPointV3" v1 = expectedRead hp1 hp3 v1 := by decide
example : operational hpEnv "HPointV2" "HPointV0" v2 = expectedRead hp2 hp0 v2 := by decide
example : operational hpEnv "HPointV2" "HPointV1" v2 = .error (.fieldRemoved "z") := by decide
example : operational hpEnv "HPointV3" "HPointV4" v3 = expectedRead hp3 hp4 v3 := by decide
example : operational hpEnv "HPointV3" "HPointV2" v3 = expectedRead hp3 hp2 v3 := by decide
example : operational hpEnv "HPointV4" "HPointV3" v4s = expectedRead hp4 hp3 v4s := by decide
example : operational hpEnv "HPointV4" "HPointV3" v4n = .error (.nonOptionalNone "description") := by decide
example : expectedRead hp4 hp3 v4n = .error (.nonOptionalNone "description") := by decide
example : operational hpEnv "HPointV4" "HPointV4" v4s = expectedRead hp4 hp4 v4s := by decide
example : operational hpEnv "HPointV4" "HPointV0" v4s = expectedRead hp4 hp0 v4s := by decide

/-! ### the general equation -/

/-- the outcome of a decoder run against a documented outcome -/
def Agrees (run : Outcome (Val × AbsSrc)) (exp : Except Err Val) (Q : AbsSrc → Prop) : Prop :=
  match exp with
  | .ok x => ∃ s', run = .ok (x, s') ∧ Q s'
  | .error e => run = .err e

/-- **every aligned writer/reader pair, every value, anywhere in a stream**: reading what `dw` wrote
with `dr` gives the documented outcome, leaves the string tables equal, and (stored version ≥ 1)
consumes exactly the record — whatever follows (`t`) is untouched -/
theorem evolution_outcome_frame (env : Env) (henv : EnvWF env) (idw idr : String) (dw dr : Decl)
    (hfw : env.find idw = some (.record dw)) (hfr : env.find idr = some (.record dr))
    (hal : pairAlignedB dw dr = true)
    (v : Val) (st : EncSt) (b : Bytes) (st' : EncSt) (fuel : Nat)
    (he : enc env (.named idw) v st = .ok (b, st')) (hu : v.utf8OK) (hst : StOK st) (hd : v.depth < fuel)
    (s : AbsSrc) (t : Bytes) (hw : s.WF) (hv : s.view = b ++ t) (hs : s.strs = st) :
    Agrees (runAbs (dec env fuel (.named idr)) s) (expectedRead dw dr (normalize env (.named idw) v))
      (fun s' => s'.strs = st' ∧ (dw.steps ≠ [] → s' = s.after b.length st')) := by
  have hwf := henv.rec_ idw dw hfw
  unfold enc at he
  simp only [hfw] at he
  cases v with
  | list items =>
    simp only at he
    simp only [Val.utf8OK] at hu
    simp only [Val.depth] at hd
    cases fuel with
    | zero => omega
    | succ f =>
      have key := cross_record env (rt_wf env henv) dw dr hwf hal items st b st' f he hu hst (by omega) s t hw hv hs
      simp only [dec, decTy, decNamed, hfr]
      have hn : normalize env (.named idw) (.list items) = .list (normFields env dw.fields items) := by
        simp [normalize, hfw]
      rw [hn]
      unfold XRec at key
      unfold Agrees
      simp only [expectedRead]
      cases hexp : expectedFields dw dr (normFields env dw.fields items) dr.fields with
      | ok xs => rw [hexp] at key; exact key
      | error e => rw [hexp] at key; exact key
  | _ => simp [illTyped] at he

/-- top level: `deserialize::<R>(serialize(&w))` is the documented outcome, and with a header the
data that follows the record is exactly what is left -/
theorem evolution_outcome (env : Env) (henv : EnvWF env) (idw idr : String) (dw dr : Decl)
    (hfw : env.find idw = some (.record dw)) (hfr : env.find idr = some (.record dr))
    (hal : pairAlignedB dw dr = true) (v : Val) (b : Bytes) (st' : EncSt) (fuel : Nat)
    (he : enc env (.named idw) v [] = .ok (b, st')) (hu : v.utf8OK) (hd : v.depth < fuel) (t : Bytes) :
    Agrees (runAbs (dec env fuel (.named idr)) (AbsSrc.new (b ++ t))) (expectedRead dw dr (normalize env (.named idw) v))
      (fun s' => dw.steps ≠ [] → s'.view = t) := by
  have h := evolution_outcome_frame env henv idw idr dw dr hfw hfr hal v [] b st' fuel he hu (by simp [StOK]) hd
    (AbsSrc.new (b ++ t)) t (WF_new _) (view_new _) rfl
  unfold Agrees at h ⊢
  cases hexp : expectedRead dw dr (normalize env (.named idw) v) with
  | ok x =>
    rw [hexp] at h
    obtain ⟨s', h1, h2⟩ := h
    exact ⟨s', h1, fun hne => by rw [h2.2 hne]; exact view_after_append (view_new _) _⟩
  | error e => rw [hexp] at h; exact h

/-- evolution steps on an **enum variant**: data written by one version of the enum and read by
another. The constructor is found by its wire index (`w`, the same in both definitions: C13), its
fields follow the documented outcome of the variant's own history. -/
theorem evolution_outcome_enum (env : Env) (henv : EnvWF env) (idw idr nw nr : String) (srtw srtr : Bool)
    (csw csr : List Ctor) (hfw : env.find idw = some (.enum nw srtw csw)) (hfr : env.find idr = some (.enum nr srtr csr))
    (idx idx' w : Nat) (cw cr : Ctor)
    (hcw : findCtorWire (wireCtors srtw csw) idx = some (w, cw))
    (hcr : (wireCtors srtr csr)[w]? = some (idx', cr)) (htr : cr.transient = false)
    (hal : pairAlignedB cw.decl cr.decl = true)
    (fields : Val) (st : EncSt) (b : Bytes) (st' : EncSt) (fuel : Nat)
    (he : enc env (.named idw) (.ctor idx fields) st = .ok (b, st'))
    (hu : fields.utf8OK) (hst : StOK st) (hd : fields.depth + 1 < fuel)
    (s : AbsSrc) (t : Bytes) (hw : s.WF) (hv : s.view = b ++ t) (hs : s.strs = st) :
    Agrees (runAbs (dec env fuel (.named idr)) s)
      (match expectedFields cw.decl cr.decl (normFields env cw.decl.fields fields) cr.decl.fields with
        | .ok xs => .ok (.ctor idx' (Val.ofList xs))
        | .error e => .error e)
      (fun s' => s'.strs = st' ∧ (cw.decl.steps ≠ [] → s' = s.after b.length st')) := by
  have hget := findCtorWire_get hcw
  have hmem : cw ∈ csw := mem_wireCtors (List.mem_of_getElem? hget)
  have hwf := (henv.enum_ idw nw srtw csw hfw).2 cw hmem
  have hwlt : w < 2 ^ 32 := by
    have h1 : w < (wireCtors srtw csw).length := by
      rcases Nat.lt_or_ge w (wireCtors srtw csw).length with h | h
      · exact h
      · simp [List.getElem?_eq_none h] at hget
    rw [length_wireCtors] at h1
    have := (henv.enum_ idw nw srtw csw hfw).1
    omega
  rw [enc_enum_unfold env idw nw srtw csw idx fields st hfw] at he
  simp only [hcw] at he
  split at he
  · simp at he
  · -- the variant's record, as encoded
    cases hrec : encRecord env cw.decl fields st with
    | ok rb =>
      obtain ⟨body, stb⟩ := rb
      have he' : b = 0 :: (uv w ++ body) ∧ st' = stb := by
        unfold encRecord at hrec
        cases h1 : recordPre cw.decl st with
        | ok p1 =>
          obtain ⟨pre, st1⟩ := p1
          simp only [h1, Outcome.bind_ok] at he hrec
          cases h2 : encFields env cw.decl.steps cw.decl.fields fields st1 with
          | ok p2 =>
            obtain ⟨fs, st2⟩ := p2
            simp only [h2, Outcome.bind_ok] at he hrec
            cases h3 : recordFinish cw.decl pre fs with
            | ok bb => simp [h3] at he hrec; exact ⟨by rw [← he.1, hrec.1], by rw [← he.2, hrec.2]⟩
            | err e => simp [h3] at he
            | panic w' => simp [h3] at he
          | err e => simp [h2] at he
          | panic w' => simp [h2] at he
        | err e => simp [h1] at he
        | panic w' => simp [h1] at he
      obtain ⟨rfl, rfl⟩ := he'
      cases fuel with
      | zero => omega
      | succ f =>
        have hv' : s.view = 0 :: (uv w ++ (body ++ t)) := by simpa using hv
        have hv1 : (s.after 1 s.strs).view = uv w ++ (body ++ t) := by
          have := (view_cons hv').2; simpa [adv_eq_after] using this
        have hw1 : (s.after 1 s.strs).WF := by
          have := AbsSrc.WF_adv1 hw hv'; simpa [adv_eq_after] using this
        have hw2 := WF_after hw1 hv1 s.strs
        have hv2 := view_after_append hv1 s.strs
        simp only [after_after] at hw2 hv2
        have key := cross_record env (rt_wf env henv) cw.decl cr.decl hwf hal fields st body st' f hrec hu hst (by omega)
          (s.after (1 + (uv w).length) s.strs) t hw2 hv2 (by simpa using hs)
        simp only [dec, decTy, decNamed, hfr]
        rw [readEnum_head _ nr srtr csr w hwlt s (body ++ t) hv']
        simp only [hcr, htr, Bool.false_eq_true, if_false]
        unfold XRec at key
        unfold Agrees
        cases hexp : expectedFields cw.decl cr.decl (normFields env cw.decl.fields fields) cr.decl.fields with
        | ok xs =>
          rw [hexp] at key
          obtain ⟨s', hrun, hq⟩ := key
          simp only
          have hrun' : runAbs (readRecord cr.decl.steps (declDecs (decTy f (decNamed env f)) cr.decl))
              (s.after (1 + (uv w).length) s.strs) = .ok (.list (Val.ofList xs), s') := hrun
          rw [hrun']
          refine ⟨s', by simp, hq.1, fun hne => ?_⟩
          rw [hq.2 hne]; simp [Nat.add_assoc]; congr 1; omega
        | error e =>
          rw [hexp] at key
          simp only
          have hrun' : runAbs (readRecord cr.decl.steps (declDecs (decTy f (decNamed env f)) cr.decl))
              (s.after (1 + (uv w).length) s.strs) = .err e := key
          rw [hrun']; rfl
    | err e =>
      exfalso
      unfold encRecord at hrec
      cases h1 : recordPre cw.decl st with
      | ok p1 =>
        obtain ⟨pre, st1⟩ := p1
        simp only [h1, Outcome.bind_ok] at he hrec
        cases h2 : encFields env cw.decl.steps cw.decl.fields fields st1 with
        | ok p2 =>
          obtain ⟨fs, st2⟩ := p2
          simp only [h2, Outcome.bind_ok] at he hrec
          cases h3 : recordFinish cw.decl pre fs with
          | ok bb => simp [h3] at hrec
          | err e' => simp [h3] at he
          | panic w' => simp [h3] at he
        | err e' => simp [h2] at he
        | panic w' => simp [h2] at he
      | err e' => simp [h1] at he
      | panic w' => simp [h1] at he
    | panic w0 =>
      exfalso
      unfold encRecord at hrec
      cases h1 : recordPre cw.decl st with
      | ok p1 =>
        obtain ⟨pre, st1⟩ := p1
        simp only [h1, Outcome.bind_ok] at he hrec
        cases h2 : encFields env cw.decl.steps cw.decl.fields fields st1 with
        | ok p2 =>
          obtain ⟨fs, st2⟩ := p2
          simp only [h2, Outcome.bind_ok] at he hrec
          cases h3 : recordFinish cw.decl pre fs with
          | ok bb => simp [h3] at hrec
          | err e' => simp [h3] at he
          | panic w' => simp [h3] at he
        | err e' => simp [h2] at he
        | panic w' => simp [h2] at he
      | err e' => simp [h1] at he
      | panic w' => simp [h1] at he

/-! ### non-vacuity: the repository's own history -/

/-- all 25 version pairs of the `Point` history are aligned -/
theorem hpoint_pairs_aligned :
    ([hp0, hp1, hp2, hp3, hp4].all fun w => [hp0, hp1, hp2, hp3, hp4].all fun r => pairAlignedB w r) = true := by decide +kernel

theorem hpEnv_wf : EnvWF hpEnv := EnvWF_of_check (by decide +kernel)

/-- … so e.g. every value written by version 4 is read by version 3 as the table says (unwrapped, or
`NonOptionalFieldSerializedAsNone`), for all values — not just the two evaluated above -/
theorem hpoint_v4_read_by_v3 (v : Val) (b : Bytes) (st' : EncSt) (fuel : Nat)
    (he : enc hpEnv (.named "HPointV4") v [] = .ok (b, st')) (hu : v.utf8OK) (hd : v.depth < fuel) (t : Bytes) :
    Agrees (runAbs (dec hpEnv fuel (.named "HPointV3")) (AbsSrc.new (b ++ t)))
      (expectedRead hp4 hp3 (normalize hpEnv (.named "HPointV4") v)) (fun s' => hp4.steps ≠ [] → s'.view = t) :=
  evolution_outcome hpEnv hpEnv_wf "HPointV4" "HPointV3" hp4 hp3 rfl rfl (by decide +kernel) v b st' fuel he hu hd t

/-! ### the exclusion that is necessary: a passed-over deduplicated string (finding D17) -/

def hd2 : Decl := ⟨"HDsV2", [⟨"z", .prim .dstring, .plain, none⟩, ⟨"c", .prim .dstring, .plain, some (.str [])⟩,
  ⟨"d", .prim .dstring, .plain, some (.str [])⟩], [.added "c", .added "d"]⟩
def hd3 : Decl := ⟨"HDsV3", [⟨"c", .prim .dstring, .plain, some (.str [])⟩, ⟨"d", .prim .dstring, .plain, some (.str [])⟩],
  [.added "c", .added "d", .removed "z"]⟩
def hdEnv : Env := [("HDsV2", .record hd2), ("HDsV3", .record hd3)]
/-- z = "p", c = "q", d = "p" -/
def vd : Val := .list (.vcons (.str [112]) (.vcons (.str [113]) (.vcons (.str [112]) .vnil)))

/-- a legal history (the removed field is the only one of its chunk), both definitions well-formed,
and yet the reader's `d` is "q" where "p" was written: the removed field held the first occurrence
of "p", the reader never registers it, so the back-reference 1 resolves to "q" -/
theorem skipped_dedup_breaks_outcome :
    envWFb hdEnv = true ∧
    operational hdEnv "HDsV2" "HDsV3" vd = .ok (.list (.vcons (.str [113]) (.vcons (.str [113]) .vnil))) ∧
    expectedRead hd2 hd3 vd = .ok (.list (.vcons (.str [113]) (.vcons (.str [112]) .vnil))) ∧
    pairAlignedB hd2 hd3 = false := by decide +kernel

end C03
