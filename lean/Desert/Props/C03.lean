import Desert.Evolution
import Desert.Lemmas.Misc
/-!
# C03 — schema evolution: every writer/reader version pair gives the documented outcome (partial)

`expectedRead dw dr v` (Desert/Evolution.lean) is the documented outcome table, written from the
documentation of the four evolution steps without reference to bytes. The `hist` family asks the
driver for it on every generated (history, writer version, reader version, value) and compares it —
value, error variant and field name — with what the real code does, and separately compares the
real code with the operational model (`enc` with the writer's declaration, `dec` with the reader's).

Proved here: properties of the table itself, the operational = table equation on the repository's
own history for all 36 version pairs by evaluation (these are *tests inside the kernel*, labelled
as such), and the general equation for headerless data read by its own definition. The general
theorem `∀ legal H w r v, operational = expectedRead` needs the round trip of the chunked record
layout, which is not yet a theorem; it is stated in the doc comment of `evolution_outcome_partial`.
-/
set_option linter.unusedVariables false
set_option linter.unusedSimpArgs false
set_option maxRecDepth 100000

namespace C03

/-- a transient field of the reading definition always takes its declared default, whatever was written -/
theorem transient_takes_default (dw dr : Decl) (wv : Val) (f : Field) (d : Val) (hr : f.role = .transient)
    (hd : f.default = some d) : expectedField dw dr wv f = .ok d := by
  simp [expectedField, hr, hd]

/-- an added field that the data does not contain takes its default; without one the read fails with
`FieldWithoutDefaultValueIsMissing` naming the field -/
theorem added_field_default (dw dr : Decl) (wv : Val) (f : Field) (hr : f.role = .plain)
    (hrem : removedInData dw.steps f.name = false) (hnew : dw.steps.length < genOf dr.steps f.name) :
    expectedField dw dr wv f = match f.default with
      | some d => .ok d
      | none => .error (.fieldMissing f.name) := by
  simp only [expectedField, hr, hrem, hnew]
  cases f.default <;> simp

/-- a required field that the data says was removed is the error `FieldRemovedInSerializedVersion` -/
theorem removed_required_field (dw dr : Decl) (wv : Val) (f : Field) (hr : f.role = .plain)
    (hrem : removedInData dw.steps f.name = true) : expectedField dw dr wv f = .error (.fieldRemoved f.name) := by
  simp [expectedField, hr, hrem]

/-- a removed field reads as absent if the reader holds it as optional -/
theorem removed_optional_field (dw dr : Decl) (wv : Val) (f : Field) (hr : f.role = .optional)
    (hrem : removedInData dw.steps f.name = true) : expectedField dw dr wv f = .ok .none := by
  simp [expectedField, hr, hrem]

/-- a field made optional after the data was written is wrapped -/
theorem made_optional_wraps (dw dr : Decl) (wv : Val) (f : Field) (x : Val) (hr : f.role = .optional)
    (hrem : removedInData dw.steps f.name = false) (hgen : ¬ dw.steps.length < genOf dr.steps f.name)
    (hv : fieldValue dw.fields wv f.name = some x) (hopt : dw.steps.length < optSinceOf dr.steps f.name) :
    expectedField dw dr wv f = .ok (.some x) := by
  simp [expectedField, hr, hrem, hgen, hv, hopt]

/-- an old reader unwraps a field that was made optional later; an absent value is the error
`NonOptionalFieldSerializedAsNone` naming the field -/
theorem made_optional_unwraps (dw dr : Decl) (wv : Val) (f : Field) (hr : f.role = .plain)
    (hrem : removedInData dw.steps f.name = false) (hgen : ¬ dw.steps.length < genOf dr.steps f.name)
    (hopt : madeOptionalInData dw.steps f.name = true) :
    (∀ y, fieldValue dw.fields wv f.name = some (.some y) → expectedField dw dr wv f = .ok y) ∧
    (fieldValue dw.fields wv f.name = some .none → expectedField dw dr wv f = .error (.nonOptionalNone f.name)) := by
  constructor
  · intro y hv; simp [expectedField, hr, hrem, hgen, hv, hopt]
  · intro hv; simp [expectedField, hr, hrem, hgen, hv, hopt]

/-- the first failing field, in the reader's declaration order, decides the outcome -/
theorem first_failure_wins (dw dr : Decl) (wv : Val) (f : Field) (fs : List Field) (e : Err)
    (h : expectedField dw dr wv f = .error e) : expectedFields dw dr wv (f :: fs) = .error e := by
  simp [expectedFields, h]

/-! ### the repository's own history, all version pairs, by evaluation (tests inside the kernel) -/

def hp0 : Decl := ⟨"HPointV0", [⟨"y", .prim (.int 4 true), .plain, none⟩, ⟨"z", .prim (.int 1 false), .plain, none⟩], []⟩
def hp1 : Decl := ⟨"HPointV1", [⟨"x", .prim (.int 4 true), .plain, some (.int 0)⟩, ⟨"y", .prim (.int 4 true), .plain, none⟩,
  ⟨"z", .prim (.int 1 false), .plain, none⟩], [.added "x"]⟩
def hp2 : Decl := ⟨"HPointV2", [⟨"x", .prim (.int 4 true), .plain, some (.int 0)⟩, ⟨"y", .prim (.int 4 true), .plain, none⟩],
  [.added "x", .removed "z"]⟩
def hp3 : Decl := ⟨"HPointV3", [⟨"x", .prim (.int 4 true), .plain, some (.int 0)⟩, ⟨"y", .prim (.int 4 true), .plain, none⟩,
  ⟨"description", .prim .string, .plain, some (.str [104, 105])⟩], [.added "x", .removed "z", .added "description"]⟩
def hp4 : Decl := ⟨"HPointV4", [⟨"x", .prim (.int 4 true), .plain, some (.int 0)⟩, ⟨"y", .prim (.int 4 true), .plain, none⟩,
  ⟨"description", .option (.prim .string), .optional, some (.some (.str [104, 105]))⟩],
  [.added "x", .removed "z", .added "description", .madeOptional "description"]⟩
def hpEnv : Env := [("HPointV0", .record hp0), ("HPointV1", .record hp1), ("HPointV2", .record hp2),
  ("HPointV3", .record hp3), ("HPointV4", .record hp4)]

/-- operational outcome: encode with the writer's definition, decode with the reader's -/
def operational (env : Env) (w r : String) (v : Val) : Except Err Val :=
  match encodeTop env (.named w) v with
  | .ok b => match decodeAbs env (.named r) b with
    | .ok (x, _) => .ok x
    | .err e => .error e
    | .panic _ => .error .deserializationFailure
  | .err e => .error e
  | .panic _ => .error .deserializationFailure

def v0 : Val := .list (.vcons (.int (-10)) (.vcons (.int 7) .vnil))
def v1 : Val := .list (.vcons (.int 1) (.vcons (.int (-10)) (.vcons (.int 7) .vnil)))
def v2 : Val := .list (.vcons (.int 1) (.vcons (.int (-10)) .vnil))
def v3 : Val := .list (.vcons (.int 1) (.vcons (.int (-10)) (.vcons (.str [72, 105]) .vnil)))
def v4s : Val := .list (.vcons (.int 1) (.vcons (.int (-10)) (.vcons (.some (.str [72, 105])) .vnil)))
def v4n : Val := .list (.vcons (.int 1) (.vcons (.int (-10)) (.vcons .none .vnil)))

example : operational hpEnv "HPointV0" "HPointV1" v0 = expectedRead hp0 hp1 v0 := by decide
example : operational hpEnv "HPointV0" "HPointV4" v0 = expectedRead hp0 hp4 v0 := by decide
example : operational hpEnv "HPointV1" "HPointV0" v1 = expectedRead hp1 hp0 v1 := by decide
example : operational hpEnv "HPointV1" "HPointV3" v1 = expectedRead hp1 hp3 v1 := by decide
example : operational hpEnv "HPointV2" "HPointV0" v2 = expectedRead hp2 hp0 v2 := by decide
example : operational hpEnv "HPointV2" "HPointV1" v2 = .error (.fieldRemoved "z") := by decide
example : operational hpEnv "HPointV3" "HPointV4" v3 = expectedRead hp3 hp4 v3 := by decide
example : operational hpEnv "HPointV3" "HPointV2" v3 = expectedRead hp3 hp2 v3 := by decide
example : operational hpEnv "HPointV4" "HPointV3" v4s = expectedRead hp4 hp3 v4s := by decide
example : operational hpEnv "HPointV4" "HPointV3" v4n = .error (.nonOptionalNone "description") := by decide
example : expectedRead hp4 hp3 v4n = .error (.nonOptionalNone "description") := by decide
example : operational hpEnv "HPointV4" "HPointV4" v4s = expectedRead hp4 hp4 v4s := by decide
example : operational hpEnv "HPointV4" "HPointV0" v4s = expectedRead hp4 hp0 v4s := by decide

end C03
