import Desert.Lemmas.RoundTripFull
import Desert.Lemmas.Transient
import Desert.Lemmas.EnumLemmas
/-!
# C02 — round-trip fidelity of derived struct and enum codecs

`Decl` / `TyDecl` interpreted by `enc` / `dec` *is* the documented field-by-field procedure; the
`decl` family compares it with the real macro expansion on every run (translation validation).
Theorems: derived structs and enums, at any nesting and recursion, with optional and transient
fields, transient / sorted constructors, **and evolution steps** (`FieldAdded`, `FieldMadeOptional`,
`FieldRemoved`, `FieldMadeTransient`): the value written in the chunked layout with its evolution
header is read back by the same definition. The hypothesis `EnvWF` is the decidable check
`declWFb` on each declaration (`DeclWF.lean`: the limits of the position byte, removed names are
not names of serialized fields, a field announced as made-optional is optional); it is evaluated
below on the repository's `Point`, and by the driver on every declaration the harness generates.
Reading data written by an *older* definition is C03.
-/
set_option linter.unusedVariables false
set_option linter.unusedSimpArgs false

namespace C02

/-- a derived struct or enum value decodes, with the same definition, to the original value with
transient fields replaced by their defaults; whatever follows is untouched -/
theorem derived_roundtrip (env : Env) (henv : EnvWF env) (id : String) (v : Val) (b : Bytes) (st' : EncSt) (fuel : Nat)
    (he : enc env (.named id) v [] = .ok (b, st')) (hu : v.utf8OK) (hd : v.depth < fuel) (t : Bytes) :
    ∃ s', runAbs (dec env fuel (.named id)) (AbsSrc.new (b ++ t)) = .ok (normalize env (.named id) v, s') ∧ s'.view = t :=
  ⟨_, ((rt_wf env henv v).1 (.named id) [] b st' fuel he hu (by simp [StOK]) hd (AbsSrc.new (b ++ t)) t
    (WF_new _) (view_new _) rfl).1, view_after_append (view_new _) _⟩

/-- decoding a round-tripped value again gives the same value (the normal form is stable) -/
theorem normalize_stable (env : Env) (ty : Ty) (v : Val) (st : EncSt) :
    enc env ty (normalize env ty v) st = enc env ty v st := (enc_normalize env v).1 ty st

/-- a headerless record is the version byte 0 followed by its non-transient fields in declaration
order, nothing else -/
theorem record_v0_layout (env : Env) (id : String) (d : Decl) (fields : Val) (st : EncSt) (b : Bytes) (st' : EncSt)
    (hfind : env.find id = some (.record d)) (hsteps : d.steps = [])
    (he : enc env (.named id) (.list fields) st = .ok (b, st')) :
    ∃ l, encFields env [] d.fields fields st = .ok (l, st') ∧ b = 0 :: l.flatMap (·.bytes) := by
  unfold enc at he
  simp only [hfind] at he
  have hpre : recordPre d st = .ok ([], st) := by simp [recordPre, hsteps]
  rw [hpre] at he
  simp only [Outcome.bind_ok, hsteps] at he
  cases hf : encFields env [] d.fields fields st with
  | ok r0 =>
    obtain ⟨l, st2⟩ := r0
    have hfin : recordFinish d [] l = .ok (0 :: l.flatMap (·.bytes)) := by simp [recordFinish, hsteps]
    simp [hf, hfin] at he
    exact ⟨l, by rw [he.2], he.1.symm⟩
  | err e => simp [hf] at he
  | panic w => simp [hf] at he

/-- field routing of an evolved record: the body is the version byte, the header, then chunk 0,
chunk 1, … in generation order, where chunk `k` is the concatenation, in declaration order, of the
fields whose `FieldAdded` step is `k` -/
theorem record_chunk_layout (d : Decl) (pre : List (Option Bytes)) (fs : List EncField) (b : Bytes)
    (h : assembleRecord d pre fs = .ok b) :
    ∃ h0 hs, sizeStep (chunkBytes fs 0).length = .ok h0 ∧ headerSteps fs 1 d.steps pre = .ok hs ∧
      b = byteOf d.version :: (h0 ++ hs ++ chunksFrom fs 0 (d.version + 1)) := by
  unfold assembleRecord at h
  cases h1 : sizeStep (chunkBytes fs 0).length with
  | ok h0 =>
    simp only [h1, Outcome.bind_ok] at h
    cases h2 : headerSteps fs 1 d.steps pre with
    | ok hs => simp [h2] at h; exact ⟨h0, hs, rfl, rfl, by rw [← h, List.append_assoc]⟩
    | err e => simp [h2] at h
    | panic w => simp [h2] at h
  | err e => simp [h1] at h
  | panic w => simp [h1] at h

/-- transient fields are not written: a transient field contributes no `EncField` -/
theorem transient_not_written (env : Env) (steps : List Step) (f : Field) (fs : List Field) (x rest : Val) (st : EncSt)
    (hr : f.role = .transient) :
    encFields env steps (f :: fs) (.vcons x rest) st = encFields env steps fs rest st := by
  simp [encFields, hr]

/-- non-vacuity: the repository's `Point` (evolved, with a transient field) produces the byte
vector pinned by `desert_macro/tests/derivation.rs` -/
def pointDecl : Decl :=
  ⟨"Point", [⟨"x", .prim (.int 4 true), .plain, some (.int 0)⟩, ⟨"y", .prim (.int 4 true), .plain, none⟩,
             ⟨"_cached_str", .option (.prim .string), .transient, some .none⟩], [.added "x", .removed "z"]⟩

example : encodeTop [("Point", .record pointDecl)] (.named "Point")
      (.list (.vcons (.int 1) (.vcons (.int (-10)) (.vcons .none .vnil))))
    = .ok [0x02, 0x08, 0x08, 0x03, 0x02, 0x7a, 0xff, 0xff, 0xff, 0xf6, 0, 0, 0, 1] := by decide

def pointEnv : Env := [("Point", .record pointDecl)]

/-- the evolved `Point` passes the well-formedness check, so the theorems above apply to it -/
theorem pointEnv_wf : EnvWF pointEnv := EnvWF_of_check (by decide)

/-- … and every `Point` value round-trips through its version-2 chunked layout -/
theorem point_roundtrip (v : Val) (b : Bytes) (st' : EncSt) (fuel : Nat)
    (he : enc pointEnv (.named "Point") v [] = .ok (b, st')) (hu : v.utf8OK) (hd : v.depth < fuel) (t : Bytes) :
    ∃ s', runAbs (dec pointEnv fuel (.named "Point")) (AbsSrc.new (b ++ t)) = .ok (normalize pointEnv (.named "Point") v, s') ∧ s'.view = t :=
  derived_roundtrip pointEnv pointEnv_wf "Point" v b st' fuel he hu hd t

/-- headerless declarations whose transient fields have defaults are well-formed: `EnvWF` only adds cases -/
theorem headerless_wf (env : Env) (h : EnvV0 env) : EnvWF env := h.toWF

end C02
