import Desert.Lemmas.RoundTripFull
import Desert.Lemmas.Misc
/-!
# C09 — string deduplication round-trips; repeats become short back-references

The string table of writer and reader is a list, id = index + 1, in first-occurrence order of the
visit. The round trip in *every* placement over well-formed records, evolved or not (flat streams, tuples,
sequences, options, structs, enums — any nesting, any interleaving with plain strings) is an
instance of `rt_full`, whose induction carries the invariant "reader table = writer table" through
both visits — through evolution headers too, whose removed-field names are deduplicated strings
written before the chunks (`Lemmas/Header.lean`), and across the chunk regions of a record, which
share one table (`Lemmas/FieldLoop.lean`). The `decl` family (DedupR, DedupR2, DedupMix,
DedupNest) compares the same placements with the real code on every run.
-/
set_option linter.unusedVariables false
set_option linter.unusedSimpArgs false

namespace C09

/-- first occurrence: encoded byte-for-byte like a plain string, and registered under the next id -/
theorem first_occurrence_plain (bs : Bytes) (st : EncSt) (h : bs ∉ st) (hfull : st.length < 2 ^ 31 - 1) :
    encDString bs st = (encString bs).bind fun b => .ok (b, st ++ [bs]) := by
  have : indexOf? st bs = none := by
    cases hi : indexOf? st bs with
    | none => rfl
    | some i => have := indexOf?_some hi; exact absurd (List.mem_of_getElem? this) h
  simp [encDString, this, hfull]

/-- every later occurrence is the zig-zag var-int of minus its id: at most five bytes whatever the
string's length, and the table is unchanged -/
theorem repeat_is_backref (bs : Bytes) (st : EncSt) (i : Nat) (h : indexOf? st bs = some i) :
    encDString bs st = .ok (zz (-((i : Int) + 1)), st) ∧ (zz (-((i : Int) + 1))).length ≤ 5 ∧ st[i]? = some bs := by
  refine ⟨by simp [encDString, h], uv_length_le _, indexOf?_some h⟩

/-- a string that is in the table is always found (so a repeat is never written in full) -/
theorem known_string_found (bs : Bytes) (st : EncSt) (h : bs ∈ st) : ∃ i, indexOf? st bs = some i := by
  cases hi : indexOf? st bs with
  | some i => exact ⟨i, rfl⟩
  | none => exact absurd h (indexOf?_none hi)

/-- the id found is the *first* occurrence's: ids follow first-occurrence order -/
theorem index_is_first (st : EncSt) (bs : Bytes) (i : Nat) (h : indexOf? st bs = some i) :
    ∀ j, j < i → st[j]? ≠ some bs := by
  have key : ∀ (tbl : List Bytes) (k i : Nat), indexOf?.go bs tbl k = some i →
      ∀ j, j < i - k → tbl[j]? ≠ some bs := by
    intro tbl
    induction tbl with
    | nil => intro k i h; simp [indexOf?.go] at h
    | cons x xs ih =>
      intro k i h j hj
      simp only [indexOf?.go] at h
      split at h
      · simp at h; omega
      · rename_i hx
        cases j with
        | zero => simp; exact fun e => hx e
        | succ j' =>
          have := ih (k + 1) i h j' (by omega)
          simpa using this
  intro j hj
  exact key st 0 i h j (by simpa using hj)

/-- an id that was never introduced is an error (`InvalidStringId`), not a value -/
theorem unknown_id_errors (id : Nat) (hid : 0 < id) (hlt : id < 2 ^ 31) (s : AbsSrc) (t : Bytes)
    (hv : s.view = zz (-(id : Int)) ++ t) (hunk : s.strs.length < id) :
    runAbs (decPrim .dstring) s = .err (.invalidStringId id) := by
  simp only [decPrim, bind_eq_dbind, pure_eq_ret]
  rw [readVarI32_bind (by unfold inI32; omega) _ hv]
  have hneg : (-(id : Int)) < 0 := by omega
  have hne : ¬ (-(id : Int) = -(2 ^ 31 : Int)) := by omega
  simp only [hneg, if_true, hne, if_false]
  have hna : (-(id : Int)).natAbs = id := by omega
  rw [hna]
  simp only [strGet, DProg.bind, runAbs, strLookup, after_strs]
  have : ¬ (id = 0) := by omega
  simp only [this, if_false]
  have : s.strs[id - 1]? = none := List.getElem?_eq_none (by omega)
  simp [this, runAbs]

/-- deduplicated strings round-trip in any placement over well-formed records (chunked ones included: the table is shared across chunks), interleaved with
anything else, for any table the two sides share at that point -/
theorem dedup_roundtrip (env : Env) (henv : EnvWF env) (ty : Ty) (v : Val) (st : EncSt) (b : Bytes) (st' : EncSt)
    (fuel : Nat) (he : enc env ty v st = .ok (b, st')) (hu : v.utf8OK) (hst : StOK st) (hd : v.depth < fuel)
    (s : AbsSrc) (t : Bytes) (hw : s.WF) (hv : s.view = b ++ t) (hs : s.strs = st) :
    ∃ s', runAbs (dec env fuel ty) s = .ok (normalize env ty v, s') ∧ s'.strs = st' ∧ s'.view = t := by
  have := ((rt_wf env henv v).1 ty st b st' fuel he hu hst hd s t hw hv hs).1
  exact ⟨_, this, rfl, view_after_append hv _⟩

/-- a single deduplicated string: reader and writer tables stay equal -/
theorem tables_stay_equal (bs : Bytes) (st : EncSt) (b : Bytes) (st' : EncSt)
    (he : encDString bs st = .ok (b, st')) (hu : validUtf8 bs = true) (hst : StOK st)
    (s : AbsSrc) (t : Bytes) (hw : s.WF) (hv : s.view = b ++ t) (hs : s.strs = st) :
    ∃ s', runAbs (decPrim .dstring) s = .ok (.str bs, s') ∧ s'.strs = st' := by
  have he' : encPrim .dstring (.str bs) st = .ok (b, st') := by simpa [encPrim] using he
  have := (rt_prim .dstring (.str bs) st b st' he' (by simpa [Val.utf8OK] using hu) hst s t hw hv hs).1
  exact ⟨_, this, rfl⟩

/-- the plain-string encoder never touches the table -/
theorem plain_items_table_free (env : Env) : ∀ (items : Val) (st : EncSt),
    encItems env (.prim .string) items st = (encItems env (.prim .string) items []).bind fun p => .ok (p.1, st) := by
  intro items
  induction items with
  | vnil => intro st; simp [encItems]
  | vcons x r _ ihr =>
    intro st
    simp only [encItems, enc]
    cases x with
    | str bs =>
      simp only [encPrim]
      cases hs : encString bs with
      | ok b1 =>
        simp only [Outcome.bind_ok]
        rw [ihr st, ihr []]
        cases encItems env (.prim .string) r [] with
        | ok p => simp
        | err e => simp
        | panic w => simp
      | err e => simp
      | panic w => simp
    | _ => simp [encPrim, illTyped]
  | _ => intro st; simp [encItems, illTyped]

/-- a stream of pairwise distinct, not yet registered strings costs nothing: its deduplicated
encoding is byte-identical to the plain encoding -/
theorem no_repeat_identical (env : Env) : ∀ (items : Val) (st : EncSt) (b : Bytes) (st' : EncSt),
    encItems env (.prim .dstring) items st = .ok (b, st') →
    (∀ x ∈ items.toList, ∀ bs, x = .str bs → bs ∉ st) → items.toList.Nodup →
    ∃ st'', encItems env (.prim .string) items st = .ok (b, st'') := by
  intro items
  induction items with
  | vnil => intro st b st' he _ _; simp [encItems] at he ⊢; exact he.1
  | vcons x r _ ihr =>
    intro st b st' he hnew hnd
    simp only [encItems] at he ⊢
    cases x with
    | str bs =>
      have hbs : bs ∉ st := hnew (.str bs) (by simp [Val.toList]) bs rfl
      simp only [enc, encPrim] at he ⊢
      cases hfull : decide (st.length < 2 ^ 31 - 1) with
      | false =>
        have : indexOf? st bs = none := by
          cases hi : indexOf? st bs with
          | none => rfl
          | some i => exact absurd (List.mem_of_getElem? (indexOf?_some hi)) hbs
        simp [encDString, this] at he
        simp at hfull
        simp [show ¬ (st.length < 2 ^ 31 - 1) by omega] at he
      | true =>
        simp at hfull
        rw [first_occurrence_plain bs st hbs hfull] at he
        cases hs : encString bs with
        | ok b1 =>
          simp only [hs, Outcome.bind_ok] at he ⊢
          cases hr : encItems env (.prim .dstring) r (st ++ [bs]) with
          | ok p =>
            obtain ⟨b2, st2⟩ := p
            simp [hr] at he
            obtain ⟨rfl, rfl⟩ := he
            simp only [Val.toList, List.nodup_cons] at hnd
            have hnew' : ∀ y ∈ r.toList, ∀ cs, y = .str cs → cs ∉ st ++ [bs] := by
              intro y hy cs hcs
              have h1 := hnew y (by simp [Val.toList, hy]) cs hcs
              simp only [List.mem_append, List.mem_singleton, not_or]
              refine ⟨h1, ?_⟩
              intro e; subst e; subst hcs; exact hnd.1 hy
            obtain ⟨st3, h3⟩ := ihr (st ++ [bs]) b2 st2 hr hnew' hnd.2
            rw [plain_items_table_free env r (st ++ [bs])] at h3
            rw [plain_items_table_free env r st]
            cases hq : encItems env (.prim .string) r [] with
            | ok p => obtain ⟨b3, st4⟩ := p; simp [hq] at h3 ⊢; exact h3.1
            | err e => simp [hq] at h3
            | panic w => simp [hq] at h3
          | err e => simp [hr] at he
          | panic w => simp [hr] at he
        | err e => simp [hs] at he
        | panic w => simp [hs] at he
    | _ => simp [enc, encPrim, illTyped] at he
  | _ => intro st b st' he; simp [encItems, illTyped] at he

end C09
