import Desert.Sink
import Desert.Lemmas.VarInt
import Desert.Lemmas.Refine
/-!
# C15 — the byte stream is independent of the sink; size calculation is exact
-/
set_option linter.unusedVariables false
set_option linter.unusedSimpArgs false

namespace C15

/-- for every writer program, buffer stack and starting contents: the recording sink's log
flattens to the vector sink's bytes, and the size calculator counts exactly those bytes -/
theorem sinks_agree (p : WProg) : ∀ (stack : List Bytes) (v : Bytes) (n : Nat) (l : List Bytes),
    n = v.length → l.flatten = v →
    match runSink vecSink p stack v, runSink sizeSink p stack n, runSink recSink p stack l with
    | some v', some n', some l' => n' = v'.length ∧ l'.flatten = v'
    | none, none, none => True
    | _, _, _ => False := by
  induction p with
  | done => intro stack v n l hn hl; simp [runSink, hn, hl]
  | u8 b k ih =>
    intro stack v n l hn hl
    cases stack with
    | nil => simp only [runSink]; exact ih [] _ _ _ (by simp [vecSink, sizeSink, hn]) (by simp [vecSink, recSink, hl])
    | cons top rest => simp only [runSink]; exact ih _ v n l hn hl
  | bytes bs k ih =>
    intro stack v n l hn hl
    cases stack with
    | nil => simp only [runSink]; exact ih [] _ _ _ (by simp [vecSink, sizeSink, hn]) (by simp [vecSink, recSink, hl])
    | cons top rest => simp only [runSink]; exact ih _ v n l hn hl
  | push init k ih => intro stack v n l hn hl; simp only [runSink]; exact ih _ v n l hn hl
  | pop f ih =>
    intro stack v n l hn hl
    cases stack with
    | nil => simp [runSink]
    | cons top rest => simp only [runSink]; exact ih top rest v n l hn hl

/-- top-level form: all sinks start empty -/
theorem sink_independent (p : WProg) :
    match runSink vecSink p [] [], runSink sizeSink p [] 0, runSink recSink p [] [] with
    | some v', some n', some l' => n' = v'.length ∧ l'.flatten = v'
    | none, none, none => True
    | _, _, _ => False :=
  sinks_agree p [] [] 0 [] rfl rfl

/-- writes made while a buffer is pushed never reach the sink: they come back from `pop_buffer` -/
theorem buffer_stack_transparent (bs : Bytes) (init : Bytes) (f : Bytes → WProg) (stack : List Bytes) (out : Bytes) :
    runSink vecSink (.push init (.bytes bs (.pop f))) stack out = runSink vecSink (f (init ++ bs)) stack out := by
  simp [runSink]

/-- the three inputs agree, operation by operation, on what they return and on where they report
the end of input (top level; any requested length) -/
theorem sources_agree (data : Bytes) : ∀ (ops : List ROp) (pos : Nat), pos ≤ data.length →
    ctxRun { input := data, cur := ⟨0, pos, data.length, 0⟩, stack := [], strs := [] } ops
      = FlatSrc.run ⟨data, pos⟩ ops := by
  intro ops
  induction ops with
  | nil => intro pos _; simp [ctxRun, FlatSrc.run]
  | cons op rest ih =>
    intro pos hp
    cases op with
    | u8 =>
      simp only [ctxRun, FlatSrc.run, ctxStep, FlatSrc.step, readU8, runCtx]
      by_cases he : pos = data.length
      · simp [he]; have := ih data.length (Nat.le_refl _); simpa [he] using this
      · have hlt : pos < data.length := by omega
        simp only [he, if_false, Nat.zero_add]
        have : data[pos]? = some data[pos] := by simp [hlt]
        simp only [this, runCtx]
        have := ih (pos + 1) (by omega)
        simp [this]
    | bytes n =>
      simp only [ctxRun, FlatSrc.run, ctxStep, FlatSrc.step, readBytes, runCtx]
      have h1 : ¬ (data.length < pos) := by omega
      simp only [h1, if_false]
      by_cases hn : n > data.length - pos
      · simp [hn]; exact ih pos hp
      · simp only [hn, if_false, Nat.zero_add]
        have h2 : ¬ (pos + n > data.length) := by omega
        simp only [h2, if_false, runCtx]
        have := ih (pos + n) (by omega)
        simp [this]
    | skip n =>
      simp only [ctxRun, FlatSrc.run, ctxStep, FlatSrc.step, skipN, runCtx]
      have h1 : ¬ (data.length < pos) := by omega
      simp only [h1, if_false]
      by_cases hn : n > data.length - pos
      · simp [hn]; exact ih pos hp
      · simp only [hn, if_false, runCtx]
        have := ih (pos + n) (by omega)
        simp [this]

/-- var-ints read the same through the context and through the abstract source (hence through
every input), for every byte string -/
theorem varint_source_independent (b : Bytes) :
    (runCtx readVarU32 (Ctx.new b)).map' (·.1) = (runAbs readVarU32 (AbsSrc.new b)).map' (·.1) ∨
    ∃ w, runAbs readVarU32 (AbsSrc.new b) = .panic w := by
  have := refine readVarU32 (Ctx.new b) (Ctx.new_Inv b)
  rw [absCtx_new] at this
  cases h1 : runCtx readVarU32 (Ctx.new b) with
  | ok r1 =>
    obtain ⟨a, c⟩ := r1
    cases h2 : runAbs readVarU32 (AbsSrc.new b) with
    | ok r2 => obtain ⟨a', s⟩ := r2; rw [h1, h2] at this; simp only [Sim] at this; left; simp [Outcome.map', this.1]
    | err e => rw [h1, h2] at this; simp [Sim] at this
    | panic w => right; exact ⟨w, rfl⟩
  | err e =>
    cases h2 : runAbs readVarU32 (AbsSrc.new b) with
    | ok r2 => obtain ⟨a', s⟩ := r2; rw [h1, h2] at this; simp [Sim] at this
    | err e' => rw [h1, h2] at this; simp only [Sim] at this; left; simp [Outcome.map', this]
    | panic w => right; exact ⟨w, rfl⟩
  | panic w =>
    cases h2 : runAbs readVarU32 (AbsSrc.new b) with
    | ok r2 => obtain ⟨a', s⟩ := r2; rw [h1, h2] at this; simp [Sim] at this
    | err e' => rw [h1, h2] at this; simp [Sim] at this
    | panic w' => right; exact ⟨w', rfl⟩

end C15
