import Desert.Lemmas.BitsBV
import Desert.Lemmas.VarInt
import Desert.Lemmas.BitsTie
import Desert.Lemmas.ReadTie
import Std.Tactic.BVDecide
/-!
# C11 — variable-length integers: total bijection with minimal length

Theorems about the bit-exact transcription (`Desert/Bits.lean`), for all 2^32 values at once, and
about the Nat-level ladder that the codec layer uses (`Desert/Num.lean`). The two layers are tied by
theorems, not only by the run: `layers_agree_u32` / `layers_agree_i32` — the shift-and-mask writers
produce, byte for byte, what the arithmetic ladder produces, for all 2^32 values — and
`layers_agree_read`: the two readers agree on every byte string. The bit-level
theorems use `bv_decide` (axioms `*._native.bv_decide.ax_*`, listed by the audit).
-/

set_option linter.unusedSimpArgs false

namespace C11

/-- read(write(v) ++ s) = (v, s) for every u32 and every following data -/
theorem varU32_roundtrip (v : BitVec 32) (s : List (BitVec 8)) :
    Bits.readVarU32 (Bits.writeVarU32 v ++ s) = some (v, s) := by
  unfold Bits.writeVarU32
  split
  · rename_i h
    rw [List.cons_append, List.nil_append, Bits.read1 _ _ (by unfold Bits.lo8; bv_decide)]
    simp only [Option.some.injEq, Prod.mk.injEq, and_true]; unfold Bits.up32 Bits.lo8; bv_decide
  · split
    · rename_i h0 h
      simp only [List.cons_append, List.nil_append]
      rw [Bits.read2 _ _ _ (by unfold Bits.lo8; bv_decide) (by unfold Bits.lo8; bv_decide)]
      simp only [Option.some.injEq, Prod.mk.injEq, and_true]; unfold Bits.up32 Bits.lo8; bv_decide
    · split
      · rename_i h0 h1 h
        simp only [List.cons_append, List.nil_append]
        rw [Bits.read3 _ _ _ _ (by unfold Bits.lo8; bv_decide) (by unfold Bits.lo8; bv_decide) (by unfold Bits.lo8; bv_decide)]
        simp only [Option.some.injEq, Prod.mk.injEq, and_true]; unfold Bits.up32 Bits.lo8; bv_decide
      · split
        · rename_i h0 h1 h2 h
          simp only [List.cons_append, List.nil_append]
          rw [Bits.read4 _ _ _ _ _ (by unfold Bits.lo8; bv_decide) (by unfold Bits.lo8; bv_decide) (by unfold Bits.lo8; bv_decide)
            (by unfold Bits.lo8; bv_decide)]
          simp only [Option.some.injEq, Prod.mk.injEq, and_true]; unfold Bits.up32 Bits.lo8; bv_decide
        · rename_i h0 h1 h2 h3
          simp only [List.cons_append, List.nil_append]
          rw [Bits.read5 _ _ _ _ _ _ (by unfold Bits.lo8; bv_decide) (by unfold Bits.lo8; bv_decide) (by unfold Bits.lo8; bv_decide)
            (by unfold Bits.lo8; bv_decide)]
          simp only [Option.some.injEq, Prod.mk.injEq, and_true]; unfold Bits.up32 Bits.lo8; bv_decide

/-- zig-zag and its inverse are mutually inverse on all of `BitVec 32` -/
theorem zigzag_bijective (v : BitVec 32) : Bits.unzigzag (Bits.zigzag v) = v ∧ Bits.zigzag (Bits.unzigzag v) = v := by
  unfold Bits.unzigzag Bits.zigzag; constructor <;> bv_decide

/-- read(write(v) ++ s) = (v, s) for every i32 -/
theorem varI32_roundtrip (v : BitVec 32) (s : List (BitVec 8)) :
    Bits.readVarI32 (Bits.writeVarI32 v ++ s) = some (v, s) := by
  unfold Bits.readVarI32 Bits.writeVarI32
  rw [varU32_roundtrip]
  simp [(zigzag_bijective v).1]

/-- the encoding has the minimal number of 7-bit groups: `k` bytes iff `v < 2^(7k)` and (for
`k > 1`) `v ≥ 2^(7(k-1))`; always between 1 and 5 -/
theorem varU32_length (v : BitVec 32) :
    (Bits.writeVarU32 v).length =
      (if v.toNat < 2 ^ 7 then 1 else if v.toNat < 2 ^ 14 then 2 else if v.toNat < 2 ^ 21 then 3
       else if v.toNat < 2 ^ 28 then 4 else 5) := by
  have s7 : (v >>> 7 = 0) ↔ v.toNat < 2 ^ 7 := by
    rw [← BitVec.toNat_inj]; simp [BitVec.toNat_ushiftRight, Nat.shiftRight_eq_div_pow]
  have s14 : (v >>> 14 = 0) ↔ v.toNat < 2 ^ 14 := by
    rw [← BitVec.toNat_inj]; simp [BitVec.toNat_ushiftRight, Nat.shiftRight_eq_div_pow]
  have s21 : (v >>> 21 = 0) ↔ v.toNat < 2 ^ 21 := by
    rw [← BitVec.toNat_inj]; simp [BitVec.toNat_ushiftRight, Nat.shiftRight_eq_div_pow]
  have s28 : (v >>> 28 = 0) ↔ v.toNat < 2 ^ 28 := by
    rw [← BitVec.toNat_inj]; simp [BitVec.toNat_ushiftRight, Nat.shiftRight_eq_div_pow]
  unfold Bits.writeVarU32
  simp only [s7, s14, s21, s28]
  repeat (split <;> try simp)

theorem varU32_length_bounds (v : BitVec 32) : 1 ≤ (Bits.writeVarU32 v).length ∧ (Bits.writeVarU32 v).length ≤ 5 := by
  rw [varU32_length]; repeat (split <;> try omega)

/-- small magnitudes of either sign stay short: `-64 ≤ v < 64` is one byte, `-8192 ≤ v < 8192` at most two -/
theorem varI32_small_short (v : BitVec 32) :
    ((-64 : Int) ≤ v.toInt ∧ v.toInt < 64 → (Bits.writeVarI32 v).length = 1) ∧
    ((-8192 : Int) ≤ v.toInt ∧ v.toInt < 8192 → (Bits.writeVarI32 v).length ≤ 2) := by
  have hz1 : ((-64 : Int) ≤ v.toInt ∧ v.toInt < 64) → Bits.zigzag v >>> 7 = 0 := by
    intro ⟨h1, h2⟩
    have a : (-64#32).sle v := by simp [BitVec.sle]; simpa using h1
    have b : v.slt 64#32 := by simp [BitVec.slt]; simpa using h2
    unfold Bits.zigzag; bv_decide
  have hz2 : ((-8192 : Int) ≤ v.toInt ∧ v.toInt < 8192) → Bits.zigzag v >>> 14 = 0 := by
    intro ⟨h1, h2⟩
    have a : (-8192#32).sle v := by simp [BitVec.sle]; simpa using h1
    have b : v.slt 8192#32 := by simp [BitVec.slt]; simpa using h2
    unfold Bits.zigzag; bv_decide
  constructor
  · intro h; unfold Bits.writeVarI32 Bits.writeVarU32; simp [hz1 h]
  · intro h; unfold Bits.writeVarI32 Bits.writeVarU32; simp only [hz2 h]; split <;> simp

/-- every byte but the last has the continuation bit set, the last has it clear -/
theorem varU32_continuation (v : BitVec 32) :
    (∀ b ∈ (Bits.writeVarU32 v).dropLast, b &&& 0x80 = 0x80) ∧
    (∀ b, (Bits.writeVarU32 v).getLast? = some b → b &&& 0x80 = 0) := by
  unfold Bits.writeVarU32
  split
  · rename_i h; simp; bv_decide
  · split
    · rename_i h0 h; simp; constructor <;> bv_decide
    · split
      · rename_i h0 h1 h; simp; refine ⟨⟨?_, ?_⟩, ?_⟩ <;> bv_decide
      · split
        · rename_i h0 h1 h2 h; simp; refine ⟨⟨?_, ?_, ?_⟩, ?_⟩ <;> bv_decide
        · rename_i h0 h1 h2 h3; simp; refine ⟨⟨?_, ?_, ?_, ?_⟩, ?_⟩ <;> bv_decide

/-- the Nat-level ladder used by the codec layer reads back through the operation-tree reader
(any source state whose view starts with the encoding), consuming exactly the encoding -/
theorem spec_varU32_roundtrip {n : Nat} (hn : n < 2 ^ 32) (s : AbsSrc) (t : Bytes)
    (h : s.view = uv n ++ t) : runAbs readVarU32 s = .ok (n, s.adv (uv n).length) :=
  run_readVarU32 hn h

theorem spec_varI32_roundtrip {i : Int} (hi : inI32 i) (s : AbsSrc) (t : Bytes)
    (h : s.view = zz i ++ t) : runAbs readVarI32 s = .ok (i, s.adv (zz i).length) :=
  run_readVarI32 hi h

theorem spec_zigzag_bijective (i : Int) (r : Nat) : unzigzag (zigzag i) = i ∧ zigzag (unzigzag r) = r :=
  ⟨unzigzag_zigzag i, zigzag_unzigzag r⟩

theorem spec_uv_length (n : Nat) : 1 ≤ (uv n).length ∧ (uv n).length ≤ 5 :=
  ⟨uv_length_pos n, uv_length_le n⟩

/-- non-vacuity: a concrete five-byte value through both layers -/
example : Bits.readVarU32 (Bits.writeVarU32 0xFFFFFFFF#32 ++ [7#8]) = some (0xFFFFFFFF#32, [7#8]) := by decide
example : Bits.writeVarI32 (-1#32) = [1#8] := by decide

/-- the bit-exact writer and the codec model's ladder write the same bytes, for every `u32` -/
theorem layers_agree_u32 (x : BitVec 32) : (Bits.writeVarU32 x).map (·.toNat) = (uv x.toNat).map (·.toNat) :=
  writeVarU32_eq_uv x

/-- the same for `i32`: bit-level zig-zag and var-int = arithmetic zig-zag and ladder on the signed value -/
theorem layers_agree_i32 (x : BitVec 32) : (Bits.writeVarI32 x).map (·.toNat) = (zz x.toInt).map (·.toNat) :=
  writeVarI32_eq_zz x

/-- the bit-level reader and the operation-tree reader of the codec model agree on **every** byte
string: same value, same end-of-input error, same number of bytes consumed -/
theorem layers_agree_read (bs : List (BitVec 8)) (s : AbsSrc) (hw : s.WF) (hv : s.view = toBytes bs) :
    runAbs readVarU32 s = match Bits.readVarU32 bs with
      | none => .err .inputEnded
      | some (x, rest) => .ok (x.toNat, s.after (bs.length - rest.length) s.strs) := by
  rw [run_readVarU32_list s hw, hv, ← readers_agree bs]
  cases Bits.readVarU32 bs with
  | none => rfl
  | some p => simp [toBytes]

end C11
