import Desert.Lemmas.PanicFree
import Desert.Lemmas.Misc
/-!
# C16 — compressed blocks round-trip and are correctly framed (partial: deflate is a parameter)

`Codec` carries the real deflate / inflate as parameters; the only thing assumed of them is the
hypothesis `hrt : ∀ l d, inflate (deflate l d) = some d` of the theorems that need it (never an
axiom). Not modelled: that miniz_oxide's inflate is total, panic-free and allocation-proportional
on damaged streams — exercised by the `frame` family (bit flips, header rewrites, truncations,
counting allocator), not proved.
-/
set_option linter.unusedVariables false
set_option linter.unusedSimpArgs false

namespace C16

/-- the frame records the true lengths: var-int uncompressed length, var-int compressed length, payload -/
theorem frame_layout (C : Codec) (level : Nat) (d : Bytes) (h1 : d.length < 2 ^ 32) (h2 : (C.deflate level d).length < 2 ^ 32) :
    writeCompressed C level d = uv d.length ++ uv (C.deflate level d).length ++ C.deflate level d := by
  simp [writeCompressed, Nat.mod_eq_of_lt h1, Nat.mod_eq_of_lt h2]

/-- read(write(d) ++ t) = d, consuming exactly the frame: what follows is untouched -/
theorem frame_roundtrip (C : Codec) (hrt : ∀ l d, C.inflate (C.deflate l d) = some d) (level : Nat) (d : Bytes)
    (h1 : d.length < 2 ^ 32) (h2 : (C.deflate level d).length < 2 ^ 32)
    (s : AbsSrc) (t : Bytes) (hw : s.WF) (hv : s.view = writeCompressed C level d ++ t) :
    runAbs (readCompressed C) s = .ok ((d, min d.length 65536), s.after (writeCompressed C level d).length s.strs) := by
  rw [frame_layout C level d h1 h2] at hv ⊢
  have hv0 : s.view = uv d.length ++ (uv (C.deflate level d).length ++ (C.deflate level d ++ t)) := by simpa using hv
  simp only [readCompressed, bind_eq_dbind, pure_eq_ret]
  rw [readVarU32_bind h1 _ hv0]
  have hw1 := WF_after hw hv0 s.strs
  have hv1 := view_after_append hv0 s.strs
  rw [readVarU32_bind h2 _ hv1]
  have hw2 := WF_after hw1 hv1 s.strs
  have hv2 := view_after_append hv1 s.strs
  simp only [after_strs] at hw2 hv2 ⊢
  rw [readBytes_bind hw2 _ hv2]
  simp [hrt, runAbs, Nat.add_assoc]

/-- a truncated frame is never read as a block -/
theorem frame_truncated (C : Codec) (hrt : ∀ l d, C.inflate (C.deflate l d) = some d) (level : Nat) (d : Bytes)
    (h1 : d.length < 2 ^ 32) (h2 : (C.deflate level d).length < 2 ^ 32) (k : Nat)
    (hk : k < (writeCompressed C level d).length) :
    ∀ a s', runAbs (readCompressed C) (AbsSrc.new ((writeCompressed C level d).take k)) ≠ .ok (a, s') := by
  intro a s' hok
  have hext := run_extends_top (readCompressed C) _ ((writeCompressed C level d).drop k) a s' hok
  rw [List.take_append_drop] at hext
  have hrt' := frame_roundtrip C hrt level d h1 h2 (AbsSrc.new (writeCompressed C level d)) [] (WF_new _)
    (by simp [view_new])
  rw [hrt'] at hext
  have hwf := run_AllWF (readCompressed C) _ a s' (AllWF_new _) hok
  simp only [Outcome.ok.injEq, Prod.mk.injEq] at hext
  obtain ⟨_, hs⟩ := hext
  unfold AbsSrc.ext at hs
  cases hst : s'.stack with
  | nil =>
    simp only [hst] at hs
    have hpos : s'.cur.pos = (writeCompressed C level d).length := by
      have := congrArg (fun x => x.cur.pos) hs; simpa [AbsSrc.after, AbsSrc.new] using this.symm
    have hwin : s'.cur.window ++ (writeCompressed C level d).drop k = writeCompressed C level d := by
      have := congrArg (fun x => x.cur.window) hs; simpa [AbsSrc.after, AbsSrc.new] using this.symm
    have hlen : s'.cur.window.length + ((writeCompressed C level d).length - k) = (writeCompressed C level d).length := by
      have := congrArg List.length hwin; simpa using this
    have := hwf.1
    omega
  | cons w ws =>
    simp only [hst] at hs
    have := congrArg (fun x => x.stack) hs
    simp [AbsSrc.after, AbsSrc.new] at this
    cases ws <;> simp [extStack] at this

/-- the reservation made before inflating never exceeds 64 KiB, whatever the header claims -/
theorem frame_alloc_bound (C : Codec) (s : AbsSrc) (d : Bytes) (cap : Nat) (s' : AbsSrc)
    (h : runAbs (readCompressed C) s = .ok ((d, cap), s')) : cap ≤ 65536 := by
  simp only [readCompressed, bind_eq_dbind, pure_eq_ret] at h
  rw [runAbs_bind] at h
  cases h1 : runAbs readVarU32 s with
  | ok r1 =>
    obtain ⟨ulen, s1⟩ := r1
    rw [h1] at h; simp only [Outcome.bindS_ok] at h
    rw [runAbs_bind] at h
    cases h2 : runAbs readVarU32 s1 with
    | ok r2 =>
      obtain ⟨clen, s2⟩ := r2
      rw [h2] at h; simp only [Outcome.bindS_ok] at h
      rw [runAbs_bind] at h
      cases h3 : runAbs (readBytes clen) s2 with
      | ok r3 =>
        obtain ⟨z, s3⟩ := r3
        rw [h3] at h; simp only [Outcome.bindS_ok] at h
        cases hi : C.inflate z with
        | some dd => simp [hi, runAbs] at h; rw [← h.1.2]; exact Nat.min_le_right _ _
        | none => simp [hi, runAbs] at h
      | err e => rw [h3] at h; simp at h
      | panic w => rw [h3] at h; simp at h
    | err e => rw [h2] at h; simp at h
    | panic w => rw [h2] at h; simp at h
  | err e => rw [h1] at h; simp at h
  | panic w => rw [h1] at h; simp at h

/-- no frame, damaged or not, makes the frame reader panic (given a total inflate) -/
theorem frame_never_panics (C : Codec) (s : AbsSrc) : ∀ w, runAbs (readCompressed C) s ≠ .panic w := by
  apply panicFree_run
  unfold readCompressed
  simp only [bind_eq_dbind, pure_eq_ret]
  refine panicFree_bind _ _ panicFree_readVarU32 fun ulen => ?_
  refine panicFree_bind _ _ panicFree_readVarU32 fun clen => ?_
  refine panicFree_bind _ _ (panicFree_readBytes clen) fun z => ?_
  cases C.inflate z <;> simp [PanicFree]

end C16
