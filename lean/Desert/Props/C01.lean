import Desert.Lemmas.RoundTripFull
import Desert.Lemmas.Misc
/-!
# C01 — round-trip fidelity of every built-in codec, at any nesting

`Ty` is the deep embedding of the built-in codec vocabulary; the theorems quantify over *every*
type expression and value (no depth bound) by induction, for an arbitrary continuation `t`
(consumption, C07) and an arbitrary shared string table.

Modelled, not proved here (DESIGN §7): the conversions between chrono / BigDecimal / BigInt objects
and the field tuples on the wire (the tuples themselves: `leaf_description_roundtrip`, family `leaves`); hash iteration order; UTF-8 validity of Rust `String`s is the
hypothesis `v.utf8OK`. Fuel: `dec env fuel ty` is the decoder with nesting budget `fuel`; the
statements hold for every budget above the value's nesting depth, and `depth_le_length` shows
`|input| + 1` (what `decodeTop` uses) is such a budget.
-/
set_option linter.unusedVariables false

namespace C01

/-- every leaf codec: decode (encode v ++ t) = (v, t), at any source state -/
theorem prim_roundtrip (p : Prim) (v : Val) (st : EncSt) (b : Bytes) (st' : EncSt)
    (he : encPrim p v st = .ok (b, st')) (hu : v.utf8OK) (hst : StOK st)
    (s : AbsSrc) (t : Bytes) (hw : s.WF) (hv : s.view = b ++ t) (hs : s.strs = st) :
    runAbs (decPrim p) s = .ok (v, s.after b.length st') :=
  (rt_prim p v st b st' he hu hst s t hw hv hs).1

/-- every type expression over the built-in vocabulary (no declarations in the environment),
every value that encodes, every continuation `t`, frame style at any source state -/
theorem builtin_roundtrip_frame (ty : Ty) (v : Val) (st : EncSt) (b : Bytes) (st' : EncSt) (fuel : Nat)
    (he : enc [] ty v st = .ok (b, st')) (hu : v.utf8OK) (hst : StOK st) (hd : v.depth < fuel)
    (s : AbsSrc) (t : Bytes) (hw : s.WF) (hv : s.view = b ++ t) (hs : s.strs = st) :
    runAbs (dec [] fuel ty) s = .ok (v, s.after b.length st') := by
  have := ((rt_wf [] EnvWF_nil v).1 ty st b st' fuel he hu hst hd s t hw hv hs).1
  rwa [(normalize_nil v).1 ty] at this

/-- top level, through the abstract source: `deserialize(serialize(v) ++ t) = v`, with exactly `t` left -/
theorem builtin_roundtrip (ty : Ty) (v : Val) (b : Bytes) (st' : EncSt)
    (he : enc [] ty v [] = .ok (b, st')) (hu : v.utf8OK) (t : Bytes) :
    ∃ s', decodeAbs [] ty (b ++ t) = .ok (v, s') ∧ s'.view = t ∧ s'.cur.pos = b.length := by
  have hd : v.depth < (b ++ t).length + 1 := by
    have := (depth_le_length [] EnvV0_nil NoTransient_nil v).1 ty [] b st' he
    simp; omega
  have h := builtin_roundtrip_frame ty v [] b st' _ he hu (by simp [StOK]) hd (AbsSrc.new (b ++ t)) t
    (WF_new _) (view_new _) rfl
  refine ⟨_, h, ?_, ?_⟩
  · exact view_after_append (view_new _) _
  · simp [AbsSrc.after, AbsSrc.new]

/-- the same through the faithful transcription of `DeserializationContext` (what the driver runs
and the harness compares with the real code) -/
theorem builtin_roundtrip_faithful (ty : Ty) (v : Val) (b : Bytes) (st' : EncSt)
    (he : enc [] ty v [] = .ok (b, st')) (hu : v.utf8OK) (t : Bytes) :
    ∃ c', decodeTop [] ty (b ++ t) = .ok (v, c') ∧ c'.cur.pos = b.length := by
  obtain ⟨s', hs', _, hpos⟩ := builtin_roundtrip ty v b st' he hu t
  have hsim := refine (dec [] ((b ++ t).length + 1) ty) (Ctx.new (b ++ t)) (Ctx.new_Inv _)
  rw [absCtx_new] at hsim
  unfold decodeAbs at hs'
  unfold decodeTop
  rw [hs'] at hsim
  cases hr : runCtx (dec [] ((b ++ t).length + 1) ty) (Ctx.new (b ++ t)) with
  | ok r =>
    obtain ⟨a, c'⟩ := r
    rw [hr] at hsim
    simp only [Sim] at hsim
    obtain ⟨rfl, _, _, habs⟩ := hsim
    refine ⟨c', rfl, ?_⟩
    have : (absCtx c').cur.pos = s'.cur.pos := by rw [habs]
    simpa [absCtx, win, hpos] using this
  | err e => rw [hr] at hsim; simp [Sim] at hsim
  | panic w => rw [hr] at hsim; simp [Sim] at hsim

/-- the chrono / big-number leaves are written as fixed sequences of primitives (`Lemmas/Leaves.lean`: their wire
descriptions as model tuple types; the `leaves` family holds the real codecs against them). A description's
encoding is the tuple's version byte 0 followed by the leaf's bytes `body`, and decoding `0 :: body ++ t` gives
the components back, leaving exactly `t`: the round trip of the leaf's *layout*, for every component value.
What stays outside the model is the library's map between objects and components (DESIGN §7). -/
theorem leaf_description_roundtrip (fs : Ty) (v : Val) (b : Bytes) (st' : EncSt)
    (he : enc [] (.tuple fs) v [] = .ok (b, st')) (hu : v.utf8OK) (t : Bytes) :
    ∃ body, b = 0 :: body ∧
      ∃ s', decodeAbs [] (.tuple fs) (0 :: (body ++ t)) = .ok (v, s') ∧ s'.view = t ∧ s'.cur.pos = body.length + 1 := by
  cases v with
  | list items =>
    have hb : ∃ b0, b = 0 :: b0 := by
      simp only [enc] at he
      cases hx : encTupleFields [] fs items [] with
      | ok r => obtain ⟨b0, st0⟩ := r; simp [hx] at he; exact ⟨b0, he.1.symm⟩
      | err e => simp [hx] at he
      | panic w => simp [hx] at he
    obtain ⟨b0, rfl⟩ := hb
    obtain ⟨s', h1, h2, h3⟩ := builtin_roundtrip (.tuple fs) (.list items) (0 :: b0) st' he hu t
    exact ⟨b0, rfl, s', by simpa using h1, h2, by simpa using h3⟩
  | _ => simp [enc, illTyped] at he
/-! non-vacuity: concrete nested values meet the hypotheses -/
example : ∃ b st', enc [] (.option (.seq (.tuple (.fcons (.prim (.int 1 false)) (.fcons (.prim .bool) .fnil)))))
    (.some (.list (.vcons (.list (.vcons (.int 5) (.vcons (.bool true) .vnil))) .vnil))) [] = .ok (b, st') :=
  ⟨[1, 2, 0, 5, 1], [], by decide⟩

end C01
