import Desert.Own
import Desert.Lemmas.Run
/-!
# C19 — memory safety of the safe public API (partial)

Two mechanisms.

*Lifetime discipline of the reference table* (`Desert/Own.lean`): with a signature that bounds the
stored object's lifetime by the table's, no accepted program ever obtains a reference to a dead
object (`reftable_sound_if_bounded`); with the signature as declared in `state.rs` there is an
accepted program that does (`reftable_unsound_as_declared`, a concrete witness by evaluation).
The second theorem *holds of the pinned code*: that is the recorded finding D13; the `witness`
family compiles the corresponding safe-Rust program under `#![forbid(unsafe_code)]`.

*Initialisation accounting of the decoders*: every byte array handed out by the reference decoder
is a slice of the input window of exactly the requested length; fixed-size arrays are built from
exactly N decoded elements (`C06.decKnown_length`, `C06.array_exact_known`).

Not reachable by this technique: rustc's type system for arbitrary client programs (the machine
abstracts it to the lifetime edge of `store_ref`), and undefined behaviour after the fact.
-/
set_option linter.unusedVariables false
set_option linter.unusedSimpArgs false

namespace C19

/-- bytes handed out by a read are exactly a slice of the current input window: nothing
uninitialised, nothing foreign -/
theorem bytes_from_input_only (n : Nat) (s : AbsSrc) (bs : Bytes) (s' : AbsSrc)
    (h : runAbs (readBytes n) s = .ok (bs, s')) :
    bs = (s.cur.window.drop s.cur.pos).take n ∧ bs.length = n ∧ s.cur.pos + n ≤ s.cur.window.length := by
  simp only [readBytes, runAbs] at h
  split at h
  · rename_i hl
    simp at h
    refine ⟨h.1.symm, ?_, hl⟩
    rw [← h.1]; simp [List.length_take, List.length_drop]; omega
  · simp at h

/-- the same for a single byte -/
theorem byte_from_input_only (s : AbsSrc) (b : Byte) (s' : AbsSrc) (h : runAbs readU8 s = .ok (b, s')) :
    s.cur.window[s.cur.pos]? = some b := by
  simp only [readU8, runAbs] at h
  split at h
  · rename_i b' hb; simp at h; rw [← h.1]; exact hb
  · simp at h

/-- with the declared signature (no lifetime bound on `store_ref`) a program accepted by the
discipline reaches a dead object: alloc in an inner scope, store, leave the scope, look up id 1 -/
theorem reftable_unsound_as_declared :
    runOwn false OwnSt.start [.enter, .alloc, .storeRef 0, .leave, .getRef 1] = .deadRead := by decide

/-- the same program is rejected under a signature that bounds the stored object by the table -/
theorem witness_rejected_if_bounded :
    runOwn true OwnSt.start [.enter, .alloc, .storeRef 0, .leave, .getRef 1] = .rejected := by decide

/-- a well-scoped use is accepted and safe under both disciplines -/
theorem good_program_safe :
    runOwn true OwnSt.start [.alloc, .storeRef 0, .enter, .alloc, .leave, .getRef 1] = .safe ∧
    runOwn false OwnSt.start [.alloc, .storeRef 0, .enter, .alloc, .leave, .getRef 1] = .safe := by decide

/-- under the bounded discipline no program ever produces a reference to a dead object -/
theorem reftable_sound_if_bounded : ∀ (prog : List Act) (s : OwnSt), s.Good → runOwn true s prog ≠ .deadRead := by
  intro prog
  induction prog with
  | nil => intro s _; simp [runOwn]
  | cons a rest ih =>
    intro s hg
    obtain ⟨h1, h2, h3⟩ := hg
    cases a with
    | enter =>
      simp only [runOwn]
      apply ih
      refine ⟨by simp; omega, h2, ?_⟩
      intro o d a ho
      rcases h3 o d a ho with h | h
      · left; simp; omega
      · right; exact h
    | alloc =>
      simp only [runOwn]
      apply ih
      refine ⟨h1, ?_, ?_⟩
      · intro o ho
        obtain ⟨d, hd, hle⟩ := h2 o ho
        refine ⟨d, ?_, by simpa using hle⟩
        have hlt : o < s.objs.length := by
          rcases Nat.lt_or_ge o s.objs.length with h | h
          · exact h
          · simp [List.getElem?_eq_none h] at hd
        simp [List.getElem?_append_left hlt, hd]
      · intro o d a ho
        rcases Nat.lt_or_ge o s.objs.length with hlt | hge
        · rw [List.getElem?_append_left hlt] at ho; exact h3 o d a ho
        · rw [List.getElem?_append_right hge] at ho
          cases hk : o - s.objs.length with
          | zero => simp [hk] at ho; left; simp; omega
          | succ k => simp [hk] at ho
    | storeRef o =>
      simp only [runOwn]
      cases ho : s.objs[o]? with
      | none => simp
      | some p =>
        obtain ⟨d, alive⟩ := p
        simp only
        cases alive with
        | false => simp
        | true =>
          simp only [Bool.not_true, Bool.false_eq_true, if_false, Bool.true_and, decide_eq_true_eq]
          split
          · simp
          · rename_i hnb
            apply ih
            refine ⟨h1, ?_, h3⟩
            intro o' ho'
            simp at ho'
            rcases ho' with ho' | rfl
            · exact h2 o' ho'
            · exact ⟨d, ho, by simp at hnb ⊢; omega⟩
    | getRef id =>
      simp only [runOwn]
      split
      · simp
      · cases ht : s.table[id - 1]? with
        | none => exact ih s ⟨h1, h2, h3⟩
        | some o =>
          simp only
          obtain ⟨d, hd, _⟩ := h2 o (List.mem_of_getElem? ht)
          simp only [hd]
          exact ih s ⟨h1, h2, h3⟩
    | leave =>
      simp only [runOwn]
      split
      · simp
      · split
        · simp
        · rename_i hd0 hts
          apply ih
          refine ⟨by simp; omega, ?_, ?_⟩
          · intro o ho
            obtain ⟨d, hd, hle⟩ := h2 o ho
            refine ⟨d, ?_, by simpa using hle⟩
            simp [List.getElem?_map, hd]
            omega
          · intro o d a ho
            simp only [List.getElem?_map] at ho
            cases hx : s.objs[o]? with
            | none => simp [hx] at ho
            | some p =>
              obtain ⟨d', a'⟩ := p
              simp [hx] at ho
              obtain ⟨rfl, rfl⟩ := ho
              by_cases hlt : d' < s.depth
              · left; simp; omega
              · right; simp [hlt]

/-- from the initial state -/
theorem reftable_sound_if_bounded_start (prog : List Act) : runOwn true OwnSt.start prog ≠ .deadRead :=
  reftable_sound_if_bounded prog OwnSt.start ⟨by simp [OwnSt.start], by simp [OwnSt.start], by simp [OwnSt.start]⟩

end C19
