import Desert.Lemmas.TotalDec
import Desert.Lemmas.Misc
/-!
# C06 — the decoder never invents content

The strict reference decoder of this property is `runAbs (dec …)`: the operation-tree decoder run
over plain list windows, where a pushed chunk *is* the sub-list `(window.drop start).take len` and
nothing outside it can be read. `refine` (for every program, by induction on the operation tree)
shows that the transcription of `DeserializationContext`'s region arithmetic agrees with it, so a
value accepted through the real region arithmetic is the value the reference assigns.
-/
set_option linter.unusedVariables false

namespace C06

/-- whatever the faithful context returns, the reference decoder returns too (or stops with an
abstract panic: a region that escapes its window, an unbalanced pop, or exhausted fuel) -/
theorem decode_honest {α : Type} (p : DProg α) (c : Ctx) (hc : c.Inv) (a : α) (c' : Ctx)
    (h : runCtx p c = .ok (a, c')) :
    runAbs p (absCtx c) = .ok (a, absCtx c') ∨ ∃ w, runAbs p (absCtx c) = .panic w := by
  have hsim := refine p c hc
  rw [h] at hsim
  cases hr : runAbs p (absCtx c) with
  | ok r => obtain ⟨a', s'⟩ := r; rw [hr] at hsim; simp only [Sim] at hsim
            obtain ⟨rfl, _, _, rfl⟩ := hsim; exact Or.inl rfl
  | err e => rw [hr] at hsim; simp [Sim] at hsim
  | panic w => exact Or.inr ⟨w, rfl⟩

/-- top level: `deserialize(b) = Ok(v)` through the context implies the reference decodes `b` to `v` -/
theorem decode_honest_top (env : Env) (ty : Ty) (b : Bytes) (v : Val) (c' : Ctx)
    (h : decodeTop env ty b = .ok (v, c')) :
    (∃ s', decodeAbs env ty b = .ok (v, s')) ∨ ∃ w, decodeAbs env ty b = .panic w := by
  unfold decodeTop at h
  unfold decodeAbs
  have := decode_honest _ _ (Ctx.new_Inv b) v c' h
  rw [absCtx_new] at this
  rcases this with h | h
  · exact Or.inl ⟨_, h⟩
  · exact Or.inr h

/-- errors agree as well: the faithful context reports exactly the reference's error -/
theorem errors_agree {α : Type} (p : DProg α) (c : Ctx) (hc : c.Inv) (e : Err)
    (h : runCtx p c = .err e) :
    runAbs p (absCtx c) = .err e ∨ ∃ w, runAbs p (absCtx c) = .panic w := by
  have hsim := refine p c hc
  rw [h] at hsim
  cases hr : runAbs p (absCtx c) with
  | ok r => obtain ⟨a', s'⟩ := r; rw [hr] at hsim; simp [Sim] at hsim
  | err e' => rw [hr] at hsim; simp only [Sim] at hsim; subst hsim; exact Or.inl rfl
  | panic w => exact Or.inr ⟨w, rfl⟩

/-- a chunk region pushed by the reference decoder is a sub-list of the enclosing window: a field can
only be read from the bytes of its own chunk -/
theorem chunk_confinement (s : AbsSrc) (r : Region) (k : Unit → DProg α) (a : α) (s' : AbsSrc)
    (h : runAbs (.push r k) s = .ok (a, s')) :
    r.end_ ≤ s.cur.window.length ∧
    runAbs (k ()) { s with cur := { off := r.start, window := (s.cur.window.drop r.start).take (r.end_ - r.start), pos := r.pos },
                           stack := s.cur :: s.stack } = .ok (a, s') := by
  simp only [runAbs] at h
  split at h
  · rename_i hg; exact ⟨hg.2.1, h⟩
  · simp at h

/-- `KnownSize` yields exactly the stored count -/
theorem decKnown_length (d : DProg Val) : ∀ (n : Nat) (s : AbsSrc) (vs : List Val) (s' : AbsSrc),
    runAbs (decKnown d n) s = .ok (vs, s') → vs.length = n := by
  intro n
  induction n with
  | zero => intro s vs s' h; simp [decKnown, runAbs] at h; simp [h.1.symm]
  | succ n ih =>
    intro s vs s' h
    simp only [decKnown, bind_eq_dbind, pure_eq_ret] at h
    rw [runAbs_bind] at h
    cases h1 : runAbs d s with
    | ok r =>
      obtain ⟨v, s1⟩ := r
      rw [h1] at h; simp only [Outcome.bindS_ok] at h
      rw [runAbs_bind] at h
      cases h2 : runAbs (decKnown d n) s1 with
      | ok r2 =>
        obtain ⟨vs2, s2⟩ := r2
        rw [h2] at h; simp [runAbs] at h
        have := ih s1 vs2 s2 h2
        simp [← h.1, this]
      | err e => rw [h2] at h; simp at h
      | panic w => rw [h2] at h; simp at h
    | err e => rw [h1] at h; simp at h
    | panic w => rw [h1] at h; simp at h

/-- a fixed-size array is produced only from exactly that many elements (known-length form) -/
theorem array_exact_known (fuel : Nat) (d : DProg Val) (L : Nat) (n : Int) (hn : 0 ≤ n) (s : AbsSrc) (t : Bytes)
    (hi : inI32 n) (hv : s.view = zz n ++ t) (vs : List Val) (s' : AbsSrc)
    (h : runAbs (decArray fuel d L) s = .ok (vs, s')) : n.toNat = L ∧ vs.length = L := by
  simp only [decArray, bind_eq_dbind, pure_eq_ret] at h
  rw [readVarI32_bind hi _ hv] at h
  have h1 : ¬ (n = -1) := by omega
  have h2 : ¬ (n < 0) := by omega
  simp only [h1, h2, if_false] at h
  split at h
  · rw [runAbs_bind] at h
    cases hk : runAbs (decKnown d n.toNat) (s.after (zz n).length s.strs) with
    | ok r =>
      obtain ⟨vs2, s2⟩ := r
      rw [hk] at h; simp only [Outcome.bindS_ok] at h
      split at h
      · rename_i heq
        simp [runAbs] at h
        have := decKnown_length d _ _ _ _ hk
        exact ⟨heq, by rw [← h.1, this, heq]⟩
      · simp [runAbs] at h
    | err e => rw [hk] at h; simp at h
    | panic w => rw [hk] at h; simp at h
  · rw [runAbs_bind] at h
    cases hk : runAbs (decKnown d (L + 1)) (s.after (zz n).length s.strs) with
    | ok r => obtain ⟨vs2, s2⟩ := r; rw [hk] at h; simp [runAbs] at h
    | err e => rw [hk] at h; simp at h
    | panic w => rw [hk] at h; simp at h


/-- with a decodable environment the alternative "abstract panic" of `decode_honest_top` does not
exist (`decodeAbs_total`): whatever the faithful context accepts, the reference decodes to the same value -/
theorem decode_honest_total (env : Env) (henv : envDecOKb env = true) (ty : Ty) (hty : tyOKb env ty = true)
    (b : Bytes) (v : Val) (c' : Ctx) (h : decodeTop env ty b = .ok (v, c')) :
    ∃ s', decodeAbs env ty b = .ok (v, s') := by
  rcases decode_honest_top env ty b v c' h with h | ⟨w, hw⟩
  · exact h
  · exact absurd hw (decodeAbs_total env henv ty hty b w)

/-- … and errors agree exactly -/
theorem errors_agree_total (env : Env) (henv : envDecOKb env = true) (ty : Ty) (hty : tyOKb env ty = true)
    (b : Bytes) (e : Err) (h : decodeTop env ty b = .err e) : decodeAbs env ty b = .err e := by
  unfold decodeTop at h
  rcases errors_agree _ _ (Ctx.new_Inv b) e h with h' | ⟨w, hw⟩
  · rw [absCtx_new] at h'; exact h'
  · rw [absCtx_new] at hw; exact absurd hw (decodeAbs_total env henv ty hty b w)


end C06
