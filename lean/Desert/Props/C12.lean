import Desert.Lemmas.RoundTripFull
import Desert.Lemmas.AltFormLemmas
/-!
# C12 — sequence encodings are container-independent and size-form-independent

In the model every sequence container shares `encItems` / `decSeq` (the harness maps `Vec`, slices,
`LinkedList`, sets, and maps-as-pairs to the one `seq` type); that this is true of the *code* is
what the `altform` and `ty` families check (every source container × every target container).
-/
set_option linter.unusedVariables false
set_option linter.unusedSimpArgs false

namespace C12

/-- an array and a sequence of the same elements have the same bytes -/
theorem array_bytes_eq_seq (env : Env) (n : Nat) (t : Ty) (items : Val) (st : EncSt) (h : items.chainLength = n) :
    enc env (.array n t) (.list items) st = enc env (.seq t) (.list items) st := by
  simp [enc, h]

/-- the encoding of a sequence depends only on its elements: count, then the items -/
theorem seq_layout (env : Env) (t : Ty) (items : Val) (st : EncSt) (b : Bytes) (st' : EncSt)
    (he : enc env (.seq t) (.list items) st = .ok (b, st')) :
    ∃ body, encItems env t items st = .ok (body, st') ∧ b = zz items.chainLength ++ body := by
  simp only [enc] at he
  split at he
  · cases hi : encItems env t items st with
    | ok r => obtain ⟨b0, st0⟩ := r; simp [hi] at he; exact ⟨b0, by rw [he.2], he.1.symm⟩
    | err e => simp [hi] at he
    | panic w => simp [hi] at he
  · simp at he

/-- what a sequence wrote can be read as an array of matching length -/
theorem seq_read_as_array (env : Env) (henv : EnvWF env) (t : Ty) (items : Val) (b : Bytes) (st' : EncSt) (fuel : Nat)
    (he : enc env (.seq t) (.list items) [] = .ok (b, st')) (hu : items.utf8OK) (hd : items.depth + 1 < fuel) (tl : Bytes) :
    ∃ s', runAbs (dec env fuel (.array items.chainLength t)) (AbsSrc.new (b ++ tl))
        = .ok (.list (normItems env t items), s') ∧ s'.view = tl := by
  have he' : enc env (.array items.chainLength t) (.list items) [] = .ok (b, st') := by
    rw [array_bytes_eq_seq env _ t items [] rfl]; exact he
  have := ((rt_wf env henv (.list items)).1 _ [] b st' fuel he' (by simpa [Val.utf8OK] using hu) (by simp [StOK])
    (by simpa [Val.depth] using hd) (AbsSrc.new (b ++ tl)) tl (WF_new _) (view_new _) rfl).1
  exact ⟨_, by simpa [normalize] using this, view_after_append (view_new _) _⟩

/-- an array of the wrong length is rejected: a stored count different from `L` never yields an array -/
theorem array_wrong_length_rejected (env : Env) (t : Ty) (L : Nat) (n : Int) (hn : 0 ≤ n) (hi : inI32 n) (hne : n.toNat ≠ L)
    (fuel : Nat) (s : AbsSrc) (tl : Bytes) (hv : s.view = zz n ++ tl) :
    ∀ v s', runAbs (dec env fuel (.array L t)) s ≠ .ok (v, s') := by
  intro v s' h
  simp only [dec, decTy, bind_eq_dbind, pure_eq_ret] at h
  rw [runAbs_bind] at h
  cases hk : runAbs (decArray fuel (decTy fuel (decNamed env fuel) t) L) s with
  | ok r =>
    obtain ⟨vs, s1⟩ := r
    simp only [decArray, bind_eq_dbind, pure_eq_ret] at hk
    rw [readVarI32_bind hi _ hv] at hk
    have h1 : ¬ (n = -1) := by omega
    have h2 : ¬ (n < 0) := by omega
    simp only [h1, h2, if_false] at hk
    split at hk
    · rw [runAbs_bind] at hk
      cases hq : runAbs (decKnown (decTy fuel (decNamed env fuel) t) n.toNat) (s.after (zz n).length s.strs) with
      | ok r2 => obtain ⟨vs2, s2⟩ := r2; rw [hq] at hk; simp [hne, runAbs] at hk
      | err e => rw [hq] at hk; simp at hk
      | panic w => rw [hq] at hk; simp at hk
    · rw [runAbs_bind] at hk
      cases hq : runAbs (decKnown (decTy fuel (decNamed env fuel) t) (L + 1)) (s.after (zz n).length s.strs) with
      | ok r2 => obtain ⟨vs2, s2⟩ := r2; rw [hq] at hk; simp [runAbs] at hk
      | err e => rw [hq] at hk; simp at hk
      | panic w => rw [hq] at hk; simp at hk
  | err e => rw [hk] at h; simp at h
  | panic w => rw [hk] at h; simp at h

/-- the unknown-length form (marker, flagged items, terminator) decodes to exactly the elements
the known-length form denotes -/
theorem unknown_form_equiv (env : Env) (henv : EnvWF env) (t : Ty) (items : Val) (bk bu : Bytes) (stk stu : EncSt)
    (fuel : Nat) (hk : enc env (.seq t) (.list items) [] = .ok (bk, stk))
    (hu' : encSeqUnknown env t items [] = .ok (bu, stu)) (hu : items.utf8OK)
    (hd : items.depth + 1 < fuel) (hl : items.chainLength < fuel) (tl : Bytes) :
    ∃ s1 s2, runAbs (dec env fuel (.seq t)) (AbsSrc.new (bk ++ tl)) = .ok (.list (normItems env t items), s1) ∧
             runAbs (dec env fuel (.seq t)) (AbsSrc.new (bu ++ tl)) = .ok (.list (normItems env t items), s2) ∧
             s1.view = tl ∧ s2.view = tl := by
  have h1 := ((rt_wf env henv (.list items)).1 _ [] bk stk fuel hk (by simpa [Val.utf8OK] using hu) (by simp [StOK])
    (by simpa [Val.depth] using hd) (AbsSrc.new (bk ++ tl)) tl (WF_new _) (view_new _) rfl).1
  have h2 := rt_seq_unknown env henv t items [] bu stu fuel hu' hu (by simp [StOK]) (by omega) hl
    (AbsSrc.new (bu ++ tl)) tl (WF_new _) (view_new _) rfl
  exact ⟨_, _, by simpa [normalize] using h1, h2, view_after_append (view_new _) _, view_after_append (view_new _) _⟩

end C12
