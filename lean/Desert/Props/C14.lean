import Desert.Lemmas.RoundTripFull
import Desert.Lemmas.Transient
import Desert.Lemmas.EnumLemmas
/-!
# C14 — transient fields and constructors never reach the wire
-/
set_option linter.unusedVariables false
set_option linter.unusedSimpArgs false

namespace C14

/-- the encoder never looks at a transient field: replacing every transient field by its default
changes neither the bytes nor the writer's string table — for *every* environment, with or
without evolution steps -/
theorem transient_field_no_bytes (env : Env) (ty : Ty) (v : Val) (st : EncSt) :
    enc env ty (normalize env ty v) st = enc env ty v st :=
  (enc_normalize env v).1 ty st

/-- hence two values that agree after their transient fields are reset encode identically -/
theorem transient_values_irrelevant (env : Env) (ty : Ty) (v v' : Val) (st : EncSt)
    (h : normalize env ty v = normalize env ty v') : enc env ty v st = enc env ty v' st := by
  rw [← transient_field_no_bytes env ty v st, ← transient_field_no_bytes env ty v' st, h]

/-- decoding sets every transient field to its declared default (any well-formed declarations):
the decoded value is `normalize v`, whose transient fields hold the defaults -/
theorem transient_field_default (env : Env) (henv : EnvWF env) (ty : Ty) (v : Val) (b : Bytes) (st' : EncSt)
    (fuel : Nat) (he : enc env ty v [] = .ok (b, st')) (hu : v.utf8OK) (hd : v.depth < fuel) (t : Bytes) :
    ∃ s', runAbs (dec env fuel ty) (AbsSrc.new (b ++ t)) = .ok (normalize env ty v, s') :=
  ⟨_, ((rt_wf env henv v).1 ty [] b st' fuel he hu (by simp [StOK]) hd (AbsSrc.new (b ++ t)) t
    (WF_new _) (view_new _) rfl).1⟩

/-- `normalize` really puts the default into a transient field -/
theorem normalize_sets_default (env : Env) (f : Field) (fs : List Field) (x rest : Val) (d : Val)
    (hr : f.role = .transient) (hd : f.default = some d) :
    normFields env (f :: fs) (.vcons x rest) = .vcons d (normFields env fs rest) := by
  simp [normFields, hr, hd]

/-- encoding a value of a transient constructor fails with the dedicated error -/
theorem transient_ctor_write (env : Env) (id n : String) (srt : Bool) (cs : List Ctor) (idx w : Nat) (c : Ctor)
    (fields : Val) (st : EncSt) (hfind : env.find id = some (.enum n srt cs))
    (hfc : findCtorWire (wireCtors srt cs) idx = some (w, c)) (htr : c.transient = true) :
    enc env (.named id) (.ctor idx fields) st = .err (.serTransientCtor n c.name) := by
  rw [enc_enum_unfold env id n srt cs idx fields st hfind]
  simp [hfc, htr]

/-- `AdtSerializer::new`: every step that is written in the removed form gets its name serialized
up front; in particular a `FieldMadeOptional(f)` whose field was later removed or made transient -/
theorem preNames_covers (removed : List String) : ∀ (steps : List Step) (st : EncSt) (pre : List (Option Bytes)) (st' : EncSt),
    preNames steps removed st = .ok (pre, st') →
    pre.length = steps.length ∧
    ∀ (i : Nat) (n : String), steps[i]? = some (Step.madeOptional n) → n ∈ removed → ∃ b, pre[i]? = some (some b) := by
  intro steps
  induction steps with
  | nil => intro st pre st' h; simp [preNames] at h; obtain ⟨rfl, _⟩ := h; simp
  | cons s rest ih =>
    intro st pre st' h
    simp only [preNames] at h
    split at h
    · rename_i hn
      cases hr : preNames rest removed st with
      | ok p =>
        obtain ⟨l, st1⟩ := p
        simp [hr] at h
        obtain ⟨rfl, rfl⟩ := h
        have := ih st l st1 hr
        refine ⟨by simp [this.1], ?_⟩
        intro i n hi hm
        cases i with
        | zero =>
          simp at hi; subst hi
          simp [hm] at hn
        | succ k => simpa using this.2 k n (by simpa using hi) hm
      | err e => simp [hr] at h
      | panic w => simp [hr] at h
    · rename_i nm hn
      cases hd : encDString (nameBytes nm) st with
      | ok p0 =>
        obtain ⟨b0, st0⟩ := p0
        rw [hd] at h
        simp only [Outcome.bind_ok] at h
        cases hr : preNames rest removed st0 with
        | ok p =>
          obtain ⟨l, st1⟩ := p
          simp [hr] at h
          obtain ⟨rfl, rfl⟩ := h
          have := ih st0 l st1 hr
          refine ⟨by simp [this.1], ?_⟩
          intro i n hi hm
          cases i with
          | zero => exact ⟨b0, by simp⟩
          | succ k => simpa using this.2 k n (by simpa using hi) hm
        | err e => simp [hr] at h
        | panic w => simp [hr] at h
      | err e => rw [hd] at h; simp at h
      | panic w => rw [hd] at h; simp at h

/-- a header step with a pre-serialized name is always written in the removed form and cannot
fail with `UnknownFieldReferenceInEvolutionStep`: a record whose field was made optional and
later made transient (or removed) stays encodable -/
theorem made_transient_encodable (fs : List EncField) (k : Nat) (s : Step) (b : Bytes) :
    headerStep fs k s (some b) = .ok (zz (-2) ++ b) := by
  simp [headerStep]

/-- `removed_fields` of the metadata contains made-transient names as well as removed ones -/
theorem removedNames_transient (steps : List Step) (n : String) (h : Step.madeTransient n ∈ steps) :
    n ∈ removedNames steps := by
  simp only [removedNames, List.mem_filterMap]
  exact ⟨_, h, rfl⟩

end C14
