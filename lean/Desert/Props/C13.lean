import Desert.Lemmas.RoundTripFull
import Desert.Lemmas.EnumLemmas
/-!
# C13 — enum constructors keep their identity; unknown ones are errors
-/
set_option linter.unusedVariables false
set_option linter.unusedSimpArgs false

namespace C13

/-- without `#[sorted_constructors]` the wire index is the position in declaration order -/
theorem ctor_index_decl_order (cs : List Ctor) (i : Nat) (c : Ctor) (h : cs[i]? = some c) :
    (wireCtors false cs)[i]? = some (i, c) := by
  have hi : i < cs.length := by
    rcases Nat.lt_or_ge i cs.length with h' | h'
    · exact h'
    · simp [List.getElem?_eq_none h'] at h
  have hc : cs[i] = c := by simpa [List.getElem?_eq_getElem hi] using h
  simp [wireCtors, indexCtors, List.getElem?_zip_eq_some, h, hi, hc]

/-- with `#[sorted_constructors]` the table is a rearrangement of the declared constructors:
same length, every entry a declared constructor paired with its declaration position -/
theorem ctor_index_sorted_perm (cs : List Ctor) :
    (wireCtors true cs).length = cs.length ∧ ∀ x ∈ wireCtors true cs, cs[x.1]? = some x.2 := by
  refine ⟨length_wireCtors true cs, ?_⟩
  intro x hx
  have hz : x ∈ indexCtors cs := by
    simp only [wireCtors, if_true] at hx; exact mem_sortIdxCtors hx
  obtain ⟨a, b⟩ := x
  unfold indexCtors at hz
  obtain ⟨k, hk⟩ := List.getElem?_of_mem hz
  rw [List.getElem?_zip_eq_some] at hk
  obtain ⟨h1, h2⟩ := hk
  have hk' : k < cs.length := by
    rcases Nat.lt_or_ge k cs.length with h' | h'
    · exact h'
    · simp [List.getElem?_eq_none h'] at h2
  simp [List.getElem?_range hk'] at h1
  subst h1; exact h2

/-- the sort puts names in order: inserting keeps an ordered table ordered (adjacent pairs) on a
concrete table; the general statement is exercised by the `decl` family (CaseSorted, TransCtorSorted, …) -/
example : (wireCtors true [⟨"Id", false, ⟨"Id", [], []⟩⟩, ⟨"IO", false, ⟨"IO", [], []⟩⟩, ⟨"HTTP", false, ⟨"HTTP", [], []⟩⟩,
      ⟨"aa", false, ⟨"aa", [], []⟩⟩]).map (fun x => (x.1, x.2.name))
    = [(2, "HTTP"), (1, "IO"), (0, "Id"), (3, "aa")] := by decide

/-- an enum value is: version byte 0, the constructor's wire index as an unsigned var-int, then
the constructor's own record -/
theorem enum_bytes_head (env : Env) (id n : String) (srt : Bool) (cs : List Ctor) (idx : Nat) (fields : Val)
    (st : EncSt) (b : Bytes) (st' : EncSt) (hfind : env.find id = some (.enum n srt cs))
    (he : enc env (.named id) (.ctor idx fields) st = .ok (b, st')) :
    ∃ w c body, findCtorWire (wireCtors srt cs) idx = some (w, c) ∧ (wireCtors srt cs)[w]? = some (idx, c) ∧
      c.transient = false ∧ b = 0 :: (uv w ++ body) := by
  rw [enc_enum_unfold env id n srt cs idx fields st hfind] at he
  cases hfc : findCtorWire (wireCtors srt cs) idx with
  | none => simp [hfc, illTyped] at he
  | some wc =>
    obtain ⟨w, c⟩ := wc
    simp only [hfc] at he
    split at he
    · simp at he
    · rename_i htr
      cases h1 : recordPre c.decl st with
      | ok p1 =>
        obtain ⟨pre, st1⟩ := p1
        simp only [h1, Outcome.bind_ok] at he
        cases h2 : encFields env c.decl.steps c.decl.fields fields st1 with
        | ok p2 =>
          obtain ⟨fs, st2⟩ := p2
          simp only [h2, Outcome.bind_ok] at he
          cases h3 : recordFinish c.decl pre fs with
          | ok body =>
            simp [h3] at he
            exact ⟨w, c, body, rfl, findCtorWire_get hfc, by simpa using htr, he.1.symm⟩
          | err e => simp [h3] at he
          | panic w' => simp [h3] at he
        | err e => simp [h2] at he
        | panic w' => simp [h2] at he
      | err e => simp [h1] at he
      | panic w' => simp [h1] at he

/-- an index the reading definition does not know is `InvalidConstructorId` (not a panic) -/
theorem enum_out_of_range (env : Env) (fuel : Nat) (id n : String) (srt : Bool) (cs : List Ctor)
    (hfind : env.find id = some (.enum n srt cs)) (w : Nat) (hw : w < 2 ^ 32) (hout : cs.length ≤ w)
    (s : AbsSrc) (rest : Bytes) (hv : s.view = 0 :: (uv w ++ rest)) :
    runAbs (dec env (fuel + 1) (.named id)) s = .err (.invalidCtorId w n) := by
  simp only [dec, decTy, decNamed, hfind]
  rw [readEnum_head _ n srt cs w hw s rest hv]
  have : (wireCtors srt cs)[w]? = none := by
    apply List.getElem?_eq_none; rw [length_wireCtors]; exact hout
  simp [this]

/-- an index that denotes a transient constructor is `DeserializingTransientConstructor` -/
theorem enum_transient_read (env : Env) (fuel : Nat) (id n : String) (srt : Bool) (cs : List Ctor)
    (hfind : env.find id = some (.enum n srt cs)) (w : Nat) (hw : w < 2 ^ 32) (i : Nat) (c : Ctor)
    (hget : (wireCtors srt cs)[w]? = some (i, c)) (htr : c.transient = true)
    (s : AbsSrc) (rest : Bytes) (hv : s.view = 0 :: (uv w ++ rest)) :
    runAbs (dec env (fuel + 1) (.named id)) s = .err (.deserTransientCtor n c.name) := by
  simp only [dec, decTy, decNamed, hfind]
  rw [readEnum_head _ n srt cs w hw s rest hv]
  simp [hget, htr]

/-- writing a transient constructor fails with the dedicated error naming type and constructor -/
theorem enum_transient_write (env : Env) (id n : String) (srt : Bool) (cs : List Ctor) (idx w : Nat) (c : Ctor)
    (fields : Val) (st : EncSt) (hfind : env.find id = some (.enum n srt cs))
    (hfc : findCtorWire (wireCtors srt cs) idx = some (w, c)) (htr : c.transient = true) :
    enc env (.named id) (.ctor idx fields) st = .err (.serTransientCtor n c.name) := by
  rw [enc_enum_unfold env id n srt cs idx fields st hfind]
  simp [hfc, htr]

/-- extension: if the extended definition has the same constructor at the same wire index,
previously written data decodes to that constructor with the same fields (variants may carry evolution steps) -/
theorem enum_extension (env : Env) (henv : EnvWF env) (id id' n n' : String) (srt srt' : Bool) (cs cs' : List Ctor)
    (hfind : env.find id = some (.enum n srt cs)) (hfind' : env.find id' = some (.enum n' srt' cs'))
    (idx idx' w : Nat) (c : Ctor)
    (hfc : findCtorWire (wireCtors srt cs) idx = some (w, c))
    (hfc' : findCtorWire (wireCtors srt' cs') idx' = some (w, c))
    (fields : Val) (b : Bytes) (st' : EncSt) (fuel : Nat)
    (he : enc env (.named id) (.ctor idx fields) [] = .ok (b, st'))
    (hu : fields.utf8OK) (hd : fields.depth + 1 < fuel) (t : Bytes) :
    ∃ s', runAbs (dec env fuel (.named id')) (AbsSrc.new (b ++ t))
        = .ok (.ctor idx' (normFields env c.decl.fields fields), s') ∧ s'.view = t := by
  have he' : enc env (.named id') (.ctor idx' fields) [] = .ok (b, st') := by
    rw [enc_enum_unfold env id n srt cs idx fields [] hfind] at he
    rw [enc_enum_unfold env id' n' srt' cs' idx' fields [] hfind']
    simp only [hfc] at he
    simp only [hfc']
    split at he
    · simp at he
    · rename_i htr; simp only [htr]; exact he
  have := ((rt_wf env henv (.ctor idx' fields)).1 (.named id') [] b st' fuel he' (by simpa [Val.utf8OK] using hu)
    (by simp [StOK]) (by simpa [Val.depth] using hd) (AbsSrc.new (b ++ t)) t (WF_new _) (view_new _) rfl).1
  refine ⟨(AbsSrc.new (b ++ t)).after b.length st', ?_, view_after_append (view_new (b ++ t)) st'⟩
  rw [this]
  simp [normalize, hfind', hfc']


theorem insertIdxCtor_mem {c x : Nat × Ctor} : ∀ {l : List (Nat × Ctor)}, x ∈ insertIdxCtor c l → x = c ∨ x ∈ l := by
  intro l
  induction l with
  | nil => intro h; simp [insertIdxCtor] at h; exact Or.inl h
  | cons d ds ih =>
    intro h
    simp only [insertIdxCtor] at h
    split at h
    · simp at h; rcases h with h | h | h
      · exact Or.inl h
      · exact Or.inr (by simp [h])
      · exact Or.inr (by simp [h])
    · simp at h; rcases h with h | h
      · exact Or.inr (by simp [h])
      · rcases ih h with h' | h'
        · exact Or.inl h'
        · exact Or.inr (by simp [h'])

theorem insertIdxCtor_sorted (c : Nat × Ctor) : ∀ (l : List (Nat × Ctor)),
    l.Pairwise (fun a b => a.2.name ≤ b.2.name) → (insertIdxCtor c l).Pairwise (fun a b => a.2.name ≤ b.2.name) := by
  intro l
  induction l with
  | nil => intro _; simp [insertIdxCtor]
  | cons d ds ih =>
    intro h
    rw [List.pairwise_cons] at h
    simp only [insertIdxCtor]
    split
    · rename_i hlt
      have hcd : c.2.name ≤ d.2.name := by
        rcases String.le_total c.2.name d.2.name with h' | h'
        · exact h'
        · exact absurd hlt (String.not_lt.mpr h')
      rw [List.pairwise_cons]
      refine ⟨?_, List.pairwise_cons.mpr h⟩
      intro x hx
      simp at hx
      rcases hx with rfl | hx
      · exact hcd
      · exact String.le_trans hcd (h.1 x hx)
    · rename_i hnlt
      have hdc : d.2.name ≤ c.2.name := String.not_lt.mp hnlt
      rw [List.pairwise_cons]
      refine ⟨?_, ih h.2⟩
      intro x hx
      rcases insertIdxCtor_mem hx with rfl | hx'
      · exact hdc
      · exact h.1 x hx'

/-- `#[sorted_constructors]`: the wire order is ascending in the constructor names (the order of
Rust's `String`: lexicographic by scalar value = by UTF-8 bytes) -/
theorem sorted_ctors_ascending (cs : List Ctor) : (wireCtors true cs).Pairwise (fun a b => a.2.name ≤ b.2.name) := by
  simp only [wireCtors, if_true]
  generalize indexCtors cs = l
  induction l with
  | nil => simp [sortIdxCtors]
  | cons c rest ih => simp only [sortIdxCtors]; exact insertIdxCtor_sorted c _ ih


end C13
