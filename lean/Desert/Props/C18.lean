import Desert.Lazy
/-!
# C18 — calls are isolated and deterministic, also across threads (partial)

Theorems about the once-cell state machine (`Desert/Lazy.lean`) over *all* schedules and histories.
The memory-model correctness of `std::sync::Once` / `lazy_static` and of hash-map reads after
publication is trusted; the `threads` family contends first use of every generated type from 16
real threads and compares every result with the single-threaded result, a fresh process and the model.
-/
set_option linter.unusedVariables false
set_option linter.unusedSimpArgs false

namespace C18

theorem inv_init {M : Type} (mdOf : Nat → M) (n : Nat) : (Proc.init M n).Inv mdOf := by
  intro i m h
  simp [Proc.init, List.getElem?_replicate] at h

/-- the invariant is preserved by every enabled step, whatever thread takes it -/
theorem inv_step {M : Type} (mdOf : Nat → M) (p p' : Proc M) (e : Ev) (obs : Option M)
    (hinv : p.Inv mdOf) (h : p.step mdOf e = some (p', obs)) : p'.Inv mdOf := by
  cases e with
  | begin t i =>
    simp only [Proc.step] at h
    split at h
    · simp at h; obtain ⟨rfl, _⟩ := h
      intro j m hj
      by_cases hij : i = j
      · subst hij; simp [List.getElem?_set] at hj
      · rw [List.getElem?_set_ne hij] at hj; exact hinv j m hj
    · simp at h
  | finish t i =>
    simp only [Proc.step] at h
    split at h
    · split at h
      · simp at h; obtain ⟨rfl, _⟩ := h
        intro j m hj
        by_cases hij : i = j
        · subst hij; simp [List.getElem?_set] at hj; exact hj.2.symm
        · rw [List.getElem?_set_ne hij] at hj; exact hinv j m hj
      · simp at h
    · simp at h
  | call t i =>
    simp only [Proc.step] at h
    split at h
    · simp at h; obtain ⟨rfl, _⟩ := h; exact hinv
    · simp at h

/-- whatever a call observes is the metadata of its declaration -/
theorem call_observes_meta {M : Type} (mdOf : Nat → M) (p p' : Proc M) (t i : Nat) (m : M)
    (hinv : p.Inv mdOf) (h : p.step mdOf (.call t i) = some (p', some m)) : m = mdOf i := by
  simp only [Proc.step] at h
  split at h
  · rename_i m' hc; simp at h; rw [← h.2]; exact hinv i m' hc
  · simp at h

/-- schedule and history independence: in *every* interleaving of any number of threads, from any
reachable process state, every call on type `i` observes `mdOf i` -/
theorem schedule_independent {M : Type} (mdOf : Nat → M) : ∀ (sched : List Ev) (p p' : Proc M) (obs : List (Nat × M)),
    p.Inv mdOf → Proc.run mdOf p sched = some (p', obs) → (∀ x ∈ obs, x.2 = mdOf x.1) ∧ p'.Inv mdOf := by
  intro sched
  induction sched with
  | nil => intro p p' obs hinv h; simp [Proc.run] at h; obtain ⟨rfl, rfl⟩ := h; exact ⟨by simp, hinv⟩
  | cons e rest ih =>
    intro p p' obs hinv h
    simp only [Proc.run] at h
    cases hs : p.step mdOf e with
    | none => simp [hs] at h
    | some r =>
      obtain ⟨p1, o⟩ := r
      simp only [hs] at h
      have hinv1 := inv_step mdOf p p1 e o hinv hs
      cases hr : Proc.run mdOf p1 rest with
      | none => simp [hr] at h
      | some r2 =>
        obtain ⟨p2, l⟩ := r2
        simp only [hr] at h
        have := ih p1 p2 l hinv1 hr
        cases e with
        | call t i =>
          cases o with
          | some m =>
            simp at h; obtain ⟨rfl, rfl⟩ := h
            refine ⟨?_, this.2⟩
            intro x hx
            simp at hx
            rcases hx with rfl | hx
            · exact call_observes_meta mdOf p p1 t i m hinv hs
            · exact this.1 x hx
          | none => simp at h; obtain ⟨rfl, rfl⟩ := h; exact this
        | begin t i => simp at h; obtain ⟨rfl, rfl⟩ := h; exact this
        | finish t i => simp at h; obtain ⟨rfl, rfl⟩ := h; exact this

/-- from a fresh process: every call result in every schedule equals the result of the same call
run alone -/
theorem fresh_process_independent {M : Type} (mdOf : Nat → M) (n : Nat) (sched : List Ev) (p' : Proc M) (obs : List (Nat × M))
    (h : Proc.run mdOf (Proc.init M n) sched = some (p', obs)) : ∀ x ∈ obs, x.2 = mdOf x.1 :=
  (schedule_independent mdOf sched _ p' obs (inv_init mdOf n) h).1

/-- at most one thread initialises a cell: a second `begin` on the same cell is not enabled -/
theorem single_initialiser {M : Type} (mdOf : Nat → M) (p p1 : Proc M) (t t' i : Nat) (o : Option M)
    (h : p.step mdOf (.begin t i) = some (p1, o)) : p1.step mdOf (.begin t' i) = none := by
  simp only [Proc.step] at h
  split at h
  · rename_i hc
    simp at h; obtain ⟨rfl, _⟩ := h
    have hi : i < p.cells.length := by
      rcases Nat.lt_or_ge i p.cells.length with h' | h'
      · exact h'
      · simp [List.getElem?_eq_none h'] at hc
    simp [Proc.step, List.getElem?_set, hi]
  · simp at h

/-- string numbering restarts with each call: a top-level encode starts from the empty table, so
its result is a function of (declarations, type, value) only — encoding the same value again gives
the same bytes -/
theorem reencode_same_bytes (envOf : Nat → Env) (i : Nat) (ty : Ty) (v : Val) :
    callEncode envOf i ty v = encodeTop (envOf i) ty v ∧
    (∀ st', enc (envOf i) ty v [] = .ok ([], st') → callEncode envOf i ty v = .ok []) := by
  refine ⟨rfl, ?_⟩
  intro st' h
  simp [callEncode, encodeTop, h]

end C18
