import Desert.Lemmas.EnumLemmas
import Desert.Lemmas.EncTotal
/-!
# C17 — encoding never panics: unsupported values are reported as errors

The encoder model carries the explicit panic points of the Rust writer: `illTyped` stands for a
value that does not inhabit the Rust type at all (what the Rust type checker excludes),
`> 254 steps` for `AdtMetadata::new`'s documented panic, and the `i32` string-id counter.

Proved: `encode_never_panics` — for every environment within the documented limit of 255 versions
per declaration (`envStepsOKb`), every type and **every well-typed value** (`hasTy`,
Desert/Typing.lean), with any string table, the encoder returns bytes or an error; the single
panic it can still reach is the overflow of the string-id counter after 2^31 - 1 distinct
deduplicated strings in one stream (`overflow_needs_full_table`; more than 2 GiB of input).
The "unreachable" header branches (removed / transient step without a pre-serialised name) are
shown unreachable (`preNames_covers'`). Plus the error table for the documented failure causes and
"no bytes on failure" for the top-level entry point. The `ty` / `decl` / `chars` / `limits`
families run every generated value under `catch_unwind` and compare the error variant.
-/
set_option linter.unusedVariables false
set_option linter.unusedSimpArgs false

namespace C17

/-- characters outside the 16-bit range are reported, not written -/
theorem char_outside_bmp (n : Int) (st : EncSt) (h1 : 0x10000 ≤ n) (h2 : n < 0x110000) :
    encPrim .char (.int n) st = .err .unsupportedCharacter := by
  simp only [encPrim]
  have : ¬ (n < 0 ∨ n ≥ 0x110000 ∨ (0xD800 ≤ n ∧ n < 0xE000)) := by omega
  simp only [this, if_false]
  have : ¬ (n < 0x10000) := by omega
  simp [this]

/-- every character of the 16-bit range (surrogates are not `char`s) encodes -/
theorem char_in_bmp (n : Int) (st : EncSt) (h0 : 0 ≤ n) (h1 : n < 0x10000) (h2 : ¬ (0xD800 ≤ n ∧ n < 0xE000)) :
    encPrim .char (.int n) st = .ok (beBytes 2 n.toNat, st) := by
  simp only [encPrim]
  have : ¬ (n < 0 ∨ n ≥ 0x110000 ∨ (0xD800 ≤ n ∧ n < 0xE000)) := by omega
  simp [this, h1]

/-- lengths that do not fit the format's 31-bit counts are `LengthTooLarge` -/
theorem string_too_long (bs : Bytes) (st : EncSt) (h : 2 ^ 31 ≤ bs.length) :
    encPrim .string (.str bs) st = .err .lengthTooLarge := by
  have : ¬ (bs.length < 2 ^ 31) := by omega
  simp [encPrim, encString, this]

theorem seq_too_long (env : Env) (t : Ty) (items : Val) (st : EncSt) (h : 2 ^ 31 ≤ items.chainLength) :
    enc env (.seq t) (.list items) st = .err .lengthTooLarge := by
  have : ¬ (items.chainLength < 2 ^ 31) := by omega
  simp [enc, this]

theorem bytes_too_long (bs : Bytes) (st : EncSt) (h : 2 ^ 32 ≤ bs.length) :
    encPrim .bytes (.bytes bs) st = .err .lengthTooLarge := by
  have : ¬ (bs.length < 2 ^ 32) := by omega
  simp [encPrim, this]

/-- a transient constructor is `SerializingTransientConstructor` with both names -/
theorem transient_ctor (env : Env) (id n : String) (srt : Bool) (cs : List Ctor) (idx w : Nat) (c : Ctor)
    (fields : Val) (st : EncSt) (hfind : env.find id = some (.enum n srt cs))
    (hfc : findCtorWire (wireCtors srt cs) idx = some (w, c)) (htr : c.transient = true) :
    enc env (.named id) (.ctor idx fields) st = .err (.serTransientCtor n c.name) := by
  rw [enc_enum_unfold env id n srt cs idx fields st hfind]
  simp [hfc, htr]

/-- evolution metadata that references an unknown field is `UnknownFieldReferenceInEvolutionStep` -/
theorem dangling_made_optional (fs : List EncField) (k : Nat) (n : String) (h : fieldIndex fs n = none) :
    headerStep fs k (.madeOptional n) none = .err (.unknownFieldRef n) := by
  simp [headerStep, h]

/-- an error inside a nested value propagates: nothing is returned for the outer value -/
theorem failure_propagates (env : Env) (t : Ty) (x : Val) (st : EncSt) (e : Err) (h : enc env t x st = .err e) :
    enc env (.option t) (.some x) st = .err e := by
  simp [enc, h]

/-- the top-level entry point returns bytes only on success -/
theorem top_level_no_bytes_on_failure (env : Env) (ty : Ty) (v : Val) (b : Bytes) (h : encodeTop env ty v = .ok b) :
    ∃ st', enc env ty v [] = .ok (b, st') := by
  unfold encodeTop at h
  cases hx : enc env ty v [] with
  | ok r => obtain ⟨b0, st0⟩ := r; simp [hx] at h; exact ⟨st0, by rw [h]⟩
  | err e => simp [hx] at h
  | panic w => simp [hx] at h

/-- no leaf codec panics on a value in its range (fixed-width integers shown; the others are
similar case splits and are exercised by the `ty` family) -/
theorem int_never_panics (w : Nat) (sg : Bool) (n : Int) (st : EncSt) (hr : intInRange w sg n = true) :
    ∃ b, encPrim (.int w sg) (.int n) st = .ok (b, st) := by
  simp [encPrim, hr]

/-- **encoding never panics** on a well-typed value, up to the string-id counter -/
theorem encode_never_panics (env : Env) (henv : envStepsOKb env = true) (ty : Ty) (v : Val) (st : EncSt)
    (hty : hasTy env ty v = true) : ∀ w, enc env ty v st = .panic w → w = "attempt to add with overflow" :=
  (enc_total env henv v).1 ty st hty

/-- the same for the top-level entry point -/
theorem encodeTop_never_panics (env : Env) (henv : envStepsOKb env = true) (ty : Ty) (v : Val)
    (hty : hasTy env ty v = true) : ∀ w, encodeTop env ty v = .panic w → w = "attempt to add with overflow" := by
  intro w h
  unfold encodeTop at h
  cases hx : enc env ty v [] with
  | ok r => simp [hx] at h
  | err e => simp [hx] at h
  | panic w' => simp [hx] at h; subst h; exact encode_never_panics env henv ty v [] hty _ hx

/-- the remaining panic needs a table that already holds 2^31 - 1 strings -/
theorem overflow_needs_full_table (bs : Bytes) (st : EncSt) (w : String) (h : encDString bs st = .panic w) :
    2 ^ 31 - 1 ≤ st.length := by
  unfold encDString at h
  cases hi : indexOf? st bs with
  | some i => simp [hi] at h
  | none =>
    simp only [hi] at h
    by_cases hl : st.length < 2 ^ 31 - 1
    · simp only [hl, if_true] at h
      unfold encString at h
      split at h <;> simp at h
    · omega

/-- non-vacuity: the `Point` value of `derivation.rs` is well-typed in a conforming environment -/
example : envStepsOKb [("Point", .record ⟨"Point", [⟨"x", .prim (.int 4 true), .plain, some (.int 0)⟩,
      ⟨"y", .prim (.int 4 true), .plain, none⟩, ⟨"_cached_str", .option (.prim .string), .transient, some .none⟩],
      [.added "x", .removed "z"]⟩)] = true ∧
    hasTy [("Point", .record ⟨"Point", [⟨"x", .prim (.int 4 true), .plain, some (.int 0)⟩,
      ⟨"y", .prim (.int 4 true), .plain, none⟩, ⟨"_cached_str", .option (.prim .string), .transient, some .none⟩],
      [.added "x", .removed "z"]⟩)] (.named "Point")
      (.list (.vcons (.int 1) (.vcons (.int (-10)) (.vcons .none .vnil)))) = true := by decide

end C17
