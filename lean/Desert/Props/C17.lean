import Desert.Lemmas.EnumLemmas
/-!
# C17 — encoding never panics: unsupported values are reported as errors (partial)

The encoder model carries the explicit panic points of the Rust writer (`illTyped` stands for a
value that does not inhabit the Rust type at all; `> 254 steps` for `AdtMetadata::new`'s documented
panic; the string-id counter). Proved: the error table for the documented failure causes, and that
no leaf codec panics on a value of its type. Not proved: panic-freedom of the composite encoder on
all well-typed values (needs a typing judgement); the `ty` / `decl` families run every generated
value under `catch_unwind`.
-/
set_option linter.unusedVariables false
set_option linter.unusedSimpArgs false

namespace C17

/-- characters outside the 16-bit range are reported, not written -/
theorem char_outside_bmp (n : Int) (st : EncSt) (h1 : 0x10000 ≤ n) (h2 : n < 0x110000) :
    encPrim .char (.int n) st = .err .unsupportedCharacter := by
  simp only [encPrim]
  have : ¬ (n < 0 ∨ n ≥ 0x110000 ∨ (0xD800 ≤ n ∧ n < 0xE000)) := by omega
  simp only [this, if_false]
  have : ¬ (n < 0x10000) := by omega
  simp [this]

/-- every character of the 16-bit range (surrogates are not `char`s) encodes -/
theorem char_in_bmp (n : Int) (st : EncSt) (h0 : 0 ≤ n) (h1 : n < 0x10000) (h2 : ¬ (0xD800 ≤ n ∧ n < 0xE000)) :
    encPrim .char (.int n) st = .ok (beBytes 2 n.toNat, st) := by
  simp only [encPrim]
  have : ¬ (n < 0 ∨ n ≥ 0x110000 ∨ (0xD800 ≤ n ∧ n < 0xE000)) := by omega
  simp [this, h1]

/-- lengths that do not fit the format's 31-bit counts are `LengthTooLarge` -/
theorem string_too_long (bs : Bytes) (st : EncSt) (h : 2 ^ 31 ≤ bs.length) :
    encPrim .string (.str bs) st = .err .lengthTooLarge := by
  have : ¬ (bs.length < 2 ^ 31) := by omega
  simp [encPrim, encString, this]

theorem seq_too_long (env : Env) (t : Ty) (items : Val) (st : EncSt) (h : 2 ^ 31 ≤ items.chainLength) :
    enc env (.seq t) (.list items) st = .err .lengthTooLarge := by
  have : ¬ (items.chainLength < 2 ^ 31) := by omega
  simp [enc, this]

theorem bytes_too_long (bs : Bytes) (st : EncSt) (h : 2 ^ 32 ≤ bs.length) :
    encPrim .bytes (.bytes bs) st = .err .lengthTooLarge := by
  have : ¬ (bs.length < 2 ^ 32) := by omega
  simp [encPrim, this]

/-- a transient constructor is `SerializingTransientConstructor` with both names -/
theorem transient_ctor (env : Env) (id n : String) (srt : Bool) (cs : List Ctor) (idx w : Nat) (c : Ctor)
    (fields : Val) (st : EncSt) (hfind : env.find id = some (.enum n srt cs))
    (hfc : findCtorWire (wireCtors srt cs) idx = some (w, c)) (htr : c.transient = true) :
    enc env (.named id) (.ctor idx fields) st = .err (.serTransientCtor n c.name) := by
  rw [enc_enum_unfold env id n srt cs idx fields st hfind]
  simp [hfc, htr]

/-- evolution metadata that references an unknown field is `UnknownFieldReferenceInEvolutionStep` -/
theorem dangling_made_optional (fs : List EncField) (k : Nat) (n : String) (h : fieldIndex fs n = none) :
    headerStep fs k (.madeOptional n) none = .err (.unknownFieldRef n) := by
  simp [headerStep, h]

/-- an error inside a nested value propagates: nothing is returned for the outer value -/
theorem failure_propagates (env : Env) (t : Ty) (x : Val) (st : EncSt) (e : Err) (h : enc env t x st = .err e) :
    enc env (.option t) (.some x) st = .err e := by
  simp [enc, h]

/-- the top-level entry point returns bytes only on success -/
theorem top_level_no_bytes_on_failure (env : Env) (ty : Ty) (v : Val) (b : Bytes) (h : encodeTop env ty v = .ok b) :
    ∃ st', enc env ty v [] = .ok (b, st') := by
  unfold encodeTop at h
  cases hx : enc env ty v [] with
  | ok r => obtain ⟨b0, st0⟩ := r; simp [hx] at h; exact ⟨st0, by rw [h]⟩
  | err e => simp [hx] at h
  | panic w => simp [hx] at h

/-- no leaf codec panics on a value in its range (fixed-width integers shown; the others are
similar case splits and are exercised by the `ty` family) -/
theorem int_never_panics (w : Nat) (sg : Bool) (n : Int) (st : EncSt) (hr : intInRange w sg n = true) :
    ∃ b, encPrim (.int w sg) (.int n) st = .ok (b, st) := by
  simp [encPrim, hr]

end C17
