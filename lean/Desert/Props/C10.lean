import Desert.Refs
/-!
# C10 — reference tracking preserves sharing, distinctness and first-encounter numbering

Stated over the *sequence of offers* a codec makes during its traversal (any traversal: a graph
walk with cycles, a list, a tree with shared leaves): the writer's tokens are read back as "the
object created at the first offer of the same identity". Two offers resolve to the same decoded
object iff they offered the same original object; the `new` markers are exactly the distinct
objects; ids are first-encounter numbers; an id never introduced is an error. Termination on
cyclic graphs follows because a codec only descends into an object when told `new`, and there are
at most as many `new`s as distinct objects.

What is not a theorem: a specific graph codec (DFS over `Rc<RefCell<Node>>`) and the isomorphism of
the rebuilt pointer graph — checked by the `graph` family (exhaustive small graphs, `Rc::ptr_eq`).
-/
set_option linter.unusedVariables false
set_option linter.unusedSimpArgs false

namespace C10

theorem refIndex_go_some {tbl : List Obj} {o : Obj} {k i : Nat} (h : refIndex.go o tbl k = some i) :
    k ≤ i ∧ tbl[i - k]? = some o ∧ i - k < tbl.length := by
  induction tbl generalizing k with
  | nil => simp [refIndex.go] at h
  | cons x xs ih =>
    simp only [refIndex.go] at h
    split at h
    · rename_i hx; simp at h; subst h; simp [hx]
    · have := ih h
      refine ⟨by omega, ?_, ?_⟩
      · have e : i - k = (i - (k + 1)) + 1 := by omega
        rw [e]; simpa using this.2.1
      · have := this.2.2; simp; omega

theorem refIndex_lt {tbl : RefTable} {o : Obj} {i : Nat} (h : refIndex tbl o = some i) : i < tbl.length := by
  have := refIndex_go_some (k := 0) h; simpa using this.2.2

theorem refIndex_get {tbl : RefTable} {o : Obj} {i : Nat} (h : refIndex tbl o = some i) : tbl[i]? = some o := by
  have := refIndex_go_some (k := 0) h; simpa using this.2.1

/-- round trip of the token stream: the reader resolves every offer to the first-offer index of
the same object (with `created` = size of the shared table) -/
theorem offers_roundtrip : ∀ (os : List Obj) (tbl : RefTable),
    readOffers tbl.length (writeOffers tbl os) = some (firstIndices tbl os) := by
  intro os
  induction os with
  | nil => intro tbl; simp [writeOffers, readOffers, firstIndices]
  | cons o rest ih =>
    intro tbl
    simp only [writeOffers, offer, firstIndices]
    cases hi : refIndex tbl o with
    | some i =>
      have hlt := refIndex_lt hi
      simp only [readOffers]
      have h0 : ¬ (i + 1 = 0) := by omega
      have h1 : i + 1 ≤ tbl.length := by omega
      simp [h0, h1, ih tbl]
    | none =>
      simp only [readOffers, if_true]
      have := ih (tbl ++ [o])
      simp at this
      simp [this]

/-- from the empty table (a fresh stream) -/
theorem offers_roundtrip_fresh (os : List Obj) : readOffers 0 (writeOffers [] os) = some (firstIndices [] os) :=
  offers_roundtrip os []

/-- first offer writes the `new` marker and registers the object under the next id;
every later offer writes only that id -/
theorem first_then_id (tbl : RefTable) (o : Obj) (h : refIndex tbl o = none) :
    offer tbl o = (0, true, tbl ++ [o]) ∧
    (∃ i, refIndex (tbl ++ [o]) o = some i ∧ i = tbl.length ∧ offer (tbl ++ [o]) o = (tbl.length + 1, false, tbl ++ [o])) := by
  refine ⟨by simp [offer, h], ?_⟩
  have key : ∀ (l : List Obj) (k : Nat), refIndex.go o l k = none → refIndex.go o (l ++ [o]) k = some (k + l.length) := by
    intro l
    induction l with
    | nil => intro k _; simp [refIndex.go]
    | cons x xs ih =>
      intro k hk
      simp only [refIndex.go, List.cons_append] at hk ⊢
      split at hk
      · simp at hk
      · rename_i hx; simp only [hx, if_false]; rw [ih (k + 1) hk]; simp; omega
  have := key tbl 0 h
  simp at this
  have this' : refIndex (tbl ++ [o]) o = some tbl.length := this
  exact ⟨tbl.length, this', rfl, by simp [offer, this']⟩

/-- the writer's table after a sequence of offers -/
def resolve : RefTable → List Obj → RefTable
  | tbl, [] => tbl
  | tbl, o :: rest => match refIndex tbl o with
    | some _ => resolve tbl rest
    | none => resolve (tbl ++ [o]) rest

theorem refIndex_go_append {l : List Obj} {o : Obj} {k i : Nat} (xs : List Obj) (h : refIndex.go o l k = some i) :
    refIndex.go o (l ++ xs) k = some i := by
  induction l generalizing k with
  | nil => simp [refIndex.go] at h
  | cons x rest ih =>
    simp only [refIndex.go, List.cons_append] at h ⊢
    split
    · rename_i hx; simp [hx] at h; exact congrArg some h
    · rename_i hx; simp only [hx, if_false] at h; exact ih h

theorem refIndex_append {tbl : RefTable} {o : Obj} {i : Nat} (xs : List Obj) (h : refIndex tbl o = some i) :
    refIndex (tbl ++ xs) o = some i := refIndex_go_append xs h

theorem resolve_extends : ∀ (os : List Obj) (tbl : RefTable), ∃ xs, resolve tbl os = tbl ++ xs := by
  intro os
  induction os with
  | nil => intro tbl; exact ⟨[], by simp [resolve]⟩
  | cons o rest ih =>
    intro tbl
    simp only [resolve]
    split
    · exact ih tbl
    · obtain ⟨xs, hxs⟩ := ih (tbl ++ [o]); exact ⟨o :: xs, by simp [hxs]⟩

theorem refIndex_resolve_stable {tbl : RefTable} {o : Obj} {i : Nat} (os : List Obj) (h : refIndex tbl o = some i) :
    refIndex (resolve tbl os) o = some i := by
  obtain ⟨xs, hxs⟩ := resolve_extends os tbl
  rw [hxs]; exact refIndex_append xs h

theorem refIndex_self_append (tbl : RefTable) (o : Obj) (h : refIndex tbl o = none) :
    refIndex (tbl ++ [o]) o = some tbl.length := by
  have key : ∀ (l : List Obj) (k : Nat), refIndex.go o l k = none → refIndex.go o (l ++ [o]) k = some (k + l.length) := by
    intro l
    induction l with
    | nil => intro k _; simp [refIndex.go]
    | cons x xs ih =>
      intro k hk
      simp only [refIndex.go, List.cons_append] at hk ⊢
      split at hk
      · simp at hk
      · rename_i hx; simp only [hx, if_false]; rw [ih (k + 1) hk]; simp; omega
  have := key tbl 0 h
  simp at this
  exact this

/-- every offer resolves to the index of its object in the final table -/
theorem firstIndices_spec : ∀ (os : List Obj) (tbl : RefTable) (i : Nat) (a : Obj), os[i]? = some a →
    (firstIndices tbl os)[i]? = refIndex (resolve tbl os) a := by
  intro os
  induction os with
  | nil => intro tbl i a h; simp at h
  | cons o rest ih =>
    intro tbl i a h
    simp only [firstIndices, resolve]
    cases hi : refIndex tbl o with
    | some k =>
      simp only
      cases i with
      | zero => simp at h; subst h; simp [refIndex_resolve_stable rest hi]
      | succ j => simpa using ih tbl j a (by simpa using h)
    | none =>
      simp only
      cases i with
      | zero =>
        simp at h; subst h
        simp [refIndex_resolve_stable rest (refIndex_self_append tbl o hi)]
      | succ j => simpa using ih (tbl ++ [o]) j a (by simpa using h)

theorem refIndex_none_of_not_mem {tbl : RefTable} {o : Obj} (h : o ∉ tbl) : refIndex tbl o = none := by
  have key : ∀ (l : List Obj) (k : Nat), o ∉ l → refIndex.go o l k = none := by
    intro l
    induction l with
    | nil => intro k _; simp [refIndex.go]
    | cons x xs ih =>
      intro k hk
      simp only [List.mem_cons, not_or] at hk
      simp only [refIndex.go]
      have : ¬ (x = o) := fun e => hk.1 e.symm
      simp [this, ih (k + 1) hk.2]
  exact key tbl 0 h

theorem mem_resolve_of_offered : ∀ (os : List Obj) (tbl : RefTable) (a : Obj), a ∈ os → ∃ k, refIndex (resolve tbl os) a = some k := by
  intro os
  induction os with
  | nil => intro tbl a h; simp at h
  | cons o rest ih =>
    intro tbl a h
    simp only [resolve]
    rcases List.mem_cons.mp h with rfl | h
    · cases hi : refIndex tbl a with
      | some k => exact ⟨k, refIndex_resolve_stable rest hi⟩
      | none => exact ⟨tbl.length, refIndex_resolve_stable rest (refIndex_self_append tbl a hi)⟩
    · split
      · exact ih tbl a h
      · exact ih _ a h

/-- sharing is preserved and distinct objects stay distinct: two offers resolve to the same reader
object iff they offered the same writer object -/
theorem sharing_preserved (os : List Obj) (tbl : RefTable) (i j : Nat) (a b : Obj)
    (ha : os[i]? = some a) (hb : os[j]? = some b) :
    ((firstIndices tbl os)[i]? = (firstIndices tbl os)[j]? ↔ a = b) := by
  rw [firstIndices_spec os tbl i a ha, firstIndices_spec os tbl j b hb]
  constructor
  · intro h
    obtain ⟨k, hk⟩ := mem_resolve_of_offered os tbl a (List.mem_of_getElem? ha)
    have hk' : refIndex (resolve tbl os) b = some k := by rw [← h]; exact hk
    have e1 := refIndex_get hk
    have e2 := refIndex_get hk'
    rw [e1] at e2; exact Option.some.inj e2
  · intro h; rw [h]

/-- each distinct object is written once: the `new` markers are exactly the growth of the table -/
theorem each_object_once : ∀ (os : List Obj) (tbl : RefTable),
    ((writeOffers tbl os).filter (· = 0)).length + tbl.length = (resolve tbl os).length := by
  intro os
  induction os with
  | nil => intro tbl; simp [writeOffers, resolve]
  | cons o rest ih =>
    intro tbl
    simp only [writeOffers, offer, resolve]
    cases hi : refIndex tbl o with
    | some k => simp [ih tbl]
    | none =>
      have := ih (tbl ++ [o])
      simp at this ⊢
      omega

/-- the table never holds an object twice -/
theorem resolve_nodup : ∀ (os : List Obj) (tbl : RefTable), tbl.Nodup → (resolve tbl os).Nodup := by
  intro os
  induction os with
  | nil => intro tbl h; simpa [resolve] using h
  | cons o rest ih =>
    intro tbl h
    simp only [resolve]
    cases hi : refIndex tbl o with
    | some k => exact ih tbl h
    | none =>
      apply ih
      rw [List.nodup_append]
      refine ⟨h, by simp, ?_⟩
      intro x hx y hy
      simp at hy; subst hy
      intro e; subst e
      have := refIndex_none_of_not_mem (tbl := tbl) (o := x)
      by_cases hm : x ∈ tbl
      · -- x ∈ tbl contradicts refIndex = none
        have key : ∀ (l : List Obj) (k : Nat), x ∈ l → refIndex.go x l k ≠ none := by
          intro l
          induction l with
          | nil => intro k h; simp at h
          | cons z zs ihz =>
            intro k hz
            simp only [refIndex.go]
            split
            · simp
            · rename_i hne
              rcases List.mem_cons.mp hz with rfl | hz
              · exact absurd rfl hne
              · exact ihz (k + 1) hz
        exact key tbl 0 hm hi
      · exact hm hx

/-- an id that was never introduced is an error -/
theorem bad_ref_errors (created tok : Nat) (rest : List Nat) (h : created < tok) :
    readOffers created (tok :: rest) = none := by
  have h0 : ¬ (tok = 0) := by omega
  have h1 : ¬ (tok ≤ created) := by omega
  simp [readOffers, h0, h1]

end C10
