import Desert.Basic
/-!
# Reference tracking (`store_ref_or_object`, `try_read_ref`, `State::store_ref`)

Identity on the writer side is an abstract `Obj` (the model's stand-in for an address + type).
A codec *offers* objects to the stream in the order of its traversal; what the traversal is (a
graph walk, a list, …) does not matter here: the writer turns the sequence of offers into tokens,
the reader turns the tokens back into "which previously created object is this, or is it new".
-/

abbrev Obj := Nat

/-- writer table: objects in first-offer order; id = index + 1 -/
abbrev RefTable := List Obj

def refIndex (tbl : RefTable) (o : Obj) : Option Nat :=
  go tbl 0
where
  go : List Obj → Nat → Option Nat
    | [], _ => none
    | x :: xs, i => if x = o then some i else go xs (i + 1)

/-- `store_ref_or_object`: the token written (`0` = new, else the id) and whether the caller must
write the body -/
def offer (tbl : RefTable) (o : Obj) : Nat × Bool × RefTable :=
  match refIndex tbl o with
  | some i => (i + 1, false, tbl)
  | none => (0, true, tbl ++ [o])

/-- the writer over a sequence of offers: the token stream -/
def writeOffers : RefTable → List Obj → List Nat
  | _, [] => []
  | tbl, o :: rest =>
    let (tok, _, tbl') := offer tbl o
    tok :: writeOffers tbl' rest

/-- `try_read_ref` + registration of each newly created object in creation order: for every token,
the index (in creation order) of the reader-side object it denotes; `none` = `InvalidRefId` -/
def readOffers : Nat → List Nat → Option (List Nat)
  | _, [] => some []
  | created, tok :: rest =>
    if tok = 0 then (readOffers (created + 1) rest).map (created :: ·)
    else if tok ≤ created then (readOffers created rest).map ((tok - 1) :: ·)
    else none

/-- first-offer index of each offered object, starting from a table -/
def firstIndices : RefTable → List Obj → List Nat
  | _, [] => []
  | tbl, o :: rest =>
    match refIndex tbl o with
    | some i => i :: firstIndices tbl rest
    | none => tbl.length :: firstIndices (tbl ++ [o]) rest
