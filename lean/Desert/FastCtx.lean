import Desert.Decode
/-!
# The faithful context over an array

`runArr` is `runCtx` with the input held in an `Array UInt8` (constant-time indexing) instead of
a list. `runArr_eq` proves it computes exactly what `runCtx` computes, for every program and every
state, so the driver may use it for large inputs (the golden file) without changing what the
theorems of `Props/` are about. No `implemented_by`, no `csimp`: an ordinary function and an
ordinary theorem.
-/
set_option linter.unusedSimpArgs false

structure CtxA where
  input : Array UInt8
  cur : RR
  stack : List RR
  strs : List Bytes

def CtxA.toCtx (c : CtxA) : Ctx := { input := c.input.toList, cur := c.cur, stack := c.stack, strs := c.strs }

def CtxA.new (b : Array UInt8) : CtxA := { input := b, cur := ⟨0, 0, b.size, 0⟩, stack := [], strs := [] }

def runArr {α : Type} : DProg α → CtxA → Outcome (α × CtxA)
  | .ret a, c => .ok (a, c)
  | .fail e, _ => .err e
  | .panic w, _ => .panic w
  | .readU8 k, c =>
    if c.cur.pos = c.cur.end_ then .err .inputEnded else
    match c.input[c.cur.start + c.cur.pos]? with
    | some b => runArr (k b) { c with cur := { c.cur with pos := c.cur.pos + 1 } }
    | none => .panic "index out of bounds"
  | .readBytes n k, c =>
    if c.cur.end_ < c.cur.pos then .panic "attempt to subtract with overflow" else
    if n > c.cur.end_ - c.cur.pos then .err .inputEnded else
    if c.cur.start + c.cur.pos + n > c.input.size then .panic "slice index out of range" else
      runArr (k (c.input.extract (c.cur.start + c.cur.pos) (c.cur.start + c.cur.pos + n)).toList)
        { c with cur := { c.cur with pos := c.cur.pos + n } }
  | .skip n k, c =>
    if c.cur.end_ < c.cur.pos then .panic "attempt to subtract with overflow" else
    if n > c.cur.end_ - c.cur.pos then .err .inputEnded else
      runArr (k ()) { c with cur := { c.cur with pos := c.cur.pos + n } }
  | .pos k, c => runArr (k c.cur.pos) c
  | .push r k, c =>
    if r.end_ < r.start then .panic "attempt to subtract with overflow" else
    runArr (k ()) { c with
      cur := { start := c.cur.start + r.start, pos := r.pos, end_ := r.end_ - r.start, delta := c.cur.start },
      stack := c.cur :: c.stack }
  | .pop k, c =>
    match c.stack with
    | [] => .panic "called `Option::unwrap()` on a `None` value"
    | w :: rest =>
      if c.cur.start < c.cur.delta then .panic "attempt to subtract with overflow" else
      runArr (k { start := c.cur.start - c.cur.delta, pos := c.cur.pos,
                  end_ := c.cur.start - c.cur.delta + c.cur.end_ })
        { c with cur := w, stack := rest }
  | .strGet id k, c => runArr (k (strLookup c.strs id)) c
  | .strPut x k, c => runArr (k ()) { c with strs := strInsert c.strs x }

/-- forget the array again -/
def Outcome.toList {α : Type} : Outcome (α × CtxA) → Outcome (α × Ctx)
  | .ok (a, c) => .ok (a, c.toCtx)
  | .err e => .err e
  | .panic w => .panic w

/-- the array interpreter computes what the list interpreter computes -/
theorem runArr_eq {α : Type} (p : DProg α) : ∀ c : CtxA, (runArr p c).toList = runCtx p c.toCtx := by
  induction p with
  | ret a => intro c; rfl
  | fail e => intro c; rfl
  | panic w => intro c; rfl
  | readU8 k ih =>
    intro c
    simp only [runArr, runCtx, CtxA.toCtx]
    by_cases h : c.cur.pos = c.cur.end_
    · simp only [h, if_true]; rfl
    · simp only [h, if_false]
      rw [Array.getElem?_toList]
      cases c.input[c.cur.start + c.cur.pos]? with
      | none => rfl
      | some b => exact ih b _
  | readBytes n k ih =>
    intro c
    simp only [runArr, runCtx, CtxA.toCtx, Array.length_toList]
    by_cases h1 : c.cur.end_ < c.cur.pos
    · simp only [h1, if_true]; rfl
    · simp only [h1, if_false]
      by_cases h2 : n > c.cur.end_ - c.cur.pos
      · simp only [h2, if_true]; rfl
      · simp only [h2, if_false]
        by_cases h3 : c.cur.start + c.cur.pos + n > c.input.size
        · simp only [h3, if_true]; rfl
        · simp only [h3, if_false]
          have : (c.input.extract (c.cur.start + c.cur.pos) (c.cur.start + c.cur.pos + n)).toList
              = (c.input.toList.drop (c.cur.start + c.cur.pos)).take n := by
            rw [Array.toList_extract, List.extract_eq_drop_take]; congr 1; omega
          rw [this]
          exact ih _ _
  | skip n k ih =>
    intro c
    simp only [runArr, runCtx, CtxA.toCtx]
    by_cases h1 : c.cur.end_ < c.cur.pos
    · simp only [h1, if_true]; rfl
    · simp only [h1, if_false]
      by_cases h2 : n > c.cur.end_ - c.cur.pos
      · simp only [h2, if_true]; rfl
      · simp only [h2, if_false]; exact ih _ _
  | pos k ih => intro c; simp only [runArr, runCtx, CtxA.toCtx]; exact ih _ _
  | push r k ih =>
    intro c
    simp only [runArr, runCtx, CtxA.toCtx]
    by_cases h : r.end_ < r.start
    · simp only [h, if_true]; rfl
    · simp only [h, if_false]; exact ih _ _
  | pop k ih =>
    intro c
    simp only [runArr, runCtx, CtxA.toCtx]
    cases c.stack with
    | nil => rfl
    | cons w rest =>
      simp only
      by_cases h : c.cur.start < c.cur.delta
      · simp only [h, if_true]; rfl
      · simp only [h, if_false]; exact ih _ _
  | strGet id k ih => intro c; simp only [runArr, runCtx, CtxA.toCtx]; exact ih _ _
  | strPut x k ih => intro c; simp only [runArr, runCtx, CtxA.toCtx]; exact ih _ _

/-- top-level `deserialize` through the array context -/
def decodeTopFast (env : Env) (ty : Ty) (b : Array UInt8) : Outcome (Val × CtxA) :=
  runArr (dec env (b.size + 1) ty) (CtxA.new b)

theorem decodeTopFast_eq (env : Env) (ty : Ty) (b : Array UInt8) :
    (decodeTopFast env ty b).toList = decodeTop env ty b.toList := by
  unfold decodeTopFast decodeTop
  rw [runArr_eq]
  simp [CtxA.toCtx, CtxA.new, Ctx.new]
