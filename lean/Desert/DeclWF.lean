import Desert.Decode
/-!
# Well-formed declarations with evolution steps

What a declaration must satisfy for the *same definition* to read back what it wrote in the chunked
layout. Every condition is decidable from the declaration alone (the "skeleton": names and
generations of its serialized fields); `Props/C02.lean` checks them by evaluation on the
repository's own declarations. They are the limits of the format, not of the proof:
position bytes hold chunk numbers up to 127 and chunk-0 positions up to 128, removed names must not
be names of serialized fields, and a field marked made-optional must be optional in the definition.
-/

/-- (name, generation) of every serialized field, in declaration order -/
def skel (steps : List Step) (fields : List Field) : List (String × Nat) :=
  (fields.filter (fun f => f.role ≠ .transient)).map fun f => (f.name, genOf steps f.name)

/-- `fieldIndex` on a skeleton -/
def fieldIndexSk (sk : List (String × Nat)) (name : String) : Option (Nat × Nat) :=
  go sk []
where
  go : List (String × Nat) → List (String × Nat) → Option (Nat × Nat)
    | [], _ => none
    | f :: rest, seen =>
      match go rest (seen ++ [f]) with
      | some r => some r
      | none => if f.1 = name then some (f.2, (seen.filter (·.2 = f.2)).length) else none

/-- names written in the removed form (`FIELD_REMOVED` + name) in the header -/
def removedForm (steps : List Step) : List String :=
  steps.filterMap fun
    | .removed n => some n
    | .madeTransient n => some n
    | .madeOptional n => if n ∈ removedNames steps then some n else none
    | .added _ => none

/-- positions announced as made-optional in the header -/
def madeOptPositions (steps : List Step) (sk : List (String × Nat)) : List (Nat × Nat) :=
  steps.filterMap fun
    | .madeOptional n => if n ∈ removedNames steps then none else fieldIndexSk sk n
    | _ => none

/-- no plain (non-`Option`) field sits at a position the header announces as made-optional;
`doneChunks` = generations of the serialized fields before the current one -/
def plainFreeB (steps : List Step) (mo : List (Nat × Nat)) : List Nat → List Field → Bool
  | _, [] => true
  | doneChunks, f :: fs =>
    match f.role with
    | .transient => plainFreeB steps mo doneChunks fs
    | .plain =>
      !(decide ((genOf steps f.name, (doneChunks.filter (· = genOf steps f.name)).length % 256) ∈ mo)) &&
        plainFreeB steps mo (doneChunks ++ [genOf steps f.name]) fs
    | .optional => plainFreeB steps mo (doneChunks ++ [genOf steps f.name]) fs

def posOKb (c p : Nat) : Bool := (c == 0 && decide (p ≤ 128)) || (decide (1 ≤ c) && decide (c ≤ 127) && p == 0)

def stepNameOf : Step → String
  | .added n => n
  | .madeOptional n => n
  | .removed n => n
  | .madeTransient n => n

/-- decidable well-formedness of a declaration for the chunked layout -/
def declWFb (d : Decl) : Bool :=
  let sk := skel d.steps d.fields
  (d.fields.all fun f => f.role != .transient || f.default.isSome) &&
  (d.steps.all fun s => validUtf8 (nameBytes (stepNameOf s))) &&
  (d.steps.all fun s => match s with
    | .madeOptional n => n ∈ removedNames d.steps || (match fieldIndexSk sk n with
        | some (c, p) => posOKb c p
        | none => true)
    | _ => true) &&
  (d.fields.all fun f => f.role == .transient || !(decide (nameBytes f.name ∈ (removedForm d.steps).map nameBytes))) &&
  plainFreeB d.steps (madeOptPositions d.steps sk) [] d.fields

def tyDeclWFb : TyDecl → Bool
  | .record d => declWFb d
  | .enum _ _ cs => decide (cs.length < 2 ^ 32) && cs.all fun c => declWFb c.decl

/-- every declaration of an environment passes the check (evaluated by the driver on the
declarations the harness sends, and by `decide` on the repository's own in `Props/C02.lean`) -/
def envWFb (env : Env) : Bool := env.all fun p => tyDeclWFb p.2
