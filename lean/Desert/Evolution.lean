import Desert.Decode
/-!
# The documented outcome of reading data of one version with the definition of another

`expectedRead` is written from the documentation of the evolution steps, field by field; it never
mentions bytes, headers, chunks or positions. `dw` is the definition that wrote the data (its
steps are the history up to the stored version), `dr` the definition that reads it; both lie on
one history (one step list is a prefix of the other).
-/

deriving instance DecidableEq for Except

/-- value of the field named `n` in a record value laid out by `fields` -/
def fieldValue (fields : List Field) (v : Val) (n : String) : Option Val :=
  match fields, v with
  | f :: fs, .vcons x rest => if f.name = n then some x else fieldValue fs rest n
  | _, _ => none

def writerField (fields : List Field) (n : String) : Option Field :=
  fields.find? (·.name = n)

/-- the data says the field was removed (or made transient) at some step up to the stored version -/
def removedInData (sw : List Step) (n : String) : Bool :=
  sw.any fun s => match s with
    | .removed m => m = n
    | .madeTransient m => m = n
    | _ => false

/-- the data marks the field as made optional at some step up to the stored version -/
def madeOptionalInData (sw : List Step) (n : String) : Bool :=
  sw.any fun s => match s with
    | .madeOptional m => m = n
    | _ => false

/-- outcome for one field of the reading definition -/
def expectedField (dw dr : Decl) (wv : Val) (f : Field) : Except Err Val :=
  let w := dw.steps.length
  match f.role with
  | .transient =>
    match f.default with
    | some d => .ok d
    | none => .error .deserializationFailure
  | .plain =>
    if removedInData dw.steps f.name then .error (.fieldRemoved f.name)
    else if w < genOf dr.steps f.name then
      match f.default with
      | some d => .ok d
      | none => .error (.fieldMissing f.name)
    else
      match fieldValue dw.fields wv f.name with
      | none => .error .deserializationFailure
      | some x =>
        if madeOptionalInData dw.steps f.name then
          -- the writer holds an Option; the reader wants the bare value
          match x with
          | .some y => .ok y
          | .none => .error (.nonOptionalNone f.name)
          | _ => .error .deserializationFailure
        else .ok x
  | .optional =>
    if removedInData dw.steps f.name then .ok .none
    else if w < genOf dr.steps f.name then
      match f.default with
      | some d => .ok d
      | none => .error .deserializationFailure
    else
      match fieldValue dw.fields wv f.name with
      | none => .error .deserializationFailure
      | some x =>
        if w < optSinceOf dr.steps f.name then .ok (.some x)   -- written before it was made optional: wrap
        else .ok x

/-- the documented outcome: every field of the reading definition in declaration order, the first
failing field wins -/
def expectedFields (dw dr : Decl) (wv : Val) : List Field → Except Err (List Val)
  | [] => .ok []
  | f :: fs =>
    match expectedField dw dr wv f with
    | .error e => .error e
    | .ok x =>
      match expectedFields dw dr wv fs with
      | .error e => .error e
      | .ok xs => .ok (x :: xs)

def expectedRead (dw dr : Decl) (v : Val) : Except Err Val :=
  match v with
  | .list wv =>
    match expectedFields dw dr wv dr.fields with
    | .ok xs => .ok (.list (Val.ofList xs))
    | .error e => .error e
  | _ => .error .deserializationFailure

/-- legality of the pair (DESIGN §9.2), as far as the table needs it: the two step lists lie on one history -/
def onOneHistory (dw dr : Decl) : Bool :=
  dw.steps.isPrefixOf dr.steps || dr.steps.isPrefixOf dw.steps
