import Desert.Encode
/-!
# What a round trip must produce

`normalize env ty v` is `v` with every transient field replaced by its declared default
(recursively); for types without transient fields it is the identity. It follows the recursion
of the encoder.
-/

def Val.toList : Val → List Val
  | .vcons v r => v :: r.toList
  | _ => []

/-- nesting depth through lists/constructors (bounds the `named` nesting of the decoder) -/
def Val.depth : Val → Nat
  | .some v => v.depth
  | .ok v => v.depth
  | .error v => v.depth
  | .vcons v r => max v.depth r.depth
  | .list v => v.depth + 1
  | .ctor _ v => v.depth + 1
  | _ => 0

mutual

def normalize (env : Env) (ty : Ty) (v : Val) : Val :=
  match ty, v with
  | .option t, .some x => .some (normalize env t x)
  | .result t _, .ok x => .ok (normalize env t x)
  | .result _ e, .error x => .error (normalize env e x)
  | .seq t, .list items => .list (normItems env t items)
  | .array _ t, .list items => .list (normItems env t items)
  | .tuple fs, .list items => .list (normTuple env fs items)
  | .named id, v =>
    match env.find id with
    | some (.record d) =>
      match v with
      | .list fields => .list (normFields env d.fields fields)
      | v => v
    | some (.enum _ sorted ctors) =>
      match v with
      | .ctor idx fields =>
        match findCtorWire (wireCtors sorted ctors) idx with
        | some (_, c) => .ctor idx (normFields env c.decl.fields fields)
        | none => .ctor idx fields
      | v => v
    | none => v
  | _, v => v

def normItems (env : Env) (t : Ty) (v : Val) : Val :=
  match v with
  | .vcons x rest => .vcons (normalize env t x) (normItems env t rest)
  | v => v

def normTuple (env : Env) (fs : Ty) (v : Val) : Val :=
  match fs, v with
  | .fcons a r, .vcons x rest => .vcons (normalize env a x) (normTuple env r rest)
  | _, v => v

def normFields (env : Env) (fields : List Field) (v : Val) : Val :=
  match fields, v with
  | f :: fs, .vcons x rest =>
    match f.role with
    | .transient => .vcons (f.default.getD x) (normFields env fs rest)
    | _ => .vcons (normalize env f.ty x) (normFields env fs rest)
  | _, v => v

end
