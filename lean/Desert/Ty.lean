import Desert.Prog
/-!
# Deep embedding of desert's type vocabulary, values and declarations

`Ty` and `Val` are plain (non-nested) inductives: field lists and item lists are cons-cells
*inside* the same type (`fnil`/`fcons`, `vnil`/`vcons`), which keeps `induction` usable.
-/

inductive Prim where
  /-- fixed-width integer of `w` bytes (also `f32`/`f64` as their IEEE bit patterns) -/
  | int (w : Nat) (signed : Bool)
  | bool
  | unit
  /-- one UTF-16 unit -/
  | char
  | string
  /-- `DeduplicatedString` -/
  | dstring
  | duration
  /-- `Vec<u8>`, `[u8]`, `Bytes`: unsigned var-int length + bytes -/
  | bytes
  /-- `[u8; n]` -/
  | barr (n : Nat)
  /-- exactly `n` raw bytes (`Uuid`) -/
  | raw (n : Nat)
  | weekday
  | month
  | fixedOffset
  /-- a bare `write_var_u32` (chrono's year / nanosecond fields, hand-written codecs) -/
  | varu32
deriving Repr, DecidableEq, Inhabited

inductive Ty where
  | prim (p : Prim)
  | option (t : Ty)
  | result (okT errT : Ty)
  /-- every count-prefixed sequence container (`Vec`, slices, `LinkedList`, sets; maps as
      sequences of 2-tuples) -/
  | seq (t : Ty)
  /-- `[T; n]`, `T ≠ u8` -/
  | array (n : Nat) (t : Ty)
  /-- tuple of the field list `fs` (an `fnil`/`fcons` chain) -/
  | tuple (fs : Ty)
  | fnil
  | fcons (a : Ty) (rest : Ty)
  /-- a derived struct or enum, looked up in the environment -/
  | named (id : String)
deriving Repr, DecidableEq, Inhabited

inductive Val where
  | unit
  | bool (b : Bool)
  | int (n : Int)
  | str (bs : Bytes)
  | bytes (bs : Bytes)
  | dur (secs nanos : Nat)
  | none
  | some (v : Val)
  | ok (v : Val)
  | error (v : Val)
  | vnil
  | vcons (v : Val) (rest : Val)
  /-- a sequence, tuple or record: wraps a `vnil`/`vcons` chain -/
  | list (items : Val)
  /-- enum value: constructor position in *declaration* order and its fields -/
  | ctor (idx : Nat) (fields : Val)
deriving Repr, DecidableEq, Inhabited

def Val.ofList : List Val → Val
  | [] => .vnil
  | v :: vs => .vcons v (Val.ofList vs)

def Val.chainLength : Val → Nat
  | .vcons _ r => r.chainLength + 1
  | _ => 0

def Ty.ofList : List Ty → Ty
  | [] => .fnil
  | t :: ts => .fcons t (Ty.ofList ts)

/-! ## Declarations -/

inductive Role where
  /-- read with `read_field` -/
  | plain
  /-- type spelled `Option<..>`: read with `read_optional_field` -/
  | optional
  /-- `#[transient(default)]` -/
  | transient
deriving Repr, DecidableEq, Inhabited

structure Field where
  name : String
  /-- full field type (for `optional`, an `option _`) -/
  ty : Ty
  role : Role
  /-- `FieldAdded` default, or the transient default -/
  default : Option Val
deriving Repr, Inhabited

inductive Step where
  | added (name : String)
  | madeOptional (name : String)
  | removed (name : String)
  | madeTransient (name : String)
deriving Repr, DecidableEq, Inhabited

/-- a record: struct, enum variant, or tuple -/
structure Decl where
  name : String
  fields : List Field
  /-- evolution steps after `InitialVersion` -/
  steps : List Step
deriving Repr, Inhabited

structure Ctor where
  name : String
  transient : Bool
  decl : Decl
deriving Repr, Inhabited

inductive TyDecl where
  | record (d : Decl)
  | enum (name : String) (sorted : Bool) (ctors : List Ctor)
deriving Repr, Inhabited

abbrev Env := List (String × TyDecl)

def Env.find (env : Env) (id : String) : Option TyDecl :=
  match env with
  | [] => none
  | (k, d) :: rest => if k = id then some d else Env.find rest id

/-! ## Metadata (`AdtMetadata::new`) -/

def Decl.version (d : Decl) : Nat := d.steps.length

/-- `field_generations`: index (from 1) of the `FieldAdded` step naming the field; later
duplicates win, as in a `HashMap` collected from the step list. -/
def genOf (steps : List Step) (name : String) : Nat :=
  go steps 1 0
where
  go : List Step → Nat → Nat → Nat
    | [], _, acc => acc
    | .added n :: rest, i, acc => go rest (i + 1) (if n = name then i else acc)
    | _ :: rest, i, acc => go rest (i + 1) acc

/-- `made_optional_at` (0 when absent, as `unwrap_or(&0)`) -/
def optSinceOf (steps : List Step) (name : String) : Nat :=
  go steps 1 0
where
  go : List Step → Nat → Nat → Nat
    | [], _, acc => acc
    | .madeOptional n :: rest, i, acc => go rest (i + 1) (if n = name then i else acc)
    | _ :: rest, i, acc => go rest (i + 1) acc

/-- `removed_fields` of the writer's metadata (after the fix: removed or made transient) -/
def removedNames (steps : List Step) : List String :=
  steps.filterMap fun
    | .removed n => some n
    | .madeTransient n => some n
    | _ => none

/-- constructor order: declaration order, or byte-wise name order under `#[sorted_constructors]`
(stable insertion sort, as `sort_by_key`) -/
def insertCtor (c : Ctor) : List Ctor → List Ctor
  | [] => [c]
  | d :: ds => if c.name < d.name then c :: d :: ds else d :: insertCtor c ds

def sortCtors : List Ctor → List Ctor
  | [] => []
  | c :: cs => insertCtor c (sortCtors cs)

/-- `(declaration index, ctor)` list in wire-index order -/
def indexCtors (cs : List Ctor) : List (Nat × Ctor) :=
  (List.range cs.length).zip cs

def insertIdxCtor (c : Nat × Ctor) : List (Nat × Ctor) → List (Nat × Ctor)
  | [] => [c]
  | d :: ds => if c.2.name < d.2.name then c :: d :: ds else d :: insertIdxCtor c ds

def sortIdxCtors : List (Nat × Ctor) → List (Nat × Ctor)
  | [] => []
  | c :: cs => insertIdxCtor c (sortIdxCtors cs)

/-- constructors in wire-index order, each with its declaration-order position -/
def wireCtors (sorted : Bool) (cs : List Ctor) : List (Nat × Ctor) :=
  if sorted then sortIdxCtors (indexCtors cs) else indexCtors cs
