import Desert.Basic
/-!
# Number layer of the codec (Nat/Int level)

The *codec layer* (`Encode`, `Decode`) is written against these div/mod definitions so that its
lemmas are `omega`-style arithmetic. `Desert/Bits.lean` holds the faithful `BitVec` transcription
of `write_var_u32` / `read_var_u32` / zig-zag and `Props/C11.lean` ties the two together.
-/

def byteOf (n : Nat) : Byte := UInt8.ofNat n

@[simp] theorem byteOf_toNat (n : Nat) : (byteOf n).toNat = n % 256 := by
  simp [byteOf]

/-- big-endian, `w` bytes, of `n mod 256^w` (`to_be_bytes`). -/
def beBytes : Nat → Nat → Bytes
  | 0, _ => []
  | w+1, n => byteOf (n / 256 ^ w) :: beBytes w n

/-- `from_be_bytes` (accumulator form). -/
def ofBEAcc (acc : Nat) : Bytes → Nat
  | [] => acc
  | b :: bs => ofBEAcc (acc * 256 + b.toNat) bs

def ofBE (bs : Bytes) : Nat := ofBEAcc 0 bs

/-- two's complement: value of type `iW` (`W = 8*w` bits) to its unsigned bit pattern -/
def toUnsigned (w : Nat) (i : Int) : Nat := (i % (256 ^ w : Nat)).toNat

/-- bit pattern back to the signed value -/
def toSigned (w : Nat) (n : Nat) : Int :=
  if 2 * n < 256 ^ w then (n : Int) else (n : Int) - (256 ^ w : Nat)

/-- `write_var_u32` as a 5-rung ladder in div/mod form (argument `< 2^32`). -/
def uv (n : Nat) : Bytes :=
  if n < 2 ^ 7 then [byteOf n]
  else if n < 2 ^ 14 then [byteOf (n % 128 + 128), byteOf (n / 2 ^ 7)]
  else if n < 2 ^ 21 then [byteOf (n % 128 + 128), byteOf (n / 2 ^ 7 % 128 + 128), byteOf (n / 2 ^ 14)]
  else if n < 2 ^ 28 then
    [byteOf (n % 128 + 128), byteOf (n / 2 ^ 7 % 128 + 128), byteOf (n / 2 ^ 14 % 128 + 128), byteOf (n / 2 ^ 21)]
  else
    [byteOf (n % 128 + 128), byteOf (n / 2 ^ 7 % 128 + 128), byteOf (n / 2 ^ 14 % 128 + 128),
     byteOf (n / 2 ^ 21 % 128 + 128), byteOf (n / 2 ^ 28)]

/-- zig-zag of an `i32` value: `((v << 1) ^ (v >> 31)) as u32` -/
def zigzag (i : Int) : Nat := if 0 ≤ i then (2 * i).toNat else (-2 * i - 1).toNat

/-- inverse: `((r >> 1) ^ (-((r & 1) as i32) as u32)) as i32` -/
def unzigzag (r : Nat) : Int := if r % 2 = 0 then (r / 2 : Nat) else -((r / 2 : Nat) : Int) - 1

/-- `write_var_i32` -/
def zz (i : Int) : Bytes := uv (zigzag i)

def inI32 (i : Int) : Prop := -(2 ^ 31 : Int) ≤ i ∧ i < (2 ^ 31 : Int)

instance (i : Int) : Decidable (inI32 i) := by unfold inI32; infer_instance

theorem zigzag_lt (i : Int) (h : inI32 i) : zigzag i < 2 ^ 32 := by
  unfold zigzag inI32 at *; split <;> omega

theorem unzigzag_zigzag (i : Int) : unzigzag (zigzag i) = i := by
  unfold unzigzag zigzag; split <;> split <;> omega

theorem zigzag_unzigzag (r : Nat) : zigzag (unzigzag r) = r := by
  unfold unzigzag zigzag; split <;> split <;> omega

theorem unzigzag_inI32 (r : Nat) (h : r < 2 ^ 32) : inI32 (unzigzag r) := by
  unfold unzigzag inI32; split <;> omega
