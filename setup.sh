#!/bin/sh
# Builds the framework from files on disk only (offline): Lean project + driver, Rust harness.
set -e
cd "$(dirname "$0")"
export CARGO_NET_OFFLINE=true
(cd lean && lake build)
cp -n /repo/Cargo.lock harness/Cargo.lock 2>/dev/null || true
python3 harness/gen/gen_decls.py
(cd harness && RUSTFLAGS="--cfg desert_verif" cargo build --offline && RUSTFLAGS="--cfg desert_verif" cargo build --offline --release)
echo "setup done"
