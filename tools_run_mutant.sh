#!/bin/bash
# usage: tools_run_mutant.sh <patch.diff> <family> [<family> ...]   (applies to /repo, runs families, reverts)
set -u
PATCH=$1; shift
cd /repo && git apply "$PATCH" || { echo "patch does not apply"; exit 2; }
cd /verif/harness && CARGO_NET_OFFLINE=true RUSTFLAGS="--cfg desert_verif" cargo build --offline 2>&1 | grep -E "^error" -A6 | head -20
for fam in "$@"; do
  TZ=UTC timeout 900 ./target/debug/desert-verif-harness $fam --seed 1 --out /tmp/mut_$fam.json --progress /tmp/mut_$fam.progress
  echo "== $fam exit=$?"
  python3 /tmp/show.py /tmp/mut_$fam.json 2>/dev/null | cut -c1-400 | head -14
done
cd /repo && git checkout -- . && git status --short | head -3
