"""
Per property: which families run, and how each failure tag is charged.

tags: tag -> "direct" | "indirect"
  direct    the failing case is itself an input on which the property fails on the implementation
            (oracle failures are always direct; a correspondence failure is direct when the model is
            the property's reference, e.g. byte-exact format conformance)
  indirect  model and implementation disagree, but the case does not by itself violate the
            property: reported as VIOLATION ... no-failing-input-found unless an oracle also fails
"""

MODEL_TRUST = [
    "UTF-8 validity, hash iteration order, chrono/BigDecimal library conversions: outside the model (DESIGN section 7)",
]


V0_NOTE = ("Theorems cover every type expression and every value (induction, no depth bound) over environments of "
           "well-formed declarations (EnvWF: built-in types, tuples, derived structs/enums with or without evolution steps, i.e. "
           "also the chunked layout with its evolution header, read back by the same definition: rt_full). EnvWF is the decidable "
           "check declWFb, evaluated in Props/C02 on the repository's Point and by the driver on every generated declaration. "
           "Reading data of an older definition is C03.")

PROPS = {
    "C01": {
        "families": [{"name": "ty"}, {"name": "leaves"}],
        "tags": {"rt": "direct", "dec-model": "indirect", "abs-diff": "indirect", "enc-outcome": "indirect"},
        "rule": "built-in catalogue (about 110 type expressions: every constructor, arities 1-8, byte containers, arrays incl. [T;0], "
                "nested depth <= 3, chrono/uuid/bignum leaves) x boundary-biased values; impl round trip (oracle), model decode of the "
                "impl bytes, model bytes; leaves: the ten chrono / big-number leaf types through their wire descriptions (a tuple of model "
                "primitives or one primitive, components taken through the library type's accessors): model decode of the impl bytes = the "
                "value's components; distinct = distinct (type, canonical value) with an encoding of >= 2 bytes",
        "trusted": MODEL_TRUST,
        "assumptions": ["TZ=UTC", "Rust types are instantiated to depth 3 (the theorems have no depth bound)"],
        "partial": "chrono/BigDecimal/BigInt/Tz leaves: the theorem applies to their wire descriptions (tuples of primitives); the maps "
                   "between library objects and components (calendar validity, zone names, decimal parsing) are library code outside the model",
        "level_text": "Proof: decode(encode v ++ t) = (v, t) for every type expression over the built-in vocabulary and every value, by "
                      "induction on the value (rt_all), at any source state and for any continuation; leaf codecs (fixed-width, bool, char, "
                      "String, DeduplicatedString, Duration, byte arrays, Uuid, Weekday, Month, FixedOffset) proved individually (rt_prim); "
                      "lifted to the faithful DeserializationContext transcription by the refinement theorem. The chrono / big-number "
                      "leaves are covered through their wire descriptions (tuples of primitives): leaf_description_roundtrip. The model is "
                      "tied to the code by the ty and leaves families on every run.",
        "level_note": "Trusted: Lean kernel; hand-written model; correspondence harness. Outside the model: the library maps between chrono / "
                      "big-number objects and their wire components (calendar validity, Tz names, Local offset, BigDecimal Display/FromStr, "
                      "BigInt byte conversion), hash iteration order; UTF-8 validity is a hypothesis.",
    },
    "C05": {
        "families": [{"name": "raw", "release": True}, {"name": "decl", "release": True}, {"name": "hist"}, {"name": "leaves", "release": True}],
        "release_too": True,
        "tags": {"dec-panic": "direct", "dec-slow": "direct", "dec-alloc": "direct", "panic-unpredicted": "indirect",
                 "model-panics": "indirect", "abs-diff": "indirect"},
        "rule": "raw: all byte strings of length <= 2 over a 12-symbol alphabet, var-int boundary prefixes, random strings <= 24 bytes, "
                "systematic single-byte edits (+1, -1, +7 at every position) and random mutants of valid encodings, for every catalogue type; "
                "decl/hist: the same tampering on derived and evolved declarations and every cross-version pair; debug (overflow checks) and "
                "release builds; a counting allocator and a progress file attribute aborts, hangs and stack overflows. "
                "distinct = distinct (type, bytes) on which the implementation returns Ok",
        "trusted": MODEL_TRUST,
        "partial": "stack exhaustion, allocator aborts and time of the real code are measured, not modelled; chrono / bignum leaves are in the decoder model through "
                   "their wire descriptions only (family leaves; the library constructors behind them are measured), the two "
                   "other BinaryInput implementations are outside it; zero-width element sequences excluded (DESIGN 9.7)",
        "level_text": "Proof: for every environment passing the decidable check envDecOKb (evaluated by the driver on the generated "
                      "declarations), every type over it and EVERY byte string, the decoder — through the faithful transcription of "
                      "DeserializationContext and through the abstract source — returns a value or an error (decode_never_panics): no panic "
                      "node, no region escaping its window, no empty-stack pop, no index or usize underflow, and the recursion budget "
                      "|input|+1 is never exhausted (every nested record reads its version byte first; chunk regions lie inside what is "
                      "left after it; unknown-length loops read a flag byte per turn). The context's arithmetic never panics by itself for "
                      "every program (refinement theorem), primitive reads are total for every requested length, cursors stay in their "
                      "windows; the readers of the chrono / big-number wire descriptions are instances (leaf_descriptions_never_panic). "
                      "Every implementation panic / abort / hang / oversized allocation on the families is an oracle failure.",
        "level_note": "Outside the model: see coverage.partial. Trusted: Lean kernel, model, harness; Miri/ASan not used.",
    },
    "C06": {
        "families": [{"name": "raw"}, {"name": "decl"}, {"name": "hist"}, {"name": "leaves"}],
        "tags": {"invent": "direct", "abs-diff": "indirect"},
        "rule": "same inputs as C05; relation: implementation Ok(v) implies the reference decoder (runAbs dec) gives exactly v and the same "
                "consumption. distinct = distinct (type, bytes) accepted by the implementation",
        "trusted": MODEL_TRUST,
        "level_text": "Proof: the strict reference decoder is the operation-tree decoder over list windows (a chunk is a sub-list); the "
                      "refinement theorem shows, for every program, that the real region arithmetic returns what the reference returns; "
                      "arrays are produced only from exactly N elements. For decodable environments the reference never panics (C05), so "
                      "whatever the real region arithmetic accepts the reference decodes to the same value, and errors agree exactly "
                      "(decode_honest_total, errors_agree_total). The implementation is compared with the reference on every tampered and "
                      "raw input of the run.",
        "level_note": "The reference's fidelity to the format is by reading (DESIGN 4.5).",
    },
    "C07": {
        "families": [{"name": "ty"}, {"name": "decl"}, {"name": "hist"}, {"name": "leaves"}],
        "tags": {"consume": "direct", "cross-consume": "direct", "dec-model": "indirect", "abs-diff": "indirect"},
        "rule": "every encoded value followed by a random suffix: decode through an explicit context, drain it, compare with the suffix; "
                "all (writer, reader) version pairs of the generated histories with stored version >= 1 (and version 0 without removals)",
        "trusted": MODEL_TRUST,
        "level_text": "Proof: the continuation t in the round-trip theorems is arbitrary, so decoding consumes exactly the encoding "
                      "(consumes_exactly, sequential, and the same for the faithful context); when another version of the definition reads "
                      "the record, exactly the record is consumed whenever the data carries a header (C03.evolution_outcome_frame).",
        "level_note": V0_NOTE,
    },
    "C08": {
        "families": [{"name": "ty"}, {"name": "decl"}, {"name": "hist"}, {"name": "altform"}],
        "tags": {"prefix": "direct", "cross-prefix": "direct"},
        "rule": "every strict prefix (all cut points up to 96 bytes, sampled beyond) of every encoding generated by ty/decl, and of every "
                "cross-version encoding of hist with stored version >= 1, must be Err on the implementation; every strict prefix of the "
                "unknown-length form of a sequence (only producible through serialize_iterator) under every ordered target container",
        "trusted": MODEL_TRUST,
        "partial": "cross-version reads on pairs outside pairAlignedB or of version-0 data: correspondence only",
        "level_text": "Proof: for every decoder program a successful run is unchanged by appending data (run_extends, induction on the "
                      "operation tree) and cursors stay in their windows (run_AllWF); with consumption this gives: no strict prefix of an "
                      "encoding decodes to a value (prefix_rejected); more fuel never changes a successful decoding (dec_fuel_mono) and "
                      "the decoder never panics (C05), so with the driver's own budget every strict prefix is exactly an error — "
                      "not a value, not a panic — through the reference decoder and through the faithful context (prefix_is_error, "
                      "prefix_is_error_faithful); the same for a prefix of what another (aligned) version of the definition wrote, "
                      "whenever the data carries a header (cross_prefix_rejected, cross_prefix_is_error), and for the unknown-length "
                      "sequence form (unknown_form_prefix_rejected).",
        "level_note": V0_NOTE,
    },

    "C02": {
        "families": [{"name": "decl"}],
        "tags": {"rt": "direct", "bytes": "direct", "dec-model": "direct", "enc-outcome": "direct", "enc-err": "direct",
                 "invent": "indirect", "reject-more": "indirect", "err-kind": "indirect", "abs-diff": "indirect"},
        "rule": "65 generated declarations (hand-written base: every shape, attribute combination, Option spelling, transient position, "
                "nesting/recursion, evolution on structs and variants, sorted / transient constructors, 130-field records; plus pseudo-random "
                "structs and enums from a fixed seed), each compiled with the real derive macro and interpreted by the model from its "
                "S-expression; >= 30 values each; bytes, decoded values and error variants compared. distinct = distinct (declaration, value)",
        "trusted": MODEL_TRUST + ["harness/gen/gen_decls.py prints each declaration twice (Rust source and model S-expression)"],
        "level_text": "Proof + translation validation: the derived round trip (at any nesting and recursion, optional / transient fields, "
                      "sorted / transient constructors, and evolution steps with the chunked layout and its header) is a corollary of "
                      "rt_full for every declaration passing the decidable check declWFb; the record layouts "
                      "(headerless and chunked) are theorems; the repository's Point byte vector is proved by evaluation. The macro expansion "
                      "is validated against the model's interpretation of the same declaration on every run (bytes, values, errors).",
        "level_note": V0_NOTE,
        "technique": "Lean 4 proof over a deep embedding of declarations + translation validation of the derive macro",
    },
    "C03": {
        "families": [{"name": "hist"}],
        "tags": {"table": "direct", "invent": "direct", "reject-more": "direct", "err-kind": "direct", "cross-consume": "direct",
                 "dec-panic": "direct", "abs-diff": "indirect"},
        "rule": "24 histories (the repository's Point history and the D17 history HDs by hand with pinned values, 22 pseudo-random legal histories of 1-5 steps over all four step kinds, "
                "any interleaving, fields of 20 types incl. three Option spellings); every version is a real derived Rust type; all (writer, "
                "reader) pairs x 8 values: outcome (value, error variant, field name) against the documented-outcome table and the operational "
                "model, top level with following data and embedded between a u16 and a String sibling (embedded + stored version 0 + removal "
                "excluded, DESIGN 9.1). distinct = distinct (history, w, r, value) accepted by the implementation",
        "trusted": MODEL_TRUST + ["the generator only emits legal histories (chunk-0 order fixed; removal of the last serialized field of a chunk)"],
        "partial": "pairs outside pairAlignedB (3% of the generated cases: a passed-over field of a type that may hold a deduplicated string) "
                   "and evolution steps on types nested inside the record or on enum variants across versions: correspondence only; "
                   "known finding D17 (a passed-over first occurrence of a deduplicated string shifts later string ids)",
        "level_text": "Proof: the documented outcome is a function (expectedRead) written without reference to bytes; its clauses — "
                      "default for an added field, wrap / unwrap for made-optional, absent for a removed optional field, the two named errors, "
                      "first failing field wins — are theorems; and the general equation is a theorem (evolution_outcome_frame): for every "
                      "pair of record definitions passing the decidable, value-independent check pairAlignedB (legality for the chunked "
                      "layout) and every value, at top level or between sibling data, reading what the writer's definition wrote with the "
                      "reader's gives exactly expectedRead, leaves the string tables equal and (with a header) consumes exactly the record. "
                      "The check is evaluated by decide on all 25 pairs of the repository's Point history and by the driver on every "
                      "generated pair (evidence: cases-of-aligned-pairs). The exclusion of passed-over deduplicated strings is proved "
                      "necessary (skipped_dedup_breaks_outcome = finding D17). On every run the real code is compared with both the table "
                      "and the operational model on every version pair of every generated history.",
        "level_note": "Trusted: Lean kernel, model, harness; the table's fidelity to the documentation is by reading.",
    },
    "C04": {
        "families": [{"name": "ty"}, {"name": "decl"}, {"name": "altform"}, {"name": "golden"}, {"name": "leaves"}],
        "tags": {"bytes": "direct", "enc-err": "direct", "enc-outcome": "direct", "altform": "direct", "container-bytes": "direct",
                 "reject-more": "direct", "golden": "direct", "invent": "indirect", "dec-model": "indirect", "abs-diff": "indirect",
                 "rt": "indirect", "dec-panic": "indirect"},
        "rule": "implementation bytes == model bytes for every generated value of every catalogue type and declaration, and of the ten "
                "chrono / big-number leaf types through their wire descriptions (family leaves: bytes == the model's encoding of the value's "
                "components, accepted inputs decode to the components the model reads); every alternative form "
                "(unknown-length sequences via the real serialize_iterator with an inexact size hint, every source container) decoded by the "
                "implementation and the model; the repository's golden file (242 540 bytes written by the original Scala desert) decoded "
                "by the implementation and by the model to the value documented in the repository's golden test, and re-encoded on both sides. "
                "distinct = distinct (type, value)",
        "trusted": MODEL_TRUST + ["fidelity of the model's format to Scala desert: reading, the derivation.rs byte vector (proved by evaluation), "
                                  "the golden file decoded by the model on every run (family golden; types mirrored from desert_macro/tests/golden.rs)"],
        "level_text": "Proof: the production rules of the format are theorems about the model's encoder (fixed width big-endian, tags, counts, "
                      "length prefixes, tuples, header step codes and position bytes; the NaiveDate / NaiveTime layouts over their wire "
                      "descriptions, leaf_naiveDate_layout / leaf_naiveTime_layout), pinned encodings are proved by evaluation, and the "
                      "unknown-length form decodes to the value it denotes (rt_seq_unknown). The real writer is compared byte for byte with "
                      "that encoder on every run; a symmetric change of writer and reader breaks the byte comparison, and the model itself is held "
                      "against bytes produced by Scala desert (golden file) on every run.",
        "level_note": V0_NOTE,
    },
    "C12": {
        "families": [{"name": "altform"}, {"name": "ty"}],
        "tags": {"altform": "direct", "container-bytes": "direct", "invent": "indirect", "reject-more": "indirect", "err-kind": "indirect",
                 "bytes": "indirect", "dec-model": "indirect"},
        "rule": "element lists over 14 element types written through Vec, slice, LinkedList, HashSet, BTreeSet, arrays, Vec of pairs, HashMap, "
                "BTreeMap and the unknown-length form; read through every target container; byte containers among themselves; wrong array "
                "lengths must be rejected. distinct = distinct (element type, element list)",
        "trusted": MODEL_TRUST,
        "level_text": "Proof: in the model all sequence containers share one encoder/decoder, so container independence is by construction; "
                      "array = sequence bytes, the unknown-length form decodes to the same elements (induction over the items), arrays of the "
                      "wrong length are rejected. That the code has the same property is checked by the altform family over all container pairs.",
        "level_note": V0_NOTE,
    },
    "C13": {
        "families": [{"name": "decl"}],
        "tags": {"ext": "direct", "bytes": "direct", "dec-panic": "direct", "err-kind": "direct", "invent": "direct", "reject-more": "direct",
                 "rt": "direct", "abs-diff": "indirect"},
        "rule": "every generated enum (unit/tuple/struct/transient variants, sorted or not, names whose byte order and case-insensitive order "
                "differ): bytes and decoded values against the model, constructor indices 0..7, 9, 127, 128, u32::MAX against every "
                "declaration, three extension pairs cross-read both ways",
        "trusted": MODEL_TRUST,
        "level_text": "Proof: the wire index is the declaration position (unsorted) / a rearrangement of it that is ascending in the constructor names "
                      "(sorted_ctors_ascending; that Rust's String order is this order is checked by correspondence); an enum value is 0, uv(index), the variant's record; an unknown index is InvalidConstructorId, a "
                      "transient one DeserializingTransientConstructor / SerializingTransientConstructor; data written before an extension "
                      "decodes to the same constructor afterwards (enum_extension).",
        "level_note": V0_NOTE,
    },
    "C14": {
        "families": [{"name": "decl"}, {"name": "hist"}],
        "tags": {"transient-bytes": "direct", "rt": "direct", "enc-outcome": "direct", "enc-err": "direct", "invent": "direct",
                 "bytes": "indirect", "dec-model": "indirect"},
        "rule": "declarations with transient fields in every position (values generated away from the default), transient constructors in "
                "every position, histories ending in FieldMadeTransient after FieldMadeOptional / FieldAdded; re-generated transient fields "
                "must not change the bytes; decoded transient fields must equal the declared default",
        "trusted": MODEL_TRUST,
        "level_text": "Proof: enc(normalize v) = enc(v) for every environment (also with evolution steps) — transient values never reach the "
                      "wire; decoding yields normalize v (defaults); transient constructors fail with the dedicated error; the header's "
                      "removed-name fallback covers made-optional-then-transient (preNames_covers).",
        "level_note": V0_NOTE,
    },
    "C17": {
        "families": [{"name": "ty"}, {"name": "decl"}, {"name": "chars"}, {"name": "limits"}],
        "tags": {"enc-panic": "direct", "enc-err": "direct", "enc-outcome": "direct", "bytes": "indirect", "rt": "indirect"},
        "process_failures": True,
        "rule": "every generated value of every catalogue type and declaration encoded under catch_unwind, error variant compared with the "
                "model; all 1 112 064 Unicode scalar values through the char codec",
        "trusted": MODEL_TRUST,
        "partial": "the one panic left to a well-typed value is the i32 string-id counter after 2^31-1 distinct deduplicated strings in one "
                   "stream (more than 2 GiB of input; not exercised); iterators with an exact size hint above i32::MAX are not exercised",
        "level_text": "Proof: for every environment within the documented limit of 255 versions per declaration, every type and every "
                      "well-typed value (hasTy: the judgement the Rust type checker provides), with any string table, the encoder returns "
                      "bytes or an error (encode_never_panics, induction over the value for the four mutually recursive encoder "
                      "functions); the header's 'unreachable' branches are proved unreachable; the only remaining panic is the string-id "
                      "counter overflow, which needs a table of 2^31-1 strings (overflow_needs_full_table). The error table (characters "
                      "outside the BMP, lengths beyond 31/32 bits, transient constructors, dangling made-optional references) and "
                      "top-level no-bytes-on-failure are theorems; every generated value runs under catch_unwind with the error variant "
                      "compared to the model (a value the model calls ill-typed would show up as a disagreement).",
        "level_note": V0_NOTE,
    },
    "C09": {
        "families": [{"name": "dedup"}, {"name": "decl"}, {"name": "ty"}],
        "tags": {"dedup": "direct", "rt": "direct", "bytes": "direct", "dec-model": "indirect", "invent": "indirect",
                 "err-kind": "indirect", "reject-more": "indirect", "consume": "indirect"},
        "rule": "every sequence of length <= 5 of (dedup | plain) writes over a 4-string alphabet (9331 sequences): exact bytes expected from the "
                "statement (first occurrence plain, repeats zz(-id), ids from 1 in first-occurrence order), read back; the same sequences as "
                "Vec<Result<DStr,String>> through the model; back-references to ids 1..5 after 0..3 strings; evolved records with removed / "
                "transient names in the header equal and unequal to field values (decl: DedupR, DedupR2, DedupMix, DedupNest). "
                "distinct = sequences with at least one repeat",
        "trusted": MODEL_TRUST,
        "level_text": "Proof: first occurrence = plain string + registration, repeat = zz(-id) of at most five bytes, ids in "
                      "first-occurrence order, unknown id = InvalidStringId, a no-repeat stream is byte-identical to the plain stream, and the "
                      "round trip in any placement over well-formed records — evolution headers (whose removed names are deduplicated "
                      "strings) and chunk regions included — with writer and reader tables equal at corresponding points (the "
                      "invariant carried by rt_full).",
        "level_note": V0_NOTE,
    },
    "C15": {
        "families": [{"name": "sink"}, {"name": "srcops"}, {"name": "varint"}],
        "tags": {"sink-bytes": "direct", "sink-size": "direct", "src-agree": "direct", "src-panic": "direct", "src-model": "indirect",
                 "varint-sinks": "direct", "varint-sources": "direct"},
        "rule": "sink: every catalogue type and generated declaration x 25 values through Vec<u8>, BytesMut, serialize_to_bytes, "
                "serialize_to_byte_vec, a recording user output, an explicit context and SizeCalculator, sequentially in one thread "
                "(failing and succeeding values interleaved); srcops: 4000 random sequences of u8 / bytes / skip / var-int reads with lengths "
                "up to usize::MAX over random buffers through SliceInput, OwnedInput, DeserializationContext and the model",
        "trusted": MODEL_TRUST,
        "level_text": "Proof: for every writer program over write_u8 / write_bytes / push_buffer / pop_buffer the vector sink, the recording sink "
                      "and the size calculator agree (induction on the program); the flat inputs and the context agree operation by operation "
                      "including where they report the end of input; var-ints read the same through the context and the reference source.",
        "level_note": "The encoder is not itself expressed as a WProg; that the real serializer only uses those four operations of its context is by "
                      "reading (SerializationContext exposes nothing else). Trusted: Lean kernel, model, harness.",
    },
    "C10": {
        "families": [{"name": "graph"}],
        "tags": {"graph": "direct", "graph-model": "indirect"},
        "rule": "every rooted digraph with <= 3 nodes and out-degree <= 2 (exhaustive; 4 nodes exhaustive in the thorough tier, sampled in quick), "
                "random graphs with 5-12 nodes, a record embedding a tracked object at offset 0 of another tracked object; codec over "
                "Rc<RefCell<Node>> written against the public API only; expected byte stream (each reachable node once, ids in pre-order), "
                "decoded shape / labels / edge order / Rc::ptr_eq sharing, ids never introduced. distinct = graphs with >= 2 reachable nodes",
        "trusted": ["identity is the address the client passes; the harness codec passes the node allocation (the repository's own test passes the "
                    "address of an Rc handle)", "the reader-side registration needs an object that outlives the context: the harness keeps decoded "
                    "handles in an arena (see C19 / D13)"],
        "level_text": "Proof: over the sequence of offers of any traversal, the reader resolves every token to the object created at the first "
                      "offer of the same identity (offers_roundtrip), two offers resolve to the same object iff they offered the same object "
                      "(sharing_preserved), the new markers are exactly the distinct objects (each_object_once, resolve_nodup), ids are "
                      "first-encounter numbers, an id never introduced is an error. A concrete graph codec on the real API is checked against "
                      "this on exhaustive small graphs.",
        "level_note": "The theorems are about offer sequences, not about a particular graph traversal; termination on cycles follows from 'descend only on new' "
                      "and the bound on new markers. Trusted: Lean kernel, model, harness codec.",
    },
    "C16": {
        "families": [{"name": "frame"}],
        "tags": {"frame": "direct", "frame-alloc": "direct", "frame-model": "indirect"},
        "rule": "37 contents (empty, incompressible, repetitive, 1 B - 64 KiB+1; 256 KiB in the thorough tier) x levels 0-9 x three sinks x three "
                "sources; data after the frame; every truncation of small frames, 56 sampled cuts of large ones; 12 damaged variants per frame "
                "(bit flips, absurd length headers, spliced var-ints) with the largest single allocation request measured",
        "trusted": ["deflate / inflate are parameters of the model; flate2 / miniz_oxide are exercised, not modelled"],
        "partial": "totality, panic-freedom and allocation behaviour of the real inflate on damaged streams are measured, not proved",
        "level_text": "Proof (partial): frame layout, round trip with untouched following data, rejection of every truncation, the 64 KiB cap "
                      "of the reservation and panic-freedom of the frame reader, for any codec with inflate(deflate d) = d (a hypothesis of the "
                      "theorems). The real flate2 supplies the compressed bytes and the inflate answers on every run.",
        "level_note": "Trusted: Lean kernel; the deflate implementation; harness allocator accounting.",
    },
    "C18": {
        "families": [{"name": "threads"}, {"name": "sink"}],
        "tags": {"threads": "direct", "fresh": "direct", "repeat": "direct", "sink-bytes": "direct", "bytes": "indirect"},
        "rule": "16 threads released by a barrier perform the first use of all 65 generated derived types (each in a different order, each call "
                "three times); compared with the same process single-threaded afterwards, with a fresh single-threaded process, and with the "
                "model; the sink family interleaves failing and succeeding calls on one thread",
        "trusted": ["std::sync::Once / lazy_static publication and hashbrown reads after publication (memory model)"],
        "partial": "data races in the runtime are outside the model; one first-use contention per type per process",
        "level_text": "Proof (partial): for every interleaving of any number of threads and any history, every call observes exactly the metadata "
                      "of its declaration (once-cell invariant over all schedules), at most one thread initialises a cell, and a top-level "
                      "call starts from the empty string table. Real threads contend first use on every run.",
        "level_note": "Trusted: Lean kernel; the Rust memory model and Once. The model is a state machine of the cells, not of the hardware.",
    },
    "C19": {
        "families": [{"name": "witness"}, {"name": "raw"}, {"name": "decl"}, {"name": "frame"}, {"name": "miri"}],
        "tags": {"miri": "direct", "witness": "direct", "witness-control": "indirect", "witness-model": "indirect", "invent": "direct",
                 "dec-panic": "direct", "dec-alloc": "direct", "memory": "direct", "frame-alloc": "direct", "abs-diff": "indirect"},
        "rule": "14 safe-Rust programs under #![forbid(unsafe_code)] (11 that must be rejected by the compiler — 9 lifetime escapes, 2 contexts sent to another thread — and 3 well-scoped controls) compiled "
                "against the working tree; the ref-table ones also run through the Lean ownership machine; raw / tampered inputs for every "
                "array, byte-vector and derived target compared with the reference decoder (a decoder that returned uninitialised or foreign "
                "memory shows as a value the reference does not assign); damaged compressed frames must yield exactly what their compressed "
                "part inflates to (no bytes that the decompressor did not produce); a scenario program (miri/main.rs: arrays, byte vectors, "
                "frames, derived codecs on valid and damaged input, the reference table, contended first use) runs under Miri against the "
                "working tree (supporting evidence: reads of uninitialised or freed memory, out-of-bounds accesses, data races)",
        "trusted": ["rustc's borrow checker as the oracle for 'accepted by the safe API'", "the ownership machine abstracts the API to the lifetime "
                    "edge of store_ref; the catalogue is finite", "Miri (family miri) is supporting evidence for the failing-input search, not part of the proof; ASan is not used"],
        "partial": "'all client programs' is explored through a finite catalogue (14 programs); undefined behaviour is not exhibited by the model: "
                   "it is searched for by a scenario program under Miri and by the byte-exact comparison with the reference decoder",
        "level_text": "Proof (partial): with a lifetime bound on store_ref no accepted program ever obtains a reference to a dead object; with the "
                      "declared signature a five-step program does (proved by evaluation) — this holds of the current code and is the recorded "
                      "finding D13, demonstrated by witnesses that compile under #![forbid(unsafe_code)]. Byte arrays handed out by the reference "
                      "decoder are slices of the input of exactly the requested length; arrays are built from exactly N decoded elements. The unsafe "
                      "decoding paths, the frame reader and the contexts' thread-confinement are exercised on every run (raw / decl / frame / miri "
                      "families, Send witnesses).",
        "level_note": "Known finding D13 (State::store_ref erases the borrow; repair needs an API change) is listed in known_findings.txt by witness "
                      "name; any other witness that starts compiling is a new violation.",
    },
    "C11": {
        "families": [{"name": "varint"}],
        "tags": {
            "varint-sinks": "direct", "varint-bytes": "direct", "varint-rt": "direct", "varint-sources": "direct",
            "varint-model": "direct", "varint-model-bv": "indirect",
        },
        "allow_bv_decide": True,
        "rule": "u32/i32 values: all width boundaries +-2, extremes, bit-length-stratified random values, through "
                "{Vec<u8>, BytesMut, SizeCalculator} x {SliceInput, OwnedInput, DeserializationContext} and through the "
                "model's Nat ladder and BitVec transcription; random (also over-long / truncated) byte strings through all "
                "readers; thorough adds the exhaustive 2^32 sweep on the implementation. distinct = distinct values.",
        "trusted": ["bv_decide: Lean.ofReduceBool / the compiled LRAT checker (only in this property's bit-level theorems)"],
        "assumptions": ["64-bit target"],
        "level_text": "Proof: round trip, zig-zag bijection, minimal length, continuation bits proved for all 2^32 values on a bit-exact "
                      "BitVec transcription of write_var_*/read_var_* (bv_decide), and the round trip of the Nat-level ladder used by the "
                      "codec layer through the operation-tree reader for any following data (omega); the bit-level writers equal the ladder "
                      "byte for byte for all 2^32 values (layers_agree_*); both layers and all nine real "
                      "sink/source pairs are run against each other on every check (exhaustively over 2^32 in the thorough tier).",
        "level_note": "Trusted: Lean kernel; bv_decide's native axioms (Lean.ofReduceBool) in the bit-level theorems only; the transcription "
                      "of the Rust shifts/masks is by hand and tied to the code by the varint family; the BitVec and Nat writers are proved equal byte for byte "
                      "(layers_agree_u32 / layers_agree_i32) and the two readers equal on every byte string (layers_agree_read).",
        "technique": "Lean 4 proof (bv_decide + omega) over a bit-exact model, differential check vs the real sinks/sources",
    },
}
