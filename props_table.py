"""
Per property: which families run, and how each failure tag is charged.

tags: tag -> "direct" | "indirect"
  direct    the failing case is itself an input on which the property fails on the implementation
            (oracle failures are always direct; a correspondence failure is direct when the model is
            the property's reference, e.g. byte-exact format conformance)
  indirect  model and implementation disagree, but the case does not by itself violate the
            property: reported as VIOLATION ... no-failing-input-found unless an oracle also fails
"""

MODEL_TRUST = [
    "UTF-8 validity, hash iteration order, chrono/BigDecimal library conversions: outside the model (DESIGN section 7)",
]

PROPS = {
    "C11": {
        "families": [{"name": "varint"}],
        "tags": {
            "varint-sinks": "direct", "varint-bytes": "direct", "varint-rt": "direct", "varint-sources": "direct",
            "varint-model": "direct", "varint-model-bv": "indirect",
        },
        "allow_bv_decide": True,
        "rule": "u32/i32 values: all width boundaries +-2, extremes, bit-length-stratified random values, through "
                "{Vec<u8>, BytesMut, SizeCalculator} x {SliceInput, OwnedInput, DeserializationContext} and through the "
                "model's Nat ladder and BitVec transcription; random (also over-long / truncated) byte strings through all "
                "readers; thorough adds the exhaustive 2^32 sweep on the implementation. distinct = distinct values.",
        "trusted": ["bv_decide: Lean.ofReduceBool / the compiled LRAT checker (only in this property's bit-level theorems)"],
        "assumptions": ["64-bit target"],
        "level_text": "Proof: round trip, zig-zag bijection, minimal length, continuation bits proved for all 2^32 values on a bit-exact "
                      "BitVec transcription of write_var_*/read_var_* (bv_decide), and the round trip of the Nat-level ladder used by the "
                      "codec layer through the operation-tree reader for any following data (omega); both layers and all nine real "
                      "sink/source pairs are run against each other on every check (exhaustively over 2^32 in the thorough tier).",
        "level_note": "Trusted: Lean kernel; bv_decide's native axioms (Lean.ofReduceBool) in the bit-level theorems only; the transcription "
                      "of the Rust shifts/masks is by hand and tied to the code by the varint family; the BitVec and Nat layers are tied to "
                      "each other by the same run, not yet by a theorem.",
        "technique": "Lean 4 proof (bv_decide + omega) over a bit-exact model, differential check vs the real sinks/sources",
    },
}
