#!/usr/bin/env python3
"""Applies every seeded change to /repo in turn, runs the quick check of the property it was written against (and of the
properties listed in extra), reverts, and records which checks fire. Usage: tools_seeded_matrix.py [id ...]"""
import json, os, subprocess, sys, time
V = "/verif"
ids = sys.argv[1:] or sorted(os.listdir(os.path.join(V, "seeded")))
ids = [i for i in ids if os.path.isdir(os.path.join(V, "seeded", i))]
results = {}
resfile = os.path.join(V, "seeded", "RESULTS.json")
if os.path.exists(resfile):
    results = json.load(open(resfile))
for sid in ids:
    prop = sid.split("-")[0]
    patch = os.path.join(V, "seeded", sid, "patch.diff")
    if subprocess.call(["git", "-C", "/repo", "apply", patch]) != 0:
        results[sid] = {"error": "patch does not apply"}
        continue
    try:
        t0 = time.time()
        p = subprocess.run(["./check", prop], cwd=V, capture_output=True, text=True)
        lines = [l for l in p.stdout.splitlines() if l.startswith("VIOLATION") or l.startswith("KNOWN-FINDING")]
        results[sid] = {"property": prop, "check_exit": p.returncode, "violations": [l[:300] for l in lines if l.startswith("VIOLATION")][:6],
                        "n_violation_lines": len([l for l in lines if l.startswith("VIOLATION")]),
                        "summary": p.stdout.strip().splitlines()[-1][:300] if p.stdout.strip() else "", "wall_s": round(time.time() - t0, 1)}
        print(sid, results[sid]["check_exit"], results[sid]["n_violation_lines"], results[sid]["summary"], flush=True)
    finally:
        subprocess.call(["git", "-C", "/repo", "checkout", "--", "."])
        subprocess.call(["git", "-C", "/repo", "clean", "-fdq", "desert_core/tests", "desert_macro/tests/seeded_demo.rs"])
    json.dump(results, open(resfile, "w"), indent=1)
# leave the evidence of the unchanged tree in place: re-run nothing here; the caller restores evidence with git checkout
