"""
Catalogue of lifetime-escape witnesses for C19. Each is a complete safe-Rust program
(#![forbid(unsafe_code)]) against desert's public API.

expect = "reject": the property requires rustc to refuse it (a borrow error). If it compiles, the safe API
                   lets a client keep or obtain a reference whose lifetime has ended -> violation.
expect = "accept": a well-scoped control program that must keep compiling (guards against a harness that
                   "rejects" everything, e.g. because the crate does not build at all).
own    = the same program as an action list of the Lean ownership machine (Desert/Own.lean), or None when the
         program is about other borrows (input buffers) that the machine does not model.
"""

HEADER = """#![forbid(unsafe_code)]
#![allow(unused)]
use desert::{BinaryInput, BinaryOutput, DeserializationContext, SerializationContext, SliceInput, OwnedInput};
"""

WITNESSES = [
    dict(name="reftable_drop_then_get", expect="reject", own="enter alloc (store 0) leave (get 1)",
         what="State::store_ref(&impl Any) erases the borrow: an object stored in an inner scope is handed back by try_read_ref after it was dropped",
         body="""
fn main() {
    let input = [1u8];
    let mut ctx = DeserializationContext::new(&input);
    {
        let boxed: Box<String> = Box::new("short lived".to_string());
        ctx.state_mut().store_ref(&boxed);
    } // boxed is dropped here
    let filler: Vec<Box<String>> = (0..4).map(|i| Box::new(format!("filler {i}"))).collect();
    let r = ctx.try_read_ref().unwrap().unwrap();
    println!("{:?} {}", r.downcast_ref::<Box<String>>(), filler.len());
}
"""),
    dict(name="reftable_temporary", expect="reject", own="enter alloc (store 0) leave (get 1)",
         what="store_ref of a temporary: the entry dangles as soon as the statement ends",
         body="""
fn main() {
    let input = [1u8];
    let mut ctx = DeserializationContext::new(&input);
    ctx.state_mut().store_ref(&String::from("temporary"));
    let r = ctx.try_read_ref().unwrap().unwrap();
    println!("{:?}", r.downcast_ref::<String>());
}
"""),
    dict(name="reftable_writer_side", expect="reject", own="enter alloc (store 0) leave (get 1)",
         what="the writer's table has the same hole: an identity stored for a dropped object can be matched by a new object at the same address (no dangling read through the public API, but the entry outlives the object)",
         body="""
fn main() {
    let mut ctx = SerializationContext::new(Vec::<u8>::new());
    {
        let a = Box::new(1u64);
        let _ = ctx.store_ref_or_object(&*a);
    }
    let b = Box::new(2u64);
    let fresh = ctx.store_ref_or_object(&*b).unwrap();
    println!("{}", fresh);
}
"""),
    dict(name="control_well_scoped_reftable", expect="accept", own="alloc (store 0) enter alloc leave (get 1)",
         what="control: the stored object outlives the context",
         body="""
fn main() {
    let boxed: Box<String> = Box::new("long lived".to_string());
    let input = [1u8];
    let mut ctx = DeserializationContext::new(&input);
    ctx.state_mut().store_ref(&boxed);
    let r = ctx.try_read_ref().unwrap().unwrap();
    println!("{:?}", r.downcast_ref::<Box<String>>());
}
"""),
    dict(name="ref_outlives_context", expect="reject", own=None,
         what="the reference returned by try_read_ref must not outlive the context",
         body="""
fn main() {
    let boxed: Box<String> = Box::new("x".to_string());
    let input = [1u8];
    let r = {
        let mut ctx = DeserializationContext::new(&input);
        ctx.state_mut().store_ref(&boxed);
        ctx.try_read_ref().unwrap().unwrap()
    };
    println!("{:?}", r.downcast_ref::<Box<String>>());
}
"""),
    dict(name="ref_held_across_mutation", expect="reject", own=None,
         what="a reference obtained from the table must not be held across a mutation of the table",
         body="""
fn main() {
    let a: Box<u32> = Box::new(1);
    let b: Box<u32> = Box::new(2);
    let input = [1u8];
    let mut ctx = DeserializationContext::new(&input);
    ctx.state_mut().store_ref(&a);
    let r = ctx.try_read_ref().unwrap().unwrap();
    ctx.state_mut().store_ref(&b);
    println!("{:?}", r.downcast_ref::<Box<u32>>());
}
"""),
    dict(name="context_outlives_input", expect="reject", own=None,
         what="the context borrows its input",
         body="""
fn main() {
    let mut ctx = {
        let input = vec![1u8, 2, 3];
        DeserializationContext::new(&input)
    };
    println!("{:?}", ctx.read_u8().ok());
}
"""),
    dict(name="slice_input_outlives_data", expect="reject", own=None,
         what="SliceInput borrows its data",
         body="""
fn main() {
    let mut s = {
        let data = vec![1u8, 2, 3];
        SliceInput::new(&data)
    };
    println!("{:?}", s.read_u8().ok());
}
"""),
    dict(name="read_bytes_escape_ctx", expect="reject", own=None,
         what="the slice returned by read_bytes borrows the context mutably: it cannot be used after another read",
         body="""
fn main() {
    let input = [1u8, 2, 3, 4];
    let mut ctx = DeserializationContext::new(&input);
    let a = ctx.read_bytes(2).unwrap();
    let b = ctx.read_u8().unwrap();
    println!("{:?} {}", a, b);
}
"""),
    dict(name="read_bytes_escape_owned", expect="reject", own=None,
         what="OwnedInput::read_bytes must not outlive the input",
         body="""
fn main() {
    let a: &[u8] = {
        let mut o = OwnedInput::new(vec![1u8, 2, 3, 4]);
        o.read_bytes(2).unwrap()
    };
    println!("{:?}", a);
}
"""),
    dict(name="string_table_escape", expect="reject", own=None,
         what="a &str from the string table must not be held across a mutation of the state",
         body="""
fn main() {
    let input = [1u8];
    let mut ctx = DeserializationContext::new(&input);
    ctx.state_mut().store_string("a".to_string());
    let s = ctx.state().get_string_by_id(desert::StringId(1)).unwrap();
    ctx.state_mut().store_string("b".to_string());
    println!("{}", s);
}
"""),
    dict(name="control_decode_array", expect="accept", own=None,
         what="control: decoding arrays / byte vectors from a borrowed buffer",
         body="""
fn main() {
    let bytes = desert::serialize_to_byte_vec(&([1u8, 2, 3], vec![4u8, 5], [7u32; 2])).unwrap();
    let v: ([u8; 3], Vec<u8>, [u32; 2]) = desert::deserialize(&bytes).unwrap();
    println!("{:?}", v);
}
"""),
    dict(name="context_sent_to_thread", expect="reject", own=None, codes="E0277",
         what="the per-stream object table holds raw addresses of objects that may be confined to one thread (Rc, RefCell): "
              "a deserialization context must not be Send, or safe code resolves a reference to such an object on another thread",
         body="""
fn main() {
    let input = [1u8];
    let shared = std::rc::Rc::new(std::cell::RefCell::new(String::from("owned by the main thread")));
    let mut ctx = DeserializationContext::new(&input);
    ctx.state_mut().store_ref(&shared);
    std::thread::scope(|s| {
        s.spawn(move || {
            let r = ctx.try_read_ref().unwrap().unwrap();
            if let Some(rc) = r.downcast_ref::<std::rc::Rc<std::cell::RefCell<String>>>() {
                let other = rc.clone();
                other.borrow_mut().push_str(" touched");
            }
        });
    });
    println!("{}", shared.borrow());
}
"""),
    dict(name="serialization_context_sent_to_thread", expect="reject", own=None, codes="E0277",
         what="the same for the writer's context and its identity table",
         body="""
fn main() {
    let shared = std::rc::Rc::new(5u32);
    let mut ctx = SerializationContext::new(Vec::<u8>::new());
    let _ = ctx.store_ref_or_object(&shared);
    std::thread::scope(|s| {
        s.spawn(move || {
            let _ = ctx.store_ref_or_object(&7u32);
        });
    });
}
"""),
]
