#!/usr/bin/env python3
"""False-alarm controls: applies every behaviour-preserving rewrite under /verif/controls/<id>/patch.diff to /repo in turn, runs the
quick check of EVERY property, reverts, and records the outcome (no check may report a violation).
Usage: [CONTROL_PROPS=C01,C04] tools_controls.py [id ...]   (never used by a registered check)"""
import json, os, subprocess, sys, time
V = "/verif"
ids = sys.argv[1:] or sorted(d for d in os.listdir(os.path.join(V, "controls")) if os.path.isdir(os.path.join(V, "controls", d)))
props = os.environ["CONTROL_PROPS"].split(",") if os.environ.get("CONTROL_PROPS") else ["C%02d" % i for i in range(1, 20)]
resfile = os.path.join(V, "controls", "RESULTS.json")
results = json.load(open(resfile)) if os.path.exists(resfile) else {}
for cid in ids:
    patch = os.path.join(V, "controls", cid, "patch.diff")
    if subprocess.call(["git", "-C", "/repo", "apply", patch]) != 0:
        results[cid] = {"error": "patch does not apply"}
        continue
    out = {}
    try:
        t = subprocess.run(["cargo", "test", "--workspace", "--no-fail-fast", "--offline"], cwd="/repo", capture_output=True, text=True,
                           env=dict(os.environ, CARGO_NET_OFFLINE="true"))
        out["suite_exit"] = t.returncode
        for p in props:
            r = subprocess.run(["./check", p], cwd=V, capture_output=True, text=True)
            viol = [l[:300] for l in r.stdout.splitlines() if l.startswith("VIOLATION")]
            out[p] = {"exit": r.returncode, "violations": viol[:4]}
            print(cid, p, r.returncode, len(viol), flush=True)
    finally:
        subprocess.call(["git", "-C", "/repo", "checkout", "--", "."])
    results[cid] = out
    json.dump(results, open(resfile, "w"), indent=1)
